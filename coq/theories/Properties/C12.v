(* C12 - Boolean connectives group as written: parentheses, precedence, case, spacing.
   Statements only; each closed by [exact] and followed by Print Assumptions.

   Objects (see Lang/):
     expr / prim        every sentence of the boolean skeleton of ZitiQl.g4's boolExpr: a chain of
                        primaries (atom | parenthesised skeleton) joined by and/or, optionally ending
                        in  not <skeleton>  - no bound on size or nesting;
     sem e rho          its meaning: the disjunction of the conjunctions between the top-level `or`s;
     spells_filter e ts every token spelling of e (any positive amount of WS where the grammar demands
                        WS+, any amount where it allows WS-star);  spells_toks ts cs: every character
                        spelling of the tokens (any letter case of and/or/not, any of the four WS characters);
     lex_skeleton       model of the ANTLR lexer loop (longest match, first rule wins) on the skeleton rules;
     compile fixed_prec model of generated parser boolExpr(_p) (right operands at precedence 6 / 5, as
                        repaired) + listener stack machine + typing;  eval: EvalBool of And/Or/Not;
     word_ops           the four word operators whose token rule absorbs an optional `not` and the white
                        space behind it (in / between / contains / icontains); spells_wordop o neg cs: every
                        spelling of the operator token (any letter case; after `not` any positive number of
                        any WS characters - for `in` exactly one, as the rule IN demands);  wordop_re o: its
                        token rule as transcribed in LexerFull.full_table;  op_negated: the listener's test
                        strings.Contains(strings.ToLower(text), "not");  norm_tok: a token up to spelling;
     renameE f e        e with every atom name n replaced by f n (f need not be injective: atoms may REPEAT);
     wrap_many e e'     e' is e with any number of redundant pairs of parentheses added (closure of wrapE true);
     select rows holds  the rows of a table a predicate selects; val r n: the value of atom n on row r - an
                        arbitrary function (in the check: what the code answers for the atom alone on that row,
                        whatever it does with nil / unset fields);
     or_grouping l e    e is the chain  p1 or ... or pk  of the clauses l = [p1..pk] written with any of its consecutive
                        sub-chains in parentheses, to any depth (and_grouping: the same for `and`); the clauses are
                        arbitrary primaries - in the check real comparisons of one operator shape on different symbols. *)
From Coq Require Import List NArith Bool Permutation.
From Storage Require Import Base.Bytes Lang.Tokens Lang.Lexer Lang.BoolGrammar Lang.Listener Lang.BoolSurface
  Lang.BoolGrammarProofs Lang.LexerProofs Lang.C12Proofs Lang.Regex Lang.LexerFull Lang.WordOps Lang.WordOpsProofs Lang.WordOpsLexProofs
  Lang.BoolRows Lang.C12W3Proofs Lang.ChainGroupings Lang.C12W5Proofs Lang.C12W7Proofs.
Import ListNotations.

(* every skeleton, in every token spelling, is accepted and evaluates to its or-of-ands meaning:
   `and` binds tighter than `or` wherever and in whatever order they are mixed *)
Theorem precedence_and_over_or : forall e ts, spells_filter e ts ->
  exists b, compile fixed_prec ts = Some b /\ forall rho, eval b rho = sem e rho.
Proof. exact precedence_lemma. Qed.
Print Assumptions precedence_and_over_or.

(* the meaning used above is literally "or of ands" *)
Theorem surface_semantics_is_or_of_ands : forall e rho, sem e rho = sem_dnf e rho.
Proof. exact sem_is_or_of_ands. Qed.
Print Assumptions surface_semantics_is_or_of_ands.

(* the two orders, spelled out:  p and q or r  =  (p and q) or r ;  p or q and r  =  p or (q and r) *)
Theorem precedence_both_orders : forall p q r ts1 ts2 b1 b2 rho,
  spells_filter (EAnd p (EOr q (ELast r))) ts1 -> spells_filter (EOr p (EAnd q (ELast r))) ts2 ->
  compile fixed_prec ts1 = Some b1 -> compile fixed_prec ts2 = Some b2 ->
  eval b1 rho = (semP p rho && semP q rho) || semP r rho /\
  eval b2 rho = semP p rho || (semP q rho && semP r rho).
Proof. exact mixed_lemma. Qed.
Print Assumptions precedence_both_orders.

(* parentheses group:  (e1) and (e2)  /  (e1) or (e2)  combine the values of e1 and e2 *)
Theorem parens_group : forall e1 e2 ts1 ts2 b1 b2 rho,
  spells_filter (EAnd (XParen e1) (ELast (XParen e2))) ts1 ->
  spells_filter (EOr (XParen e1) (ELast (XParen e2))) ts2 ->
  compile fixed_prec ts1 = Some b1 -> compile fixed_prec ts2 = Some b2 ->
  eval b1 rho = sem e1 rho && sem e2 rho /\ eval b2 rho = sem e1 rho || sem e2 rho.
Proof. exact parens_lemma. Qed.
Print Assumptions parens_group.

(* chains of one connective are the conjunction / disjunction of their operands ... *)
Theorem chain_assoc : forall ps last ts1 ts2 b1 b2 rho,
  spells_filter (and_run ps last ELast) ts1 -> spells_filter (or_run ps last) ts2 ->
  compile fixed_prec ts1 = Some b1 -> compile fixed_prec ts2 = Some b2 ->
  eval b1 rho = forallb (fun p => semP p rho) (ps ++ [last]) /\
  eval b2 rho = existsb (fun p => semP p rho) (ps ++ [last]).
Proof. exact chain_lemma. Qed.
Print Assumptions chain_assoc.

(* ... however they are cut into parenthesised groups *)
Theorem chain_regroup : forall ps1 l1 ps2 l2 ts1 ts2 b1 b2 rho,
  spells_filter (EAnd (XParen (and_run ps1 l1 ELast)) (ELast (XParen (and_run ps2 l2 ELast)))) ts1 ->
  spells_filter (EOr (XParen (or_run ps1 l1)) (ELast (XParen (or_run ps2 l2)))) ts2 ->
  compile fixed_prec ts1 = Some b1 -> compile fixed_prec ts2 = Some b2 ->
  eval b1 rho = forallb (fun p => semP p rho) ((ps1 ++ [l1]) ++ (ps2 ++ [l2])) /\
  eval b2 rho = existsb (fun p => semP p rho) ((ps1 ++ [l1]) ++ (ps2 ++ [l2])).
Proof. exact regroup_lemma. Qed.
Print Assumptions chain_regroup.

(* not (P) is the negation of P - alone, and as the last operand of an `and` / `or` *)
Theorem not_paren_negates : forall e p ts1 ts2 ts3 b1 b2 b3 rho,
  spells_filter (ENot (ELast (XParen e))) ts1 ->
  spells_filter (EAnd p (ENot (ELast (XParen e)))) ts2 ->
  spells_filter (EOr p (ENot (ELast (XParen e)))) ts3 ->
  compile fixed_prec ts1 = Some b1 -> compile fixed_prec ts2 = Some b2 -> compile fixed_prec ts3 = Some b3 ->
  eval b1 rho = negb (sem e rho) /\
  eval b2 rho = semP p rho && negb (sem e rho) /\
  eval b3 rho = semP p rho || negb (sem e rho).
Proof. exact not_lemma. Qed.
Print Assumptions not_paren_negates.

(* what the grammar does with a `not` that is NOT followed by a parenthesised operand only: it has
   the lowest precedence and negates everything up to the end of the enclosing group *)
Theorem not_scopes_to_the_end : forall e ts b rho,
  spells_filter (ENot e) ts -> compile fixed_prec ts = Some b -> eval b rho = negb (sem e rho).
Proof. exact not_scope_lemma. Qed.
Print Assumptions not_scopes_to_the_end.

(* one more pair of parentheses around a primary, the whole filter / group / operand of not, the
   rest of a chain after an `or`, or a complete run of `and`s never changes the result *)
Theorem redundant_parens_irrelevant : forall e e' ts ts' b b' rho,
  wrapE true e e' -> spells_filter e ts -> spells_filter e' ts' ->
  compile fixed_prec ts = Some b -> compile fixed_prec ts' = Some b' -> eval b rho = eval b' rho.
Proof. exact redundant_parens_lemma. Qed.
Print Assumptions redundant_parens_irrelevant.

(* adding white space where white space is allowed changes neither the parse tree nor the query *)
Theorem whitespace_irrelevant : forall e ts ts',
  spells_filter e ts -> spells_filter e ts' ->
  parse_start fixed_prec ts = parse_start fixed_prec ts' /\ compile fixed_prec ts = compile fixed_prec ts'.
Proof. exact whitespace_lemma. Qed.
Print Assumptions whitespace_irrelevant.

(* every letter case of and / or / not and every white-space character lexes to the same tokens,
   without lexer errors, provided words do not touch *)
Theorem keyword_case_insensitive : forall ts cs, spells_toks ts cs -> separated ts = true ->
  toks_of (lex_skeleton cs) = ts /\ drops_of (lex_skeleton cs) = [].
Proof. exact case_lemma. Qed.
Print Assumptions keyword_case_insensitive.

(* end to end, from characters: every character spelling of every skeleton denotes its meaning *)
Theorem filter_text_denotes : forall e ts cs, spells_filter e ts -> spells_toks ts cs ->
  drops_of (lex_skeleton cs) = [] /\
  exists b, compile fixed_prec (toks_of (lex_skeleton cs)) = Some b /\ forall rho, eval b rho = sem e rho.
Proof. exact text_lemma. Qed.
Print Assumptions filter_text_denotes.

(* word operators are case-insensitive and the white space inside `not between` / `not contains` /
   `not icontains` / `not in` is free (as far as the token rule allows it): every spelling is a
   sentence of the operator's token rule, and the listener reads it as negated exactly when the
   spelling has the `not` - so all spellings of one operator are one and the same token to it *)
Theorem word_operator_spelling : forall o neg cs, In o word_ops -> spells_wordop o neg cs ->
  In (wo_kind o, wordop_re o) full_table /\ matches (wordop_re o) cs = true /\
  op_negated cs = neg /\ norm_tok (wo_kind o) cs = Some (wo_kind o, [], neg).
Proof. exact wordop_spelling_lemma. Qed.
Print Assumptions word_operator_spelling.

(* keyword_case_insensitive for the word-operator tokens, on the COMPLETE token rule table: wherever a
   spelling of an operator - any letter case, any white space the rule allows after `not` - is followed
   by white space or the end of the input, the lexer loop (longest match over all 36 rules, first rule
   wins) emits ONE token of the operator's kind whose text is the whole spelling, and goes on with what
   follows; by word_operator_spelling the listener reads that text as negated iff it has the `not` *)
Theorem word_operator_token : forall o neg cs rest, In o word_ops -> spells_wordop o neg cs -> ends_word rest ->
  lex_full (cs ++ rest) = Tok (wo_kind o) cs :: lex_full rest.
Proof. exact wordop_lex_lemma. Qed.
Print Assumptions word_operator_token.

Theorem word_operator_respelling : forall o neg cs cs', In o word_ops ->
  spells_wordop o neg cs -> spells_wordop o neg cs' ->
  norm_tok (wo_kind o) cs = norm_tok (wo_kind o) cs' /\ op_negated cs = op_negated cs'.
Proof. exact wordop_respelling_lemma. Qed.
Print Assumptions word_operator_respelling.

(* every letter case of every other keyword (and or not true false null anyOf allOf count isEmpty asc
   desc sort by skip limit none where from) has the same normal form: the kind and the lower-case word *)
Theorem keyword_normal_form : forall k letters cs, kind_in k keyword_kinds = true ->
  forallb is_lower letters = true -> spells_word letters cs -> norm_tok k cs = Some (k, letters, false).
Proof. exact keyword_norm_lemma. Qed.
Print Assumptions keyword_normal_form.

(* ---- third strengthening: repeated atoms, long re-spellings, rows with nil fields ---- *)

(* atoms may repeat: the image of a skeleton under ANY renaming of its atoms - the same atom text at several
   leaves, identical sub-expressions as siblings, operands that read alike - is accepted in every spelling and
   has the value of the original skeleton under the assignment pulled back along the renaming; nothing is merged,
   dropped or re-ordered because two leaves or two operands carry the same text *)
Theorem atoms_may_repeat : forall f e ts, spells_filter (renameE f e) ts ->
  exists b, compile fixed_prec ts = Some b /\ forall rho, eval b rho = sem e (fun n => rho (f n)).
Proof. exact repeated_atoms_lemma. Qed.
Print Assumptions atoms_may_repeat.

(* the only sound "X op X is X": both operands are the same EXPRESSION (not merely the same reading) *)
Theorem same_operand_idempotent : forall e ts1 ts2 b1 b2 rho,
  spells_filter (EAnd (XParen e) (ELast (XParen e))) ts1 ->
  spells_filter (EOr (XParen e) (ELast (XParen e))) ts2 ->
  compile fixed_prec ts1 = Some b1 -> compile fixed_prec ts2 = Some b2 ->
  eval b1 rho = sem e rho /\ eval b2 rho = sem e rho.
Proof. exact same_operand_lemma. Qed.
Print Assumptions same_operand_idempotent.

(* any number of redundant pairs of parentheses (every atom wrapped, the whole filter wrapped several times, ...)
   changes no result *)
Theorem redundant_parens_many : forall e e' ts ts' b b' rho,
  wrap_many e e' -> spells_filter e ts -> spells_filter e' ts' ->
  compile fixed_prec ts = Some b -> compile fixed_prec ts' = Some b' -> eval b rho = eval b' rho.
Proof. exact redundant_parens_many_lemma. Qed.
Print Assumptions redundant_parens_many.

(* a filter and a re-spelling of it (any amounts of white space, any number of redundant parentheses - the token
   list may be arbitrarily longer) are BOTH accepted, with equal results: acceptance does not depend on how many
   tokens the spelling has *)
Theorem respelling_accepted : forall e e' ts ts',
  wrap_many e e' -> spells_filter e ts -> spells_filter e' ts' ->
  exists b b', compile fixed_prec ts = Some b /\ compile fixed_prec ts' = Some b' /\
               forall rho, eval b rho = eval b' rho.
Proof. exact respelling_accepted_lemma. Qed.
Print Assumptions respelling_accepted.

(* on a table: the rows a filter selects are the rows on which its surface semantics holds under the row's own
   valuation of the atoms - whatever that valuation is *)
Theorem selection_is_rowwise : forall (Row : Type) (rows : list Row) (val : Row -> str -> bool) e ts,
  spells_filter e ts ->
  exists b, compile fixed_prec ts = Some b /\
            select rows (fun r => eval b (val r)) = select rows (fun r => sem e (val r)).
Proof. exact selection_lemma. Qed.
Print Assumptions selection_is_rowwise.

(* `not e` / `not (e)` is the exact complement of e on every row: true precisely where e evaluates to false,
   including the rows where e is false because a compared field is nil *)
Theorem not_selects_complement : forall (Row : Type) (rows : list Row) (val : Row -> str -> bool) e ts tn tp b bn bp,
  spells_filter e ts -> spells_filter (ENot e) tn -> spells_filter (ENot (ELast (XParen e))) tp ->
  compile fixed_prec ts = Some b -> compile fixed_prec tn = Some bn -> compile fixed_prec tp = Some bp ->
  (forall r, eval bn (val r) = negb (eval b (val r)) /\ eval bp (val r) = negb (eval b (val r))) /\
  select rows (fun r => eval bn (val r)) = select rows (fun r => negb (eval b (val r))) /\
  select rows (fun r => eval bp (val r)) = select rows (fun r => negb (eval b (val r))).
Proof. exact not_complement_lemma. Qed.
Print Assumptions not_selects_complement.

(* every row is selected by exactly one of  e  and  not (e) *)
Theorem not_partitions_rows : forall (Row : Type) (val : Row -> str -> bool) e ts tp b bp r,
  spells_filter e ts -> spells_filter (ENot (ELast (XParen e))) tp ->
  compile fixed_prec ts = Some b -> compile fixed_prec tp = Some bp ->
  xorb (eval b (val r)) (eval bp (val r)) = true.
Proof. exact not_partition_lemma. Qed.
Print Assumptions not_partitions_rows.

(* a chain of one connective, in EVERY grouping of its clauses, evaluates to the disjunction (conjunction) of the values
   the clauses have on their own, and selects the rows on which some clause (every clause) holds - whatever the clauses
   are: there is no way of writing an or-chain in which a clause answers for anything but itself *)
Theorem chain_in_any_grouping : forall (Row : Type) (rows : list Row) (val : Row -> str -> bool) l e ts,
  spells_filter e ts ->
  exists b, compile fixed_prec ts = Some b /\
    (or_grouping l e ->
       (forall rho, eval b rho = existsb (fun p => semP p rho) l) /\
       select rows (fun r => eval b (val r)) = select rows (fun r => existsb (fun p => semP p (val r)) l)) /\
    (and_grouping l e ->
       (forall rho, eval b rho = forallb (fun p => semP p rho) l) /\
       select rows (fun r => eval b (val r)) = select rows (fun r => forallb (fun p => semP p (val r)) l)).
Proof. exact chain_grouping_lemma. Qed.
Print Assumptions chain_in_any_grouping.

(* two groupings of the same clauses evaluate alike *)
Theorem chain_regrouping_irrelevant : forall l e1 e2 ts1 ts2 b1 b2 rho,
  (or_grouping l e1 /\ or_grouping l e2) \/ (and_grouping l e1 /\ and_grouping l e2) ->
  spells_filter e1 ts1 -> spells_filter e2 ts2 ->
  compile fixed_prec ts1 = Some b1 -> compile fixed_prec ts2 = Some b2 ->
  eval b1 rho = eval b2 rho.
Proof. exact regrouping_lemma. Qed.
Print Assumptions chain_regrouping_irrelevant.

(* a row on which one clause of an or-chain holds is selected; a row on which one clause of an and-chain fails is not *)
Theorem one_clause_decides : forall (Row : Type) (val : Row -> str -> bool) l e ts b p r,
  spells_filter e ts -> compile fixed_prec ts = Some b -> In p l ->
  (or_grouping l e -> semP p (val r) = true -> eval b (val r) = true) /\
  (and_grouping l e -> semP p (val r) = false -> eval b (val r) = false).
Proof. exact one_clause_lemma. Qed.
Print Assumptions one_clause_decides.

(* ---- after seeded changes C12-w7-2 / C12-w7-3: the operands of a chain in any ORDER ------------------------------------
   The clauses of an or-chain (and-chain) written in any order, each order in any grouping: BOTH filters are accepted
   (compile returns a tree - acceptance does not depend on where an operand stands) and they have the same truth
   function; on every table they select the same rows.  The operands are arbitrary primaries (in the check: atoms
   that contain sub-queries nested 2-3 levels, and parenthesised skeletons over them). *)
Theorem chain_in_any_order : forall (Row : Type) (rows : list Row) (val : Row -> str -> bool) l1 l2 e1 e2 ts1 ts2,
  Permutation l1 l2 ->
  (or_grouping l1 e1 /\ or_grouping l2 e2) \/ (and_grouping l1 e1 /\ and_grouping l2 e2) ->
  spells_filter e1 ts1 -> spells_filter e2 ts2 ->
  exists b1 b2, compile fixed_prec ts1 = Some b1 /\ compile fixed_prec ts2 = Some b2 /\
    (forall rho, eval b1 rho = eval b2 rho) /\
    select rows (fun r => eval b1 (val r)) = select rows (fun r => eval b2 (val r)).
Proof. exact any_order_lemma. Qed.
Print Assumptions chain_in_any_order.

(* `p and q` / `q and p`, `p or q` / `q or p` for arbitrary primaries p, q (atoms or parenthesised skeletons): all four
   are accepted, the two orders agree, and the value is the conjunction / disjunction of the operands' own values *)
Theorem operands_commute : forall p q ts1 ts2 ts3 ts4,
  spells_filter (EAnd p (ELast q)) ts1 -> spells_filter (EAnd q (ELast p)) ts2 ->
  spells_filter (EOr p (ELast q)) ts3 -> spells_filter (EOr q (ELast p)) ts4 ->
  exists b1 b2 b3 b4, compile fixed_prec ts1 = Some b1 /\ compile fixed_prec ts2 = Some b2 /\
    compile fixed_prec ts3 = Some b3 /\ compile fixed_prec ts4 = Some b4 /\
    forall rho, eval b1 rho = eval b2 rho /\ eval b3 rho = eval b4 rho /\
                eval b1 rho = semP p rho && semP q rho /\ eval b3 rho = semP p rho || semP q rho.
Proof. exact commute_lemma. Qed.
Print Assumptions operands_commute.
