(* C12 - Boolean connectives group as written: parentheses, precedence, case, spacing.
   Statements only; each closed by [exact] and followed by Print Assumptions.

   Objects (see Lang/):
     expr / prim        every sentence of the boolean skeleton of ZitiQl.g4's boolExpr: a chain of
                        primaries (atom | parenthesised skeleton) joined by and/or, optionally ending
                        in  not <skeleton>  - no bound on size or nesting;
     sem e rho          its meaning: the disjunction of the conjunctions between the top-level `or`s;
     spells_filter e ts every token spelling of e (any positive amount of WS where the grammar demands
                        WS+, any amount where it allows WS-star);  spells_toks ts cs: every character
                        spelling of the tokens (any letter case of and/or/not, any of the four WS characters);
     lex_skeleton       model of the ANTLR lexer loop (longest match, first rule wins) on the skeleton rules;
     compile fixed_prec model of generated parser boolExpr(_p) (right operands at precedence 6 / 5, as
                        repaired) + listener stack machine + typing;  eval: EvalBool of And/Or/Not. *)
From Coq Require Import List NArith Bool.
From Storage Require Import Base.Bytes Lang.Tokens Lang.Lexer Lang.BoolGrammar Lang.Listener Lang.BoolSurface
  Lang.BoolGrammarProofs Lang.LexerProofs Lang.C12Proofs.
Import ListNotations.

(* every skeleton, in every token spelling, is accepted and evaluates to its or-of-ands meaning:
   `and` binds tighter than `or` wherever and in whatever order they are mixed *)
Theorem precedence_and_over_or : forall e ts, spells_filter e ts ->
  exists b, compile fixed_prec ts = Some b /\ forall rho, eval b rho = sem e rho.
Proof. exact precedence_lemma. Qed.
Print Assumptions precedence_and_over_or.

(* the meaning used above is literally "or of ands" *)
Theorem surface_semantics_is_or_of_ands : forall e rho, sem e rho = sem_dnf e rho.
Proof. exact sem_is_or_of_ands. Qed.
Print Assumptions surface_semantics_is_or_of_ands.

(* the two orders, spelled out:  p and q or r  =  (p and q) or r ;  p or q and r  =  p or (q and r) *)
Theorem precedence_both_orders : forall p q r ts1 ts2 b1 b2 rho,
  spells_filter (EAnd p (EOr q (ELast r))) ts1 -> spells_filter (EOr p (EAnd q (ELast r))) ts2 ->
  compile fixed_prec ts1 = Some b1 -> compile fixed_prec ts2 = Some b2 ->
  eval b1 rho = (semP p rho && semP q rho) || semP r rho /\
  eval b2 rho = semP p rho || (semP q rho && semP r rho).
Proof. exact mixed_lemma. Qed.
Print Assumptions precedence_both_orders.

(* parentheses group:  (e1) and (e2)  /  (e1) or (e2)  combine the values of e1 and e2 *)
Theorem parens_group : forall e1 e2 ts1 ts2 b1 b2 rho,
  spells_filter (EAnd (XParen e1) (ELast (XParen e2))) ts1 ->
  spells_filter (EOr (XParen e1) (ELast (XParen e2))) ts2 ->
  compile fixed_prec ts1 = Some b1 -> compile fixed_prec ts2 = Some b2 ->
  eval b1 rho = sem e1 rho && sem e2 rho /\ eval b2 rho = sem e1 rho || sem e2 rho.
Proof. exact parens_lemma. Qed.
Print Assumptions parens_group.

(* chains of one connective are the conjunction / disjunction of their operands ... *)
Theorem chain_assoc : forall ps last ts1 ts2 b1 b2 rho,
  spells_filter (and_run ps last ELast) ts1 -> spells_filter (or_run ps last) ts2 ->
  compile fixed_prec ts1 = Some b1 -> compile fixed_prec ts2 = Some b2 ->
  eval b1 rho = forallb (fun p => semP p rho) (ps ++ [last]) /\
  eval b2 rho = existsb (fun p => semP p rho) (ps ++ [last]).
Proof. exact chain_lemma. Qed.
Print Assumptions chain_assoc.

(* ... however they are cut into parenthesised groups *)
Theorem chain_regroup : forall ps1 l1 ps2 l2 ts1 ts2 b1 b2 rho,
  spells_filter (EAnd (XParen (and_run ps1 l1 ELast)) (ELast (XParen (and_run ps2 l2 ELast)))) ts1 ->
  spells_filter (EOr (XParen (or_run ps1 l1)) (ELast (XParen (or_run ps2 l2)))) ts2 ->
  compile fixed_prec ts1 = Some b1 -> compile fixed_prec ts2 = Some b2 ->
  eval b1 rho = forallb (fun p => semP p rho) ((ps1 ++ [l1]) ++ (ps2 ++ [l2])) /\
  eval b2 rho = existsb (fun p => semP p rho) ((ps1 ++ [l1]) ++ (ps2 ++ [l2])).
Proof. exact regroup_lemma. Qed.
Print Assumptions chain_regroup.

(* not (P) is the negation of P - alone, and as the last operand of an `and` / `or` *)
Theorem not_paren_negates : forall e p ts1 ts2 ts3 b1 b2 b3 rho,
  spells_filter (ENot (ELast (XParen e))) ts1 ->
  spells_filter (EAnd p (ENot (ELast (XParen e)))) ts2 ->
  spells_filter (EOr p (ENot (ELast (XParen e)))) ts3 ->
  compile fixed_prec ts1 = Some b1 -> compile fixed_prec ts2 = Some b2 -> compile fixed_prec ts3 = Some b3 ->
  eval b1 rho = negb (sem e rho) /\
  eval b2 rho = semP p rho && negb (sem e rho) /\
  eval b3 rho = semP p rho || negb (sem e rho).
Proof. exact not_lemma. Qed.
Print Assumptions not_paren_negates.

(* what the grammar does with a `not` that is NOT followed by a parenthesised operand only: it has
   the lowest precedence and negates everything up to the end of the enclosing group *)
Theorem not_scopes_to_the_end : forall e ts b rho,
  spells_filter (ENot e) ts -> compile fixed_prec ts = Some b -> eval b rho = negb (sem e rho).
Proof. exact not_scope_lemma. Qed.
Print Assumptions not_scopes_to_the_end.

(* one more pair of parentheses around a primary, the whole filter / group / operand of not, the
   rest of a chain after an `or`, or a complete run of `and`s never changes the result *)
Theorem redundant_parens_irrelevant : forall e e' ts ts' b b' rho,
  wrapE true e e' -> spells_filter e ts -> spells_filter e' ts' ->
  compile fixed_prec ts = Some b -> compile fixed_prec ts' = Some b' -> eval b rho = eval b' rho.
Proof. exact redundant_parens_lemma. Qed.
Print Assumptions redundant_parens_irrelevant.

(* adding white space where white space is allowed changes neither the parse tree nor the query *)
Theorem whitespace_irrelevant : forall e ts ts',
  spells_filter e ts -> spells_filter e ts' ->
  parse_start fixed_prec ts = parse_start fixed_prec ts' /\ compile fixed_prec ts = compile fixed_prec ts'.
Proof. exact whitespace_lemma. Qed.
Print Assumptions whitespace_irrelevant.

(* every letter case of and / or / not and every white-space character lexes to the same tokens,
   without lexer errors, provided words do not touch *)
Theorem keyword_case_insensitive : forall ts cs, spells_toks ts cs -> separated ts = true ->
  toks_of (lex_skeleton cs) = ts /\ drops_of (lex_skeleton cs) = [].
Proof. exact case_lemma. Qed.
Print Assumptions keyword_case_insensitive.

(* end to end, from characters: every character spelling of every skeleton denotes its meaning *)
Theorem filter_text_denotes : forall e ts cs, spells_filter e ts -> spells_toks ts cs ->
  drops_of (lex_skeleton cs) = [] /\
  exists b, compile fixed_prec (toks_of (lex_skeleton cs)) = Some b /\ forall rho, eval b rho = sem e rho.
Proof. exact text_lemma. Qed.
Print Assumptions filter_text_denotes.
