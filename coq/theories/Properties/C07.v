(* C07 - Transactions are all-or-nothing and every failure reaches the caller.
   Statements about the store machine Store/Model.v (Db.Update glue: run_tx). *)
From Coq Require Import List NArith Bool.
From Storage Require Import Base.Bytes Store.Model Store.TxProofs.
Import ListNotations.

(* if Db.Update fails, the database is exactly as before and no listener / commit hook runs *)
Theorem tx_all_or_nothing : forall sch fuel st t rs st' evs,
  run_tx sch fuel st t = (rs, false, st', evs) -> st' = st /\ evs = [].
Proof. exact run_tx_all_or_nothing_lemma. Qed.
Print Assumptions tx_all_or_nothing.

(* Db.Update returns an error iff an operation of the body failed or the pre-commit action failed *)
Theorem tx_error_iff : forall sch fuel st t,
  let '(rs, committed, _, _) := run_tx sch fuel st t in
  committed = false <-> (tx_precommit_fails t = true \/ exists k, In (Some k) rs).
Proof. exact run_tx_error_iff_lemma. Qed.
Print Assumptions tx_error_iff.

(* a failure at ANY position of the body fails the whole body, whatever precedes or follows it *)
Theorem failure_at_any_position : forall sch fuel oc pre o post stev stev' k,
  snd (run_ops sch fuel oc stev pre) = Ok stev' ->
  run_op sch fuel oc stev' o = Err k ->
  snd (run_ops sch fuel oc stev (pre ++ o :: post)) = Err k.
Proof. exact run_ops_failure_propagates. Qed.
Print Assumptions failure_at_any_position.

(* per-operation results: all successes, or successes followed by exactly one failure (the last executed) *)
Theorem results_shape : forall sch fuel oc ops stev rs fin,
  run_ops sch fuel oc stev ops = (rs, fin) ->
  match fin with
  | Ok _ => Forall (fun r => r = None) rs /\ length rs = length ops
  | Err k => exists pre, rs = pre ++ [Some k] /\ Forall (fun r => r = None) pre /\ (length rs <= length ops)%nat
  end.
Proof. exact run_ops_results. Qed.
Print Assumptions results_shape.

(* a committed transaction ran every operation successfully and its pre-commit action succeeded *)
Theorem commit_means_all_succeeded : forall sch fuel st t rs st' evs,
  run_tx sch fuel st t = (rs, true, st', evs) ->
  tx_precommit_fails t = false /\
  snd (run_ops sch fuel (mkOctx (tx_sys t) (tx_vetoes t)) (st, []) (tx_ops t)) = Ok (st', evs).
Proof. exact run_tx_commit_lemma. Qed.
Print Assumptions commit_means_all_succeeded.

(* a create vetoed by a pre-commit constraint is reported to the caller *)
Theorem veto_reaches_caller_create : forall sch oc stev s i sys fv sv,
  vetoed (oc_vetoes oc) s Created i = true ->
  exists k, op_create sch oc stev s i sys fv sv = Err k.
Proof. exact veto_fails_create. Qed.
Print Assumptions veto_reaches_caller_create.
