(* C09, capstone with C03 / C04 / C05 / C06: the integrity check reports nothing on any database reached
   through the API.

   For EVERY schema passing the boolean check [wf_all_b] (Store/ReachableConsistent.v), every fuel and every
   history of transactions from the empty database - creates, full and field-restricted updates, deletes
   incl. restrict refusals and recursive cascades, link operations, through parent and child stores, committed
   or rolled back - the reached state is [Consistent] (Store/IntegrityProofs.v): for every link collection and
   every constraint of the schema the C03 / C04 / C05 mirror statement holds AND no non-nullable unique index,
   fk index or fk constraint field is empty.  Hence, by [check_sound] (Properties/C09.v), CheckIntegrity of every
   store in check-only mode reports nothing.

   [wf_all_b sch] = [wf_notrace_b sch] (the C06 schema check: unique store names, parents are root stores,
   child stores carry only unique indexes on their own fields / system constraints and no links, fk targets are
   guarded root stores, link collections are declared on both sides between root stores, set names are pairwise
   different) and, for every job of the check (every constraint of every store):
     unique index on a root store  : [wf_unique_b]  (C03)      unique index on a child store : [wf_cunique_b]
     set index                     : [wf_setidx_b]  (C03)      fk index / fk constraint      : [wf_fk_b] (C04)
   The three wirings of the harness (idx, fkc, casc) pass it (Examples/C09ReachableExamples.v). *)
From Coq Require Import List NArith Bool.
From Storage Require Import Base.Bytes Store.Model Store.NoTrace Store.NoTraceInv Store.Integrity Store.IntegrityProofs
  Store.ReachableConsistent Properties.C09.
Import ListNotations.

(* every reachable database is consistent *)
Theorem reachable_consistent : forall sch fuel (txs : list tx),
  wf_all_b sch = true -> Consistent sch (run_txs sch fuel st_empty txs).
Proof. exact reachable_consistent_lemma. Qed.
Print Assumptions reachable_consistent.

(* ... hence the check reports nothing on it *)
Theorem reachable_check_clean : forall sch fuel (txs : list tx),
  wf_all_b sch = true -> fst (check_all sch false (run_txs sch fuel st_empty txs)) = [].
Proof. intros sch fuel txs Hwf. exact (check_sound sch _ (reachable_consistent sch fuel txs Hwf)). Qed.
Print Assumptions reachable_check_clean.

(* ... and leaves it as it is (check_readonly), so a check between any two transactions is invisible *)
Theorem reachable_check_invisible : forall sch fuel (txs : list tx),
  wf_all_b sch = true ->
  check_all sch false (run_txs sch fuel st_empty txs) = ([], run_txs sch fuel st_empty txs).
Proof. exact reachable_check_invisible_lemma. Qed.
Print Assumptions reachable_check_invisible.

(* the state after one more transaction - committed or rolled back - is consistent again *)
Theorem reachable_step_consistent : forall sch fuel (txs : list tx) (t : tx),
  wf_all_b sch = true ->
  Consistent sch (match run_tx sch fuel (run_txs sch fuel st_empty txs) t with (_, _, st', _) => st' end).
Proof. exact reachable_step_consistent_lemma. Qed.
Print Assumptions reachable_step_consistent.

(* what the boolean check means: the C06 schema properties and, job by job, the hypotheses of the family's
   invariant theorem *)
Theorem wf_all_b_sound : forall sch, wf_all_b sch = true ->
  wfprops sch /\ forall j, In j (jobs sch) -> job_hyp sch j.
Proof. exact ReachableConsistent.wf_all_b_sound. Qed.
Print Assumptions wf_all_b_sound.
