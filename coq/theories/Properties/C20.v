(* C20 - Public-symbol validation sees every symbol a query references.
   Statements only; each closed by [exact] and followed by Print Assumptions.

   tree            a node of any kind: kind name, string fields, child fields (Ast/Visitor.v)
   tbl             one description per Go type implementing ast.Node: its fields and what its
                   Accept method does (types: Ast/AstTable.v; the table of package ast is
                   regenerated from the Go source on every run: Gen/GenAstTable.v)
   visit tbl t     the arguments of VisitSymbol, in order, when t accepts a visitor
   all_syms tbl t  the value of every symbol-name field of every node anywhere in t
   shaped          t has the fields tbl says; explicitly excluded fields duplicate a child's symbol
   table_complete  every symbol field is visited, every child field is forwarded (or excluded) *)
From Coq Require Import List Bool NArith.
From Storage Require Import Base.Bytes Ast.AstTable Ast.Visitor Ast.VisitorProofs Ast.VisitorGen Ast.VisitorInst Gen.GenAstTable.
Import ListNotations.

(* ---- generic in the table ---- *)

(* a visitor following a complete table sees exactly the symbols occurring anywhere in the tree *)
Theorem visit_covers_all_symbols : forall tbl aliases, table_complete tbl aliases = true ->
  forall t, shaped tbl aliases t -> forall x, In x (all_syms tbl t) <-> In x (visit tbl t).
Proof. exact visit_covers_all_symbols_lemma. Qed.
Print Assumptions visit_covers_all_symbols.

(* [all_syms] is "every symbol field of every node at any nesting depth" *)
Theorem all_syms_spec : forall tbl t x,
  In x (all_syms tbl t) <-> exists s, subtree s t /\ In x (root_syms tbl s).
Proof. exact all_syms_spec_lemma. Qed.
Print Assumptions all_syms_spec.

(* validation accepts iff every symbol of the query - predicate, set functions, sub-queries, sort
   fields: whatever the tree contains - is public; whichever way the visitor latches its error *)
Theorem validator_iff_all_public : forall tbl aliases, table_complete tbl aliases = true ->
  forall latch pub maps t, shaped tbl aliases t ->
  (validate tbl latch pub maps t = Accept <-> forall x, In x (all_syms tbl t) -> is_public pub maps x = true).
Proof. exact validator_iff_all_public_lemma. Qed.
Print Assumptions validator_iff_all_public.

(* on rejection the named symbol is a non-public symbol of the query *)
Theorem rejection_names_nonpublic : forall tbl aliases, table_complete tbl aliases = true ->
  forall latch pub maps t x, shaped tbl aliases t ->
  validate tbl latch pub maps t = Reject x -> In x (all_syms tbl t) /\ is_public pub maps x = false.
Proof. exact rejection_names_nonpublic_lemma. Qed.
Print Assumptions rejection_names_nonpublic.

(* a single non-public symbol anywhere causes rejection naming that symbol *)
Theorem single_nonpublic_rejected : forall tbl aliases, table_complete tbl aliases = true ->
  forall latch pub maps t x, shaped tbl aliases t ->
  In x (all_syms tbl t) -> is_public pub maps x = false ->
  (forall y, In y (all_syms tbl t) -> y <> x -> is_public pub maps y = true) ->
  validate tbl latch pub maps t = Reject x.
Proof. exact single_nonpublic_rejected_lemma. Qed.
Print Assumptions single_nonpublic_rejected.

(* IsPublicSymbol: an element of a map symbol is public exactly when the map is (unless the
   element was published by name); other dotted names and plain names only when listed *)
Theorem map_element_public : forall pub maps base rest,
  before_dot base = None -> mem_str base maps = true -> mem_str (base ++ dot :: rest) pub = false ->
  is_public pub maps (base ++ dot :: rest) = is_public pub maps base.
Proof. exact map_element_public_lemma. Qed.
Print Assumptions map_element_public.

Theorem dotted_non_map_public : forall pub maps base rest,
  before_dot base = None -> mem_str base maps = false ->
  is_public pub maps (base ++ dot :: rest) = mem_str (base ++ dot :: rest) pub.
Proof. exact dotted_non_map_public_lemma. Qed.
Print Assumptions dotted_non_map_public.

Theorem plain_public : forall pub maps x, before_dot x = None -> is_public pub maps x = mem_str x pub.
Proof. exact plain_public_lemma. Qed.
Print Assumptions plain_public.

(* the diagnostic list that drives the failing-input search names a broken obligation exactly
   when there is one *)
Theorem table_gaps_nil_iff : forall tbl aliases, table_gaps tbl aliases = [] <-> table_complete tbl aliases = true.
Proof. exact table_gaps_nil_iff_lemma. Qed.
Print Assumptions table_gaps_nil_iff.

(* ---- about the Go source as it is now (re-checked against the regenerated table) ---- *)

(* THE obligation a forgotten child / symbol in any Accept method, or a node kind added later,
   breaks.  Finite: a boolean computed over the generated descriptions. *)
Theorem generated_table_complete : table_complete GenAstTable.table gen_aliases = true.
Proof. exact generated_table_complete_lemma. Qed.
Print Assumptions generated_table_complete.

(* boltz/validate.go: the visitor overrides VisitSymbol only, tests IsPublicSymbol on the symbol
   and reports that symbol; ValidateSymbolsArePublic hands &visitor to query.Accept, returns its error *)
Theorem generated_validator_is_modelled : validator_ok GenAstTable.validator = true.
Proof. exact generated_validator_ok_lemma. Qed.
Print Assumptions generated_validator_is_modelled.

Theorem c20_visit_covers_all_symbols : forall t, gen_shaped t ->
  forall x, In x (gen_all_syms t) <-> In x (gen_visit t).
Proof. exact c20_visit_covers_lemma. Qed.
Print Assumptions c20_visit_covers_all_symbols.

Theorem c20_validator_iff_all_public : forall pub maps t, gen_shaped t ->
  (gen_validate pub maps t = Accept <-> forall x, In x (gen_all_syms t) -> is_public pub maps x = true).
Proof. exact c20_validator_iff_all_public_lemma. Qed.
Print Assumptions c20_validator_iff_all_public.

Theorem c20_rejection_names_nonpublic : forall pub maps t x, gen_shaped t ->
  gen_validate pub maps t = Reject x -> In x (gen_all_syms t) /\ is_public pub maps x = false.
Proof. exact c20_rejection_names_nonpublic_lemma. Qed.
Print Assumptions c20_rejection_names_nonpublic.

Theorem c20_single_nonpublic_rejected : forall pub maps t x, gen_shaped t ->
  In x (gen_all_syms t) -> is_public pub maps x = false ->
  (forall y, In y (gen_all_syms t) -> y <> x -> is_public pub maps y = true) ->
  gen_validate pub maps t = Reject x.
Proof. exact c20_single_nonpublic_rejected_lemma. Qed.
Print Assumptions c20_single_nonpublic_rejected.

(* acceptance: the symbol fields of every node at any depth of the query are public *)
Theorem c20_accepted_everywhere_public : forall pub maps t, gen_shaped t ->
  gen_validate pub maps t = Accept ->
  forall s, subtree s t -> forall x, In x (root_syms gen_table s) -> is_public pub maps x = true.
Proof. exact c20_accepted_everywhere_public_lemma. Qed.
Print Assumptions c20_accepted_everywhere_public.
