(* C20 - Public-symbol validation sees every symbol a query references.
   Statements only; each closed by [exact] and followed by Print Assumptions.

   tree            a node of any kind: kind name, string fields, child fields (Ast/Visitor.v)
   tbl             one description per Go type implementing ast.Node: its fields and what its
                   Accept method does (types: Ast/AstTable.v; the table of package ast is
                   regenerated from the Go source on every run: Gen/GenAstTable.v)
   visit tbl t     the arguments of VisitSymbol, in order, when t accepts a visitor
   all_syms tbl t  the value of every symbol-name field of every node anywhere in t
   shaped          t has the fields tbl says; explicitly excluded fields duplicate a child's symbol
   table_complete  every symbol field is visited, every child field is forwarded (or excluded) *)
From Coq Require Import List Bool NArith.
From Storage Require Import Base.Bytes Ast.AstTable Ast.Visitor Ast.VisitorProofs Ast.VisitorGen Ast.VisitorInst Gen.GenAstTable
  Ast.PublicCfg Ast.PublicCfgProofs Ast.ValidateSeq Ast.ValidateSeqProofs.
Import ListNotations.

(* ---- generic in the table ---- *)

(* a visitor following a complete table sees exactly the symbols occurring anywhere in the tree *)
Theorem visit_covers_all_symbols : forall tbl aliases, table_complete tbl aliases = true ->
  forall t, shaped tbl aliases t -> forall x, In x (all_syms tbl t) <-> In x (visit tbl t).
Proof. exact visit_covers_all_symbols_lemma. Qed.
Print Assumptions visit_covers_all_symbols.

(* [all_syms] is "every symbol field of every node at any nesting depth" *)
Theorem all_syms_spec : forall tbl t x,
  In x (all_syms tbl t) <-> exists s, subtree s t /\ In x (root_syms tbl s).
Proof. exact all_syms_spec_lemma. Qed.
Print Assumptions all_syms_spec.

(* validation accepts iff every symbol of the query - predicate, set functions, sub-queries, sort
   fields: whatever the tree contains - is public; whichever way the visitor latches its error *)
Theorem validator_iff_all_public : forall tbl aliases, table_complete tbl aliases = true ->
  forall latch pub maps t, shaped tbl aliases t ->
  (validate tbl latch pub maps t = Accept <-> forall x, In x (all_syms tbl t) -> is_public pub maps x = true).
Proof. exact validator_iff_all_public_lemma. Qed.
Print Assumptions validator_iff_all_public.

(* on rejection the named symbol is a non-public symbol of the query *)
Theorem rejection_names_nonpublic : forall tbl aliases, table_complete tbl aliases = true ->
  forall latch pub maps t x, shaped tbl aliases t ->
  validate tbl latch pub maps t = Reject x -> In x (all_syms tbl t) /\ is_public pub maps x = false.
Proof. exact rejection_names_nonpublic_lemma. Qed.
Print Assumptions rejection_names_nonpublic.

(* a single non-public symbol anywhere causes rejection naming that symbol *)
Theorem single_nonpublic_rejected : forall tbl aliases, table_complete tbl aliases = true ->
  forall latch pub maps t x, shaped tbl aliases t ->
  In x (all_syms tbl t) -> is_public pub maps x = false ->
  (forall y, In y (all_syms tbl t) -> y <> x -> is_public pub maps y = true) ->
  validate tbl latch pub maps t = Reject x.
Proof. exact single_nonpublic_rejected_lemma. Qed.
Print Assumptions single_nonpublic_rejected.

(* IsPublicSymbol: an element of a map symbol is public exactly when the map is (unless the
   element was published by name); other dotted names and plain names only when listed.
   [pub], [maps], [base] are symbol NAMES - what a query writes and what store.publicSymbols /
   store.mapSymbols are indexed by.  The bucket KEY a symbol reads from (AddSymbolWithKey,
   AddMapSymbol(name, type, key)) does not occur: see the cfg_ theorems below. *)
Theorem map_element_public : forall pub maps base rest,
  before_dot base = None -> mem_str base maps = true -> mem_str (base ++ dot :: rest) pub = false ->
  is_public pub maps (base ++ dot :: rest) = is_public pub maps base.
Proof. exact map_element_public_lemma. Qed.
Print Assumptions map_element_public.

Theorem dotted_non_map_public : forall pub maps base rest,
  before_dot base = None -> mem_str base maps = false ->
  is_public pub maps (base ++ dot :: rest) = mem_str (base ++ dot :: rest) pub.
Proof. exact dotted_non_map_public_lemma. Qed.
Print Assumptions dotted_non_map_public.

Theorem plain_public : forall pub maps x, before_dot x = None -> is_public pub maps x = mem_str x pub.
Proof. exact plain_public_lemma. Qed.
Print Assumptions plain_public.

(* ---- public-ness is a matter of NAMES: the store configuration API (Ast/PublicCfg.v) ----
   cfg_store     known symbol names, map symbols as (registered name, bucket key), public names
   cfg_op        one API call: OAddPublic st name key (AddSymbol[WithKey], AddFkSymbol[WithKey], AddIdSymbol,
                 AddPublicSetSymbol), OAddPrivate st name, OAddMap st name key, OMakePublic st name _, OGrant
   cfg_run       the (parent, child) stores after a sequence of calls *)

(* two configurations making the same calls with the same names have the same public symbols,
   however the keys differ (no GrantSymbols: inheritMapSymbol re-registers a map under its key) *)
Theorem cfg_public_is_by_name : forall p1 p2,
  forallb (fun o => negb (op_is_grant o)) p1 = true ->
  map op_forget_key p1 = map op_forget_key p2 ->
  forall st x, cs_is_public (cfg_store_of (cfg_run p1) st) x = cs_is_public (cfg_store_of (cfg_run p2) st) x.
Proof. exact cfg_public_is_by_name_lemma. Qed.
Print Assumptions cfg_public_is_by_name.

(* an element of a map symbol registered under the name m is public exactly when the NAME m is
   listed public - whatever the key k of the map, and whatever else is called k *)
Theorem cfg_map_element_public : forall s m k rest,
  In (m, k) (cs_maps s) -> before_dot m = None ->
  mem_str (m ++ dot :: rest) (cs_pub s) = false ->
  cs_is_public s (m ++ dot :: rest) = mem_str m (cs_pub s).
Proof. exact cfg_map_element_public_lemma. Qed.
Print Assumptions cfg_map_element_public.

(* MakeSymbolPublic of a name that is neither a registered map nor a resolvable symbol changes
   nothing (publishing a map before AddMapSymbol has no effect) ... *)
Theorem cfg_make_public_unknown_noop : forall s n linked,
  mem_str n (cs_map_names s) = false -> cs_resolves s n linked = false ->
  cs_make_public s n linked = s.
Proof. exact cfg_make_public_unknown_noop_lemma. Qed.
Print Assumptions cfg_make_public_unknown_noop.

(* ... and after AddMapSymbol(m, _, k) it publishes every element of m *)
Theorem cfg_make_public_after_add_map : forall s m k rest,
  before_dot m = None ->
  cs_is_public (cs_make_public (cs_set_map s m k) m false) (m ++ dot :: rest) = true.
Proof. exact cfg_make_public_after_add_map_lemma. Qed.
Print Assumptions cfg_make_public_after_add_map.

(* GrantSymbols into a fresh child when every map of the parent has name = key: same symbol and
   map names; listed public in the child iff a symbol / map name of the parent and public there.
   PARTIAL: composite names published on their own are not handed down; a map with name <> key is
   re-registered under its key (Examples: grant_renames_map_refuted) *)
Theorem cfg_grant_by_name_partial : forall p,
  (forall m k, In (m, k) (cs_maps p) -> m = k) ->
  let c := cs_grant p cs_empty in
  (forall x, mem_str x (cs_known c) = mem_str x (cs_known p)) /\
  (forall x, mem_str x (cs_map_names c) = mem_str x (cs_map_names p)) /\
  (forall x, mem_str x (cs_pub c) = (mem_str x (cs_known p) || mem_str x (cs_map_names p)) && cs_is_public p x).
Proof. exact cfg_grant_by_name_partial_lemma. Qed.
Print Assumptions cfg_grant_by_name_partial.

(* the diagnostic list that drives the failing-input search names a broken obligation exactly
   when there is one *)
Theorem table_gaps_nil_iff : forall tbl aliases, table_gaps tbl aliases = [] <-> table_complete tbl aliases = true.
Proof. exact table_gaps_nil_iff_lemma. Qed.
Print Assumptions table_gaps_nil_iff.

(* ---- about the Go source as it is now (re-checked against the regenerated table) ---- *)

(* THE obligation a forgotten child / symbol in any Accept method, or a node kind added later,
   breaks.  Finite: a boolean computed over the generated descriptions. *)
Theorem generated_table_complete : table_complete GenAstTable.table gen_aliases = true.
Proof. exact generated_table_complete_lemma. Qed.
Print Assumptions generated_table_complete.

(* boltz/validate.go: the visitor overrides VisitSymbol only, tests IsPublicSymbol on the symbol
   and reports that symbol; ValidateSymbolsArePublic hands &visitor to query.Accept, returns its error *)
Theorem generated_validator_is_modelled : validator_ok GenAstTable.validator = true.
Proof. exact generated_validator_ok_lemma. Qed.
Print Assumptions generated_validator_is_modelled.

Theorem c20_visit_covers_all_symbols : forall t, gen_shaped t ->
  forall x, In x (gen_all_syms t) <-> In x (gen_visit t).
Proof. exact c20_visit_covers_lemma. Qed.
Print Assumptions c20_visit_covers_all_symbols.

Theorem c20_validator_iff_all_public : forall pub maps t, gen_shaped t ->
  (gen_validate pub maps t = Accept <-> forall x, In x (gen_all_syms t) -> is_public pub maps x = true).
Proof. exact c20_validator_iff_all_public_lemma. Qed.
Print Assumptions c20_validator_iff_all_public.

Theorem c20_rejection_names_nonpublic : forall pub maps t x, gen_shaped t ->
  gen_validate pub maps t = Reject x -> In x (gen_all_syms t) /\ is_public pub maps x = false.
Proof. exact c20_rejection_names_nonpublic_lemma. Qed.
Print Assumptions c20_rejection_names_nonpublic.

Theorem c20_single_nonpublic_rejected : forall pub maps t x, gen_shaped t ->
  In x (gen_all_syms t) -> is_public pub maps x = false ->
  (forall y, In y (gen_all_syms t) -> y <> x -> is_public pub maps y = true) ->
  gen_validate pub maps t = Reject x.
Proof. exact c20_single_nonpublic_rejected_lemma. Qed.
Print Assumptions c20_single_nonpublic_rejected.

(* acceptance: the symbol fields of every node at any depth of the query are public *)
Theorem c20_accepted_everywhere_public : forall pub maps t, gen_shaped t ->
  gen_validate pub maps t = Accept ->
  forall s, subtree s t -> forall x, In x (root_syms gen_table s) -> is_public pub maps x = true.
Proof. exact c20_accepted_everywhere_public_lemma. Qed.
Print Assumptions c20_accepted_everywhere_public.

(* ---- histories: the verdict of a call does not depend on the calls made before (Ast/ValidateSeq.v) ---- *)

(* in any history the verdict of a step is the verdict of that step validated alone *)
Theorem c20_history_independent : forall h1 h2 s,
  nth_error (gen_validate_seq (h1 ++ s :: h2)) (length h1) = nth_error (gen_validate_seq [s]) 0.
Proof. exact c20_history_independent_lemma. Qed.
Print Assumptions c20_history_independent.

(* every step of every history is accepted iff every symbol of that query is public in that store *)
Theorem c20_history_accept_iff : forall h k pub maps t, nth_error h k = Some (pub, maps, t) -> gen_shaped t ->
  (nth_error (gen_validate_seq h) k = Some Accept <-> forall x, In x (gen_all_syms t) -> is_public pub maps x = true).
Proof. exact c20_history_accept_iff_lemma. Qed.
Print Assumptions c20_history_accept_iff.

(* a validator that memoises accepted calls under a key is the history-free one whenever the key never
   identifies an accepted call with a call that is not accepted (any table, any key type) *)
Theorem validate_memo_faithful : forall tbl latch (K : Type) (key : vstep -> K) (keq : K -> K -> bool),
  key_faithful tbl latch K key keq ->
  forall h, validate_memo tbl latch K key keq [] h = validate_seq tbl latch h.
Proof. exact validate_memo_faithful_lemma. Qed.
Print Assumptions validate_memo_faithful.
