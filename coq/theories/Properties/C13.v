(* C13 - Stored values and compound keys round-trip.
   Statements only; each closed by [exact] and followed by Print Assumptions.
   Models: Codec/Varint.v, CompoundKey.v (boltz/encode.go), FieldCodec.v, Containers.v
   (boltz/typed_bucket.go over a bbolt bucket, field-checker restricted setters). *)
From Coq Require Import List NArith ZArith Bool Sorted Permutation.
From Storage Require Import Base.Bytes Codec.CodecBase Codec.Varint Codec.VarintProofs
  Codec.CompoundKey Codec.CompoundKeyProofs Codec.FieldCodec Codec.FieldCodecProofs
  Codec.StrOrderProofs Codec.Containers Codec.ContainersProofs Codec.Persist Codec.PersistProofs Codec.Getters Codec.GettersProofs Codec.CheckerRepr Codec.CheckerReprProofs.
Import ListNotations.
Open Scope N_scope.

(* ---- compound keys ---------------------------------------------------------------------- *)

(* Uvarint reads back every uint64 PutUvarint wrote, whatever bytes follow *)
Theorem varint_roundtrip : forall (x : N) (rest : str),
  x < 2 ^ 64 -> uvarint (put_uvarint x ++ rest) = UvOk x (length (put_uvarint x)).
Proof. exact uvarint_put. Qed.
Print Assumptions varint_roundtrip.

(* every list of strings whose components respect MaxLinkedSetKeySize (4096 bytes) has an
   encoding, and decoding it returns the same list *)
Theorem compound_key_roundtrip : forall l : list str,
  Forall within_limit l ->
  exists b, encode_string_slice l = Ok b /\ decode_string_slice b = Ok l.
Proof. exact compound_key_roundtrip_lemma. Qed.
Print Assumptions compound_key_roundtrip.

(* the size limit is the only reason for the encoder to refuse a list *)
Theorem compound_key_encodable : forall l : list str,
  (exists b, encode_string_slice l = Ok b) <-> Forall within_limit l.
Proof. exact encode_ok_iff. Qed.
Print Assumptions compound_key_encodable.

(* distinct lists never share an encoding *)
Theorem compound_key_injective : forall (l1 l2 : list str) (b : str),
  encode_string_slice l1 = Ok b -> encode_string_slice l2 = Ok b -> l1 = l2.
Proof. exact compound_key_injective_lemma. Qed.
Print Assumptions compound_key_injective.

(* on arbitrary bytes DecodeStringSlice returns a list (of components within the limit) or an
   error: no slice expression is out of range (no panic) and the loop terminates *)
Theorem decode_total : forall key : str,
  decode_string_slice key = Err \/
  exists l, decode_string_slice key = Ok l /\ Forall within_limit l.
Proof. exact decode_total_lemma. Qed.
Print Assumptions decode_total.

(* ---- scalar fields ------------------------------------------------------------------------ *)

(* Every supported scalar - any byte string incl. the empty one, int32, int64 (whole range),
   every float64 bit pattern, bool, any instant (int64 seconds, nanoseconds), nil - written by
   its setter to any bucket under any checker that selects the field, is read back by the getter
   of its type as the same value (an int32 read with GetInt64 widens), and getMarshaled returns
   it with its dynamic type. *)
Theorem field_roundtrip : forall (c : checker) (name : str) (v : scalar) (b b' : bucket),
  wf_scalar v = true -> proceed c name = true ->
  apply_op c (OpScalar name v) b = Ok b' ->
  read_own v (get_bytes name b') = Some (widen v) /\ get_marshaled name b' = VS v.
Proof. exact field_roundtrip_bucket. Qed.
Print Assumptions field_roundtrip.

(* the stored bytes are exactly the type tag and little-endian / marshalled payload *)
Theorem field_bytes_exact : forall (c : checker) (name : str) (v : scalar) (b b' : bucket),
  proceed c name = true -> apply_op c (OpScalar name v) b = Ok b' ->
  get_bytes name b' = encode_scalar v.
Proof. exact scalar_field_written. Qed.
Print Assumptions field_bytes_exact.

(* the write is refused only for a field name bbolt rejects, an oversized value, or a name that
   holds a sub-bucket *)
Theorem field_write_succeeds : forall (c : checker) (name : str) (v : scalar) (b : bucket),
  name <> [] -> len name <= MaxKeySize -> len (encode_scalar v) <= MaxValueSize ->
  (forall sub, a_lookup name b <> Some (Sub sub)) ->
  exists b', apply_op c (OpScalar name v) b = Ok b'.
Proof. exact scalar_field_write_succeeds. Qed.
Print Assumptions field_write_succeeds.

(* null stays distinguishable from the empty string: different bytes, different reads *)
Theorem nil_vs_empty : forall (c : checker) (name : str) (b b1 b2 : bucket),
  proceed c name = true ->
  apply_op c (OpScalar name SNil) b = Ok b1 -> apply_op c (OpScalar name (SString [])) b = Ok b2 ->
  get_string name b1 = SVal None /\ get_string name b2 = SVal (Some []) /\
  get_bytes name b1 <> get_bytes name b2 /\
  get_marshaled name b1 = VS SNil /\ get_marshaled name b2 = VS (SString []).
Proof. exact nil_vs_empty_bucket. Qed.
Print Assumptions nil_vs_empty.

(* two different scalars never share stored bytes *)
Theorem field_encoding_injective : forall v1 v2 : scalar,
  wf_scalar v1 = true -> wf_scalar v2 = true -> encode_scalar v1 = encode_scalar v2 -> v1 = v2.
Proof. exact encode_scalar_injective. Qed.
Print Assumptions field_encoding_injective.

(* ---- string lists ---------------------------------------------------------------------------- *)

(* sort_dedup is "sorted and duplicate-free with the same elements" *)
Theorem sort_dedup_is_sorted_set : forall l : list str,
  Sorted str_lt (sort_dedup l) /\ (forall s, In s (sort_dedup l) <-> In s l).
Proof. exact sort_dedup_spec. Qed.
Print Assumptions sort_dedup_is_sorted_set.

(* SetStringList then GetStringList: the sorted duplicate-free set of the elements
   (each element fitting a bbolt key together with its type byte) *)
Theorem strlist_roundtrip : forall (c : checker) (name : str) (l : list str) (b b' : bucket),
  Forall elem_ok l -> proceed c name = true ->
  apply_op c (OpStringList name l) b = Ok b' ->
  get_string_list name b' = sort_dedup l.
Proof. exact strlist_roundtrip_lemma. Qed.
Print Assumptions strlist_roundtrip.

Theorem strlist_write_succeeds : forall (c : checker) (name : str) (l : list str) (b : bucket),
  Forall elem_ok l -> name <> [] -> (forall x, a_lookup name b <> Some (Leaf x)) ->
  exists b', apply_op c (OpStringList name l) b = Ok b'.
Proof. exact ContainersProofs.strlist_write_succeeds. Qed.
Print Assumptions strlist_write_succeeds.

(* ---- nested maps and lists ------------------------------------------------------------------- *)

(* Whatever setMarshaled accepted, getMarshaled returns: for values nested to any depth - maps
   (a Go map being represented by its key-sorted association list), lists (shorter than 2^31),
   nils, empty containers, every scalar in the range of its type.  No condition on the keys: an
   unusable key (empty, longer than MaxKeySize under a scalar, or the reserved list-size marker
   key) makes the write fail; it never succeeds with different content. *)
Theorem container_read_back : forall (an : bool) (v : value) (n : node),
  Representable v -> entry_node an v = Ok n -> get_node n = v.
Proof. exact entry_node_read_back_any. Qed.
Print Assumptions container_read_back.

(* ... and the write is accepted for every well-formed value: keys non-empty, at most MaxKeySize
   bytes and different from the reserved list-size marker key; encoded scalars within
   MaxValueSize *)
Theorem container_roundtrip : forall v : value,
  WfValue v -> exists n, entry_node true v = Ok n /\ node_fits n /\ get_node n = v.
Proof. exact entry_node_roundtrip. Qed.
Print Assumptions container_roundtrip.

(* PutMap (nested allowed or not) then GetMap, in a bucket with arbitrary other content *)
Theorem map_field_roundtrip : forall (c : checker) (name : str) (m : list (str * value)) (an : bool) (b b' : bucket),
  Representable (VMap m) -> proceed c name = true ->
  apply_op c (OpMap name m an) b = Ok b' ->
  get_map name b' = m /\ get_marshaled name b' = VMap m.
Proof. exact map_roundtrip. Qed.
Print Assumptions map_field_roundtrip.

(* PutList then GetList *)
Theorem list_field_roundtrip : forall (c : checker) (name : str) (l : list value) (b b' : bucket),
  Representable (VList l) -> proceed c name = true ->
  apply_op c (OpList name l) b = Ok b' ->
  get_list name b' = Ok (Some l) /\ get_marshaled name b' = VList l.
Proof. exact list_roundtrip. Qed.
Print Assumptions list_field_roundtrip.

Theorem container_write_succeeds : forall (c : checker) (name : str) (v : value) (b : bucket),
  WfValue v -> name <> [] -> len name <= MaxKeySize ->
  (forall x, a_lookup name b <> Some (Leaf x)) ->
  match v with
  | VMap m => exists b', apply_op c (OpMap name m true) b = Ok b'
  | VList l => exists b', apply_op c (OpList name l) b = Ok b'
  | _ => True
  end.
Proof. exact ContainersProofs.container_write_succeeds. Qed.
Print Assumptions container_write_succeeds.

(* PutMap ranges over the Go map in an unspecified order: for distinct keys every order of the
   entries stores the same bucket, or fails alike - so representing the Go map by its key-sorted
   association list loses nothing *)
Theorem put_map_order_irrelevant : forall (an : bool) (m m' : list (str * value)),
  NoDup (map fst m) -> Permutation m m' ->
  forall n, map_node an m = Ok n <-> map_node an m' = Ok n.
Proof. exact map_node_order_irrelevant. Qed.
Print Assumptions put_map_order_irrelevant.

(* ---- field-checker restricted writes ------------------------------------------------------------ *)

(* a sequence of setter calls under a checker leaves the stored bytes of every field untouched
   that no proceeding call names (a call proceeds when the checker is nil or selects its field;
   SetNil takes no checker) - whatever the bucket held before *)
Theorem checker_frame : forall (c : checker) (ops : list fop) (b b' : bucket) (k : str),
  apply_ops c ops b = Ok b' ->
  (forall op, In op ops -> op_name op = k -> op_proceeds c op = false) ->
  a_lookup k b' = a_lookup k b.
Proof. exact apply_ops_frame. Qed.
Print Assumptions checker_frame.

(* ... and on the selected fields it is exactly the unrestricted write of the selected calls *)
Theorem checker_selected : forall (c : checker) (ops : list fop) (b : bucket),
  apply_ops c ops b = apply_ops None (filter (op_proceeds c) ops) b.
Proof. exact apply_ops_filter. Qed.
Print Assumptions checker_selected.

(* a proceeding call stores its value under its field name and nothing else changes *)
Theorem setter_effect : forall (c : checker) (op : fop) (b b' : bucket),
  op_proceeds c op = true -> apply_op c op b = Ok b' ->
  exists n, op_node op = Ok n /\ a_lookup (op_name op) b' = Some n /\
            forall k, k <> op_name op -> a_lookup k b' = a_lookup k b.
Proof. exact apply_op_proceeds. Qed.
Print Assumptions setter_effect.

(* ---- restricted persists through PersistContext over a chain of stores ------------------------- *)
(* Model Codec/Persist.v: one persist of an entity through a store (level 0 of the chain) runs a
   program of setter calls on the context the store built and on the contexts derived from it by
   GetParentContext (the ancestor stores' parts of the entity) and WithFieldOverrides; the buckets of
   all stores of the chain are sub-buckets, at the stores' key paths, of the root store's entity
   bucket b.  [persist_trace] lists the setter calls with the bucket path and the checker of the
   context each goes through; [w_addr] is the key path of the field a call names. *)

(* Touches only: a node (a field of any store of the chain, or anything else stored below the
   entity) that no proceeding call's field contains or lies in keeps its content - raw bytes or
   whole sub-bucket.  A call proceeds when the checker of its context is nil or selects its field
   (SetNil takes no checker).  A Create may besides make the empty buckets on the way to the
   store's entity bucket. *)
Theorem persist_frame : forall (ch : chain) (c : checker) (cr : bool) (id : str) (prog : list pstmt)
    (b b' : bucket) (a : path),
  persist ch c cr id prog b = Ok b' ->
  (cr = true -> is_prefix a (level_path ch 0) = false) ->
  (forall w, In w (persist_trace ch c cr id prog) -> w_proceeds w = true -> comparable a (w_addr w) = false) ->
  node_at a (Sub b') = node_at a (Sub b).
Proof. exact persist_frame_lemma. Qed.
Print Assumptions persist_frame.

(* Exactly the selected: the program's effect is that of the proceeding calls made without any
   checker, in order, each in the bucket of its context's store *)
Theorem persist_selected : forall (ch : chain) (prog : list pstmt) (cs : slots) (b : bucket) (cs' : slots) (b' : bucket),
  run ch prog cs b = Ok (cs', b') ->
  apply_writes (map unrestrict (filter w_proceeds (trace ch prog cs))) b = Ok b'.
Proof. exact persist_selected_lemma. Qed.
Print Assumptions persist_selected.

(* GetParentContext hands the checker on: without WithFieldOverrides every call of the persist, on
   whichever store's part of the entity, is under the checker the store was given *)
Theorem derived_contexts_share_checker : forall (ch : chain) (c : checker) (cr : bool) (id : str) (prog : list pstmt),
  forallb (fun st => negb (is_override st)) prog = true ->
  Forall (fun w => w_checker w = c) (persist_trace ch c cr id prog).
Proof. exact derived_contexts_share_checker_lemma. Qed.
Print Assumptions derived_contexts_share_checker.

(* ... so a persist restricted by checker c touches, in the parent stores' parts as in the store's
   own, only fields c selects *)
Theorem restricted_persist_frame : forall (ch : chain) (c : checker) (cr : bool) (id : str) (prog : list pstmt)
    (b b' : bucket) (a : path),
  forallb (fun st => negb (is_override st)) prog = true ->
  persist ch c cr id prog b = Ok b' ->
  (cr = true -> is_prefix a (level_path ch 0) = false) ->
  (forall w, In w (persist_trace ch c cr id prog) -> op_proceeds c (w_op w) = true -> comparable a (w_addr w) = false) ->
  node_at a (Sub b') = node_at a (Sub b).
Proof. exact restricted_persist_frame_lemma. Qed.
Print Assumptions restricted_persist_frame.

(* ---- readers with a default, string-list emptiness, deep copy ----------------------------------- *)
(* Model Codec/Getters.v of GetStringWithDefault / GetStringOrError / GetBoolWithDefault /
   GetInt32WithDefault / GetInt64WithDefault / GetTimeOrDefault / GetTimeOrError / IsStringListEmpty /
   ForEachTypedBucket / TypedBucket.Copy. *)

(* a stored value is what the getter with a default of its type returns, whatever the default
   (an int32 also through the int64 getter); no error is flagged *)
Theorem default_getters_roundtrip : forall (c : checker) (name : str) (v : scalar) (b b' : bucket),
  wf_scalar v = true -> proceed c name = true -> apply_op c (OpScalar name v) b = Ok b' ->
  match v with
  | SBool x => forall d, get_bool_with_default name d b' = x
  | SInt32 z => forall d, get_int32_with_default name d b' = z /\ get_int64_with_default name d b' = z
  | SInt64 z => forall d, get_int64_with_default name d b' = z
  | SString s => (forall d, get_string_with_default name d b' = SVal (Some s)) /\
                 get_string_or_error name b' = (SVal (Some s), false)
  | STime sec nsec => (forall d, get_time_or_default name d b' = (sec, nsec)) /\
                      get_time_or_error name b' = ((sec, nsec), false)
  | _ => True
  end.
Proof. exact default_getters_stored. Qed.
Print Assumptions default_getters_roundtrip.

(* null stays distinguishable: a null field (the bytes SetNil / a nil pointer stores) and an absent
   one (no key, or the key of a sub-bucket) give the default, and the *OrError getters flag it *)
Theorem default_getters_null_or_absent : forall (name : str) (b : bucket),
  get_bytes name b = [] \/ get_bytes name b = encode_scalar SNil ->
  (forall d, get_string_with_default name d b = SVal (Some d)) /\
  get_string_or_error name b = (SVal (Some []), true) /\
  (forall d, get_bool_with_default name d b = d) /\
  (forall d, get_int32_with_default name d b = d) /\
  (forall d, get_int64_with_default name d b = d) /\
  (forall d, get_time_or_default name d b = d) /\
  get_time_or_error name b = ((0%Z, 0), true).
Proof. exact default_getters_null. Qed.
Print Assumptions default_getters_null_or_absent.

(* IsStringListEmpty says whether the list read back is empty *)
Theorem string_list_empty_iff : forall (name : str) (b : bucket),
  is_string_list_empty name b = true <-> get_string_list name b = [].
Proof. exact is_string_list_empty_iff. Qed.
Print Assumptions string_list_empty_iff.

(* ForEachTypedBucket visits exactly the sub-buckets *)
Theorem for_each_typed_bucket_spec : forall (k : str) (c b : bucket),
  In (k, c) (child_buckets b) <-> In (k, Sub c) b.
Proof. exact child_buckets_spec. Qed.
Print Assumptions for_each_typed_bucket_spec.

(* Copy into an empty bucket is a deep copy: the whole source - values, sub-buckets to any depth -
   reads back equal; with a filter, the source without the entries (and whole sub-trees) whose key
   path the filter rejects.  [canon]: what a bbolt bucket can hold (keys ascending and non-empty,
   keys of plain values and values within bbolt's size limits). *)
Theorem copy_roundtrip : forall b : bucket,
  canon (Sub b) -> copy_bucket (fun _ => true) b [] = Ok b.
Proof. exact copy_whole. Qed.
Print Assumptions copy_roundtrip.

Theorem copy_filtered_roundtrip : forall (filter : list str -> bool) (b : bucket),
  canon (Sub b) -> copy_bucket filter b [] = Ok (prune_entries filter [] b).
Proof. exact copy_filtered. Qed.
Print Assumptions copy_filtered_roundtrip.

(* ---- the value the checker is handed over as ------------------------------------------------------- *)
(* Model Codec/CheckerRepr.v.  boltz.FieldChecker is an interface; ProceedWithSet and
   WithFieldOverrides take exactly the nil INTERFACE for "no restriction".  A nil map / nil pointer /
   nil slice / nil func inside the interface is a checker like any other: what its IsUpdated answers. *)

(* what a representation selects, read off the Go value (nil interface: everything; nil
   MapFieldChecker: nothing; a wrapper asks the wrapped value about the mapped name), is what the
   setters consult *)
Theorem checker_repr_selection : forall (r : checker_repr) (name : str),
  proceed (repr_checker r) name = repr_selects r name.
Proof. exact repr_checker_selects. Qed.
Print Assumptions checker_repr_selection.

(* a restricted write depends on the checker value only through the fields it selects: two
   representations with the same selection leave the same bucket (or fail alike) *)
Theorem checker_is_its_selection : forall (c1 c2 : checker) (ops : list fop) (b : bucket),
  (forall name, proceed c1 name = proceed c2 name) -> apply_ops c1 ops b = apply_ops c2 ops b.
Proof. exact apply_ops_ext_lemma. Qed.
Print Assumptions checker_is_its_selection.

(* ... through PersistContext too: derived contexts, overrides, every store's part of the entity *)
Theorem persist_checker_is_its_selection : forall (ch : chain) (c1 c2 : checker) (cr : bool) (id : str)
    (prog : list pstmt) (b : bucket),
  (forall name, proceed c1 name = proceed c2 name) ->
  persist ch c1 cr id prog b = persist ch c2 cr id prog b.
Proof. exact persist_ext_lemma. Qed.
Print Assumptions persist_checker_is_its_selection.

(* a checker that selects no field - boltz.MapFieldChecker(nil), MapFieldChecker{}, a wrapper around
   either, a typed nil pointer whose IsUpdated answers false - writes nothing: every setter taking a
   checker (all but SetNil) leaves the bucket as it is *)
Theorem empty_selection_writes_nothing : forall (r : checker_repr) (ops : list fop) (b : bucket),
  (forall name, repr_selects r name = false) -> forallb op_restricted ops = true ->
  apply_ops (repr_checker r) ops b = Ok b.
Proof. exact empty_selection_lemma. Qed.
Print Assumptions empty_selection_writes_nothing.

(* ... and an Update through PersistContext under it leaves the whole entity as it is, in every
   store's part, whatever contexts are derived and whatever overrides are put on them *)
Theorem empty_selection_persist_writes_nothing : forall (ch : chain) (r : checker_repr) (id : str)
    (prog : list pstmt) (b b' : bucket),
  (forall name, repr_selects r name = false) ->
  forallb pstmt_restricted prog = true ->
  persist ch (repr_checker r) false id prog b = Ok b' -> b' = b.
Proof. exact persist_empty_selection_lemma. Qed.
Print Assumptions empty_selection_persist_writes_nothing.
