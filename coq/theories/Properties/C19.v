(* C19 - In-memory object store answers queries like the bolt-backed store.
   Statements only; each closed by [exact] and followed by Print Assumptions.

   Vocabulary (models in Query/ObjectScan.v, Query/ScalarFilter.v, and those of C02):
     objs           the objects in the order the store's iterator delivers them (any order)
     rows           the same values in a bolt store: ascending id order ([id_sorted])
     f              a filter over non-set symbols of the five scalar types (sfilter)
     filter_spec f  the documented meaning of f on a row (null tests, nil rules, and/or/not)
     query_spec     ids of (page p (sort (filter ...))) and the number of matching rows (C02) *)
From Coq Require Import List ZArith NArith Bool Sorted Permutation.
From Storage Require Import Base.Bytes Query.Compare Query.CompareProofs Query.Paging Query.PagingProofs
  Query.ScanUnique Query.ScanUniqueProofs Query.ScanSort Query.ScanSortProofs
  Query.ScalarFilter Query.ObjectScan Query.ObjectScanProofs Query.ObjectSession Query.ObjectSessionProofs.
Import ListNotations.
Open Scope Z_scope.

(* the object store returns the specified objects, order and count - for every collection with
   distinct ids, every scalar filter, every sort specification, every skip/limit in int64 *)
Theorem objectz_eq_spec : forall (f : sfilter) (fs : list sort_field) (p : paging) (objs : list row),
  wf_paging p -> NoDup (map r_id objs) -> Z.of_nat (length objs) <= max_int64 ->
  objectz_query f fs p objs = query_spec fs p (filter_spec f) objs.
Proof. exact objectz_eq_spec_lemma. Qed.
Print Assumptions objectz_eq_spec.

(* ... and therefore exactly what a bolt-backed store holding the same values returns *)
Theorem objectz_eq_boltz : forall (f : sfilter) (fs : list sort_field) (p : paging) (rows objs : list row),
  wf_paging p -> id_sorted rows -> rows_ok rows -> Z.of_nat (length rows) <= max_int64 ->
  Permutation rows objs ->
  objectz_query f fs p objs = boltz_query f fs p rows.
Proof. exact objectz_eq_boltz_lemma. Qed.
Print Assumptions objectz_eq_boltz.

(* the order in which the iterator delivers the objects (Go map order) is irrelevant *)
Theorem objectz_order_irrelevant : forall (f : sfilter) (fs : list sort_field) (p : paging) (objs objs' : list row),
  wf_paging p -> rows_ok objs -> NoDup (map r_id objs) -> Z.of_nat (length objs) <= max_int64 ->
  Permutation objs objs' ->
  objectz_query f fs p objs = objectz_query f fs p objs'.
Proof. exact objectz_order_irrelevant_lemma. Qed.
Print Assumptions objectz_order_irrelevant.

(* SESSIONS (Query/ObjectSession.v): a sequence of queries on one object store value, the collection possibly
   changing in between.  The answer to a query is the answer to that query on the collection of that moment ... *)
Theorem objectz_session_pointwise : forall (pre post : list ostep) (s : ostep),
  nth_error (objectz_session (pre ++ s :: post)) (length pre) = Some (objectz_answer s).
Proof. exact objectz_session_pointwise_lemma. Qed.
Print Assumptions objectz_session_pointwise.

(* ... independent of what was asked before (and after) on the same store, and of the collections then *)
Theorem objectz_session_independent : forall (pre pre' post post' : list ostep) (s : ostep),
  nth_error (objectz_session (pre ++ s :: post)) (length pre) =
  nth_error (objectz_session (pre' ++ s :: post')) (length pre').
Proof. exact objectz_session_independent_lemma. Qed.
Print Assumptions objectz_session_independent.

(* ... and the whole session equals the session of the same texts on a bolt store that holds the same values at
   every step (same_values: same query, ids ascending and NaN-free on the bolt side, a permutation on the object side) *)
Theorem objectz_session_eq_boltz : forall (bs : list bstep) (os : list ostep),
  Forall2 same_values bs os -> objectz_session os = boltz_session bs.
Proof. exact objectz_session_eq_boltz_lemma. Qed.
Print Assumptions objectz_session_eq_boltz.

(* `= null` holds exactly for the objects whose field has no value, `!= null` for the others *)
Theorem null_test_exact : forall (r : row) (c : colref),
  (filter_spec (FAtom (AIsNull c false)) r = true <-> cell_of r c = CNull) /\
  (filter_spec (FAtom (AIsNull c true)) r = true <-> cell_of r c <> CNull).
Proof. exact null_test_exact_lemma. Qed.
Print Assumptions null_test_exact.

(* not / and / or are the boolean connectives *)
Theorem filter_spec_bool : forall (f g : sfilter) (r : row),
  filter_spec (FNot f) r = negb (filter_spec f r) /\
  filter_spec (FAnd f g) r = (filter_spec f r && filter_spec g r)%bool /\
  filter_spec (FOr f g) r = (filter_spec f r || filter_spec g r)%bool.
Proof. exact filter_spec_bool_lemma. Qed.
Print Assumptions filter_spec_bool.
