(* C07, translator path: the error-plumbing table regenerated from boltz/*.go on every run.
   Finite-domain obligation over the stated table (Gen/GenErrFlow.table): in package boltz no
   function that returns an error has a branch `if err != nil { return …, nil }`, and no error
   result is dropped except by printing.  A change that swallows a veto or storage error in any
   store operation breaks this obligation; the check then searches for a failing history with the
   fault-injection harness. *)
From Coq Require Import List String Bool.
From Storage Require Import Store.ErrFlow Gen.GenErrFlow.
Import ListNotations.

Theorem generated_errflow_ok : errflow_ok GenErrFlow.table = true.
Proof. vm_compute. reflexivity. Qed.
Print Assumptions generated_errflow_ok.

Theorem no_error_swallowed : forall r, In r GenErrFlow.table -> r_disp r <> DSwallow.
Proof.
  intros r Hin. pose proof (proj1 (errflow_ok_spec _) generated_errflow_ok r Hin) as H.
  unfold row_ok in H. destruct (r_disp r); congruence.
Qed.
Print Assumptions no_error_swallowed.
