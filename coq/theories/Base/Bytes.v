(* Bytes and byte strings shared by all models.
   A Go string / []byte is a [list N]; theorems that need [b < 256] say so. *)
From Coq Require Import List NArith Bool.
Import ListNotations.
Open Scope N_scope.

Definition byte := N.
Definition str := list byte.

Fixpoint str_eqb (a b : str) : bool :=
  match a, b with
  | [], [] => true
  | x :: a', y :: b' => (x =? y) && str_eqb a' b'
  | _, _ => false
  end.

(* Go's bytes.Compare / string < : lexicographic on bytes, a proper prefix is smaller *)
Fixpoint str_cmp (a b : str) : comparison :=
  match a, b with
  | [], [] => Eq
  | [], _ :: _ => Lt
  | _ :: _, [] => Gt
  | x :: a', y :: b' =>
      match x ?= y with
      | Eq => str_cmp a' b'
      | c => c
      end
  end.

Definition str_ltb (a b : str) : bool := match str_cmp a b with Lt => true | _ => false end.
Definition str_leb (a b : str) : bool := match str_cmp a b with Gt => false | _ => true end.

Definition wf_byte (b : byte) : bool := b <? 256.
Definition wf_bytes (s : str) : bool := forallb wf_byte s.

Fixpoint has_prefix (p s : str) : bool :=
  match p, s with
  | [], _ => true
  | x :: p', y :: s' => (x =? y) && has_prefix p' s'
  | _ :: _, [] => false
  end.
