(* Facts about byte strings: decidable equality and the lexicographic order. *)
From Coq Require Import List NArith Bool Lia.
From Storage Require Import Base.Bytes.
Import ListNotations.
Open Scope N_scope.

Lemma str_eqb_refl a : str_eqb a a = true.
Proof. induction a as [|x a IH]; cbn; [reflexivity|]. rewrite N.eqb_refl, IH. reflexivity. Qed.

Lemma str_eqb_eq a b : str_eqb a b = true <-> a = b.
Proof.
  revert b. induction a as [|x a IH]; intros [|y b]; cbn; split; intros H; try reflexivity; try discriminate.
  - apply andb_prop in H as [H1 H2]. apply N.eqb_eq in H1. apply IH in H2. subst. reflexivity.
  - inversion H; subst. rewrite N.eqb_refl. apply IH. reflexivity.
Qed.

Lemma str_eqb_neq a b : str_eqb a b = false <-> a <> b.
Proof.
  split; intros H.
  - intros E. apply str_eqb_eq in E. congruence.
  - destruct (str_eqb a b) eqn:E; [apply str_eqb_eq in E; contradiction | reflexivity].
Qed.

Lemma str_eqb_sym a b : str_eqb a b = str_eqb b a.
Proof.
  destruct (str_eqb a b) eqn:E.
  - apply str_eqb_eq in E. subst. symmetry. apply str_eqb_refl.
  - symmetry. apply str_eqb_neq. apply str_eqb_neq in E. congruence.
Qed.

Lemma str_eq_dec (a b : str) : {a = b} + {a <> b}.
Proof.
  destruct (str_eqb a b) eqn:E; [left; apply str_eqb_eq; exact E | right; apply str_eqb_neq; exact E].
Qed.

Lemma str_cmp_eq a b : str_cmp a b = Eq <-> a = b.
Proof.
  revert b. induction a as [|x a IH]; intros [|y b]; cbn; split; intros H; try reflexivity; try discriminate.
  - destruct (x ?= y) eqn:E; try discriminate. apply N.compare_eq in E. apply IH in H. subst. reflexivity.
  - inversion H; subst. rewrite N.compare_refl. apply IH. reflexivity.
Qed.

Lemma str_cmp_refl a : str_cmp a a = Eq.
Proof. apply str_cmp_eq. reflexivity. Qed.

Lemma str_cmp_antisym a b : str_cmp b a = CompOpp (str_cmp a b).
Proof.
  revert b. induction a as [|x a IH]; intros [|y b]; cbn; try reflexivity.
  rewrite (N.compare_antisym x y). destruct (x ?= y); cbn; [apply IH | reflexivity | reflexivity].
Qed.

Lemma str_cmp_lt_trans a b c : str_cmp a b = Lt -> str_cmp b c = Lt -> str_cmp a c = Lt.
Proof.
  revert b c. induction a as [|x a IH]; intros [|y b] [|z c]; cbn; intros H1 H2; try reflexivity; try discriminate.
  destruct (x ?= y) eqn:Exy; try discriminate.
  - apply N.compare_eq in Exy. subst y. destruct (x ?= z) eqn:Exz; try discriminate; [eapply IH; eauto | reflexivity].
  - destruct (y ?= z) eqn:Eyz; try discriminate.
    + apply N.compare_eq in Eyz. subst z. rewrite Exy. reflexivity.
    + apply N.compare_lt_iff in Exy. apply N.compare_lt_iff in Eyz.
      pose proof (N.lt_trans _ _ _ Exy Eyz) as Hlt. apply N.compare_lt_iff in Hlt. rewrite Hlt. reflexivity.
Qed.
