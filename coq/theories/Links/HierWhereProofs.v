(* C05 - proofs about Links/HierWhere.v: DeleteWhere is a list of DeleteById calls, so the invariants of
   HierProofs.v survive it, and afterwards nothing of the entities it deleted is left in any pair. *)
From Coq Require Import List NArith ZArith Bool Arith Lia.
From Storage Require Import Base.Bytes Links.StrOrder Links.LinkModel Links.LinkModelProofs
  Links.SetLinksMerge Links.SetLinksMergeProofs Links.RefCount Links.RefCountProofs Links.LinkMachine
  Links.LinkMachineProofs Links.HierMachine Links.HierProofs Links.HierWhere.
Import ListNotations.
Local Open Scope nat_scope.

Lemma run_hops_app : forall T U a b h, run_hops T U (a ++ b) h = hbind (run_hops T U a h) (run_hops T U b).
Proof.
  intros T U a. induction a as [|o t IH]; intros b h; simpl; [reflexivity|].
  destruct (hstep T U o h); simpl; [apply IH | reflexivity | reflexivity].
Qed.

(* ---- a transaction with DeleteWhere is the transaction of the DeleteById calls it made ------------------- *)

Lemma run_xops_flatten : forall T U ops h h', run_xops T U ops h = HDone h' ->
  run_hops T U (flatten T U ops h) h = HDone h'.
Proof.
  intros T U ops. induction ops as [|o t IH]; intros h h' E; simpl in *; [exact E|].
  unfold xstep in E. destruct (xop_ok T o); simpl in E; [|discriminate].
  rewrite run_hops_app.
  destruct (run_hops T U (expand T U h o) h) as [h1| |] eqn:E1; simpl in *; try discriminate.
  apply IH. exact E.
Qed.

Lemma run_xops_flatten_eq : forall T U ops h, Forall (fun o => xop_ok T o = true) ops ->
  run_xops T U ops h = run_hops T U (flatten T U ops h) h.
Proof.
  intros T U ops. induction ops as [|o t IH]; intros h F; simpl; [reflexivity|].
  inversion F as [|? ? Ho Ft]; subst. unfold xstep. rewrite Ho, run_hops_app.
  destruct (run_hops T U (expand T U h o) h) as [h1| |] eqn:E1; simpl; try reflexivity.
  apply IH. exact Ft.
Qed.

(* a history without DeleteWhere runs as before *)
Lemma xstep_embed : forall T U o h, xstep T U (XOp o) h = hstep T U o h.
Proof. intros. unfold xstep. simpl. destruct (hstep T U o h); reflexivity. Qed.

Lemma run_xops_embed : forall T U ops h, run_xops T U (map XOp ops) h = run_hops T U ops h.
Proof.
  intros T U ops. induction ops as [|o t IH]; intros h; simpl; [reflexivity|].
  rewrite xstep_embed. destruct (hstep T U o h); simpl; [apply IH | reflexivity | reflexivity].
Qed.

Lemma run_xhist_embed : forall T U hs h, run_xhist T U (embed_xhist hs) h = run_hhist T U hs h.
Proof.
  intros T U hs. induction hs as [|tx t IH]; intros h; simpl; [reflexivity|].
  unfold run_xtx, run_htx. rewrite run_xops_embed. destruct (run_hops T U tx h); simpl; apply IH.
Qed.

(* ---- the DeleteById calls of one DeleteWhere ------------------------------------------------------------------- *)

Lemma delete_all_spec : forall T U M sd lv l h h', hinv T U M h ->
  run_hops T U (map (HDelete sd lv) l) h = HDone h' ->
  hinv T U M h' /\
  (forall x, In x l -> forall k, hp h' sd k x = false) /\
  (forall sd' k x', ~ (sd' = sd /\ In x' l) -> hp h' sd' k x' = hp h sd' k x') /\
  (forall p, p < npairs T -> forall sd' a b, ~ (sd' = sd /\ In a l) -> ~ (sd' = other sd /\ In b l) ->
     hl h' p sd' a b = hl h p sd' a b /\ hr h' p sd' a b = hr h p sd' a b).
Proof.
  intros T U M sd lv l. induction l as [|x t IH]; intros h h' I E; simpl in E.
  - inversion E. subst. split; [exact I|]. split; [intros x []|]. split; [reflexivity|]. intros. split; reflexivity.
  - destruct (hdelete T U sd lv x h) as [h1| |] eqn:E1; simpl in E; try discriminate.
    destruct (hdelete_cleans_lemma _ _ _ _ _ _ _ _ I E1) as (I1 & Gone & Keep & _ & KeepL).
    destruct (IH h1 h' I1 E) as (I' & GoneT & KeepT & KeepLT).
    split; [exact I'|]. split; [|split].
    + intros y [<-|Hy] k; [|apply GoneT; exact Hy].
      destruct (mem x t) eqn:Hm; [apply mem_In in Hm; apply GoneT; exact Hm|].
      apply mem_false in Hm. rename Hm into Hx.
      rewrite KeepT by (intros [_ F]; contradiction). apply Gone.
    + intros sd' k x' N. rewrite KeepT by (intros [A B]; apply N; split; [exact A | right; exact B]).
      apply Keep. intros F. inversion F. subst. apply N. split; [reflexivity | left; reflexivity].
    + intros p Hp sd' a b N1 N2.
      destruct (KeepLT p Hp sd' a b) as [A B].
      { intros [Ea Ia]. apply N1. split; [exact Ea | right; exact Ia]. }
      { intros [Ea Ia]. apply N2. split; [exact Ea | right; exact Ia]. }
      destruct (KeepL p Hp sd' a b) as [C D].
      { intros F. inversion F. subst. apply N1. split; [reflexivity | left; reflexivity]. }
      { intros F. inversion F. subst. apply N2. split; [reflexivity | left; reflexivity]. }
      split; congruence.
Qed.

Lemma delete_all_bound : forall M sd lv l, htx_bound M (map (HDelete sd lv) l) = M.
Proof. intros M sd lv l. unfold htx_bound. induction l as [|x t IH]; simpl; [reflexivity | exact IH]. Qed.

(* ---- one operation, transactions, histories ------------------------------------------------------------------ *)

Lemma xop_bound_ge : forall M o, (M <= xop_bound M o)%Z.
Proof. intros M o. destruct o; simpl; [apply hop_bound_ge | lia]. Qed.

Lemma xtx_bound_ge : forall ops M, (M <= xtx_bound M ops)%Z.
Proof.
  induction ops as [|o t IH]; intros M; simpl; [lia|].
  unfold xtx_bound in *. simpl. pose proof (IH (xop_bound M o)). pose proof (xop_bound_ge M o). lia.
Qed.

Lemma xhist_bound_ge : forall hs M, (M <= xhist_bound M hs)%Z.
Proof.
  induction hs as [|tx t IH]; intros M; simpl; [lia|].
  unfold xhist_bound in *. simpl. pose proof (IH (xtx_bound M tx)). pose proof (xtx_bound_ge tx M). lia.
Qed.

Lemma xstep_inv : forall T U M o h h', hinv T U M h -> (0 <= M)%Z -> xop_in U o -> xop_count_ok o ->
  (xop_bound M o <= max_int32)%Z -> xstep T U o h = HDone h' -> hinv T U (xop_bound M o) h'.
Proof.
  intros T U M o h h' I HM Hin Hok Hb E. destruct o as [o|sd lv all ids]; simpl in *.
  - rewrite xstep_embed in E. eapply hstep_inv; eauto.
  - unfold xstep in E. destruct (xop_ok T (XDeleteWhere sd lv all ids)); [|discriminate]. simpl in E.
    destruct (delete_all_spec _ _ _ _ _ _ _ _ I E) as (I' & _). exact I'.
Qed.

Lemma run_xops_inv : forall T U ops M h h', hinv T U M h -> (0 <= M)%Z -> Forall (xop_in U) ops ->
  Forall xop_count_ok ops -> (xtx_bound M ops <= max_int32)%Z -> run_xops T U ops h = HDone h' ->
  hinv T U (xtx_bound M ops) h'.
Proof.
  intros T U ops. induction ops as [|o t IH]; intros M h h' I HM Hin Hok Hb E; simpl in E.
  - inversion E. subst. exact I.
  - inversion Hin; subst. inversion Hok; subst.
    destruct (xstep T U o h) as [h1| |] eqn:E1; simpl in E; try discriminate.
    unfold xtx_bound in *. simpl in *.
    pose proof (xtx_bound_ge t (xop_bound M o)) as G. unfold xtx_bound in G. pose proof (xop_bound_ge M o).
    apply (IH (xop_bound M o) h1 h'); try assumption; try lia.
    eapply xstep_inv; eauto. lia.
Qed.

Lemma run_xtx_inv : forall T U ops M h, hinv T U M h -> (0 <= M)%Z -> Forall (xop_in U) ops ->
  Forall xop_count_ok ops -> (xtx_bound M ops <= max_int32)%Z -> hinv T U (xtx_bound M ops) (snd (run_xtx T U ops h)).
Proof.
  intros T U ops M h I HM Hin Hok Hb. unfold run_xtx.
  destruct (run_xops T U ops h) as [h'| |] eqn:E; simpl.
  - eapply run_xops_inv; eauto.
  - eapply hinv_mono; [apply xtx_bound_ge | exact I].
  - eapply hinv_mono; [apply xtx_bound_ge | exact I].
Qed.

Lemma run_xhist_inv : forall T U hs M h, hinv T U M h -> (0 <= M)%Z -> xhist_in U hs -> xhist_counts_ok hs ->
  (xhist_bound M hs <= max_int32)%Z -> hinv T U (xhist_bound M hs) (run_xhist T U hs h).
Proof.
  intros T U hs. induction hs as [|tx t IH]; intros M h I HM Hin Hok Hb; simpl; [exact I|].
  inversion Hin; subst. inversion Hok; subst. unfold xhist_bound in *. simpl in *.
  pose proof (xhist_bound_ge t (xtx_bound M tx)) as G. unfold xhist_bound in G. pose proof (xtx_bound_ge tx M).
  apply IH; try assumption; try lia.
  apply run_xtx_inv; try assumption. lia.
Qed.

(* ======================================================================================== *)
(* the lemmas behind the DeleteWhere statements of Properties/C05.v                             *)
(* ======================================================================================== *)

Lemma where_reachable_lemma : forall T U hs, xhist_in U hs -> xhist_counts_ok hs ->
  (xhist_bound 0 hs <= max_int32)%Z -> hinv T U (xhist_bound 0 hs) (run_xhist T U hs hinit).
Proof. intros. apply run_xhist_inv; try assumption; [apply hinv_init | lia]. Qed.

(* DeleteWhere through ANY store of a family, any filter: every entity the store's scan yields and the
   filter accepts is gone from every store of the family, no pair of any level - whichever kinds of
   collection its stores register - keeps a link or a count from it or to it; everything that names
   none of them is untouched; the invariants hold again *)
Lemma delete_where_cleans_lemma : forall T U M sd lv all ids h h', hinv T U M h ->
  xstep T U (XDeleteWhere sd lv all ids) h = HDone h' ->
  let l := where_ids T U h sd lv all ids in
  hinv T U M h' /\
  (forall x, In x l -> (forall k, hp h' sd k x = false) /\
     forall p, p < npairs T -> forall k,
       hl h' p sd x k = false /\ hl h' p (other sd) k x = false /\ hr h' p sd x k = None /\ hr h' p (other sd) k x = None) /\
  (forall sd' k x', ~ (sd' = sd /\ In x' l) -> hp h' sd' k x' = hp h sd' k x') /\
  (forall p, p < npairs T -> forall sd' a b, ~ (sd' = sd /\ In a l) -> ~ (sd' = other sd /\ In b l) ->
     hl h' p sd' a b = hl h p sd' a b /\ hr h' p sd' a b = hr h p sd' a b).
Proof.
  intros T U M sd lv all ids h h' I E l. unfold xstep in E.
  destruct (xop_ok T (XDeleteWhere sd lv all ids)); [|discriminate]. simpl in E. fold l in E.
  destruct (delete_all_spec _ _ _ _ _ _ _ _ I E) as (I' & Gone & Keep & KeepL).
  split; [exact I'|]. split; [|split; assumption].
  intros x Hx. split; [apply Gone; exact Hx|].
  intros p Hp k. apply (hinv_absent_lemma _ _ _ _ I'); [apply Gone; exact Hx | exact Hp].
Qed.

Lemma where_ids_In : forall T U h sd lv all ids x, In x (where_ids T U h sd lv all ids) <->
  In x (uni U sd) /\ visible T h sd lv x = true /\ (all = true \/ In x ids).
Proof.
  intros. unfold where_ids. rewrite filter_In, andb_true_iff, orb_true_iff.
  change (existsb (id_eqb x) ids) with (mem x ids). rewrite mem_In. tauto.
Qed.

(* ---- the statements of HierProofs.v for every state a history WITH DeleteWhere reaches ----------------------- *)

Lemma where_pairs_lemma : forall T U hs, xhist_in U hs -> xhist_counts_ok hs -> (xhist_bound 0 hs <= max_int32)%Z ->
  let h := run_xhist T U hs hinit in
  forall p, p < npairs T -> forall sd a b,
  (hl h p sd a b = true <-> hl h p (other sd) b a = true) /\
  (In b (get_links U (view T p h) sd a) <-> In a (get_links U (view T p h) (other sd) b)) /\
  is_linked (view T p h) sd a b = is_linked (view T p h) (other sd) b a /\
  (hl h p sd a b = true ->
     hp h sd (lvl T p sd) a = true /\ hp h (other sd) (lvl T p (other sd)) b = true /\
     hp h sd 0 a = true /\ hp h (other sd) 0 b = true) /\
  match hr h p sd a b, hr h p (other sd) b a with
  | Some c, Some c' => c = c' /\ (0 < c <= max_int32)%Z
  | None, None => True
  | _, _ => False
  end.
Proof.
  intros T U hs H1 H2 H3 h. eapply hinv_pairs_lemma; [apply where_reachable_lemma; eassumption | exact H3].
Qed.

Lemma where_absent_lemma : forall T U hs, xhist_in U hs -> xhist_counts_ok hs -> (xhist_bound 0 hs <= max_int32)%Z ->
  let h := run_xhist T U hs hinit in
  forall sd x, hp h sd 0 x = false ->
  (forall k, hp h sd k x = false) /\
  forall p, p < npairs T -> forall k,
    hl h p sd x k = false /\ hl h p (other sd) k x = false /\ hr h p sd x k = None /\ hr h p (other sd) k x = None.
Proof.
  intros T U hs H1 H2 H3 h sd x H0. pose proof (where_reachable_lemma T U hs H1 H2 H3) as I. fold h in I. split.
  - intros k. destruct (hp h sd k x) eqn:E; [|reflexivity]. apply (hi_root _ _ _ _ I) in E. congruence.
  - apply (hinv_absent_lemma _ _ _ _ I). exact H0.
Qed.

Lemma delete_where_expansion_lemma : forall T U ops h,
  (forall h', run_xops T U ops h = HDone h' -> run_hops T U (flatten T U ops h) h = HDone h') /\
  (Forall (fun o => xop_ok T o = true) ops -> run_xops T U ops h = run_hops T U (flatten T U ops h) h) /\
  (forall hs, run_xhist T U (embed_xhist hs) h = run_hhist T U hs h).
Proof.
  intros T U ops h. split; [intros h'; apply run_xops_flatten|]. split; [apply run_xops_flatten_eq|].
  intros hs. apply run_xhist_embed.
Qed.
