(* C05 - model of linkCollectionImpl.SetLinks (boltz/link_collection.go): the hand-written
   sorted merge over (cursor rows, sorted requested keys), loop for loop.  Model only. *)
From Coq Require Import List NArith ZArith Bool.
From Storage Require Import Base.Bytes Links.LinkModel.
Import ListNotations.

(* sort.Strings(keys): the result of sorting strings is unique, any sorting algorithm will do *)
Fixpoint insert_sorted (k : id) (l : list id) : list id :=
  match l with
  | [] => [k]
  | h :: t => if str_leb k h then k :: l else h :: insert_sorted k t
  end.
Definition sort_ids (l : list id) : list id := fold_right insert_sorted [] l.

(* for len(keys) > 0 && keys[0] == compare { keys = keys[1:] } *)
Fixpoint skip_dups (compare : id) (keys : list id) : list id :=
  match keys with
  | [] => []
  | k :: t => if id_eqb k compare then skip_dups compare t else keys
  end.

Inductive row_result := RowMatched | RowRemoved | RowUnhandled | RowNoFuel.

(* the inner loop  for len(keys) > 0 { ... }  for one cursor row; returns the remaining
   keys, the grown toAdd and how the loop was left:
     compare < row : toAdd += compare; drop compare and its duplicates; continue
     compare > row : toRemove += row; rowHandled; break          (RowRemoved)
     compare = row : drop compare; rowHandled; break              (RowMatched)
     keys exhausted: !rowHandled => toRemove += row               (RowUnhandled) *)
Fixpoint merge_row (fuel : nat) (row : id) (keys toAdd : list id) : list id * list id * row_result :=
  match keys with
  | [] => ([], toAdd, RowUnhandled)
  | compare :: rest =>
      match fuel with
      | O => (keys, toAdd, RowNoFuel)
      | S f =>
          match str_cmp compare row with
          | Lt => merge_row f row (skip_dups compare rest) (toAdd ++ [compare])
          | Gt => (keys, toAdd, RowRemoved)
          | Eq => (rest, toAdd, RowMatched)
          end
      end
  end.

(* the outer loop over the cursor rows; None = out of fuel *)
Fixpoint merge_rows (rws keys toAdd toRemove : list id) : option (list id * list id * list id) :=
  match rws with
  | [] => Some (keys, toAdd, toRemove)
  | row :: rws' =>
      match merge_row (length keys) row keys toAdd with
      | (keys', toAdd', RowMatched) => merge_rows rws' keys' toAdd' toRemove
      | (keys', toAdd', RowRemoved) => merge_rows rws' keys' toAdd' (toRemove ++ [row])
      | (keys', toAdd', RowUnhandled) => merge_rows rws' keys' toAdd' (toRemove ++ [row])
      | (_, _, RowNoFuel) => None
      end
  end.

(* SetLinks(id = a, keys) on the collection of side sd *)
Definition set_links (U : univ) (sd : side) (a : id) (keys : list id) (s : lstate) : res :=
  let keys := sort_ids keys in
  if pres s sd a then
    match merge_rows (rows U s sd a) keys [] [] with
    | None => NoFuel
    | Some (keys', toAdd, toRemove) =>
        bind (remove_links sd a toRemove s) (add_links sd a (toAdd ++ keys'))
    end
  else Failed.

(* the diff alone, for the statement about every (current set, requested list) pair *)
Definition set_links_diff (rws keys : list id) : option (list id * list id) :=
  match merge_rows rws (sort_ids keys) [] [] with
  | None => None
  | Some (keys', toAdd, toRemove) => Some (toAdd ++ keys', toRemove)
  end.
