(* C05 - DeleteWhere on the stores of a parent / child hierarchy (boltz/store_crud.go):

     func (store *BaseStore[E]) DeleteWhere(ctx, query) error {
         ids, _, err := store.QueryIds(ctx.Tx(), query)          // scan of the store, ascending ids
         for _, id := range ids { if err := store.impl.DeleteById(ctx, id); err != nil { return err } }
     }

   It is a derived operation: in the state it starts from it expands to the list of DeleteById calls,
   through the same store, for the entities the store's scan yields and the filter accepts.  What a
   store's scan yields (query_scanners.go): the root store - every entity of the family; a plain child
   store - the entities it holds itself; an Extended child store - every entity of the parent.
   The filter is `true` ([all]) or a membership test on the id ([ids]).  Every theorem about run_hops
   covers the expansion (HierWhereProofs.v: run_xops_flatten).  Model only. *)
From Coq Require Import List NArith ZArith Bool Arith.
From Storage Require Import Base.Bytes Links.LinkModel Links.SetLinksMerge Links.RefCount Links.LinkMachine
  Links.HierMachine.
Import ListNotations.
Local Open Scope nat_scope.

(* the entity is a row of the scan of store (sd, lv) *)
Definition visible (T : topo) (h : hstate) (sd : side) (lv : nat) (x : id) : bool :=
  hp h sd 0 x && match lv with O => true | _ => hp h sd lv x || is_ext T sd lv end.

(* QueryIds: the rows of the scan the filter accepts, in cursor order *)
Definition where_ids (T : topo) (U : univ) (h : hstate) (sd : side) (lv : nat) (all : bool) (ids : list id) : list id :=
  filter (fun x => visible T h sd lv x && (all || existsb (id_eqb x) ids)) (uni U sd).

Inductive xop :=
| XOp (o : hop)
| XDeleteWhere (sd : side) (lv : nat) (all : bool) (ids : list id).

(* the DeleteById calls DeleteWhere makes when it starts in state h *)
Definition expand (T : topo) (U : univ) (h : hstate) (o : xop) : list hop :=
  match o with
  | XOp o => [o]
  | XDeleteWhere sd lv all ids => map (HDelete sd lv) (where_ids T U h sd lv all ids)
  end.

(* the store the call goes through must exist; an XOp fails exactly when its hop does *)
Definition xop_ok (T : topo) (o : xop) : bool :=
  match o with XOp _ => true | XDeleteWhere sd lv _ _ => level_ok T sd lv end.

Definition xstep (T : topo) (U : univ) (o : xop) (h : hstate) : hres :=
  if xop_ok T o then run_hops T U (expand T U h o) h else HFailed.

Fixpoint run_xops (T : topo) (U : univ) (ops : list xop) (h : hstate) : hres :=
  match ops with
  | [] => HDone h
  | o :: t => hbind (xstep T U o h) (run_xops T U t)
  end.

Fixpoint xfirst_failure (T : topo) (U : univ) (ops : list xop) (h : hstate) (i : nat) : option nat :=
  match ops with
  | [] => None
  | o :: t => match xstep T U o h with
              | HDone h' => xfirst_failure T U t h' (S i)
              | _ => Some i
              end
  end.

Definition run_xtx (T : topo) (U : univ) (ops : list xop) (h : hstate) : bool * hstate :=
  match run_xops T U ops h with
  | HDone h' => (true, h')
  | _ => (false, h)
  end.

Definition xhistory := list (list xop).

Fixpoint run_xhist (T : topo) (U : univ) (hs : xhistory) (h : hstate) : hstate :=
  match hs with
  | [] => h
  | tx :: t => run_xhist T U t (snd (run_xtx T U tx h))
  end.

(* the plain operations a successful transaction amounts to: every DeleteWhere replaced by the
   DeleteById calls it made in the state it started from *)
Fixpoint flatten (T : topo) (U : univ) (ops : list xop) (h : hstate) : list hop :=
  match ops with
  | [] => []
  | o :: t => expand T U h o ++
              match run_hops T U (expand T U h o) h with
              | HDone h' => flatten T U t h'
              | _ => []
              end
  end.

(* ---- guards ------------------------------------------------------------------------------------------ *)

Definition xop_in (U : univ) (o : xop) : Prop :=
  match o with XOp o => hop_in U o | _ => True end.
Definition xhist_in (U : univ) (hs : xhistory) : Prop := Forall (Forall (xop_in U)) hs.

Definition xop_count_ok (o : xop) : Prop :=
  match o with XOp o => hop_count_ok o | _ => True end.
Definition xhist_counts_ok (hs : xhistory) : Prop := Forall (Forall xop_count_ok) hs.

Definition xop_bound (M : Z) (o : xop) : Z :=
  match o with XOp o => hop_bound M o | _ => M end.
Definition xtx_bound (M : Z) (ops : list xop) : Z := fold_left xop_bound ops M.
Definition xhist_bound (M : Z) (hs : xhistory) : Z := fold_left xtx_bound hs M.

Definition embed_xhist (hs : hhistory) : xhistory := map (map XOp) hs.
