(* C05 - proofs about Links/SetLinksMerge.v: the sorted merge of SetLinks computes, for every
   strictly sorted row list and every requested list, a diff whose application leaves exactly
   the requested set; lifted to the state: SetLinks leaves exactly the requested set on this
   side and adjusts the other side accordingly. *)
From Coq Require Import List NArith ZArith Bool Btauto Sorted Lia.
From Storage Require Import Base.Bytes Links.StrOrder Links.LinkModel Links.LinkModelProofs Links.SetLinksMerge.
Import ListNotations.
Local Open Scope nat_scope.

Definition sorted_le (l : list id) : Prop := StronglySorted str_le l.
Definition sorted_lt (l : list id) : Prop := StronglySorted str_lt l.

(* ---- sort.Strings -------------------------------------------------------------------------- *)

Lemma insert_sorted_In : forall k l x, In x (insert_sorted k l) <-> x = k \/ In x l.
Proof.
  intros k l x. induction l as [|h t IH]; simpl.
  - intuition congruence.
  - destruct (str_leb k h); simpl; rewrite ?IH; intuition congruence.
Qed.

Lemma sort_ids_In : forall l x, In x (sort_ids l) <-> In x l.
Proof.
  induction l as [|h t IH]; intros x; simpl; [tauto|].
  rewrite insert_sorted_In, IH. intuition congruence.
Qed.

Lemma insert_sorted_sorted : forall k l, sorted_le l -> sorted_le (insert_sorted k l).
Proof.
  intros k l. induction l as [|h t IH]; simpl; intros S.
  - constructor; constructor.
  - apply StronglySorted_inv in S. destruct S as [St Hh].
    destruct (str_leb k h) eqn:E.
    + constructor; [constructor; assumption|]. constructor; [apply str_leb_le; exact E|].
      rewrite Forall_forall in *. intros y Hy. eapply str_le_trans; [apply str_leb_le; exact E | apply Hh; exact Hy].
    + constructor; [apply IH; exact St|].
      rewrite Forall_forall in *. intros y Hy. apply insert_sorted_In in Hy. destruct Hy as [->|Hy].
      * apply str_leb_total; exact E.
      * apply Hh; exact Hy.
Qed.

Lemma sort_ids_sorted : forall l, sorted_le (sort_ids l).
Proof. induction l as [|h t IH]; simpl; [constructor | apply insert_sorted_sorted; exact IH]. Qed.

Lemma sorted_le_app : forall l1 l2, sorted_le (l1 ++ l2) ->
  sorted_le l2 /\ forall x y, In x l1 -> In y l2 -> str_le x y.
Proof.
  induction l1 as [|h t IH]; simpl; intros l2 S.
  - split; [exact S | intros x y []].
  - apply StronglySorted_inv in S. destruct S as [St Hh]. destruct (IH _ St) as [S2 Hle].
    split; [exact S2|]. intros x y [<-|Hx] Hy.
    + rewrite Forall_forall in Hh. apply Hh. apply in_or_app. right. exact Hy.
    + apply Hle; assumption.
Qed.

(* ---- the duplicate skipping loop -------------------------------------------------------------- *)

Lemma skip_dups_split : forall c keys, exists dups, keys = dups ++ skip_dups c keys /\ Forall (eq c) dups.
Proof.
  intros c keys. induction keys as [|k t IH]; simpl.
  - exists []. split; [reflexivity | constructor].
  - destruct (id_eqb_spec k c) as [->|N].
    + destruct IH as (d & E & F). exists (c :: d). split; [simpl; f_equal; exact E | constructor; [reflexivity | exact F]].
    + exists []. split; [reflexivity | constructor].
Qed.

Lemma skip_dups_length : forall c keys, length (skip_dups c keys) <= length keys.
Proof.
  intros c keys. induction keys as [|k t IH]; simpl; [lia|].
  destruct (id_eqb k c); simpl; lia.
Qed.

(* ---- the inner loop: what one cursor row consumes ----------------------------------------------- *)

Lemma merge_row_spec : forall fuel row keys toAdd, length keys <= fuel ->
  match merge_row fuel row keys toAdd with
  | (k1, a1, r) =>
      exists consumed,
        keys = consumed ++ (match r with RowMatched => row :: k1 | _ => k1 end) /\
        Forall (fun x => str_lt x row) consumed /\
        (forall x, In x a1 <-> In x toAdd \/ In x consumed) /\
        match r with
        | RowMatched => True
        | RowRemoved => exists c rest, k1 = c :: rest /\ str_lt row c
        | RowUnhandled => k1 = []
        | RowNoFuel => False
        end
  end.
Proof.
  induction fuel as [|f IH]; intros row keys toAdd Hlen; destruct keys as [|compare rest]; simpl.
  - exists []; simpl; split; [reflexivity|]; split; [constructor|]; split; [intros x; tauto | reflexivity].
  - simpl in Hlen. lia.
  - exists []; simpl; split; [reflexivity|]; split; [constructor|]; split; [intros x; tauto | reflexivity].
  - destruct (str_cmp compare row) eqn:C.
    + apply str_cmp_eq in C. subst compare.
      exists []; simpl; split; [reflexivity|]; split; [constructor|]; split; [intros x; tauto | exact I].
    + assert (Hl : length (skip_dups compare rest) <= f).
      { pose proof (skip_dups_length compare rest). simpl in Hlen. lia. }
      specialize (IH row (skip_dups compare rest) (toAdd ++ [compare]) Hl).
      destruct (merge_row f row (skip_dups compare rest) (toAdd ++ [compare])) as [[k1 a1] r].
      destruct IH as (consumed & Ek & Fc & Ha & Hr).
      destruct (skip_dups_split compare rest) as (dups & Ed & Fd).
      exists (compare :: dups ++ consumed). split; [|split; [|split]].
      * simpl. f_equal. rewrite <- app_assoc, <- Ek. exact Ed.
      * constructor; [exact C|]. apply Forall_app. split; [|exact Fc].
        rewrite Forall_forall in *. intros x Hx. rewrite <- (Fd x Hx). exact C.
      * intros x. rewrite Ha, in_app_iff. simpl. rewrite in_app_iff.
        rewrite Forall_forall in Fd. split.
        -- intros [[H|[H|[]]]|H]; auto.
        -- intros [H|[H|[H|H]]]; auto; apply Fd in H; auto.
      * exact Hr.
    + exists []; simpl; split; [reflexivity|]; split; [constructor|]; split; [intros x; tauto|].
      exists compare, rest. split; [reflexivity|]. apply str_cmp_lt_gt. exact C.
Qed.

(* ---- the outer loop ------------------------------------------------------------------------------- *)

Lemma merge_rows_spec : forall rws keys toAdd toRemove, sorted_lt rws -> sorted_le keys ->
  exists k' ta tr, merge_rows rws keys toAdd toRemove = Some (k', ta, tr) /\
    (forall x, In x tr <-> In x toRemove \/ (In x rws /\ ~ In x keys)) /\
    (forall x, In x (ta ++ k') -> In x toAdd \/ In x keys) /\
    (forall x, In x keys -> In x rws \/ In x (ta ++ k')) /\
    (forall x, In x toAdd -> In x ta).
Proof.
  induction rws as [|row rws' IH]; intros keys toAdd toRemove Sr Sk.
  - exists keys, toAdd, toRemove. simpl. split; [reflexivity|]. repeat split.
    + intros H; left; exact H.
    + intros [H|[[] _]]; exact H.
    + intros x H. apply in_app_or in H. exact H.
    + intros x H. right. apply in_or_app. right. exact H.
    + auto.
  - simpl. pose proof (merge_row_spec (length keys) row keys toAdd (le_n _)) as M.
    destruct (merge_row (length keys) row keys toAdd) as [[k1 a1] r].
    destruct M as (consumed & Ek & Fc & Ha & Hr).
    apply StronglySorted_inv in Sr. destruct Sr as [Sr' Hrow].
    rewrite Forall_forall in Hrow, Fc.
    assert (Hcase : (r = RowMatched /\ keys = consumed ++ row :: k1) \/
                    ((r = RowRemoved \/ r = RowUnhandled) /\ ~ In row keys /\ keys = consumed ++ k1)).
    { destruct r; [left; split; [reflexivity | exact Ek] | right | right | contradiction].
      - split; [left; reflexivity|]. split; [|exact Ek].
        destruct Hr as (c & rest & -> & Hc). rewrite Ek in Sk.
        destruct (sorted_le_app _ _ Sk) as [S2 _]. apply StronglySorted_inv in S2. destruct S2 as [_ Hcr].
        rewrite Forall_forall in Hcr. rewrite Ek. intros Hin. apply in_app_or in Hin. destruct Hin as [Hin|[Hin|Hin]].
        + apply Fc in Hin. exact (str_cmp_lt_irrefl _ Hin).
        + subst c. exact (str_cmp_lt_irrefl _ Hc).
        + apply Hcr in Hin. pose proof (str_lt_le_trans _ _ _ Hc Hin) as H. exact (str_cmp_lt_irrefl _ H).
      - split; [right; reflexivity|]. split; [|exact Ek]. subst k1. rewrite Ek, app_nil_r.
        intros Hin. apply Fc in Hin. exact (str_cmp_lt_irrefl _ Hin). }
    destruct Hcase as [(-> & Ek') | (Hr' & Hnot & Ek')].
    + (* compare = row: the row stays *)
      rewrite Ek' in Sk. destruct (sorted_le_app _ _ Sk) as [S2 _].
      apply StronglySorted_inv in S2. destruct S2 as [Sk1 _].
      destruct (IH k1 a1 toRemove Sr' Sk1) as (k' & ta & tr & E & Htr & Hb & Hc & Hd).
      exists k', ta, tr. split; [exact E|]. repeat split.
      * intros H. apply Htr in H. destruct H as [H|[H1 H2]]; [left; exact H|]. right. split; [right; exact H1|].
        rewrite Ek'. intros Hin. apply in_app_or in Hin. destruct Hin as [Hin|[Hin|Hin]].
        -- apply Fc in Hin. apply Hrow in H1. exact (str_lt_asym _ _ Hin H1).
        -- subst x. apply Hrow in H1. exact (str_cmp_lt_irrefl _ H1).
        -- exact (H2 Hin).
      * intros [H|[[H|H] Hn]]; apply Htr.
        -- left; exact H.
        -- exfalso. subst x. apply Hn. rewrite Ek'. apply in_or_app. right. left. reflexivity.
        -- right. split; [exact H|]. intros Hin. apply Hn. rewrite Ek'. apply in_or_app. right. right. exact Hin.
      * intros x H. apply Hb in H. destruct H as [H|H].
        -- apply Ha in H. destruct H as [H|H]; [left; exact H|]. right. rewrite Ek'. apply in_or_app. left. exact H.
        -- right. rewrite Ek'. apply in_or_app. right. right. exact H.
      * intros x H. rewrite Ek' in H. apply in_app_or in H. destruct H as [H|[H|H]].
        -- right. apply in_or_app. left. apply Hd. apply Ha. right. exact H.
        -- left. left. exact H.
        -- apply Hc in H. destruct H as [H|H]; [left; right; exact H | right; exact H].
      * intros x H. apply Hd. apply Ha. left. exact H.
    + (* the row is removed *)
      assert (Sk1 : sorted_le k1). { rewrite Ek' in Sk. apply (sorted_le_app _ _ Sk). }
      destruct (IH k1 a1 (toRemove ++ [row]) Sr' Sk1) as (k' & ta & tr & E & Htr & Hb & Hc & Hd).
      exists k', ta, tr. split; [destruct Hr' as [-> | ->]; exact E|]. repeat split.
      * intros H. apply Htr in H. destruct H as [H|[H1 H2]].
        -- apply in_app_or in H. destruct H as [H|[<-|[]]]; [left; exact H|]. right. split; [left; reflexivity | exact Hnot].
        -- right. split; [right; exact H1|]. rewrite Ek'. intros Hin. apply in_app_or in Hin. destruct Hin as [Hin|Hin].
           ++ apply Fc in Hin. apply Hrow in H1. exact (str_lt_asym _ _ Hin H1).
           ++ exact (H2 Hin).
      * intros [H|[[H|H] Hn]]; apply Htr.
        -- left. apply in_or_app. left. exact H.
        -- left. apply in_or_app. right. left. exact H.
        -- right. split; [exact H|]. intros Hin. apply Hn. rewrite Ek'. apply in_or_app. right. exact Hin.
      * intros x H. apply Hb in H. destruct H as [H|H].
        -- apply Ha in H. destruct H as [H|H]; [left; exact H|]. right. rewrite Ek'. apply in_or_app. left. exact H.
        -- right. rewrite Ek'. apply in_or_app. right. exact H.
      * intros x H. rewrite Ek' in H. apply in_app_or in H. destruct H as [H|H].
        -- right. apply in_or_app. left. apply Hd. apply Ha. right. exact H.
        -- apply Hc in H. destruct H as [H|H]; [left; right; exact H | right; exact H].
      * intros x H. apply Hd. apply Ha. left. exact H.
Qed.

(* the diff of SetLinks, for EVERY strictly sorted current row list and EVERY requested list:
   never out of fuel; only current rows are removed; removing toRemove and adding toAdd leaves
   exactly the requested ids *)
Lemma set_links_diff_exact_lemma : forall rws keys, sorted_lt rws ->
  exists toAdd toRemove, set_links_diff rws keys = Some (toAdd, toRemove) /\
    (forall x, In x toRemove -> In x rws) /\
    (forall x, In x toAdd -> In x keys) /\
    (forall x, (In x rws /\ ~ In x toRemove) \/ In x toAdd <-> In x keys).
Proof.
  intros rws keys Sr. unfold set_links_diff.
  destruct (merge_rows_spec rws (sort_ids keys) [] [] Sr (sort_ids_sorted keys)) as (k' & ta & tr & E & Htr & Hb & Hc & _).
  rewrite E. exists (ta ++ k'), tr. split; [reflexivity|].
  assert (Hb' : forall x, In x (ta ++ k') -> In x keys).
  { intros x H. apply Hb in H. destruct H as [[]|H]. apply sort_ids_In. exact H. }
  split; [|split; [exact Hb'|]].
  - intros x H. apply Htr in H. destruct H as [[]|[H _]]. exact H.
  - intros x. split.
    + intros [[H1 H2]|H]; [|apply Hb'; exact H].
      destruct (mem x keys) eqn:M; [apply mem_In; exact M|]. exfalso. apply H2. apply Htr. right.
      split; [exact H1|]. rewrite sort_ids_In. apply mem_false. exact M.
    + intros H. apply sort_ids_In in H. destruct (Hc x H) as [H1|H1]; [|right; exact H1].
      left. split; [exact H1|]. intros H2. apply Htr in H2. destruct H2 as [[]|[_ H2]]. exact (H2 H).
Qed.

(* ---- SetLinks on the state ---------------------------------------------------------------------- *)

Definition univ_ok (U : univ) : Prop := sorted_lt (fst U) /\ sorted_lt (snd U).

Lemma sorted_lt_filter : forall f l, sorted_lt l -> sorted_lt (filter f l).
Proof.
  intros f l. induction l as [|h t IH]; simpl; intros S; [constructor|].
  apply StronglySorted_inv in S. destruct S as [St Hh]. destruct (f h).
  - constructor; [apply IH; exact St|]. rewrite Forall_forall in *. intros x Hx. apply filter_In in Hx. apply Hh. tauto.
  - apply IH. exact St.
Qed.

Lemma rows_sorted : forall U s sd a, univ_ok U -> sorted_lt (rows U s sd a).
Proof. intros U s sd a [H1 H2]. unfold rows. apply sorted_lt_filter. destruct sd; simpl; assumption. Qed.

Lemma remove_links_done : forall sd a keys s, pres s sd a = true -> remove_links sd a keys s = Done (unlink_all sd a keys s).
Proof. intros. unfold remove_links. rewrite H. reflexivity. Qed.

(* SetLinks never runs out of fuel, whatever the state and the arguments *)
Lemma set_links_fuel : forall U sd a keys s, univ_ok U -> set_links U sd a keys s <> NoFuel.
Proof.
  intros U sd a keys s HU. unfold set_links. destruct (pres s sd a) eqn:Ha; [|discriminate].
  destruct (merge_rows_spec (rows U s sd a) (sort_ids keys) [] [] (rows_sorted U s sd a HU) (sort_ids_sorted keys))
    as (k' & ta & tr & E & _). rewrite E. rewrite (remove_links_done _ _ _ _ Ha). simpl.
  unfold add_links. destruct (unlink_all_spec sd a tr s) as (Hp & _). rewrite Hp, Ha.
  pose proof (link_all_spec sd a (ta ++ k') (unlink_all sd a tr s)) as L.
  destruct (link_all sd a (ta ++ k') (unlink_all sd a tr s)); [discriminate | discriminate | contradiction].
Qed.

(* every requested id exists: SetLinks succeeds and leaves exactly the requested set in the
   bucket of a; the bucket of every x on the other side holds a exactly when x was requested;
   nothing else changes *)
Lemma set_links_spec : forall U s sd a keys, univ_ok U -> linv U s -> pres s sd a = true ->
  (forall k, In k keys -> pres s (other sd) k = true) ->
  exists s', set_links U sd a keys s = Done s' /\ pres s' = pres s /\ rc s' = rc s /\
    forall sd' x y, lnk s' sd' x y =
      if at2 sd a sd' x then mem y keys
      else if at2 (other sd) a sd' y then mem x keys
      else lnk s sd' x y.
Proof.
  intros U s sd a keys HU I Ha Hk. unfold set_links. rewrite Ha.
  pose proof (set_links_diff_exact_lemma (rows U s sd a) keys (rows_sorted U s sd a HU)) as D.
  unfold set_links_diff in D. destruct D as (add & tr & E & Htr & Hadd & Hex).
  destruct (merge_rows (rows U s sd a) (sort_ids keys) [] []) as [[[k' ta] tr']|]; [|discriminate].
  inversion E; subst add tr'; clear E.
  rewrite (remove_links_done _ _ _ _ Ha). simpl.
  destruct (unlink_all_spec sd a tr s) as (Hp1 & Hr1 & Hl1).
  unfold add_links. rewrite Hp1, Ha.
  pose proof (link_all_spec sd a (ta ++ k') (unlink_all sd a tr s)) as L.
  destruct (link_all sd a (ta ++ k') (unlink_all sd a tr s)) as [s'| |].
  - destruct L as (_ & Hp2 & Hr2 & Hl2). exists s'. split; [reflexivity|].
    split; [congruence|]. split; [congruence|].
    intros sd' x y. rewrite Hl2, Hl1.
    (* the requested set as a boolean: (row && not removed) || added *)
    assert (Hset : forall z, lnk s sd a z && negb (mem z tr) || mem z (ta ++ k') = mem z keys).
    { intros z. destruct (mem z keys) eqn:M.
      - apply mem_In in M. apply Hex in M. destruct M as [[H1 H2]|H].
        + apply (rows_In_inv _ _ I) in H1. apply mem_false in H2. rewrite H1, H2. reflexivity.
        + apply mem_In in H. rewrite H. btauto.
      - apply mem_false in M.
        destruct (mem z (ta ++ k')) eqn:M2.
        + exfalso. apply M. apply Hex. right. apply mem_In. exact M2.
        + destruct (lnk s sd a z) eqn:L1; [|reflexivity]. destruct (mem z tr) eqn:M3; [reflexivity|].
          exfalso. apply M. apply Hex. left. split; [apply (rows_In_inv _ _ I); exact L1 | apply mem_false; exact M3]. }
    unfold at2. destruct sd, sd'; simpl.
    + destruct (id_eqb_spec x a) as [->|N]; simpl; [|btauto]. rewrite <- Hset. btauto.
    + destruct (id_eqb_spec y a) as [->|N]; simpl; [|btauto]. rewrite <- Hset.
      pose proof (linv_sym_eq _ _ I true a x) as Hs. simpl in Hs. rewrite Hs.
      destruct (lnk s true a x) eqn:L1; simpl; [|btauto].
      pose proof (linv_peer_pres _ _ I _ _ _ L1) as Hx. simpl in Hx. rewrite Hx. btauto.
    + destruct (id_eqb_spec y a) as [->|N]; simpl; [|btauto]. rewrite <- Hset.
      pose proof (linv_sym_eq _ _ I false a x) as Hs. simpl in Hs. rewrite Hs.
      destruct (lnk s false a x) eqn:L1; simpl; [|btauto].
      pose proof (linv_peer_pres _ _ I _ _ _ L1) as Hx. simpl in Hx. rewrite Hx. btauto.
    + destruct (id_eqb_spec x a) as [->|N]; simpl; [|btauto]. rewrite <- Hset. btauto.
  - exfalso. destruct L as (k & Hin & Hf). rewrite Hp1 in Hf. rewrite (Hk k (Hadd k Hin)) in Hf. discriminate.
  - contradiction.
Qed.

(* some requested id does not exist: SetLinks fails *)
Lemma set_links_missing : forall U s sd a keys, univ_ok U -> linv U s ->
  (exists k, In k keys /\ pres s (other sd) k = false) -> set_links U sd a keys s = Failed.
Proof.
  intros U s sd a keys HU I (k & Hin & Hf). unfold set_links.
  destruct (pres s sd a) eqn:Ha; [|reflexivity].
  pose proof (set_links_diff_exact_lemma (rows U s sd a) keys (rows_sorted U s sd a HU)) as D.
  unfold set_links_diff in D. destruct D as (add & tr & E & Htr & Hadd & Hex).
  destruct (merge_rows (rows U s sd a) (sort_ids keys) [] []) as [[[k' ta] tr']|]; [|discriminate].
  inversion E; subst add tr'; clear E.
  rewrite (remove_links_done _ _ _ _ Ha). simpl.
  destruct (unlink_all_spec sd a tr s) as (Hp1 & _).
  unfold add_links. rewrite Hp1, Ha.
  pose proof (link_all_spec sd a (ta ++ k') (unlink_all sd a tr s)) as L.
  destruct (link_all sd a (ta ++ k') (unlink_all sd a tr s)) as [s'| |]; [|reflexivity|contradiction].
  exfalso. destruct L as (Hall & _). rewrite Hp1 in Hall.
  apply Hex in Hin. destruct Hin as [[H1 _]|H].
  - apply (rows_In_inv _ _ I) in H1. apply (linv_peer_pres _ _ I) in H1. congruence.
  - apply Hall in H. congruence.
Qed.

Lemma linv_set_links : forall U s sd a keys s', linv U s -> set_links U sd a keys s = Done s' -> linv U s'.
Proof.
  intros U s sd a keys s' I. unfold set_links. destruct (pres s sd a) eqn:Ha; [|discriminate].
  destruct (merge_rows (rows U s sd a) (sort_ids keys) [] []) as [[[k' ta] tr]|]; [|discriminate].
  rewrite (remove_links_done _ _ _ _ Ha). simpl. unfold add_links.
  destruct (unlink_all_spec sd a tr s) as (Hp1 & _). rewrite Hp1, Ha. intros E.
  eapply linv_link_all; [apply linv_unlink_all; exact I | rewrite Hp1; exact Ha | exact E].
Qed.
