(* C05 - link collections owned by stores of a parent / child hierarchy.  Model only; proofs are in
   HierProofs.v.

   LinkMachine.v has one root store per side.  Here each side (A = true, B = false) is a FAMILY of
   stores: the root store (level 0) and its child stores (levels 1 .. n, StoreDefinition.Parent = the
   root; [kids] says for each child whether it is Extended()).  An entity lives in the entity bucket of
   the root store; a child store sees it when the sub-bucket <child base path> exists below it
   (BaseStore.GetEntityBucket), which is the case exactly when the entity was created through that
   child store (BaseStore.Create: getOrCreateEntityBucket creates the root bucket and the child path).

   A [topo] lists the collection PAIRS: pair p joins the store of level [lvl p A] of family A with the
   store of level [lvl p B] of family B by a link collection and a ref-counted link collection,
   declared on both stores like in LinkMachine.v.  The buckets of pair p are the cell [hl h p] /
   [hr h p]; the entities a collection sees are those present in ITS store ([view]), because
   getFieldBucket and LinkedSetSymbol.AddLink go through field.GetStore().GetEntityBucket.

   Which collections exist is part of the topology ([kinds]): for pair p its two stores register a
   LinkCollection ([has_plain]), a RefCountedLinkCollection ([has_rc]), both or neither.  A store may
   therefore own only ref-counted collections (store.links empty), only plain ones, both, several of one
   kind, or none.  An operation of a collection that was not registered is refused.

   Every link / count operation is the operation of LinkMachine.v on the view of its pair.  Create
   and delete are the hierarchy-aware operations of boltz/store_crud.go:
     Create through store (sd, lv): error when the id is present in that store or in its parent store;
       creates the root bucket and the child path.
     DeleteById through store (sd, lv): a child store forwards to its parent; the root store looks the
       entity up (not found error), then for every child store strategy, in registration order,
       processDeleteConstraints of the child: its FindById (an Extended child finds every entity of
       the parent, getEntityBucketForLoad) and, when found, cleanupLinks of THAT child store - every
       link collection the store registered (range store.links), then every ref-counted link collection
       it registered (range store.refCountedLinks; two independent loops), EntityDeleted; then
       processDeleteConstraints of the root store itself (cleanupLinks of the root store); then
       DeleteEntity removes the root bucket with everything below it (all child sub-buckets, all link
       and count buckets of every level).
   EntityDeleted fails when the entity is not present in the collection's store (getFieldBucket); this
   happens exactly for an Extended child store that owns a collection and an entity that was created
   through another store of the family ([ext_blocked]; recorded in design/C05.md). *)
From Coq Require Import List NArith ZArith Bool Arith.
From Storage Require Import Base.Bytes Links.LinkModel Links.SetLinksMerge Links.RefCount Links.LinkMachine.
Import ListNotations.
Local Open Scope nat_scope.

Record topo := mkTopo {
  kids : side -> list bool;      (* child stores of the root store of a side; true = Extended() *)
  pairs : list (nat * nat);      (* pair p : (level of its store in family A, level in family B) *)
  kinds : list (bool * bool) }.  (* pair p : (its two stores register a LinkCollection for it, ... a
                                    RefCountedLinkCollection for it); a missing entry = both *)

Definition nkids (T : topo) (sd : side) : nat := length (kids T sd).
Definition npairs (T : topo) : nat := length (pairs T).
Definition lvl (T : topo) (p : nat) (sd : side) : nat :=
  let '(la, lb) := nth p (pairs T) (0, 0) in if sd then la else lb.
Definition is_ext (T : topo) (sd : side) (k : nat) : bool :=
  match k with O => false | S j => nth j (kids T sd) false end.
Definition level_ok (T : topo) (sd : side) (k : nat) : bool := k <=? nkids T sd.

(* which kinds of collection the two stores of pair p register for it (store.links /
   store.refCountedLinks of BOTH stores: AddLinkCollection / AddRefCountedLinkCollection are called
   on both sides or on neither).  A store may thus own only plain collections, only ref-counted
   ones, both, several of one kind, or none. *)
Definition has_plain (T : topo) (p : nat) : bool := fst (nth p (kinds T) (true, true)).
Definition has_rc (T : topo) (p : nat) : bool := snd (nth p (kinds T) (true, true)).

(* presence per store, and per pair the link and the count buckets of the entities of both sides *)
Record hstate := mkHS {
  hp : side -> nat -> id -> bool;
  hl : nat -> side -> id -> id -> bool;
  hr : nat -> side -> id -> id -> option Z }.

Definition hinit : hstate :=
  mkHS (fun _ _ _ => false) (fun _ _ _ _ => false) (fun _ _ _ _ => None).

(* what the two collections of pair p see: the entities of their own stores, their own buckets *)
Definition view (T : topo) (p : nat) (h : hstate) : lstate :=
  mkLS (fun sd x => hp h sd (lvl T p sd) x) (hl h p) (hr h p).

(* the buckets of pair p after an operation of its collections *)
Definition put (p : nat) (s : lstate) (h : hstate) : hstate :=
  mkHS (hp h) (fun q => if q =? p then lnk s else hl h q) (fun q => if q =? p then rc s else hr h q).

Inductive hres := HDone (h : hstate) | HFailed | HNoFuel.
Definition hbind (r : hres) (f : hstate -> hres) : hres :=
  match r with HDone h => f h | HFailed => HFailed | HNoFuel => HNoFuel end.

Definition lift (p : nat) (r : res) (h : hstate) : hres :=
  match r with Done s => HDone (put p s h) | Failed => HFailed | NoFuel => HNoFuel end.

(* run a collection-level function of pair p *)
Definition cell_apply (T : topo) (f : lstate -> res) (p : nat) (h : hstate) : hres :=
  lift p (f (view T p h)) h.

Fixpoint hfold (f : nat -> hstate -> hres) (ps : list nat) (h : hstate) : hres :=
  match ps with
  | [] => HDone h
  | p :: t => hbind (f p h) (hfold f t)
  end.

(* ---- create ------------------------------------------------------------------------------------ *)

(* store.Create through store (sd, lv): IsEntityPresent in the store, then in the parent store *)
Definition hcreate (T : topo) (sd : side) (lv : nat) (x : id) (h : hstate) : hres :=
  if negb (level_ok T sd lv) then HFailed
  else if hp h sd lv x || hp h sd 0 x then HFailed
  else HDone (mkHS (fun sd' k x' => if at2 sd x sd' x' && ((k =? lv) || (k =? 0)) then true else hp h sd' k x')
                   (hl h) (hr h)).

(* ---- delete ------------------------------------------------------------------------------------ *)

(* the pairs whose collections of side sd are registered on the store of level k *)
Definition store_pairs (T : topo) (sd : side) (k : nat) : list nat :=
  filter (fun p => lvl T p sd =? k) (seq 0 (npairs T)).

(* store.links / store.refCountedLinks of store (sd, k) *)
Definition link_pairs (T : topo) (sd : side) (k : nat) : list nat := filter (has_plain T) (store_pairs T sd k).
Definition rc_pairs (T : topo) (sd : side) (k : nat) : list nat := filter (has_rc T) (store_pairs T sd k).
(* every collection the store owns *)
Definition owned (T : topo) (sd : side) (k : nat) : list nat := link_pairs T sd k ++ rc_pairs T sd k.

(* cleanupLinks of store (sd, k): `for _, val := range store.links` EntityDeleted, then
   `for _, val := range store.refCountedLinks` EntityDeleted - two independent loops: a store without
   plain collections still runs the second one *)
Definition cleanup_links (T : topo) (U : univ) (sd : side) (k : nat) (x : id) (h : hstate) : hres :=
  hbind (hfold (cell_apply T (entity_deleted U sd x)) (link_pairs T sd k) h)
        (hfold (cell_apply T (rc_entity_deleted U sd x)) (rc_pairs T sd k)).

(* FindById of child store k in processDeleteConstraints *)
Definition child_found (T : topo) (h : hstate) (sd : side) (k : nat) (x : id) : bool :=
  hp h sd k x || is_ext T sd k.

Fixpoint children_cleanup (T : topo) (U : univ) (sd : side) (x : id) (ks : list nat) (h : hstate) : hres :=
  match ks with
  | [] => HDone h
  | k :: t =>
      if child_found T h sd k x
      then hbind (cleanup_links T U sd k x h) (children_cleanup T U sd x t)
      else children_cleanup T U sd x t h
  end.

(* bucket.DeleteEntity(id) on the entities bucket of the root store *)
Definition hdrop (sd : side) (x : id) (h : hstate) : hstate :=
  mkHS (fun sd' k x' => if at2 sd x sd' x' then false else hp h sd' k x')
       (fun p sd' a b => if at2 sd x sd' a then false else hl h p sd' a b)
       (fun p sd' a b => if at2 sd x sd' a then None else hr h p sd' a b).

Definition hdelete (T : topo) (U : univ) (sd : side) (lv : nat) (x : id) (h : hstate) : hres :=
  if negb (level_ok T sd lv) then HFailed
  else if negb (hp h sd 0 x) then HFailed
  else
    hbind (children_cleanup T U sd x (seq 1 (nkids T sd)) h) (fun h1 =>
    hbind (cleanup_links T U sd 0 x h1) (fun h2 =>
    HDone (hdrop sd x h2))).

(* an Extended child store that owns a collection refuses the delete of an entity it has no data for *)
Definition ext_blocked (T : topo) (h : hstate) (sd : side) (x : id) : bool :=
  existsb (fun k => is_ext T sd k && negb (hp h sd k x) &&
                    match owned T sd k with [] => false | _ => true end)
          (seq 1 (nkids T sd)).

(* ---- operations, transactions, histories --------------------------------------------------------- *)

Inductive hop :=
| HCreate (sd : side) (lv : nat) (x : id)
| HDelete (sd : side) (lv : nat) (x : id)
| HLink (p : nat) (o : op).     (* a link / count operation of LinkMachine.op on the collections of pair p *)

Definition is_link_op (o : op) : bool :=
  match o with OCreate _ _ | ODelete _ _ => false | _ => true end.
Definition is_rc_op (o : op) : bool :=
  match o with OIncr _ _ _ | ODecr _ _ _ | OSetCount _ _ _ _ => true | _ => false end.
(* the collection the operation is a method of exists (was registered) for pair p *)
Definition op_registered (T : topo) (p : nat) (o : op) : bool :=
  if is_rc_op o then has_rc T p else has_plain T p.

Definition hstep (T : topo) (U : univ) (o : hop) (h : hstate) : hres :=
  match o with
  | HCreate sd lv x => hcreate T sd lv x h
  | HDelete sd lv x => hdelete T U sd lv x h
  | HLink p o => if (p <? npairs T) && is_link_op o && op_registered T p o then cell_apply T (step U o) p h else HFailed
  end.

Fixpoint run_hops (T : topo) (U : univ) (ops : list hop) (h : hstate) : hres :=
  match ops with
  | [] => HDone h
  | o :: t => hbind (hstep T U o h) (run_hops T U t)
  end.

Fixpoint hfirst_failure (T : topo) (U : univ) (ops : list hop) (h : hstate) (i : nat) : option nat :=
  match ops with
  | [] => None
  | o :: t => match hstep T U o h with
              | HDone h' => hfirst_failure T U t h' (S i)
              | _ => Some i
              end
  end.

Definition run_htx (T : topo) (U : univ) (ops : list hop) (h : hstate) : bool * hstate :=
  match run_hops T U ops h with
  | HDone h' => (true, h')
  | _ => (false, h)
  end.

Definition hhistory := list (list hop).

Fixpoint run_hhist (T : topo) (U : univ) (hs : hhistory) (h : hstate) : hstate :=
  match hs with
  | [] => h
  | tx :: t => run_hhist T U t (snd (run_htx T U tx h))
  end.

(* ---- guards ------------------------------------------------------------------------------------------ *)

Definition hop_in (U : univ) (o : hop) : Prop :=
  match o with HCreate sd _ x => In x (uni U sd) | _ => True end.
Definition hhist_in (U : univ) (hs : hhistory) : Prop := Forall (Forall (hop_in U)) hs.

Definition hop_count_ok (o : hop) : Prop :=
  match o with HLink _ o => op_count_ok o | _ => True end.
Definition hhist_counts_ok (hs : hhistory) : Prop := Forall (Forall hop_count_ok) hs.

Definition hop_bound (M : Z) (o : hop) : Z :=
  match o with HLink _ o => op_bound M o | _ => M end.
Definition htx_bound (M : Z) (ops : list hop) : Z := fold_left hop_bound ops M.
Definition hhist_bound (M : Z) (hs : hhistory) : Z := fold_left htx_bound hs M.

(* the flat machine of LinkMachine.v is the hierarchy without child stores and with one pair *)
Definition flat_topo : topo := mkTopo (fun _ => []) [(0, 0)] [(true, true)].
Definition embed_op (o : op) : hop :=
  match o with
  | OCreate sd x => HCreate sd 0 x
  | ODelete sd x => HDelete sd 0 x
  | o => HLink 0 o
  end.
Definition embed_hist (h : history) : hhistory := map (map embed_op) h.
