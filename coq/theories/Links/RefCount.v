(* C05 - model of boltz/link_collection_rc.go and of the link-count functions of
   boltz/typed_bucket.go (ref-counted link collections, int32 payload).  Model only. *)
From Coq Require Import List NArith ZArith Bool.
From Storage Require Import Base.Bytes Links.LinkModel.
Import ListNotations.
Open Scope Z_scope.

(* int32(x) of a Go int: two's complement wrap-around *)
Definition wrap32 (z : Z) : Z := ((z + 2147483648) mod 4294967296) - 2147483648.
Definition max_int32 : Z := 2147483647.

(* ---- TypedBucket link-count functions on the rc bucket of entity a of side sd ---------- *)

(* IncrementLinkCount: next = 1, or current + 1 (int32 arithmetic); returns next *)
Definition tb_incr (s : lstate) (sd : side) (a k : id) : Z * lstate :=
  let next := match rc s sd a k with Some c => wrap32 (c + 1) | None => 1 end in
  (next, set_rc s sd a k (Some next)).

(* DecrementLinkCount: absent => -1 and no write; next = current - 1, stored when > 0,
   the key is deleted otherwise; returns next *)
Definition tb_decr (s : lstate) (sd : side) (a k : id) : Z * lstate :=
  match rc s sd a k with
  | Some c =>
      let next := wrap32 (c - 1) in
      (next, if 0 <? next then set_rc s sd a k (Some next) else set_rc s sd a k None)
  | None => (-1, s)
  end.

(* SetLinkCount(count = n): count == 0 deletes (or leaves absent), otherwise int32(count) is stored *)
Definition tb_set (s : lstate) (sd : side) (a k : id) (n : Z) : lstate :=
  match rc s sd a k with
  | None => if n =? 0 then s else set_rc s sd a k (Some (wrap32 n))
  | Some _ => if n =? 0 then set_rc s sd a k None else set_rc s sd a k (Some (wrap32 n))
  end.

(* ---- RefCountedLinkedSetSymbol (the "other field"), on the entities of side sd ---------- *)
Definition rsym_set (sd : side) (x l : id) (n : Z) (s : lstate) : res :=
  if pres s sd x then Done (tb_set s sd x l n) else Failed.

Definition rsym_incr (sd : side) (x l : id) (s : lstate) : option (Z * lstate) :=
  if pres s sd x then Some (tb_incr s sd x l) else None.

(* missing entity (or missing bucket): -1, nothing to do *)
Definition rsym_decr (sd : side) (x l : id) (s : lstate) : Z * lstate :=
  if pres s sd x then tb_decr s sd x l else (-1, s).

Definition rsym_unlink (sd : side) (x l : id) (s : lstate) : lstate :=
  if pres s sd x then set_rc s sd x l None else s.

(* ---- rcLinkCollectionImpl of side sd ---------------------------------------------------- *)
Definition rc_set (sd : side) (a k : id) (n : Z) (s : lstate) : res :=
  if pres s sd a then rsym_set (other sd) k a n (tb_set s sd a k n) else Failed.

(* "unexpected mismatch when incrementing reference counts" is an error *)
Definition rc_incr (sd : side) (a k : id) (s : lstate) : res :=
  if pres s sd a then
    let '(nv, s1) := tb_incr s sd a k in
    match rsym_incr (other sd) k a s1 with
    | None => Failed
    | Some (ov, s2) => if nv =? ov then Done s2 else Failed
    end
  else Failed.

Definition rc_decr (sd : side) (a k : id) (s : lstate) : res :=
  if pres s sd a then
    let '(nv, s1) := tb_decr s sd a k in
    let '(ov, s2) := rsym_decr (other sd) k a s1 in
    if nv =? ov then Done s2 else Failed
  else Failed.

Definition is_some {A} (o : option A) : bool := match o with Some _ => true | None => false end.

Definition rc_rows (U : univ) (s : lstate) (sd : side) (a : id) : list id :=
  filter (fun k => is_some (rc s sd a k)) (uni U (other sd)).

(* EntityDeleted: otherField.unlink(k, x) for every row k *)
Fixpoint rc_unlink_peers (sd : side) (x : id) (ks : list id) (s : lstate) : lstate :=
  match ks with
  | [] => s
  | k :: t => rc_unlink_peers sd x t (rsym_unlink (other sd) k x s)
  end.

Definition rc_entity_deleted (U : univ) (sd : side) (x : id) (s : lstate) : res :=
  if pres s sd x then Done (rc_unlink_peers sd x (rc_rows U s sd x) s) else Failed.

(* GetLinkCounts(id = a, key = k) of the collection of side sd: (source, target) *)
Definition get_link_counts (s : lstate) (sd : side) (a k : id) : option Z * option Z :=
  ((if pres s sd a then rc s sd a k else None),
   (if pres s (other sd) k then rc s (other sd) k a else None)).
