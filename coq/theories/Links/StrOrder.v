(* Order facts about Base.Bytes.str_cmp / str_eqb (Go: string <, ==, bytes.Compare).
   Lemmas only; used by the C05 proofs (sorted merge of SetLinks, cursor order). *)
From Coq Require Import List NArith Bool Lia.
From Storage Require Import Base.Bytes.
Import ListNotations.
Local Open Scope N_scope.

Lemma str_eqb_refl : forall a, str_eqb a a = true.
Proof. induction a as [|x a IH]; simpl; auto. rewrite N.eqb_refl, IH. reflexivity. Qed.

Lemma str_eqb_eq : forall a b, str_eqb a b = true <-> a = b.
Proof.
  induction a as [|x a IH]; destruct b as [|y b]; simpl; split; intros H; try reflexivity; try discriminate.
  - apply andb_true_iff in H. destruct H as [H1 H2]. apply N.eqb_eq in H1. apply IH in H2. subst. reflexivity.
  - inversion H; subst. rewrite N.eqb_refl. simpl. apply str_eqb_refl.
Qed.

Lemma str_eqb_spec : forall a b, reflect (a = b) (str_eqb a b).
Proof. intros a b. destruct (str_eqb a b) eqn:E; constructor. - apply str_eqb_eq; assumption. - intros H. apply str_eqb_eq in H. congruence. Qed.

Lemma str_eqb_sym : forall a b, str_eqb a b = str_eqb b a.
Proof. intros a b. destruct (str_eqb_spec a b), (str_eqb_spec b a); congruence. Qed.

Lemma str_cmp_refl : forall a, str_cmp a a = Eq.
Proof. induction a as [|x a IH]; simpl; auto. rewrite N.compare_refl. exact IH. Qed.

Lemma str_cmp_eq : forall a b, str_cmp a b = Eq -> a = b.
Proof.
  induction a as [|x a IH]; destruct b as [|y b]; simpl; intros H; try reflexivity; try discriminate.
  destruct (x ?= y) eqn:C; try discriminate. apply N.compare_eq_iff in C. subst. f_equal. apply IH. exact H.
Qed.

Lemma str_cmp_eq_iff : forall a b, str_cmp a b = Eq <-> a = b.
Proof. intros a b. split. - apply str_cmp_eq. - intros ->. apply str_cmp_refl. Qed.

Lemma str_cmp_antisym : forall a b, str_cmp b a = CompOpp (str_cmp a b).
Proof.
  induction a as [|x a IH]; destruct b as [|y b]; simpl; try reflexivity.
  rewrite (N.compare_antisym x y). destruct (x ?= y); simpl; auto.
Qed.

Lemma str_cmp_lt_gt : forall a b, str_cmp a b = Lt <-> str_cmp b a = Gt.
Proof. intros a b. rewrite (str_cmp_antisym a b). destruct (str_cmp a b); simpl; split; congruence. Qed.

Lemma str_cmp_lt_trans : forall a b c, str_cmp a b = Lt -> str_cmp b c = Lt -> str_cmp a c = Lt.
Proof.
  induction a as [|x a IH]; destruct b as [|y b]; destruct c as [|z c]; simpl; intros H1 H2; try reflexivity; try discriminate.
  destruct (x ?= y) eqn:C1; try discriminate.
  - apply N.compare_eq_iff in C1. subst y. destruct (x ?= z) eqn:C2; try discriminate; auto. eapply IH; eauto.
  - destruct (y ?= z) eqn:C2; try discriminate.
    + apply N.compare_eq_iff in C2. subst z. rewrite C1. reflexivity.
    + assert (x ?= z = Lt) as ->; [|reflexivity]. apply N.compare_lt_iff. apply N.compare_lt_iff in C1, C2. eapply N.lt_trans; eauto.
Qed.

Lemma str_cmp_lt_irrefl : forall a, str_cmp a a <> Lt.
Proof. intros a. rewrite str_cmp_refl. discriminate. Qed.

Definition str_lt (a b : str) : Prop := str_cmp a b = Lt.
Definition str_le (a b : str) : Prop := str_cmp a b <> Gt.

Lemma str_lt_le : forall a b, str_lt a b -> str_le a b.
Proof. unfold str_lt, str_le. intros a b H. rewrite H. discriminate. Qed.

Lemma str_le_cases : forall a b, str_le a b -> a = b \/ str_lt a b.
Proof. unfold str_le, str_lt. intros a b H. destruct (str_cmp a b) eqn:C; [left; apply str_cmp_eq; exact C | right; reflexivity | congruence]. Qed.

Lemma str_le_lt_trans : forall a b c, str_le a b -> str_lt b c -> str_lt a c.
Proof. intros a b c H1 H2. destruct (str_le_cases _ _ H1) as [->|H]; auto. unfold str_lt in *. eapply str_cmp_lt_trans; eauto. Qed.

Lemma str_lt_le_trans : forall a b c, str_lt a b -> str_le b c -> str_lt a c.
Proof. intros a b c H1 H2. destruct (str_le_cases _ _ H2) as [<-|H]; auto. unfold str_lt in *. eapply str_cmp_lt_trans; eauto. Qed.

Lemma str_le_trans : forall a b c, str_le a b -> str_le b c -> str_le a c.
Proof.
  intros a b c H1 H2. destruct (str_le_cases _ _ H1) as [->|H]; auto.
  apply str_lt_le. eapply str_lt_le_trans; eauto.
Qed.

Lemma str_le_refl : forall a, str_le a a.
Proof. intros a. unfold str_le. rewrite str_cmp_refl. discriminate. Qed.

Lemma str_lt_neq : forall a b, str_lt a b -> a <> b.
Proof. unfold str_lt. intros a b H E. subst. rewrite str_cmp_refl in H. discriminate. Qed.

Lemma str_lt_asym : forall a b, str_lt a b -> ~ str_lt b a.
Proof. unfold str_lt. intros a b H1 H2. apply str_cmp_lt_gt in H1. congruence. Qed.

Lemma str_leb_le : forall a b, str_leb a b = true <-> str_le a b.
Proof. unfold str_leb, str_le. intros a b. destruct (str_cmp a b); split; intros; congruence. Qed.

Lemma str_leb_total : forall a b, str_leb a b = false -> str_le b a.
Proof.
  unfold str_leb, str_le. intros a b H. destruct (str_cmp a b) eqn:C; try discriminate.
  apply str_cmp_lt_gt in C. rewrite C. discriminate.
Qed.
