(* C05 - proofs about Links/LinkModel.v: point-wise characterisation of every link operation,
   and preservation of the link invariant (symmetry, links only between existing entities). *)
From Coq Require Import List NArith ZArith Bool Btauto.
From Storage Require Import Base.Bytes Links.StrOrder Links.LinkModel.
Import ListNotations.

Lemma id_eqb_spec : forall a b : id, reflect (a = b) (id_eqb a b).
Proof. exact str_eqb_spec. Qed.

Lemma id_eqb_refl : forall a : id, id_eqb a a = true.
Proof. exact str_eqb_refl. Qed.

Lemma other_other : forall sd, other (other sd) = sd.
Proof. destruct sd; reflexivity. Qed.

Definition mem (x : id) (l : list id) : bool := existsb (id_eqb x) l.

Lemma mem_In : forall x l, mem x l = true <-> In x l.
Proof.
  intros x l. unfold mem. rewrite existsb_exists. split.
  - intros (y & Hy & E). destruct (id_eqb_spec x y); [subst; exact Hy | discriminate].
  - intros H. exists x. split; [exact H | apply id_eqb_refl].
Qed.

Lemma mem_false : forall x l, mem x l = false <-> ~ In x l.
Proof. intros x l. rewrite <- mem_In. destruct (mem x l); split; intros; congruence. Qed.

Lemma mem_app : forall x l1 l2, mem x (l1 ++ l2) = mem x l1 || mem x l2.
Proof. intros. unfold mem. apply existsb_app. Qed.

Lemma mem_ext : forall l1 l2, (forall x, In x l1 <-> In x l2) -> forall x, mem x l1 = mem x l2.
Proof.
  intros l1 l2 H x. destruct (mem x l1) eqn:E1, (mem x l2) eqn:E2; try reflexivity.
  - apply mem_In in E1. apply H in E1. apply mem_In in E1. congruence.
  - apply mem_In in E2. apply H in E2. apply mem_In in E2. congruence.
Qed.

(* destruct every id comparison of the goal, substituting equal ids *)
Ltac id_cases :=
  repeat (rewrite ?id_eqb_refl;
    match goal with
    | |- context[id_eqb ?a ?b] => destruct (id_eqb_spec a b); [subst|]; try congruence
    end); rewrite ?id_eqb_refl.

(* ---- link / unlink ----------------------------------------------------------------------- *)

Lemma link_done : forall sd a k s, pres s (other sd) k = true ->
  link sd a k s = Done (set_lnk (set_lnk s sd a k true) (other sd) k a true).
Proof. intros sd a k s H. unfold link, sym_add_link. simpl. rewrite H. reflexivity. Qed.

Lemma link_failed : forall sd a k s, pres s (other sd) k = false -> link sd a k s = Failed.
Proof. intros sd a k s H. unfold link, sym_add_link. simpl. rewrite H. reflexivity. Qed.

(* AddLinks body: all requested ids exist and the links are added on both sides, or some id is
   missing and the call fails *)
Lemma link_all_spec : forall sd a keys s,
  match link_all sd a keys s with
  | Done s' =>
      (forall k, In k keys -> pres s (other sd) k = true) /\ pres s' = pres s /\ rc s' = rc s /\
      forall sd' x y, lnk s' sd' x y =
        lnk s sd' x y || (at2 sd a sd' x && mem y keys) || (at2 (other sd) a sd' y && mem x keys)
  | Failed => exists k, In k keys /\ pres s (other sd) k = false
  | NoFuel => False
  end.
Proof.
  intros sd a keys. induction keys as [|k t IH]; intros s; simpl.
  - split; [intros k []|]. split; [reflexivity|]. split; [reflexivity|].
    intros sd' x y. btauto.
  - destruct (pres s (other sd) k) eqn:Hk.
    + rewrite (link_done _ _ _ _ Hk). simpl.
      specialize (IH (set_lnk (set_lnk s sd a k true) (other sd) k a true)).
      destruct (link_all sd a t _) as [s'| |] eqn:E; [| |exact IH].
      * destruct IH as (Hp & Hpres & Hrc & Hl). simpl in Hp, Hpres, Hrc.
        split; [intros k' [<-|Hin]; [exact Hk | apply Hp; exact Hin]|].
        split; [exact Hpres|]. split; [exact Hrc|].
        intros sd' x y. rewrite Hl. simpl. unfold at3, at2.
        destruct sd, sd'; simpl; id_cases; btauto.
      * destruct IH as (k' & Hin & Hf). simpl in Hf. exists k'. split; [right; exact Hin | exact Hf].
    + rewrite (link_failed _ _ _ _ Hk). simpl. exists k. split; [left; reflexivity | exact Hk].
Qed.

Lemma unlink_all_spec : forall sd a keys s,
  let s' := unlink_all sd a keys s in
  pres s' = pres s /\ rc s' = rc s /\
  forall sd' x y, lnk s' sd' x y =
    lnk s sd' x y && negb (at2 sd a sd' x && mem y keys)
                  && negb (at2 (other sd) a sd' y && mem x keys && pres s (other sd) x).
Proof.
  intros sd a keys. induction keys as [|k t IH]; intros s; simpl.
  - split; [reflexivity|]. split; [reflexivity|]. intros. btauto.
  - specialize (IH (unlink sd a k s)). simpl in IH. destruct IH as (Hpres & Hrc & Hl).
    assert (Hp1 : pres (unlink sd a k s) = pres s).
    { unfold unlink, sym_remove_link. simpl. destruct (pres s (other sd) k); reflexivity. }
    assert (Hr1 : rc (unlink sd a k s) = rc s).
    { unfold unlink, sym_remove_link. simpl. destruct (pres s (other sd) k); reflexivity. }
    split; [congruence|]. split; [congruence|].
    intros sd' x y. rewrite Hl, Hp1.
    unfold unlink, sym_remove_link. simpl. unfold at3, at2.
    destruct sd, sd'; simpl; id_cases; destruct (pres s _ k) eqn:Hk; simpl; unfold at3; simpl; id_cases;
      try rewrite Hk; try btauto.
Qed.

(* ---- the link invariant ------------------------------------------------------------------- *)

Record linv (U : univ) (s : lstate) : Prop := {
  li_univ : forall sd x, pres s sd x = true -> In x (uni U sd);
  li_sym : forall sd a b, lnk s sd a b = true -> lnk s (other sd) b a = true;
  li_pres : forall sd a b, lnk s sd a b = true -> pres s sd a = true }.

Lemma linv_init : forall U, linv U init_state.
Proof. intros U. constructor; simpl; intros; discriminate. Qed.

Lemma linv_sym_eq : forall U s, linv U s -> forall sd a b, lnk s (other sd) b a = lnk s sd a b.
Proof.
  intros U s I sd a b. destruct (lnk s sd a b) eqn:E1.
  - apply (li_sym _ _ I). exact E1.
  - destruct (lnk s (other sd) b a) eqn:E2; [|reflexivity].
    apply (li_sym _ _ I) in E2. rewrite other_other in E2. congruence.
Qed.

Lemma linv_peer_pres : forall U s, linv U s -> forall sd a b, lnk s sd a b = true -> pres s (other sd) b = true.
Proof. intros U s I sd a b H. apply (li_sym _ _ I) in H. apply (li_pres _ _ I) in H. exact H. Qed.

Lemma rows_In : forall U s sd a k, In k (rows U s sd a) <-> In k (uni U (other sd)) /\ lnk s sd a k = true.
Proof. intros. unfold rows. apply filter_In. Qed.

Lemma rows_In_inv : forall U s, linv U s -> forall sd a k, In k (rows U s sd a) <-> lnk s sd a k = true.
Proof.
  intros U s I sd a k. rewrite rows_In. split; [tauto|]. intros H. split; [|exact H].
  apply (li_univ _ _ I). eapply linv_peer_pres; eauto.
Qed.

Lemma linv_link_all : forall U s sd a keys s', linv U s -> pres s sd a = true ->
  link_all sd a keys s = Done s' -> linv U s'.
Proof.
  intros U s sd a keys s' I Ha E. pose proof (link_all_spec sd a keys s) as S. rewrite E in S.
  destruct S as (Hk & Hp & _ & Hl). constructor.
  - intros sd' x. rewrite Hp. apply (li_univ _ _ I).
  - intros sd' x y. rewrite !Hl, (linv_sym_eq _ _ I). unfold at2.
    destruct sd, sd'; simpl;
      match goal with |- ?A = true -> ?B = true => assert (EAB : A = B) by btauto; rewrite EAB; auto end.
  - intros sd' x y. rewrite Hl, Hp. intros H.
    apply orb_true_iff in H. destruct H as [H|H]; [apply orb_true_iff in H; destruct H as [H|H]|].
    + eapply (li_pres _ _ I); eauto.
    + unfold at2 in H. apply andb_true_iff in H. destruct H as (H & _). apply andb_true_iff in H. destruct H as (H1 & H2).
      apply eqb_prop in H1. subst sd'. destruct (id_eqb_spec x a); [subst; exact Ha | discriminate].
    + unfold at2 in H. apply andb_true_iff in H. destruct H as (H & Hm). apply andb_true_iff in H. destruct H as (H1 & _).
      apply eqb_prop in H1. subst sd'. apply Hk. apply mem_In. exact Hm.
Qed.

Lemma linv_unlink_all : forall U s sd a keys, linv U s -> linv U (unlink_all sd a keys s).
Proof.
  intros U s sd a keys I. destruct (unlink_all_spec sd a keys s) as (Hp & _ & Hl). constructor.
  - intros sd' x. rewrite Hp. apply (li_univ _ _ I).
  - intros sd' x y. rewrite !Hl, (linv_sym_eq _ _ I). unfold at2. intros H.
    assert (Hxy : lnk s sd' x y = true) by (destruct (lnk s sd' x y); [reflexivity | discriminate]).
    pose proof (li_pres _ _ I _ _ _ Hxy) as Hx. pose proof (linv_peer_pres _ _ I _ _ _ Hxy) as Hy.
    revert H. rewrite Hxy. destruct sd, sd'; simpl in *; rewrite ?Hx, ?Hy;
      match goal with |- ?A = true -> ?B = true => assert (EAB : A = B) by btauto; rewrite EAB; auto end.
  - intros sd' x y. rewrite Hl, Hp. intros H.
    apply (li_pres _ _ I sd' x y). destruct (lnk s sd' x y); [reflexivity | discriminate].
Qed.

(* ---- EntityDeleted --------------------------------------------------------------------------- *)

Lemma unlink_peers_spec : forall sd x ks s,
  let s' := unlink_peers sd x ks s in
  pres s' = pres s /\ rc s' = rc s /\
  forall sd' p q, lnk s' sd' p q =
    lnk s sd' p q && negb (at2 (other sd) x sd' q && mem p ks && pres s (other sd) p).
Proof.
  intros sd x ks. induction ks as [|k t IH]; intros s; simpl.
  - split; [reflexivity|]. split; [reflexivity|]. intros. btauto.
  - specialize (IH (sym_remove_link (other sd) k x s)). simpl in IH. destruct IH as (Hpres & Hrc & Hl).
    assert (Hp1 : pres (sym_remove_link (other sd) k x s) = pres s).
    { unfold sym_remove_link. destruct (pres s (other sd) k); reflexivity. }
    assert (Hr1 : rc (sym_remove_link (other sd) k x s) = rc s).
    { unfold sym_remove_link. destruct (pres s (other sd) k); reflexivity. }
    split; [congruence|]. split; [congruence|].
    intros sd' p q. rewrite Hl, Hp1. unfold sym_remove_link, at2.
    destruct sd, sd'; simpl; id_cases; destruct (pres s _ k) eqn:Hk; simpl; unfold at3; simpl; id_cases;
      try rewrite Hk; try btauto.
Qed.
