(* C05 - proofs about Links/RefCount.v: point-wise characterisation of the ref-count
   operations and preservation of the ref-count invariant (same count on both sides, counts
   positive and within int32, counts only between existing entities). *)
From Coq Require Import List NArith ZArith Bool Btauto Lia.
From Storage Require Import Base.Bytes Links.StrOrder Links.LinkModel Links.LinkModelProofs Links.RefCount.
Import ListNotations.
Local Open Scope Z_scope.

Lemma wrap32_id : forall z, -2147483648 <= z <= max_int32 -> wrap32 z = z.
Proof. intros z H. unfold wrap32, max_int32 in *. rewrite Z.mod_small; lia. Qed.

Lemma eqb_other_l : forall sd, Bool.eqb (other sd) sd = false.
Proof. destruct sd; reflexivity. Qed.
Lemma eqb_other_r : forall sd, Bool.eqb sd (other sd) = false.
Proof. destruct sd; reflexivity. Qed.

Record rinv (M : Z) (s : lstate) : Prop := {
  ri_sym : forall sd a b c, rc s sd a b = Some c -> rc s (other sd) b a = Some c;
  ri_pres : forall sd a b c, rc s sd a b = Some c -> pres s sd a = true;
  ri_pos : forall sd a b c, rc s sd a b = Some c -> 0 < c <= M }.

Lemma rinv_init : forall M, rinv M init_state.
Proof. intros M. constructor; simpl; intros; discriminate. Qed.

Lemma rinv_mono : forall M M' s, M <= M' -> rinv M s -> rinv M' s.
Proof.
  intros M M' s H I. constructor.
  - apply (ri_sym _ _ I).
  - apply (ri_pres _ _ I).
  - intros sd a b c E. pose proof (ri_pos _ _ I _ _ _ _ E). lia.
Qed.

Lemma rinv_ext : forall M s s', (forall sd x y, rc s' sd x y = rc s sd x y) ->
  (forall sd x, pres s sd x = true -> pres s' sd x = true) -> rinv M s -> rinv M s'.
Proof.
  intros M s s' Hr Hp I. constructor.
  - intros sd a b c. rewrite !Hr. apply (ri_sym _ _ I).
  - intros sd a b c. rewrite Hr. intros E. apply Hp. eapply (ri_pres _ _ I); eauto.
  - intros sd a b c. rewrite Hr. apply (ri_pos _ _ I).
Qed.

Lemma rinv_sym_eq : forall M s, rinv M s -> forall sd a b, rc s (other sd) b a = rc s sd a b.
Proof.
  intros M s I sd a b. destruct (rc s sd a b) as [c|] eqn:E1.
  - apply (ri_sym _ _ I). exact E1.
  - destruct (rc s (other sd) b a) as [c|] eqn:E2; [|reflexivity].
    apply (ri_sym _ _ I) in E2. rewrite other_other in E2. congruence.
Qed.

Lemma rinv_peer_pres : forall M s, rinv M s -> forall sd a b c, rc s sd a b = Some c -> pres s (other sd) b = true.
Proof. intros M s I sd a b c H. apply (ri_sym _ _ I) in H. apply (ri_pres _ _ I) in H. exact H. Qed.

(* the same value written on both sides *)
Definition set_both (s : lstate) (sd : side) (a k : id) (v : option Z) : lstate :=
  set_rc (set_rc s sd a k v) (other sd) k a v.

Lemma rinv_set_both : forall M M' s s' sd a k v, rinv M s -> M <= M' ->
  pres s sd a = true -> pres s (other sd) k = true ->
  (forall c, v = Some c -> 0 < c <= M') ->
  (forall sd' x y, rc s' sd' x y = rc (set_both s sd a k v) sd' x y) -> pres s' = pres s ->
  rinv M' s'.
Proof.
  intros M M' s s' sd a k v I HM Ha Hk Hv Hr Hp. constructor.
  - intros sd' x y c. rewrite !Hr. unfold set_both. simpl. unfold at3.
    destruct sd, sd'; simpl; id_cases; simpl; intros H; try exact H;
      try (apply (ri_sym _ _ I) in H; exact H).
  - intros sd' x y c. rewrite Hr, Hp. unfold set_both. simpl. unfold at3.
    destruct sd, sd'; simpl; id_cases; simpl; intros H; try assumption;
      try (apply (ri_pres _ _ I) in H; exact H).
  - intros sd' x y c. rewrite Hr. unfold set_both. simpl. unfold at3.
    destruct sd, sd'; simpl; id_cases; simpl; intros H; try (apply Hv; exact H);
      try (pose proof (ri_pos _ _ I _ _ _ _ H); lia).
Qed.

(* ---- ref-count operations only touch the counts ----------------------------------------------- *)

Lemma tb_set_frame : forall s sd a k n, pres (tb_set s sd a k n) = pres s /\ lnk (tb_set s sd a k n) = lnk s.
Proof. intros. unfold tb_set. destruct (rc s sd a k), (n =? 0); split; reflexivity. Qed.

Lemma tb_decr_frame : forall s sd a k, pres (snd (tb_decr s sd a k)) = pres s /\ lnk (snd (tb_decr s sd a k)) = lnk s.
Proof. intros. unfold tb_decr. destruct (rc s sd a k); simpl; [destruct (0 <? _)|]; split; reflexivity. Qed.

Lemma rc_set_frame : forall sd a k n s s', rc_set sd a k n s = Done s' -> pres s' = pres s /\ lnk s' = lnk s.
Proof.
  intros sd a k n s s'. unfold rc_set, rsym_set. destruct (pres s sd a); [|discriminate].
  destruct (pres (tb_set s sd a k n) (other sd) k); [|discriminate]. intros E. inversion E.
  destruct (tb_set_frame (tb_set s sd a k n) (other sd) k a n) as [-> ->]. apply tb_set_frame.
Qed.

Lemma rc_incr_frame : forall sd a k s s', rc_incr sd a k s = Done s' -> pres s' = pres s /\ lnk s' = lnk s.
Proof.
  intros sd a k s s'. unfold rc_incr, rsym_incr, tb_incr. destruct (pres s sd a); [|discriminate]. simpl.
  destruct (pres s (other sd) k); [|discriminate]. destruct (_ =? _); [|discriminate].
  intros E. inversion E. split; reflexivity.
Qed.

Lemma rc_decr_frame : forall sd a k s s', rc_decr sd a k s = Done s' -> pres s' = pres s /\ lnk s' = lnk s.
Proof.
  intros sd a k s s'. unfold rc_decr, rsym_decr. destruct (pres s sd a); [|discriminate].
  destruct (tb_decr s sd a k) as [nv s1] eqn:E1.
  pose proof (tb_decr_frame s sd a k) as F1. rewrite E1 in F1. simpl in F1. destruct F1 as [Fp Fl].
  destruct (pres s1 (other sd) k).
  - destruct (tb_decr s1 (other sd) k a) as [ov s2] eqn:E2.
    pose proof (tb_decr_frame s1 (other sd) k a) as F2. rewrite E2 in F2. simpl in F2. destruct F2 as [Fp2 Fl2].
    destruct (nv =? ov); [|discriminate]. intros E. inversion E. subst. split; congruence.
  - destruct (nv =? -1); [|discriminate]. intros E. inversion E. subst. split; assumption.
Qed.

(* ---- SetLinkCount ------------------------------------------------------------------------------ *)

Lemma tb_set_rc : forall s sd a k n sd' x y,
  rc (tb_set s sd a k n) sd' x y =
  if at3 sd a k sd' x y then (if n =? 0 then None else Some (wrap32 n)) else rc s sd' x y.
Proof.
  intros. unfold tb_set. destruct (rc s sd a k) eqn:E, (n =? 0); simpl; try reflexivity.
  unfold at3. destruct (Bool.eqb sd' sd) eqn:E1; simpl; [|reflexivity].
  apply eqb_prop in E1. subst sd'. id_cases; simpl; congruence.
Qed.

Lemma rc_set_spec : forall M s sd a k n, rinv M s -> pres s sd a = true -> pres s (other sd) k = true ->
  0 <= n <= max_int32 ->
  exists s', rc_set sd a k n s = Done s' /\ pres s' = pres s /\ lnk s' = lnk s /\
    forall sd' x y, rc s' sd' x y = rc (set_both s sd a k (if n =? 0 then None else Some n)) sd' x y.
Proof.
  intros M s sd a k n I Ha Hk Hn. unfold rc_set, rsym_set. rewrite Ha.
  destruct (tb_set_frame s sd a k n) as [Fp Fl]. rewrite Fp, Hk.
  eexists. split; [reflexivity|].
  destruct (tb_set_frame (tb_set s sd a k n) (other sd) k a n) as [Fp2 Fl2].
  split; [congruence|]. split; [congruence|].
  intros sd' x y. rewrite !tb_set_rc. unfold set_both. simpl.
  rewrite (wrap32_id n) by (unfold max_int32 in *; lia). reflexivity.
Qed.

Lemma rc_set_failed : forall s sd a k n, pres s sd a = false \/ pres s (other sd) k = false ->
  rc_set sd a k n s = Failed.
Proof.
  intros s sd a k n H. unfold rc_set, rsym_set. destruct (pres s sd a) eqn:Ha; [|reflexivity].
  destruct H as [H|H]; [discriminate|]. destruct (tb_set_frame s sd a k n) as [Fp _]. rewrite Fp, H. reflexivity.
Qed.

(* ---- IncrementLinkCount -------------------------------------------------------------------------- *)

Definition incr_val (s : lstate) (sd : side) (a k : id) : Z :=
  match rc s sd a k with Some c => c + 1 | None => 1 end.

Lemma rc_incr_spec : forall M s sd a k, rinv M s -> M < max_int32 ->
  pres s sd a = true -> pres s (other sd) k = true ->
  rc_incr sd a k s = Done (set_both s sd a k (Some (incr_val s sd a k))).
Proof.
  intros M s sd a k I HM Ha Hk. unfold rc_incr, rsym_incr, tb_incr. rewrite Ha. simpl. rewrite Hk.
  unfold at3. rewrite eqb_other_l. simpl. rewrite (rinv_sym_eq _ _ I).
  rewrite Z.eqb_refl. unfold set_both, incr_val. destruct (rc s sd a k) as [c|] eqn:E; [|reflexivity].
  pose proof (ri_pos _ _ I _ _ _ _ E). rewrite wrap32_id by (unfold max_int32 in *; lia). reflexivity.
Qed.

Lemma rc_incr_failed : forall s sd a k, pres s sd a = false \/ pres s (other sd) k = false ->
  rc_incr sd a k s = Failed.
Proof.
  intros s sd a k H. unfold rc_incr, rsym_incr, tb_incr. destruct (pres s sd a) eqn:Ha; [|reflexivity]. simpl.
  destruct H as [H|H]; [discriminate|]. rewrite H. reflexivity.
Qed.

(* ---- DecrementLinkCount -------------------------------------------------------------------------- *)

Definition decr_val (c : Z) : option Z := if 1 <? c then Some (c - 1) else None.

Lemma rc_decr_spec : forall M s sd a k, rinv M s -> M <= max_int32 -> pres s sd a = true ->
  match rc s sd a k with
  | Some c => rc_decr sd a k s = Done (set_both s sd a k (decr_val c))
  | None => rc_decr sd a k s = Done s
  end.
Proof.
  intros M s sd a k I HM Ha. unfold rc_decr, rsym_decr, tb_decr. rewrite Ha.
  destruct (rc s sd a k) as [c|] eqn:E.
  - pose proof (ri_pos _ _ I _ _ _ _ E) as Hc. pose proof (rinv_peer_pres _ _ I _ _ _ _ E) as Hk.
    rewrite wrap32_id by (unfold max_int32 in *; lia).
    unfold decr_val, set_both.
    assert (Hb : (0 <? c - 1) = (1 <? c)). { destruct (Z.ltb_spec 0 (c - 1)), (Z.ltb_spec 1 c); try reflexivity; lia. }
    rewrite Hb. destruct (1 <? c) eqn:B; simpl; rewrite Hk; simpl; unfold at3; rewrite eqb_other_l; simpl;
      rewrite (rinv_sym_eq _ _ I), E; rewrite wrap32_id by (unfold max_int32 in *; lia);
      rewrite Hb, Z.eqb_refl; reflexivity.
  - destruct (pres s (other sd) k) eqn:Hk; [|reflexivity].
    rewrite (rinv_sym_eq _ _ I), E. reflexivity.
Qed.

Lemma rc_decr_failed : forall s sd a k, pres s sd a = false -> rc_decr sd a k s = Failed.
Proof. intros s sd a k H. unfold rc_decr. rewrite H. reflexivity. Qed.

(* ---- invariant preservation ------------------------------------------------------------------------ *)

Lemma rinv_rc_set : forall M s sd a k n s', rinv M s -> 0 <= n <= max_int32 ->
  rc_set sd a k n s = Done s' -> rinv (Z.max M n) s'.
Proof.
  intros M s sd a k n s' I Hn E.
  destruct (pres s sd a) eqn:Ha; [|rewrite rc_set_failed in E by (left; exact Ha); discriminate].
  destruct (pres s (other sd) k) eqn:Hk; [|rewrite rc_set_failed in E by (right; exact Hk); discriminate].
  destruct (rc_set_spec M s sd a k n I Ha Hk Hn) as (s'' & E' & Hp & _ & Hr). rewrite E in E'. inversion E'; subst s''.
  apply (rinv_set_both M (Z.max M n) s s' sd a k (if n =? 0 then None else Some n) I); [lia | exact Ha | exact Hk | | exact Hr | exact Hp].
  intros c. destruct (Z.eqb_spec n 0); [discriminate|]. intros Hc. inversion Hc. lia.
Qed.

Lemma rinv_rc_incr : forall M s sd a k s', rinv M s -> 0 <= M < max_int32 ->
  rc_incr sd a k s = Done s' -> rinv (M + 1) s'.
Proof.
  intros M s sd a k s' I HM E.
  destruct (pres s sd a) eqn:Ha; [|rewrite rc_incr_failed in E by (left; exact Ha); discriminate].
  destruct (pres s (other sd) k) eqn:Hk; [|rewrite rc_incr_failed in E by (right; exact Hk); discriminate].
  rewrite (rc_incr_spec M s sd a k I) in E by (assumption || lia). inversion E.
  apply (rinv_set_both M (M + 1) s _ sd a k (Some (incr_val s sd a k)) I); [lia | exact Ha | exact Hk | | reflexivity | reflexivity].
  intros c Hc. inversion Hc. unfold incr_val. destruct (rc s sd a k) as [c0|] eqn:E0; [|lia].
  pose proof (ri_pos _ _ I _ _ _ _ E0). lia.
Qed.

Lemma rinv_rc_decr : forall M s sd a k s', rinv M s -> M <= max_int32 ->
  rc_decr sd a k s = Done s' -> rinv M s'.
Proof.
  intros M s sd a k s' I HM E.
  destruct (pres s sd a) eqn:Ha; [|rewrite rc_decr_failed in E by exact Ha; discriminate].
  pose proof (rc_decr_spec M s sd a k I HM Ha) as S. destruct (rc s sd a k) as [c|] eqn:E0.
  - rewrite S in E. inversion E. pose proof (ri_pos _ _ I _ _ _ _ E0) as Hc.
    apply (rinv_set_both M M s _ sd a k (decr_val c) I); [lia | exact Ha | eapply rinv_peer_pres; eauto | | reflexivity | reflexivity].
    intros c' Hc'. unfold decr_val in Hc'. destruct (Z.ltb_spec 1 c); [|discriminate]. inversion Hc'. lia.
  - rewrite S in E. inversion E. subst. exact I.
Qed.

(* ---- EntityDeleted ------------------------------------------------------------------------------------ *)

Lemma rc_unlink_peers_spec : forall sd x ks s,
  let s' := rc_unlink_peers sd x ks s in
  pres s' = pres s /\ lnk s' = lnk s /\
  forall sd' p q, rc s' sd' p q =
    if at2 (other sd) x sd' q && mem p ks && pres s (other sd) p then None else rc s sd' p q.
Proof.
  intros sd x ks. induction ks as [|k t IH]; intros s; simpl.
  - split; [reflexivity|]. split; [reflexivity|]. intros. rewrite andb_false_r. reflexivity.
  - specialize (IH (rsym_unlink (other sd) k x s)). simpl in IH. destruct IH as (Hpres & Hlnk & Hr).
    assert (Hp1 : pres (rsym_unlink (other sd) k x s) = pres s).
    { unfold rsym_unlink. destruct (pres s (other sd) k); reflexivity. }
    assert (Hl1 : lnk (rsym_unlink (other sd) k x s) = lnk s).
    { unfold rsym_unlink. destruct (pres s (other sd) k); reflexivity. }
    split; [congruence|]. split; [congruence|].
    intros sd' p q. rewrite Hr, Hp1. unfold rsym_unlink, at2.
    destruct sd, sd'; simpl; id_cases; simpl; destruct (pres s _ k) eqn:Hk; simpl; unfold at3; simpl; id_cases; simpl;
      try rewrite Hk; try reflexivity;
      repeat match goal with |- context[mem ?a ?b] => destruct (mem a b) end;
      repeat match goal with |- context[pres ?a ?b ?c] => destruct (pres a b c) end; simpl; try reflexivity; try congruence.
Qed.
