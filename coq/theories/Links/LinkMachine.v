(* C05 - the operations of a history over two stores with a link collection and a ref-counted
   link collection between them; bolt transactions (all or nothing).  Model only. *)
From Coq Require Import List NArith ZArith Bool.
From Storage Require Import Base.Bytes Links.LinkModel Links.SetLinksMerge Links.RefCount.
Import ListNotations.

Inductive op :=
| OCreate (sd : side) (x : id)
| ODelete (sd : side) (x : id)
| OAddLinks (sd : side) (a : id) (keys : list id)
| ORemoveLinks (sd : side) (a : id) (keys : list id)
| OSetLinks (sd : side) (a : id) (keys : list id)
| OAddLink (sd : side) (a k : id)
| ORemoveLink (sd : side) (a k : id)
| OIncr (sd : side) (a k : id)
| ODecr (sd : side) (a k : id)
| OSetCount (sd : side) (a k : id) (n : Z).

(* store.Create: error when the id is taken; a fresh entity bucket has no link buckets *)
Definition create_entity (sd : side) (x : id) (s : lstate) : res :=
  if pres s sd x then Failed else Done (set_pres s sd x true).

(* store.DeleteById: not found error; cleanupLinks (EntityDeleted of the link collection, then
   of the ref-counted one); DeleteEntity *)
Definition delete_entity (U : univ) (sd : side) (x : id) (s : lstate) : res :=
  if pres s sd x then
    bind (entity_deleted U sd x s) (fun s1 =>
    bind (rc_entity_deleted U sd x s1) (fun s2 =>
    Done (drop_entity s2 sd x)))
  else Failed.

Definition step (U : univ) (o : op) (s : lstate) : res :=
  match o with
  | OCreate sd x => create_entity sd x s
  | ODelete sd x => delete_entity U sd x s
  | OAddLinks sd a keys => add_links sd a keys s
  | ORemoveLinks sd a keys => remove_links sd a keys s
  | OSetLinks sd a keys => set_links U sd a keys s
  | OAddLink sd a k => add_link sd a k s
  | ORemoveLink sd a k => remove_link sd a k s
  | OIncr sd a k => rc_incr sd a k s
  | ODecr sd a k => rc_decr sd a k s
  | OSetCount sd a k n => rc_set sd a k n s
  end.

(* the operations of one transaction, in order; stops at the first error *)
Fixpoint run_ops (U : univ) (ops : list op) (s : lstate) : res :=
  match ops with
  | [] => Done s
  | o :: t => bind (step U o s) (run_ops U t)
  end.

(* index of the first failing operation, for the per-op ok/error observation *)
Fixpoint first_failure (U : univ) (ops : list op) (s : lstate) (i : nat) : option nat :=
  match ops with
  | [] => None
  | o :: t => match step U o s with
              | Done s' => first_failure U t s' (S i)
              | _ => Some i
              end
  end.

(* db.Update: commit when the function returns nil, roll back (state restored) otherwise *)
Definition run_tx (U : univ) (ops : list op) (s : lstate) : bool * lstate :=
  match run_ops U ops s with
  | Done s' => (true, s')
  | _ => (false, s)
  end.

Definition history := list (list op).

Fixpoint run_hist (U : univ) (h : history) (s : lstate) : lstate :=
  match h with
  | [] => s
  | tx :: t => run_hist U t (snd (run_tx U tx s))
  end.

(* ---- guards of the theorems (statements about histories) ------------------------------------- *)

(* entities are created with ids of the universe the cursors enumerate *)
Definition op_in (U : univ) (o : op) : Prop :=
  match o with OCreate sd x => In x (uni U sd) | _ => True end.
Definition hist_in (U : univ) (h : history) : Prop := Forall (Forall (op_in U)) h.

(* SetLinkCount with a negative count is documented API misuse *)
Definition op_count_ok (o : op) : Prop :=
  match o with OSetCount _ _ _ n => (0 <= n)%Z | _ => True end.
Definition hist_counts_ok (h : history) : Prop := Forall (Forall op_count_ok) h.

(* a bound on every count a history can produce: the largest SetLinkCount argument so far
   plus the number of increments after it (the int32 payload is a machine bound) *)
Definition op_bound (M : Z) (o : op) : Z :=
  match o with
  | OIncr _ _ _ => (M + 1)%Z
  | OSetCount _ _ _ n => Z.max M n
  | _ => M
  end.
Definition tx_bound (M : Z) (ops : list op) : Z := fold_left op_bound ops M.
Definition hist_bound (M : Z) (h : history) : Z := fold_left tx_bound h M.
