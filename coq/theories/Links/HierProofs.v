(* C05 - proofs about Links/HierMachine.v: every pair of collections of a parent / child store
   hierarchy keeps the invariants of LinkMachine.v, through creates and deletes issued through any
   store of a family; DeleteById cleans the collections of every store level. *)
From Coq Require Import List NArith ZArith Bool Arith Lia Btauto.
From Storage Require Import Base.Bytes Links.StrOrder Links.LinkModel Links.LinkModelProofs
  Links.SetLinksMerge Links.SetLinksMergeProofs Links.RefCount Links.RefCountProofs Links.LinkMachine
  Links.LinkMachineProofs Links.HierMachine.
Import ListNotations.
Local Open Scope nat_scope.

(* ---- pointwise equal states ------------------------------------------------------------------------ *)

Definition same (s s' : lstate) : Prop :=
  (forall sd x, pres s' sd x = pres s sd x) /\
  (forall sd a b, lnk s' sd a b = lnk s sd a b) /\
  (forall sd a b, rc s' sd a b = rc s sd a b).

Lemma linv_same : forall U s s', same s s' -> linv U s -> linv U s'.
Proof.
  intros U s s' (Hp & Hl & _) I. constructor.
  - intros sd x. rewrite Hp. apply (li_univ _ _ I).
  - intros sd a b. rewrite !Hl. apply (li_sym _ _ I).
  - intros sd a b. rewrite Hl, Hp. apply (li_pres _ _ I).
Qed.

Lemma rinv_same : forall M s s', same s s' -> rinv M s -> rinv M s'.
Proof.
  intros M s s' (Hp & _ & Hr) R. constructor.
  - intros sd a b c. rewrite !Hr. apply (ri_sym _ _ R).
  - intros sd a b c. rewrite Hr, Hp. apply (ri_pres _ _ R).
  - intros sd a b c. rewrite Hr. apply (ri_pos _ _ R).
Qed.

(* ---- views and cells ----------------------------------------------------------------------------------- *)

Lemma view_put_other : forall T p q s h, q <> p -> view T q (put p s h) = view T q h.
Proof.
  intros T p q s h N. unfold view, put. simpl. apply Nat.eqb_neq in N. rewrite N. reflexivity.
Qed.

Lemma view_put_eq : forall T p s h, pres s = pres (view T p h) -> view T p (put p s h) = s.
Proof.
  intros T p s h E. unfold view, put in *. simpl in *. rewrite Nat.eqb_refl, <- E. destruct s; reflexivity.
Qed.

Lemma store_pairs_In : forall T sd k q, In q (store_pairs T sd k) <-> q < npairs T /\ lvl T q sd = k.
Proof.
  intros. unfold store_pairs. rewrite filter_In, in_seq, Nat.eqb_eq. simpl. intuition lia.
Qed.

Lemma store_pairs_NoDup : forall T sd k, NoDup (store_pairs T sd k).
Proof. intros. unfold store_pairs. apply NoDup_filter, seq_NoDup. Qed.

(* ---- the invariant ----------------------------------------------------------------------------------------- *)

Record hinv (T : topo) (U : univ) (M : Z) (h : hstate) : Prop := {
  hi_root : forall sd k x, hp h sd k x = true -> hp h sd 0 x = true;
  hi_level : forall sd k x, hp h sd k x = true -> k <= nkids T sd;
  hi_linv : forall p, p < npairs T -> linv U (view T p h);
  hi_rinv : forall p, p < npairs T -> rinv M (view T p h);
  (* a kind of collection that was not registered for a pair never holds anything for it *)
  hi_plain : forall p, p < npairs T -> has_plain T p = false -> forall sd a b, hl h p sd a b = false;
  hi_rc : forall p, p < npairs T -> has_rc T p = false -> forall sd a b, hr h p sd a b = None }.

Lemma hinv_init : forall T U M, hinv T U M hinit.
Proof.
  intros. constructor; simpl; try discriminate.
  - intros. constructor; simpl; intros; discriminate.
  - intros. constructor; simpl; intros; discriminate.
  - intros; reflexivity.
  - intros; reflexivity.
Qed.

Lemma hinv_mono : forall T U M M' h, (M <= M')%Z -> hinv T U M h -> hinv T U M' h.
Proof.
  intros T U M M' h HM I. constructor; try apply I.
  intros p Hp. eapply rinv_mono; [exact HM | apply (hi_rinv _ _ _ _ I); exact Hp].
Qed.

(* ---- link and count operations of one pair ----------------------------------------------------------- *)

Lemma link_op_pres : forall U o s s', is_link_op o = true -> step U o s = Done s' -> pres s' = pres s.
Proof.
  intros U o s s' L E. destruct o; simpl in *; try discriminate.
  - apply add_links_frame in E. tauto.
  - unfold remove_links in E. destruct (pres s sd a); [|discriminate]. inversion E.
    destruct (unlink_all_spec sd a keys s) as (Hp & _). exact Hp.
  - apply set_links_frame in E. tauto.
  - apply add_link_as_all, add_links_frame in E. tauto.
  - unfold remove_link in E. destruct (pres s sd a); [|discriminate]. inversion E.
    destruct (unlink_all_spec sd a [k] s) as (Hp & _). exact Hp.
  - apply rc_incr_frame in E. tauto.
  - apply rc_decr_frame in E. tauto.
  - apply rc_set_frame in E. tauto.
Qed.

(* an operation of one kind of collection leaves the buckets of the other kind alone *)
Lemma rc_op_lnk : forall U o s s', is_rc_op o = true -> step U o s = Done s' -> lnk s' = lnk s.
Proof.
  intros U o s s' L E. destruct o; simpl in *; try discriminate.
  - apply rc_incr_frame in E. tauto.
  - apply rc_decr_frame in E. tauto.
  - apply rc_set_frame in E. tauto.
Qed.

Lemma plain_op_rc : forall U o s s', is_link_op o = true -> is_rc_op o = false -> step U o s = Done s' -> rc s' = rc s.
Proof.
  intros U o s s' L R E. destruct o; simpl in *; try discriminate.
  - apply add_links_frame in E. tauto.
  - unfold remove_links in E. destruct (pres s sd a); [|discriminate]. inversion E.
    destruct (unlink_all_spec sd a keys s) as (_ & Hr & _). exact Hr.
  - apply set_links_frame in E. tauto.
  - apply add_link_as_all, add_links_frame in E. tauto.
  - unfold remove_link in E. destruct (pres s sd a); [|discriminate]. inversion E.
    destruct (unlink_all_spec sd a [k] s) as (_ & Hr & _). exact Hr.
Qed.

Lemma link_op_in : forall U o, is_link_op o = true -> op_in U o.
Proof. intros U o L. destruct o; simpl in *; try discriminate; exact I. Qed.

Lemma hstep_link_inv : forall T U M p o h s', hinv T U M h -> p < npairs T -> is_link_op o = true ->
  op_registered T p o = true -> op_count_ok o -> (0 <= M)%Z -> (op_bound M o <= max_int32)%Z ->
  step U o (view T p h) = Done s' -> hinv T U (op_bound M o) (put p s' h).
Proof.
  intros T U M p o h s' I Hp L Reg Hok HM Hb E.
  pose proof (link_op_pres _ _ _ _ L E) as Ep.
  constructor.
  - apply (hi_root _ _ _ _ I).
  - apply (hi_level _ _ _ _ I).
  - intros q Hq. destruct (Nat.eq_dec q p) as [->|N].
    + rewrite view_put_eq by exact Ep. eapply step_linv; [apply (hi_linv _ _ _ _ I); exact Hp | apply link_op_in; exact L | exact E].
    + rewrite view_put_other by exact N. apply (hi_linv _ _ _ _ I). exact Hq.
  - intros q Hq. destruct (Nat.eq_dec q p) as [->|N].
    + rewrite view_put_eq by exact Ep.
      eapply step_rinv; [apply (hi_linv _ _ _ _ I); exact Hp | apply (hi_rinv _ _ _ _ I); exact Hp | | | | exact E]; assumption.
    + rewrite view_put_other by exact N. eapply rinv_mono; [apply op_bound_ge | apply (hi_rinv _ _ _ _ I); exact Hq].
  - intros q Hq Hk sd a b. simpl. destruct (q =? p) eqn:Eq; [|apply (hi_plain _ _ _ _ I); assumption].
    apply Nat.eqb_eq in Eq. subst q. unfold op_registered in Reg.
    destruct (is_rc_op o) eqn:R; [|congruence].
    rewrite (rc_op_lnk _ _ _ _ R E). simpl. apply (hi_plain _ _ _ _ I); assumption.
  - intros q Hq Hk sd a b. simpl. destruct (q =? p) eqn:Eq; [|apply (hi_rc _ _ _ _ I); assumption].
    apply Nat.eqb_eq in Eq. subst q. unfold op_registered in Reg.
    destruct (is_rc_op o) eqn:R; [congruence|].
    rewrite (plain_op_rc _ _ _ _ L R E). simpl. apply (hi_rc _ _ _ _ I); assumption.
Qed.

(* ---- create ---------------------------------------------------------------------------------------------------- *)

Lemma hcreate_inv : forall T U M sd lv x h h', hinv T U M h -> In x (uni U sd) ->
  hcreate T sd lv x h = HDone h' -> hinv T U M h'.
Proof.
  intros T U M sd lv x h h' I Hin. unfold hcreate.
  destruct (level_ok T sd lv) eqn:Lv; simpl; [|discriminate].
  destruct (hp h sd lv x || hp h sd 0 x) eqn:Hp; [discriminate|].
  apply orb_false_iff in Hp. destruct Hp as [Hlv H0].
  intros E. inversion E. clear E H1.
  assert (CELL : forall q, q < npairs T ->
    let v' := view T q (mkHS (fun sd' k x' => if at2 sd x sd' x' && ((k =? lv) || (k =? 0)) then true else hp h sd' k x') (hl h) (hr h)) in
    (exists s1, create_entity sd x (view T q h) = Done s1 /\ same s1 v') \/ same (view T q h) v').
  { intros q Hq v'. destruct ((lvl T q sd =? lv) || (lvl T q sd =? 0)) eqn:B.
    - left. exists (set_pres (view T q h) sd x true). split.
      + unfold create_entity. simpl.
        assert (Hx : hp h sd (lvl T q sd) x = false).
        { apply orb_true_iff in B. destruct B as [B|B]; apply Nat.eqb_eq in B; rewrite B; assumption. }
        rewrite Hx. reflexivity.
      + split; [|split]; simpl; intros; try reflexivity.
        destruct (at2 sd x sd0 x0) eqn:A; simpl; [|reflexivity].
        apply at2_true in A. destruct A as [-> ->]. rewrite B. reflexivity.
    - right. split; [|split]; simpl; intros; try reflexivity.
      destruct (at2 sd x sd0 x0) eqn:A; simpl; [|reflexivity].
      apply at2_true in A. destruct A as [-> ->]. rewrite B. reflexivity. }
  constructor; simpl.
  - intros sd' k x'. destruct (at2 sd x sd' x') eqn:A; simpl.
    + rewrite orb_true_r. auto.
    + apply (hi_root _ _ _ _ I).
  - intros sd' k x'. destruct (at2 sd x sd' x' && ((k =? lv) || (k =? 0))) eqn:A.
    + intros _. apply andb_true_iff in A. destruct A as [A B]. apply at2_true in A. destruct A as [-> ->].
      apply orb_true_iff in B. destruct B as [B|B]; apply Nat.eqb_eq in B; subst k; [|lia].
      unfold level_ok in Lv. apply Nat.leb_le in Lv. exact Lv.
    + apply (hi_level _ _ _ _ I).
  - intros q Hq. destruct (CELL q Hq) as [(s1 & E1 & S)|S].
    + eapply linv_same; [exact S|]. eapply linv_create; [apply (hi_linv _ _ _ _ I); exact Hq | exact Hin | exact E1].
    + eapply linv_same; [exact S|]. apply (hi_linv _ _ _ _ I). exact Hq.
  - intros q Hq. destruct (CELL q Hq) as [(s1 & E1 & S)|S].
    + eapply rinv_same; [exact S|]. eapply rinv_create; [apply (hi_rinv _ _ _ _ I); exact Hq | exact E1].
    + eapply rinv_same; [exact S|]. apply (hi_rinv _ _ _ _ I). exact Hq.
  - apply (hi_plain _ _ _ _ I).
  - apply (hi_rc _ _ _ _ I).
Qed.

(* ---- delete: the loops ------------------------------------------------------------------------------------------ *)

Lemma hfold_cells : forall T f g ps, NoDup ps -> (forall s, pres (g s) = pres s) -> forall h,
  (forall p, In p ps -> f (view T p h) = Done (g (view T p h))) ->
  exists h', hfold (cell_apply T f) ps h = HDone h' /\ hp h' = hp h /\
    (forall q, In q ps -> view T q h' = g (view T q h)) /\
    (forall q, ~ In q ps -> view T q h' = view T q h).
Proof.
  intros T f g ps ND Hg. induction ND as [|p t Hnot ND IH]; intros h Hf.
  - exists h. simpl. split; [reflexivity|]. split; [reflexivity|]. split; [intros q []|reflexivity].
  - simpl. unfold cell_apply at 1. rewrite (Hf p (or_introl eq_refl)). simpl.
    set (h1 := put p (g (view T p h)) h).
    assert (V1 : forall q, q <> p -> view T q h1 = view T q h) by (intros; apply view_put_other; assumption).
    destruct (IH h1) as (h' & E & Hp & Hin & Hout).
    { intros q Hq. assert (q <> p) by (intros ->; contradiction). rewrite V1 by assumption. apply Hf. right. exact Hq. }
    exists h'. split; [exact E|]. split; [rewrite Hp; reflexivity|]. split.
    + intros q [<-|Hq].
      * rewrite Hout by exact Hnot. apply view_put_eq. apply Hg.
      * assert (q <> p) by (intros ->; contradiction). rewrite Hin by exact Hq. rewrite V1 by assumption. reflexivity.
    + intros q Hq. assert (q <> p) by (intros ->; apply Hq; left; reflexivity).
      rewrite Hout by (intros Hq'; apply Hq; right; exact Hq'). apply V1. assumption.
Qed.

Definition mid1 (U : univ) (sd : side) (x : id) (s : lstate) : lstate := unlink_peers sd x (rows U s sd x) s.
Definition mid2 (U : univ) (sd : side) (x : id) (s : lstate) : lstate := rc_unlink_peers sd x (rc_rows U s sd x) s.

Lemma mid1_pres : forall U sd x s, pres (mid1 U sd x s) = pres s.
Proof. intros. unfold mid1. destruct (unlink_peers_spec sd x (rows U s sd x) s) as (H & _). exact H. Qed.
Lemma mid2_pres : forall U sd x s, pres (mid2 U sd x s) = pres s.
Proof. intros. unfold mid2. destruct (rc_unlink_peers_spec sd x (rc_rows U s sd x) s) as (H & _). exact H. Qed.
Lemma delete_mid_eq : forall U sd x s, delete_mid U sd x s = mid2 U sd x (mid1 U sd x s).
Proof. reflexivity. Qed.

(* EntityDeleted of a collection whose bucket of the entity is empty changes nothing *)
Lemma rows_empty : forall U s sd x, (forall b, lnk s sd x b = false) -> rows U s sd x = [].
Proof.
  intros U s sd x H. unfold rows. induction (uni U (other sd)) as [|k t IH]; simpl; [reflexivity|].
  rewrite H. exact IH.
Qed.
Lemma rc_rows_empty : forall U s sd x, (forall b, rc s sd x b = None) -> rc_rows U s sd x = [].
Proof.
  intros U s sd x H. unfold rc_rows. induction (uni U (other sd)) as [|k t IH]; simpl; [reflexivity|].
  rewrite H. simpl. exact IH.
Qed.
Lemma mid1_empty : forall U sd x s, (forall b, lnk s sd x b = false) -> mid1 U sd x s = s.
Proof. intros. unfold mid1. rewrite rows_empty by assumption. reflexivity. Qed.
Lemma mid2_empty : forall U sd x s, (forall b, rc s sd x b = None) -> mid2 U sd x s = s.
Proof. intros. unfold mid2. rewrite rc_rows_empty by assumption. reflexivity. Qed.
Lemma mid1_rc : forall U sd x s, rc (mid1 U sd x s) = rc s.
Proof. intros. unfold mid1. destruct (unlink_peers_spec sd x (rows U s sd x) s) as (_ & H & _). exact H. Qed.

Lemma link_pairs_In : forall T sd k q, In q (link_pairs T sd k) <-> In q (store_pairs T sd k) /\ has_plain T q = true.
Proof. intros. unfold link_pairs. apply filter_In. Qed.
Lemma rc_pairs_In : forall T sd k q, In q (rc_pairs T sd k) <-> In q (store_pairs T sd k) /\ has_rc T q = true.
Proof. intros. unfold rc_pairs. apply filter_In. Qed.

(* cleanupLinks of a store that holds the entity: every pair of the store sees EntityDeleted of the
   kinds that are registered for it; for a kind that is not registered the bucket is empty, so the
   pair ends as if EntityDeleted of both kinds had run *)
Lemma cleanup_links_present : forall T U sd k x h, hp h sd k x = true ->
  (forall q, In q (store_pairs T sd k) -> has_plain T q = false -> forall b, hl h q sd x b = false) ->
  (forall q, In q (store_pairs T sd k) -> has_rc T q = false -> forall b, hr h q sd x b = None) ->
  exists h', cleanup_links T U sd k x h = HDone h' /\ hp h' = hp h /\
    (forall q, In q (store_pairs T sd k) -> view T q h' = delete_mid U sd x (view T q h)) /\
    (forall q, ~ In q (store_pairs T sd k) -> view T q h' = view T q h).
Proof.
  intros T U sd k x h Hx KL KR. unfold cleanup_links.
  destruct (hfold_cells T (entity_deleted U sd x) (mid1 U sd x) (link_pairs T sd k)
              (NoDup_filter _ (store_pairs_NoDup T sd k)) (mid1_pres U sd x) h)
    as (h1 & E1 & Hp1 & In1 & Out1).
  { intros p Hp. apply link_pairs_In in Hp. destruct Hp as [Hp _]. apply store_pairs_In in Hp. destruct Hp as [_ Hl].
    unfold entity_deleted. simpl. rewrite Hl, Hx. reflexivity. }
  rewrite E1. simpl.
  destruct (hfold_cells T (rc_entity_deleted U sd x) (mid2 U sd x) (rc_pairs T sd k)
              (NoDup_filter _ (store_pairs_NoDup T sd k)) (mid2_pres U sd x) h1)
    as (h2 & E2 & Hp2 & In2 & Out2).
  { intros p Hp. apply rc_pairs_In in Hp. destruct Hp as [Hp _]. apply store_pairs_In in Hp. destruct Hp as [_ Hl].
    unfold rc_entity_deleted, mid2. simpl. rewrite Hp1, Hl, Hx. reflexivity. }
  assert (V1 : forall q, In q (store_pairs T sd k) -> view T q h1 = mid1 U sd x (view T q h)).
  { intros q Hq. destruct (has_plain T q) eqn:K.
    - apply In1. apply link_pairs_In. auto.
    - rewrite Out1 by (rewrite link_pairs_In; intros [_ F]; congruence).
      symmetry. apply mid1_empty. intros b. simpl. apply KL; assumption. }
  assert (V2 : forall q, In q (store_pairs T sd k) -> view T q h2 = mid2 U sd x (view T q h1)).
  { intros q Hq. destruct (has_rc T q) eqn:K.
    - apply In2. apply rc_pairs_In. auto.
    - rewrite Out2 by (rewrite rc_pairs_In; intros [_ F]; congruence).
      symmetry. apply mid2_empty. intros b. rewrite (V1 q Hq), mid1_rc. simpl. apply KR; assumption. }
  exists h2. split; [exact E2|]. split; [congruence|]. split.
  - intros q Hq. rewrite (V2 q Hq), (V1 q Hq). reflexivity.
  - intros q Hq. rewrite Out2 by (rewrite rc_pairs_In; tauto). apply Out1. rewrite link_pairs_In. tauto.
Qed.

(* ... of a store that does not hold it: EntityDeleted of its first collection fails *)
Lemma cleanup_links_absent : forall T U sd k x h h', hp h sd k x = false ->
  cleanup_links T U sd k x h = HDone h' -> owned T sd k = [] /\ h' = h.
Proof.
  intros T U sd k x h h' Hx. unfold cleanup_links, owned.
  destruct (link_pairs T sd k) as [|p t] eqn:SP; simpl.
  - destruct (rc_pairs T sd k) as [|p t] eqn:SR; simpl.
    + intros E. inversion E. auto.
    + assert (Hp : In p (rc_pairs T sd k)) by (rewrite SR; left; reflexivity).
      apply rc_pairs_In in Hp. destruct Hp as [Hp _]. apply store_pairs_In in Hp. destruct Hp as [_ Hl].
      unfold cell_apply at 1, rc_entity_deleted. simpl. rewrite Hl, Hx. simpl. discriminate.
  - assert (Hp : In p (link_pairs T sd k)) by (rewrite SP; left; reflexivity).
    apply link_pairs_In in Hp. destruct Hp as [Hp _]. apply store_pairs_In in Hp. destruct Hp as [_ Hl].
    unfold cell_apply at 1, entity_deleted. simpl. rewrite Hl, Hx. simpl. discriminate.
Qed.

(* the state while the stores of the family are processed: the pairs of the processed stores that
   hold the entity have seen EntityDeleted, nothing else moved *)
Definition cleaned (T : topo) (U : univ) (sd : side) (x : id) (P : nat -> Prop) (h0 h : hstate) : Prop :=
  hp h = hp h0 /\ forall q, q < npairs T ->
    (P (lvl T q sd) -> hp h0 sd (lvl T q sd) x = true -> view T q h = delete_mid U sd x (view T q h0)) /\
    (~ (P (lvl T q sd) /\ hp h0 sd (lvl T q sd) x = true) -> view T q h = view T q h0).

Lemma cleaned_start : forall T U sd x h, cleaned T U sd x (fun _ => False) h h.
Proof. intros. split; [reflexivity|]. intros q _. split; [intros []|reflexivity]. Qed.

Lemma cleaned_add_absent : forall T U sd x P k h0 h, cleaned T U sd x P h0 h -> hp h0 sd k x = false ->
  cleaned T U sd x (fun j => P j \/ j = k) h0 h.
Proof.
  intros T U sd x P k h0 h [Hp C] Hk. split; [exact Hp|]. intros q Hq. destruct (C q Hq) as [C1 C2]. split.
  - intros [Pj|Ej] Hx; [apply C1; assumption | rewrite Ej in Hx; congruence].
  - intros N. apply C2. intros [Pj Hx]. apply N. split; [left; exact Pj | exact Hx].
Qed.

Definition kind_empty (T : topo) (h : hstate) : Prop :=
  (forall q, q < npairs T -> has_plain T q = false -> forall sd a b, hl h q sd a b = false) /\
  (forall q, q < npairs T -> has_rc T q = false -> forall sd a b, hr h q sd a b = None).

Lemma cleaned_add_present : forall T U sd x P k h0 h h', kind_empty T h0 -> cleaned T U sd x P h0 h -> ~ P k ->
  hp h0 sd k x = true -> cleanup_links T U sd k x h = HDone h' ->
  cleaned T U sd x (fun j => P j \/ j = k) h0 h'.
Proof.
  intros T U sd x P k h0 h h' [KL KR] [Hp C] NP Hk E.
  assert (V0 : forall q, In q (store_pairs T sd k) -> view T q h = view T q h0).
  { intros q Hq. apply store_pairs_In in Hq. destruct Hq as [Hq El]. destruct (C q Hq) as [_ C2].
    apply C2. intros [Pj _]. rewrite El in Pj. contradiction. }
  destruct (cleanup_links_present T U sd k x h) as (h2 & E2 & Hp2 & In2 & Out2); [rewrite Hp; exact Hk | | |].
  { intros q Hq K b. change (lnk (view T q h) sd x b = false). rewrite (V0 q Hq). simpl.
    apply KL; [apply store_pairs_In in Hq; tauto | exact K]. }
  { intros q Hq K b. change (rc (view T q h) sd x b = None). rewrite (V0 q Hq). simpl.
    apply KR; [apply store_pairs_In in Hq; tauto | exact K]. }
  rewrite E in E2. inversion E2. subst h2. clear E2.
  split; [congruence|]. intros q Hq. destruct (C q Hq) as [C1 C2].
  destruct (Nat.eq_dec (lvl T q sd) k) as [El|Nl].
  - assert (Hin : In q (store_pairs T sd k)) by (apply store_pairs_In; auto).
    assert (V : view T q h = view T q h0) by (apply C2; intros [Pj _]; rewrite El in Pj; contradiction).
    split.
    + intros _ _. rewrite (In2 q Hin), V. reflexivity.
    + intros N. exfalso. apply N. split; [right; exact El | rewrite El; exact Hk].
  - assert (Hout : ~ In q (store_pairs T sd k)) by (rewrite store_pairs_In; intros [_ F]; contradiction).
    rewrite (Out2 q Hout). split.
    + intros [Pj|Ej] Hx; [apply C1; assumption | contradiction].
    + intros N. apply C2. intros [Pj Hx]. apply N. split; [left; exact Pj | exact Hx].
Qed.

Lemma cleaned_ext : forall T U sd x P Q h0 h, (forall k, P k <-> Q k) -> cleaned T U sd x P h0 h -> cleaned T U sd x Q h0 h.
Proof.
  intros T U sd x P Q h0 h PQ [Hp C]. split; [exact Hp|]. intros q Hq. destruct (C q Hq) as [C1 C2]. split.
  - intros Qj. apply C1. apply PQ. exact Qj.
  - intros N. apply C2. intros [Pj Hx]. apply N. split; [apply PQ; exact Pj | exact Hx].
Qed.

Lemma children_cleanup_spec : forall T U sd x h0, kind_empty T h0 -> forall ks P h h', NoDup ks -> (forall k, In k ks -> ~ P k) ->
  cleaned T U sd x P h0 h -> children_cleanup T U sd x ks h = HDone h' ->
  cleaned T U sd x (fun j => P j \/ In j ks) h0 h'.
Proof.
  intros T U sd x h0 KE ks. induction ks as [|k t IH]; intros P h h' ND NP C E; simpl in E.
  - inversion E. subst. eapply cleaned_ext; [|exact C]. intros j. simpl. tauto.
  - inversion ND as [|? ? Hnot ND']; subst.
    assert (NPk : ~ P k) by (apply NP; left; reflexivity).
    assert (NP' : forall j, In j t -> ~ (P j \/ j = k)).
    { intros j Hj [Pj | ->]; [apply (NP j); [right; exact Hj | exact Pj] | contradiction]. }
    assert (EXT : forall j, ((P j \/ j = k) \/ In j t) <-> (P j \/ In j (k :: t))).
    { intros j. simpl. split; [intros [[?|?]|?] | intros [?|[?|?]]]; auto. }
    destruct (hp h0 sd k x) eqn:Hk.
    + (* the child store holds the entity *)
      assert (F : child_found T h sd k x = true).
      { unfold child_found. destruct C as [Hp _]. rewrite Hp, Hk. reflexivity. }
      rewrite F in E. destruct (cleanup_links T U sd k x h) as [h1| |] eqn:E1; simpl in E; try discriminate.
      eapply cleaned_ext; [exact EXT|]. eapply IH; [exact ND' | exact NP' | | exact E].
      eapply cleaned_add_present; eauto.
    + pose proof (cleaned_add_absent T U sd x P k h0 h C Hk) as C'.
      destruct (child_found T h sd k x).
      * (* an extended child store without data for the entity: cleanupLinks only passes when it owns nothing *)
        destruct (cleanup_links T U sd k x h) as [h1| |] eqn:E1; simpl in E; try discriminate.
        apply cleanup_links_absent in E1; [|destruct C as [Hp _]; rewrite Hp; exact Hk].
        destruct E1 as [_ ->].
        eapply cleaned_ext; [exact EXT|]. eapply IH; [exact ND' | exact NP' | exact C' | exact E].
      * eapply cleaned_ext; [exact EXT|]. eapply IH; [exact ND' | exact NP' | exact C' | exact E].
Qed.

(* ---- delete: what every pair sees ------------------------------------------------------------------------- *)

Lemma hdelete_cells : forall T U M sd lv x h h', hinv T U M h -> hdelete T U sd lv x h = HDone h' ->
  hp h sd 0 x = true /\
  (forall sd' k x', hp h' sd' k x' = if at2 sd x sd' x' then false else hp h sd' k x') /\
  forall q, q < npairs T ->
    (hp h sd (lvl T q sd) x = true ->
       same (drop_entity (delete_mid U sd x (view T q h)) sd x) (view T q h')) /\
    (hp h sd (lvl T q sd) x = false -> same (drop_entity (view T q h) sd x) (view T q h')).
Proof.
  intros T U M sd lv x h h' I. unfold hdelete.
  destruct (level_ok T sd lv); simpl; [|discriminate].
  destruct (hp h sd 0 x) eqn:H0; simpl; [|discriminate].
  destruct (children_cleanup T U sd x (seq 1 (nkids T sd)) h) as [h1| |] eqn:E1; simpl; try discriminate.
  destruct (cleanup_links T U sd 0 x h1) as [h2| |] eqn:E2; simpl; try discriminate.
  intros E. inversion E. clear E. subst h'.
  assert (KE : kind_empty T h) by (split; [apply (hi_plain _ _ _ _ I) | apply (hi_rc _ _ _ _ I)]).
  pose proof (children_cleanup_spec T U sd x h KE (seq 1 (nkids T sd)) (fun _ => False) h h1 (seq_NoDup _ _)
                (fun _ _ F => F) (cleaned_start T U sd x h) E1) as C1.
  assert (C2 : cleaned T U sd x (fun j => (False \/ In j (seq 1 (nkids T sd))) \/ j = 0) h h2).
  { eapply cleaned_add_present; [exact KE | exact C1 | | exact H0 | exact E2]. intros [[]|F]. apply in_seq in F. lia. }
  destruct C2 as [Hp C2].
  split; [reflexivity|]. split.
  - intros. simpl. rewrite Hp. reflexivity.
  - intros q Hq. destruct (C2 q Hq) as [CA CB]. split.
    + intros Hx.
      assert (V : view T q h2 = delete_mid U sd x (view T q h)).
      { apply CA; [|exact Hx]. pose proof (hi_level _ _ _ _ I _ _ _ Hx) as Le.
        destruct (lvl T q sd) as [|j] eqn:El; [right; reflexivity|]. left. right. apply in_seq. lia. }
      assert (Vl : hl h2 q = lnk (delete_mid U sd x (view T q h))) by (rewrite <- V; reflexivity).
      assert (Vr : hr h2 q = rc (delete_mid U sd x (view T q h))) by (rewrite <- V; reflexivity).
      split; [|split]; intros.
      * rewrite delete_pres. simpl. rewrite Hp. reflexivity.
      * simpl. rewrite Vl. reflexivity.
      * simpl. rewrite Vr. reflexivity.
    + intros Hx.
      assert (V : view T q h2 = view T q h) by (apply CB; intros [_ F]; congruence).
      assert (Vl : hl h2 q = hl h q) by (change (lnk (view T q h2) = lnk (view T q h)); rewrite V; reflexivity).
      assert (Vr : hr h2 q = hr h q) by (change (rc (view T q h2) = rc (view T q h)); rewrite V; reflexivity).
      split; [|split]; intros; simpl.
      * rewrite Hp. reflexivity.
      * rewrite Vl. reflexivity.
      * rewrite Vr. reflexivity.
Qed.

(* dropping an entity a collection does not see changes nothing for it *)
Lemma drop_absent_same : forall U M s sd x, linv U s -> rinv M s -> pres s sd x = false -> same s (drop_entity s sd x).
Proof.
  intros U M s sd x I R Hx. split; [|split]; intros; simpl.
  - destruct (at2 sd x sd0 x0) eqn:A; [|reflexivity]. apply at2_true in A. destruct A as [-> ->]. congruence.
  - destruct (at2 sd x sd0 a) eqn:A; [|reflexivity]. apply at2_true in A. destruct A as [-> ->].
    destruct (lnk s sd x b) eqn:L; [|reflexivity]. apply (li_pres _ _ I) in L. congruence.
  - destruct (at2 sd x sd0 a) eqn:A; [|reflexivity]. apply at2_true in A. destruct A as [-> ->].
    destruct (rc s sd x b) eqn:C; [|reflexivity]. apply (ri_pres _ _ R) in C. congruence.
Qed.

Lemma same_trans : forall s1 s2 s3, same s1 s2 -> same s2 s3 -> same s1 s3.
Proof.
  intros s1 s2 s3 (A1 & A2 & A3) (B1 & B2 & B3). split; [|split]; intros; [rewrite B1, A1 | rewrite B2, A2 | rewrite B3, A3]; reflexivity.
Qed.

Lemma hdelete_inv : forall T U M sd lv x h h', hinv T U M h -> hdelete T U sd lv x h = HDone h' -> hinv T U M h'.
Proof.
  intros T U M sd lv x h h' I E. destruct (hdelete_cells _ _ _ _ _ _ _ _ I E) as (H0 & Hp & C).
  assert (CELL : forall q, q < npairs T -> linv U (view T q h') /\ rinv M (view T q h')).
  { intros q Hq. destruct (C q Hq) as [CA CB].
    pose proof (hi_linv _ _ _ _ I q Hq) as IL. pose proof (hi_rinv _ _ _ _ I q Hq) as IR.
    destruct (hp h sd (lvl T q sd) x) eqn:Hx.
    - specialize (CA eq_refl). split.
      + eapply linv_same; [exact CA|]. apply linv_delete. exact IL.
      + eapply rinv_same; [exact CA|]. apply rinv_delete; assumption.
    - specialize (CB eq_refl).
      assert (S : same (view T q h) (view T q h')).
      { eapply same_trans; [|exact CB]. eapply drop_absent_same; eauto. }
      split; [eapply linv_same; eauto | eapply rinv_same; eauto]. }
  constructor.
  - intros sd' k x'. rewrite !Hp. destruct (at2 sd x sd' x'); [discriminate|]. apply (hi_root _ _ _ _ I).
  - intros sd' k x'. rewrite Hp. destruct (at2 sd x sd' x'); [discriminate|]. apply (hi_level _ _ _ _ I).
  - intros q Hq. apply CELL. exact Hq.
  - intros q Hq. apply CELL. exact Hq.
  - intros q Hq K sd' a b. destruct (C q Hq) as [CA CB].
    pose proof (hi_plain _ _ _ _ I q Hq K) as E0.
    change (lnk (view T q h') sd' a b = false).
    destruct (hp h sd (lvl T q sd) x) eqn:Hx.
    + destruct (CA eq_refl) as (_ & Sl & _). rewrite Sl, (delete_lnk _ _ _ _ (hi_linv _ _ _ _ I q Hq)). simpl.
      rewrite E0. apply andb_false_r.
    + destruct (CB eq_refl) as (_ & Sl & _). rewrite Sl. simpl. rewrite E0. destruct (at2 sd x sd' a); reflexivity.
  - intros q Hq K sd' a b. destruct (C q Hq) as [CA CB].
    pose proof (hi_rc _ _ _ _ I q Hq K) as E0.
    change (rc (view T q h') sd' a b = None).
    destruct (hp h sd (lvl T q sd) x) eqn:Hx.
    + destruct (CA eq_refl) as (_ & _ & Sr). rewrite Sr, (delete_rc _ _ _ _ _ (hi_linv _ _ _ _ I q Hq) (hi_rinv _ _ _ _ I q Hq)). simpl.
      rewrite E0. destruct (_ || _); reflexivity.
    + destruct (CB eq_refl) as (_ & _ & Sr). rewrite Sr. simpl. rewrite E0. destruct (at2 sd x sd' a); reflexivity.
Qed.

(* ---- one operation, transactions, histories ------------------------------------------------------------- *)

Lemma hop_bound_ge : forall M o, (M <= hop_bound M o)%Z.
Proof. intros M o. destruct o; simpl; try lia. apply op_bound_ge. Qed.

Lemma htx_bound_ge : forall ops M, (M <= htx_bound M ops)%Z.
Proof.
  induction ops as [|o t IH]; intros M; simpl; [lia|].
  unfold htx_bound in *. simpl. pose proof (IH (hop_bound M o)). pose proof (hop_bound_ge M o). lia.
Qed.

Lemma hhist_bound_ge : forall hs M, (M <= hhist_bound M hs)%Z.
Proof.
  induction hs as [|tx t IH]; intros M; simpl; [lia|].
  unfold hhist_bound in *. simpl. pose proof (IH (htx_bound M tx)). pose proof (htx_bound_ge tx M). lia.
Qed.

Lemma hstep_inv : forall T U M o h h', hinv T U M h -> (0 <= M)%Z -> hop_in U o -> hop_count_ok o ->
  (hop_bound M o <= max_int32)%Z -> hstep T U o h = HDone h' -> hinv T U (hop_bound M o) h'.
Proof.
  intros T U M o h h' I HM Hin Hok Hb E. destruct o as [sd lv x|sd lv x|p o]; simpl in *.
  - eapply hcreate_inv; eauto.
  - eapply hdelete_inv; eauto.
  - destruct (p <? npairs T) eqn:Hp; simpl in E; [|discriminate].
    destruct (is_link_op o) eqn:L; simpl in E; [|discriminate].
    destruct (op_registered T p o) eqn:Reg; simpl in E; [|discriminate].
    apply Nat.ltb_lt in Hp. unfold cell_apply in E.
    destruct (step U o (view T p h)) as [s'| |] eqn:E1; simpl in E; try discriminate.
    inversion E. eapply hstep_link_inv; eauto.
Qed.

Lemma run_hops_inv : forall T U ops M h h', hinv T U M h -> (0 <= M)%Z -> Forall (hop_in U) ops ->
  Forall hop_count_ok ops -> (htx_bound M ops <= max_int32)%Z -> run_hops T U ops h = HDone h' ->
  hinv T U (htx_bound M ops) h'.
Proof.
  intros T U ops. induction ops as [|o t IH]; intros M h h' I HM Hin Hok Hb E; simpl in E.
  - inversion E. subst. exact I.
  - inversion Hin; subst. inversion Hok; subst.
    destruct (hstep T U o h) as [h1| |] eqn:E1; simpl in E; try discriminate.
    unfold htx_bound in *. simpl in *.
    pose proof (htx_bound_ge t (hop_bound M o)) as G. unfold htx_bound in G. pose proof (hop_bound_ge M o).
    apply (IH (hop_bound M o) h1 h'); try assumption; try lia.
    eapply hstep_inv; eauto. lia.
Qed.

Lemma run_htx_inv : forall T U ops M h, hinv T U M h -> (0 <= M)%Z -> Forall (hop_in U) ops ->
  Forall hop_count_ok ops -> (htx_bound M ops <= max_int32)%Z -> hinv T U (htx_bound M ops) (snd (run_htx T U ops h)).
Proof.
  intros T U ops M h I HM Hin Hok Hb. unfold run_htx.
  destruct (run_hops T U ops h) as [h'| |] eqn:E; simpl.
  - eapply run_hops_inv; eauto.
  - eapply hinv_mono; [apply htx_bound_ge | exact I].
  - eapply hinv_mono; [apply htx_bound_ge | exact I].
Qed.

Lemma run_hhist_inv : forall T U hs M h, hinv T U M h -> (0 <= M)%Z -> hhist_in U hs -> hhist_counts_ok hs ->
  (hhist_bound M hs <= max_int32)%Z -> hinv T U (hhist_bound M hs) (run_hhist T U hs h).
Proof.
  intros T U hs. induction hs as [|tx t IH]; intros M h I HM Hin Hok Hb; simpl; [exact I|].
  inversion Hin; subst. inversion Hok; subst. unfold hhist_bound in *. simpl in *.
  pose proof (hhist_bound_ge t (htx_bound M tx)) as G. unfold hhist_bound in G. pose proof (htx_bound_ge tx M).
  apply IH; try assumption; try lia.
  apply run_htx_inv; try assumption. lia.
Qed.

(* ======================================================================================== *)
(* the lemmas behind the hierarchy statements of Properties/C05.v                              *)
(* ======================================================================================== *)

Lemma hier_reachable_lemma : forall T U hs, hhist_in U hs -> hhist_counts_ok hs ->
  (hhist_bound 0 hs <= max_int32)%Z -> hinv T U (hhist_bound 0 hs) (run_hhist T U hs hinit).
Proof. intros. apply run_hhist_inv; try assumption; [apply hinv_init | lia]. Qed.

(* every pair of collections, whatever the level of its two stores: symmetric; only between entities
   its stores hold (which the root stores then hold too); counts agree and are positive *)
Lemma hinv_pairs_lemma : forall T U M h, hinv T U M h -> (M <= max_int32)%Z -> forall p, p < npairs T -> forall sd a b,
  (hl h p sd a b = true <-> hl h p (other sd) b a = true) /\
  (In b (get_links U (view T p h) sd a) <-> In a (get_links U (view T p h) (other sd) b)) /\
  is_linked (view T p h) sd a b = is_linked (view T p h) (other sd) b a /\
  (hl h p sd a b = true ->
     hp h sd (lvl T p sd) a = true /\ hp h (other sd) (lvl T p (other sd)) b = true /\
     hp h sd 0 a = true /\ hp h (other sd) 0 b = true) /\
  match hr h p sd a b, hr h p (other sd) b a with
  | Some c, Some c' => c = c' /\ (0 < c <= max_int32)%Z
  | None, None => True
  | _, _ => False
  end.
Proof.
  intros T U M h I HM p Hp sd a b.
  pose proof (hi_linv _ _ _ _ I p Hp) as IL. pose proof (hi_rinv _ _ _ _ I p Hp) as IR.
  destruct (linv_symmetric_views _ _ IL sd a b) as (S1 & S2 & S3).
  split; [exact S1|]. split; [exact S2|]. split; [exact S3|]. split.
  - intros L. pose proof (li_pres _ _ IL sd a b L) as P1. pose proof (linv_peer_pres _ _ IL sd a b L) as P2.
    simpl in P1, P2. repeat split; try assumption; eapply (hi_root _ _ _ _ I); eassumption.
  - pose proof (rinv_counts_agree _ _ IR sd a b) as C. simpl in C.
    destruct (hr h p sd a b), (hr h p (other sd) b a); auto. destruct C as [C1 C2]. split; [exact C1 | lia].
Qed.

(* an entity the root store of its family does not hold has no link and no count in ANY pair, on
   either side - whatever store level the pair's collections are registered on *)
Lemma hinv_absent_lemma : forall T U M h, hinv T U M h -> forall sd x, hp h sd 0 x = false ->
  forall p, p < npairs T -> forall k,
    hl h p sd x k = false /\ hl h p (other sd) k x = false /\ hr h p sd x k = None /\ hr h p (other sd) k x = None.
Proof.
  intros T U M h I sd x H0 p Hp k.
  pose proof (hi_linv _ _ _ _ I p Hp) as IL. pose proof (hi_rinv _ _ _ _ I p Hp) as IR.
  assert (Hx : pres (view T p h) sd x = false).
  { simpl. destruct (hp h sd (lvl T p sd) x) eqn:E; [|reflexivity]. apply (hi_root _ _ _ _ I) in E. congruence. }
  assert (L1 : lnk (view T p h) sd x k = false).
  { destruct (lnk (view T p h) sd x k) eqn:L; [|reflexivity]. apply (li_pres _ _ IL) in L. congruence. }
  assert (C1 : rc (view T p h) sd x k = None).
  { destruct (rc (view T p h) sd x k) eqn:C; [|reflexivity]. apply (ri_pres _ _ IR) in C. congruence. }
  pose proof (linv_sym_eq _ _ IL sd x k) as S1. pose proof (rinv_sym_eq _ _ IR sd x k) as S2.
  simpl in *. rewrite S1, S2. auto.
Qed.

(* DeleteById through ANY store of the family: afterwards no store of the family holds the entity, no
   pair of any level keeps a link or count from it or to it, every other entry of every pair is
   untouched, and the invariants hold again *)
Lemma hdelete_cleans_lemma : forall T U M sd lv x h h', hinv T U M h -> hdelete T U sd lv x h = HDone h' ->
  hinv T U M h' /\ (forall k, hp h' sd k x = false) /\
  (forall sd' k x', (sd', x') <> (sd, x) -> hp h' sd' k x' = hp h sd' k x') /\
  (forall p, p < npairs T -> forall k,
     hl h' p sd x k = false /\ hl h' p (other sd) k x = false /\ hr h' p sd x k = None /\ hr h' p (other sd) k x = None) /\
  (forall p, p < npairs T -> forall sd' a b, (sd', a) <> (sd, x) -> (sd', b) <> (other sd, x) ->
     hl h' p sd' a b = hl h p sd' a b /\ hr h' p sd' a b = hr h p sd' a b).
Proof.
  intros T U M sd lv x h h' I E. pose proof (hdelete_inv _ _ _ _ _ _ _ _ I E) as I'.
  destruct (hdelete_cells _ _ _ _ _ _ _ _ I E) as (H0 & Hp & C).
  assert (Gone : forall k, hp h' sd k x = false).
  { intros k. rewrite Hp. unfold at2. rewrite eqb_reflx, id_eqb_refl. reflexivity. }
  split; [exact I'|]. split; [exact Gone|]. split.
  - intros sd' k x' N. rewrite Hp. destruct (at2 sd x sd' x') eqn:A; [|reflexivity].
    apply at2_true in A. destruct A as [-> ->]. contradiction.
  - split.
    + intros p Hq k. apply (hinv_absent_lemma _ _ _ _ I'); [apply Gone | exact Hq].
    + intros p Hq sd' a b N1 N2. destruct (C p Hq) as [CA CB].
      pose proof (hi_linv _ _ _ _ I p Hq) as IL. pose proof (hi_rinv _ _ _ _ I p Hq) as IR.
      assert (A1 : at2 sd x sd' a = false).
      { destruct (at2 sd x sd' a) eqn:A; [|reflexivity]. apply at2_true in A. destruct A as [-> ->]. contradiction. }
      assert (A2 : at2 (other sd) x sd' b = false).
      { destruct (at2 (other sd) x sd' b) eqn:A; [|reflexivity]. apply at2_true in A. destruct A as [-> ->]. contradiction. }
      destruct (hp h sd (lvl T p sd) x) eqn:Hx.
      * destruct (CA eq_refl) as (_ & Sl & Sr). specialize (Sl sd' a b). specialize (Sr sd' a b).
        rewrite (delete_lnk _ _ _ _ IL) in Sl. rewrite (delete_rc _ _ _ _ _ IL IR) in Sr.
        rewrite A1, A2 in Sl, Sr. simpl in Sl, Sr. auto.
      * destruct (CB eq_refl) as (_ & Sl & Sr). specialize (Sl sd' a b). specialize (Sr sd' a b).
        simpl in Sl, Sr. rewrite A1 in Sl, Sr. auto.
Qed.

(* ---- the delete succeeds unless an Extended child store that owns a collection has no data for the entity *)

Lemma hfold_done : forall T f ps h,
  (forall p h1, In p ps -> hp h1 = hp h -> exists s, f (view T p h1) = Done s) ->
  exists h', hfold (cell_apply T f) ps h = HDone h' /\ hp h' = hp h.
Proof.
  intros T f ps. induction ps as [|p t IH]; intros h H; simpl.
  - exists h. auto.
  - destruct (H p h (or_introl eq_refl) eq_refl) as (s & E). unfold cell_apply at 1. rewrite E. simpl.
    destruct (IH (put p s h)) as (h' & E' & Hp').
    { intros q h1 Hq Eh. apply H; [right; exact Hq | rewrite Eh; reflexivity]. }
    exists h'. split; [exact E' | rewrite Hp'; reflexivity].
Qed.

Lemma cleanup_links_ok : forall T U sd k x h, hp h sd k x = true \/ owned T sd k = [] ->
  exists h', cleanup_links T U sd k x h = HDone h' /\ hp h' = hp h.
Proof.
  intros T U sd k x h [Hx|Hs].
  - unfold cleanup_links.
    destruct (hfold_done T (entity_deleted U sd x) (link_pairs T sd k) h) as (h1 & E1 & Hp1).
    { intros p h1 Hp Eh. apply link_pairs_In in Hp. destruct Hp as [Hp _]. apply store_pairs_In in Hp. destruct Hp as [_ Hl].
      unfold entity_deleted. simpl. rewrite Eh, Hl, Hx. eexists. reflexivity. }
    rewrite E1. simpl.
    destruct (hfold_done T (rc_entity_deleted U sd x) (rc_pairs T sd k) h1) as (h2 & E2 & Hp2).
    { intros p h2 Hp Eh. apply rc_pairs_In in Hp. destruct Hp as [Hp _]. apply store_pairs_In in Hp. destruct Hp as [_ Hl].
      unfold rc_entity_deleted. simpl. rewrite Eh, Hp1, Hl, Hx. eexists. reflexivity. }
    exists h2. split; [exact E2 | congruence].
  - exists h. unfold cleanup_links. unfold owned in Hs. apply app_eq_nil in Hs. destruct Hs as [-> ->]. simpl. auto.
Qed.

Lemma children_cleanup_ok : forall T U sd x ks h,
  (forall k, In k ks -> is_ext T sd k = true -> hp h sd k x = true \/ owned T sd k = []) ->
  exists h', children_cleanup T U sd x ks h = HDone h' /\ hp h' = hp h.
Proof.
  intros T U sd x ks. induction ks as [|k t IH]; intros h H; simpl.
  - exists h. auto.
  - unfold child_found. destruct (hp h sd k x) eqn:Hx; simpl.
    + destruct (cleanup_links_ok T U sd k x h (or_introl Hx)) as (h1 & E1 & Hp1). rewrite E1. simpl.
      destruct (IH h1) as (h' & E & Hp).
      { intros j Hj Ej. rewrite Hp1. apply H; [right; exact Hj | exact Ej]. }
      exists h'. split; [exact E | congruence].
    + destruct (is_ext T sd k) eqn:Ek.
      * destruct (H k (or_introl eq_refl) Ek) as [F|Hs]; [congruence|].
        destruct (cleanup_links_ok T U sd k x h (or_intror Hs)) as (h1 & E1 & Hp1). rewrite E1. simpl.
        destruct (IH h1) as (h' & E & Hp).
        { intros j Hj Ej. rewrite Hp1. apply H; [right; exact Hj | exact Ej]. }
        exists h'. split; [exact E | congruence].
      * apply IH. intros j Hj Ej. apply H; [right; exact Hj | exact Ej].
Qed.

Lemma hdelete_succeeds_lemma : forall T U sd lv x h, level_ok T sd lv = true -> hp h sd 0 x = true ->
  ext_blocked T h sd x = false -> exists h', hdelete T U sd lv x h = HDone h'.
Proof.
  intros T U sd lv x h Lv H0 B. unfold hdelete. rewrite Lv, H0. simpl.
  destruct (children_cleanup_ok T U sd x (seq 1 (nkids T sd)) h) as (h1 & E1 & Hp1).
  { intros k Hk Ek. unfold ext_blocked in B.
    destruct (hp h sd k x) eqn:Hx; [left; reflexivity|]. right.
    destruct (owned T sd k) as [|p t] eqn:Sp; [reflexivity|]. exfalso.
    assert (F : existsb (fun k => is_ext T sd k && negb (hp h sd k x) &&
                  match owned T sd k with [] => false | _ => true end) (seq 1 (nkids T sd)) = true).
    { apply existsb_exists. exists k. split; [exact Hk|]. rewrite Ek, Hx, Sp. reflexivity. }
    congruence. }
  rewrite E1. simpl.
  destruct (cleanup_links_ok T U sd 0 x h1) as (h2 & E2 & _); [left; rewrite Hp1; exact H0|].
  rewrite E2. simpl. eexists. reflexivity.
Qed.

(* ... and it is refused in exactly that case *)
Lemma cleanup_links_hp : forall T U sd k x h h', cleanup_links T U sd k x h = HDone h' -> hp h' = hp h.
Proof.
  intros T U sd k x h h' E. destruct (hp h sd k x) eqn:Hx.
  - destruct (cleanup_links_ok T U sd k x h (or_introl Hx)) as (h2 & E2 & Hp). congruence.
  - apply cleanup_links_absent in E; [|exact Hx]. destruct E as [_ ->]. reflexivity.
Qed.

Lemma children_cleanup_blocked : forall T U sd x ks h h',
  (exists k, In k ks /\ is_ext T sd k = true /\ hp h sd k x = false /\ owned T sd k <> []) ->
  children_cleanup T U sd x ks h <> HDone h'.
Proof.
  intros T U sd x ks. induction ks as [|k0 t IH]; intros h h' (k & Hk & Ek & Hx & Sp) E; simpl in *; [contradiction|].
  destruct Hk as [->|Hk].
  - unfold child_found in E. rewrite Ek, orb_true_r in E.
    destruct (cleanup_links T U sd k x h) as [h1| |] eqn:E1; simpl in E; try discriminate.
    apply cleanup_links_absent in E1; [|exact Hx]. destruct E1 as [F _]. contradiction.
  - destruct (child_found T h sd k0 x).
    + destruct (cleanup_links T U sd k0 x h) as [h1| |] eqn:E1; simpl in E; try discriminate.
      apply cleanup_links_hp in E1. apply (IH h1 h'); [|exact E].
      exists k. rewrite E1. auto.
    + apply (IH h h'); [|exact E]. exists k. auto.
Qed.

Lemma hdelete_blocked_lemma : forall T U sd lv x h h', ext_blocked T h sd x = true -> hdelete T U sd lv x h <> HDone h'.
Proof.
  intros T U sd lv x h h' B E. unfold hdelete in E.
  destruct (level_ok T sd lv); simpl in E; [|discriminate].
  destruct (hp h sd 0 x); simpl in E; [|discriminate].
  destruct (children_cleanup T U sd x (seq 1 (nkids T sd)) h) as [h1| |] eqn:E1; simpl in E; try discriminate.
  revert E1. apply children_cleanup_blocked.
  unfold ext_blocked in B. apply existsb_exists in B. destruct B as (k & Hk & B).
  apply andb_true_iff in B. destruct B as [B Sp]. apply andb_true_iff in B. destruct B as [Ek Hx].
  apply negb_true_iff in Hx. exists k. repeat split; try assumption.
  intros F. rewrite F in Sp. discriminate.
Qed.

(* ---- the same for every state a history reaches --------------------------------------------------------- *)

Lemma hier_pairs_lemma : forall T U hs, hhist_in U hs -> hhist_counts_ok hs -> (hhist_bound 0 hs <= max_int32)%Z ->
  let h := run_hhist T U hs hinit in
  forall p, p < npairs T -> forall sd a b,
  (hl h p sd a b = true <-> hl h p (other sd) b a = true) /\
  (In b (get_links U (view T p h) sd a) <-> In a (get_links U (view T p h) (other sd) b)) /\
  is_linked (view T p h) sd a b = is_linked (view T p h) (other sd) b a /\
  (hl h p sd a b = true ->
     hp h sd (lvl T p sd) a = true /\ hp h (other sd) (lvl T p (other sd)) b = true /\
     hp h sd 0 a = true /\ hp h (other sd) 0 b = true) /\
  match hr h p sd a b, hr h p (other sd) b a with
  | Some c, Some c' => c = c' /\ (0 < c <= max_int32)%Z
  | None, None => True
  | _, _ => False
  end.
Proof.
  intros T U hs H1 H2 H3 h. eapply hinv_pairs_lemma; [apply hier_reachable_lemma; eassumption | exact H3].
Qed.

Lemma hier_absent_lemma : forall T U hs, hhist_in U hs -> hhist_counts_ok hs -> (hhist_bound 0 hs <= max_int32)%Z ->
  let h := run_hhist T U hs hinit in
  forall sd x, hp h sd 0 x = false ->
  (forall k, hp h sd k x = false) /\
  forall p, p < npairs T -> forall k,
    hl h p sd x k = false /\ hl h p (other sd) k x = false /\ hr h p sd x k = None /\ hr h p (other sd) k x = None.
Proof.
  intros T U hs H1 H2 H3 h sd x H0. pose proof (hier_reachable_lemma T U hs H1 H2 H3) as I. fold h in I. split.
  - intros k. destruct (hp h sd k x) eqn:E; [|reflexivity]. apply (hi_root _ _ _ _ I) in E. congruence.
  - apply (hinv_absent_lemma _ _ _ _ I). exact H0.
Qed.

(* ---- kinds of collection ---------------------------------------------------------------------------------------- *)

(* a kind of collection that the stores of a pair did not register holds nothing for the pair, in every
   state a history reaches; its operations are refused *)
Lemma hier_kinds_lemma : forall T U hs, hhist_in U hs -> hhist_counts_ok hs -> (hhist_bound 0 hs <= max_int32)%Z ->
  let h := run_hhist T U hs hinit in
  forall p, p < npairs T ->
  (has_plain T p = false -> forall sd a b, hl h p sd a b = false) /\
  (has_rc T p = false -> forall sd a b, hr h p sd a b = None).
Proof.
  intros T U hs H1 H2 H3 h p Hp. pose proof (hier_reachable_lemma T U hs H1 H2 H3) as I. fold h in I.
  split; [apply (hi_plain _ _ _ _ I) | apply (hi_rc _ _ _ _ I)]; exact Hp.
Qed.

Lemma hstep_unregistered_lemma : forall T U p o h, op_registered T p o = false -> hstep T U (HLink p o) h = HFailed.
Proof. intros T U p o h R. simpl. rewrite R, andb_false_r. reflexivity. Qed.
