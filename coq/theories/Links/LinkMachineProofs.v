(* C05 - proofs about Links/LinkMachine.v: entity create / delete, preservation of the link
   and ref-count invariants by every operation, transaction and history; the lemmas behind
   Properties/C05.v. *)
From Coq Require Import List NArith ZArith Bool Btauto Lia.
From Storage Require Import Base.Bytes Links.StrOrder Links.LinkModel Links.LinkModelProofs
  Links.SetLinksMerge Links.SetLinksMergeProofs Links.RefCount Links.RefCountProofs Links.LinkMachine.
Import ListNotations.
Local Open Scope Z_scope.

Lemma at2_true : forall sd a sd' a', at2 sd a sd' a' = true <-> sd' = sd /\ a' = a.
Proof.
  intros. unfold at2. rewrite andb_true_iff. split.
  - intros [H1 H2]. apply eqb_prop in H1. destruct (id_eqb_spec a' a); [auto | discriminate].
  - intros [-> ->]. rewrite eqb_reflx, id_eqb_refl. auto.
Qed.

Lemma linv_ext : forall U s s', pres s' = pres s -> lnk s' = lnk s -> linv U s -> linv U s'.
Proof.
  intros U s s' Hp Hl I. constructor.
  - rewrite Hp. apply (li_univ _ _ I).
  - rewrite Hl. apply (li_sym _ _ I).
  - rewrite Hl, Hp. apply (li_pres _ _ I).
Qed.

(* ---- create ------------------------------------------------------------------------------------ *)

Lemma linv_create : forall U s sd x s', linv U s -> In x (uni U sd) -> create_entity sd x s = Done s' -> linv U s'.
Proof.
  intros U s sd x s' I Hin. unfold create_entity. destruct (pres s sd x); [discriminate|].
  intros E. inversion E. constructor; simpl.
  - intros sd' x'. destruct (at2 sd x sd' x') eqn:A.
    + apply at2_true in A. destruct A as [-> ->]. intros _. exact Hin.
    + apply (li_univ _ _ I).
  - apply (li_sym _ _ I).
  - intros sd' a b H. apply (li_pres _ _ I) in H. rewrite H. destruct (at2 sd x sd' a); reflexivity.
Qed.

Lemma rinv_create : forall M s sd x s', rinv M s -> create_entity sd x s = Done s' -> rinv M s'.
Proof.
  intros M s sd x s' I. unfold create_entity. destruct (pres s sd x); [discriminate|].
  intros E. inversion E. apply (rinv_ext M s); [reflexivity | | exact I].
  simpl. intros sd' x' H. rewrite H. destruct (at2 sd x sd' x'); reflexivity.
Qed.

(* ---- delete ------------------------------------------------------------------------------------ *)

Definition delete_mid (U : univ) (sd : side) (x : id) (s : lstate) : lstate :=
  let s1 := unlink_peers sd x (rows U s sd x) s in
  rc_unlink_peers sd x (rc_rows U s1 sd x) s1.

Lemma delete_entity_done : forall U sd x s, pres s sd x = true ->
  delete_entity U sd x s = Done (drop_entity (delete_mid U sd x s) sd x).
Proof.
  intros U sd x s Hx. unfold delete_entity, entity_deleted, rc_entity_deleted, delete_mid. rewrite Hx. simpl.
  destruct (unlink_peers_spec sd x (rows U s sd x) s) as (Hp & _). rewrite Hp, Hx. reflexivity.
Qed.

Lemma delete_entity_failed : forall U sd x s, pres s sd x = false -> delete_entity U sd x s = Failed.
Proof. intros. unfold delete_entity. rewrite H. reflexivity. Qed.

(* after the delete: the entity is gone, every link from it and to it is gone, nothing else changed *)
Lemma delete_pres : forall U sd x s sd' p,
  pres (drop_entity (delete_mid U sd x s) sd x) sd' p = if at2 sd x sd' p then false else pres s sd' p.
Proof.
  intros. simpl. unfold delete_mid.
  destruct (rc_unlink_peers_spec sd x (rc_rows U (unlink_peers sd x (rows U s sd x) s) sd x) (unlink_peers sd x (rows U s sd x) s)) as (Hp2 & _).
  destruct (unlink_peers_spec sd x (rows U s sd x) s) as (Hp1 & _). rewrite Hp2, Hp1. reflexivity.
Qed.

Lemma delete_lnk : forall U sd x s, linv U s -> forall sd' p q,
  lnk (drop_entity (delete_mid U sd x s) sd x) sd' p q =
  negb (at2 sd x sd' p) && negb (at2 (other sd) x sd' q) && lnk s sd' p q.
Proof.
  intros U sd x s I sd' p q. simpl. unfold delete_mid.
  destruct (rc_unlink_peers_spec sd x (rc_rows U (unlink_peers sd x (rows U s sd x) s) sd x) (unlink_peers sd x (rows U s sd x) s)) as (_ & Hl2 & _).
  destruct (unlink_peers_spec sd x (rows U s sd x) s) as (_ & _ & Hl1). rewrite Hl2, Hl1.
  destruct (lnk s sd' p q) eqn:L; [|btauto].
  destruct (at2 (other sd) x sd' q) eqn:A2; [|btauto].
  apply at2_true in A2. destruct A2 as [-> ->].
  pose proof (li_pres _ _ I _ _ _ L) as Hp. rewrite Hp.
  pose proof (li_sym _ _ I _ _ _ L) as Ls. rewrite other_other in Ls.
  apply (rows_In_inv _ _ I) in Ls. apply mem_In in Ls. rewrite Ls. btauto.
Qed.

Lemma rc_rows_In : forall U s sd a k, In k (rc_rows U s sd a) <-> In k (uni U (other sd)) /\ is_some (rc s sd a k) = true.
Proof. intros. unfold rc_rows. apply filter_In. Qed.

Lemma delete_rc : forall U M sd x s, linv U s -> rinv M s -> forall sd' p q,
  rc (drop_entity (delete_mid U sd x s) sd x) sd' p q =
  if at2 sd x sd' p || at2 (other sd) x sd' q then None else rc s sd' p q.
Proof.
  intros U M sd x s I R sd' p q. simpl. unfold delete_mid.
  destruct (unlink_peers_spec sd x (rows U s sd x) s) as (Hp1 & Hr1 & _).
  destruct (rc_unlink_peers_spec sd x (rc_rows U (unlink_peers sd x (rows U s sd x) s) sd x) (unlink_peers sd x (rows U s sd x) s)) as (_ & _ & Hr2).
  rewrite Hr2, Hr1, Hp1.
  destruct (at2 sd x sd' p); [reflexivity|]. simpl.
  destruct (at2 (other sd) x sd' q) eqn:A2; simpl; [|reflexivity].
  apply at2_true in A2. destruct A2 as [-> ->].
  destruct (rc s (other sd) p x) as [c|] eqn:E; [|destruct (_ && _); reflexivity].
  pose proof (ri_pres _ _ R _ _ _ _ E) as Hp. rewrite Hp.
  pose proof (ri_sym _ _ R _ _ _ _ E) as Es. rewrite other_other in Es.
  assert (Hin : In p (rc_rows U (unlink_peers sd x (rows U s sd x) s) sd x)).
  { apply rc_rows_In. split; [apply (li_univ _ _ I); exact Hp|]. rewrite Hr1, Es. reflexivity. }
  apply mem_In in Hin. rewrite Hin. reflexivity.
Qed.

Lemma linv_delete : forall U sd x s, linv U s -> linv U (drop_entity (delete_mid U sd x s) sd x).
Proof.
  intros U sd x s I. constructor.
  - intros sd' p. rewrite delete_pres. destruct (at2 sd x sd' p); [discriminate|]. apply (li_univ _ _ I).
  - intros sd' p q. rewrite !(delete_lnk _ _ _ _ I), (linv_sym_eq _ _ I). unfold at2.
    destruct sd, sd'; simpl;
      match goal with |- ?A = true -> ?B = true => assert (EAB : A = B) by btauto; rewrite EAB; auto end.
  - intros sd' p q. rewrite (delete_lnk _ _ _ _ I), delete_pres. intros H.
    apply andb_true_iff in H. destruct H as [H L]. apply andb_true_iff in H. destruct H as [H _].
    apply negb_true_iff in H. rewrite H. apply (li_pres _ _ I _ _ _ L).
Qed.

Lemma rinv_delete : forall U M sd x s, linv U s -> rinv M s -> rinv M (drop_entity (delete_mid U sd x s) sd x).
Proof.
  intros U M sd x s I R. constructor.
  - intros sd' p q c. rewrite !(delete_rc _ _ _ _ _ I R). unfold at2.
    destruct sd, sd'; simpl; id_cases; simpl; intros H; try discriminate;
      try (apply (ri_sym _ _ R) in H; exact H).
  - intros sd' p q c. rewrite (delete_rc _ _ _ _ _ I R), delete_pres.
    destruct (at2 sd x sd' p); simpl; [discriminate|]. destruct (at2 (other sd) x sd' q); [discriminate|].
    apply (ri_pres _ _ R).
  - intros sd' p q c. rewrite (delete_rc _ _ _ _ _ I R).
    destruct (at2 sd x sd' p || at2 (other sd) x sd' q); [discriminate|]. apply (ri_pos _ _ R).
Qed.

(* ---- frames: link operations do not touch counts and presence ----------------------------------- *)

Lemma add_links_frame : forall sd a keys s s', add_links sd a keys s = Done s' -> pres s' = pres s /\ rc s' = rc s.
Proof.
  intros sd a keys s s'. unfold add_links. destruct (pres s sd a); [|discriminate]. intros E.
  pose proof (link_all_spec sd a keys s) as S. rewrite E in S. tauto.
Qed.

Lemma set_links_frame : forall U sd a keys s s', set_links U sd a keys s = Done s' -> pres s' = pres s /\ rc s' = rc s.
Proof.
  intros U sd a keys s s'. unfold set_links. destruct (pres s sd a) eqn:Ha; [|discriminate].
  destruct (merge_rows (rows U s sd a) (sort_ids keys) [] []) as [[[k' ta] tr]|]; [|discriminate].
  rewrite (remove_links_done _ _ _ _ Ha). simpl. intros E. apply add_links_frame in E.
  destruct (unlink_all_spec sd a tr s) as (Hp & Hr & _). destruct E as [E1 E2]. split; congruence.
Qed.

Lemma add_link_as_all : forall sd a k s s', add_link sd a k s = Done s' -> add_links sd a [k] s = Done s'.
Proof.
  intros sd a k s s'. unfold add_link, add_links. destruct (pres s sd a); [|discriminate].
  simpl. intros E. rewrite E. reflexivity.
Qed.

(* ---- one operation ---------------------------------------------------------------------------------- *)

Lemma step_linv : forall U o s s', linv U s -> op_in U o -> step U o s = Done s' -> linv U s'.
Proof.
  intros U o s s' I Hin E. destruct o; simpl in *.
  - eapply linv_create; eauto.
  - destruct (pres s sd x) eqn:Hx; [|rewrite delete_entity_failed in E by exact Hx; discriminate].
    rewrite delete_entity_done in E by exact Hx. inversion E. apply linv_delete. exact I.
  - unfold add_links in E. destruct (pres s sd a) eqn:Ha; [|discriminate]. eapply linv_link_all; eauto.
  - unfold remove_links in E. destruct (pres s sd a); [|discriminate]. inversion E. apply linv_unlink_all. exact I.
  - eapply linv_set_links; eauto.
  - apply add_link_as_all in E. unfold add_links in E. destruct (pres s sd a) eqn:Ha; [|discriminate]. eapply linv_link_all; eauto.
  - unfold remove_link in E. destruct (pres s sd a); [|discriminate]. inversion E.
    apply (linv_unlink_all U s sd a [k] I).
  - apply rc_incr_frame in E. destruct E as [Ep El]. eapply linv_ext; eauto.
  - apply rc_decr_frame in E. destruct E as [Ep El]. eapply linv_ext; eauto.
  - apply rc_set_frame in E. destruct E as [Ep El]. eapply linv_ext; eauto.
Qed.

Lemma op_bound_ge : forall M o, M <= op_bound M o.
Proof. intros M o. destruct o; simpl; lia. Qed.

Lemma tx_bound_ge : forall ops M, M <= tx_bound M ops.
Proof.
  induction ops as [|o t IH]; intros M; simpl; [lia|].
  unfold tx_bound in *. simpl. pose proof (IH (op_bound M o)). pose proof (op_bound_ge M o). lia.
Qed.

Lemma hist_bound_ge : forall h M, M <= hist_bound M h.
Proof.
  induction h as [|tx t IH]; intros M; simpl; [lia|].
  unfold hist_bound in *. simpl. pose proof (IH (tx_bound M tx)). pose proof (tx_bound_ge tx M). lia.
Qed.

Lemma rinv_frame : forall M s s', pres s' = pres s -> rc s' = rc s -> rinv M s -> rinv M s'.
Proof.
  intros M s s' Hp Hr I. apply (rinv_ext M s); [intros; rewrite Hr; reflexivity | intros sd x; rewrite Hp; auto | exact I].
Qed.

Lemma step_rinv : forall U M o s s', linv U s -> rinv M s -> 0 <= M -> op_count_ok o ->
  op_bound M o <= max_int32 -> step U o s = Done s' -> rinv (op_bound M o) s'.
Proof.
  intros U M o s s' I R HM Hok Hb E. destruct o; simpl in *.
  - eapply rinv_create; eauto.
  - destruct (pres s sd x) eqn:Hx; [|rewrite delete_entity_failed in E by exact Hx; discriminate].
    rewrite delete_entity_done in E by exact Hx. inversion E. apply rinv_delete; assumption.
  - apply add_links_frame in E. destruct E. eapply rinv_frame; eauto.
  - unfold remove_links in E. destruct (pres s sd a); [|discriminate]. inversion E.
    destruct (unlink_all_spec sd a keys s) as (Hp & Hr & _). eapply rinv_frame; eauto.
  - apply set_links_frame in E. destruct E. eapply rinv_frame; eauto.
  - apply add_link_as_all, add_links_frame in E. destruct E. eapply rinv_frame; eauto.
  - unfold remove_link in E. destruct (pres s sd a); [|discriminate]. inversion E.
    destruct (unlink_all_spec sd a [k] s) as (Hp & Hr & _). eapply rinv_frame; eauto.
  - eapply rinv_rc_incr; eauto. lia.
  - eapply rinv_rc_decr; eauto.
  - eapply rinv_rc_set; eauto. lia.
Qed.

(* ---- transactions and histories ----------------------------------------------------------------------- *)

Lemma run_ops_linv : forall U ops s s', linv U s -> Forall (op_in U) ops -> run_ops U ops s = Done s' -> linv U s'.
Proof.
  intros U ops. induction ops as [|o t IH]; intros s s' I Hin E; simpl in E.
  - inversion E. subst. exact I.
  - inversion Hin; subst. destruct (step U o s) as [s1| |] eqn:E1; simpl in E; try discriminate.
    eapply IH; [eapply step_linv; eauto | assumption | exact E].
Qed.

Lemma run_tx_linv : forall U ops s, linv U s -> Forall (op_in U) ops -> linv U (snd (run_tx U ops s)).
Proof.
  intros U ops s I Hin. unfold run_tx. destruct (run_ops U ops s) as [s'| |] eqn:E; simpl; try exact I.
  eapply run_ops_linv; eauto.
Qed.

Lemma run_hist_linv : forall U h s, linv U s -> hist_in U h -> linv U (run_hist U h s).
Proof.
  intros U h. induction h as [|tx t IH]; intros s I Hin; simpl; [exact I|].
  inversion Hin; subst. apply IH; [apply run_tx_linv; assumption | assumption].
Qed.

Lemma run_ops_rinv : forall U ops M s s', linv U s -> rinv M s -> 0 <= M -> Forall (op_in U) ops ->
  Forall op_count_ok ops -> tx_bound M ops <= max_int32 -> run_ops U ops s = Done s' ->
  rinv (tx_bound M ops) s'.
Proof.
  intros U ops. induction ops as [|o t IH]; intros M s s' I R HM Hin Hok Hb E; simpl in E.
  - inversion E. subst. exact R.
  - inversion Hin; subst. inversion Hok; subst.
    destruct (step U o s) as [s1| |] eqn:E1; simpl in E; try discriminate.
    unfold tx_bound in *. simpl in *.
    pose proof (tx_bound_ge t (op_bound M o)) as G. unfold tx_bound in G. pose proof (op_bound_ge M o).
    apply (IH (op_bound M o) s1 s'); try assumption; try lia.
    + eapply step_linv; eauto.
    + eapply step_rinv; eauto. lia.
Qed.

Lemma run_tx_rinv : forall U ops M s, linv U s -> rinv M s -> 0 <= M -> Forall (op_in U) ops ->
  Forall op_count_ok ops -> tx_bound M ops <= max_int32 -> rinv (tx_bound M ops) (snd (run_tx U ops s)).
Proof.
  intros U ops M s I R HM Hin Hok Hb. unfold run_tx.
  destruct (run_ops U ops s) as [s'| |] eqn:E; simpl.
  - eapply run_ops_rinv; eauto.
  - eapply rinv_mono; [apply tx_bound_ge | exact R].
  - eapply rinv_mono; [apply tx_bound_ge | exact R].
Qed.

Lemma run_hist_rinv : forall U h M s, linv U s -> rinv M s -> 0 <= M -> hist_in U h -> hist_counts_ok h ->
  hist_bound M h <= max_int32 -> rinv (hist_bound M h) (run_hist U h s).
Proof.
  intros U h. induction h as [|tx t IH]; intros M s I R HM Hin Hok Hb; simpl; [exact R|].
  inversion Hin; subst. inversion Hok; subst. unfold hist_bound in *. simpl in *.
  pose proof (hist_bound_ge t (tx_bound M tx)) as G. unfold hist_bound in G. pose proof (tx_bound_ge tx M).
  apply IH; try assumption; try lia.
  - apply run_tx_linv; assumption.
  - apply run_tx_rinv; try assumption. lia.
Qed.

(* ======================================================================================== *)
(* the lemmas behind Properties/C05.v                                                         *)
(* ======================================================================================== *)

Lemma reachable_linv : forall U h, hist_in U h -> linv U (run_hist U h init_state).
Proof. intros U h H. apply run_hist_linv; [apply linv_init | exact H]. Qed.

Lemma reachable_rinv : forall U h, hist_in U h -> hist_counts_ok h -> hist_bound 0 h <= max_int32 ->
  rinv (hist_bound 0 h) (run_hist U h init_state).
Proof. intros U h H1 H2 H3. apply run_hist_rinv; try assumption; [apply linv_init | apply rinv_init | lia]. Qed.

Lemma get_links_In : forall U s, linv U s -> forall sd a b, In b (get_links U s sd a) <-> lnk s sd a b = true.
Proof.
  intros U s I sd a b. unfold get_links. destruct (pres s sd a) eqn:Ha.
  - apply (rows_In_inv _ _ I).
  - split; [intros []|]. intros H. apply (li_pres _ _ I) in H. congruence.
Qed.

Lemma is_linked_lnk : forall U s, linv U s -> forall sd a b, is_linked s sd a b = lnk s sd a b.
Proof.
  intros U s I sd a b. unfold is_linked. destruct (lnk s sd a b) eqn:L; [|apply andb_false_r].
  rewrite (li_pres _ _ I _ _ _ L). reflexivity.
Qed.

(* ---- 1. symmetry ------------------------------------------------------------------------------ *)

Lemma linv_symmetric_views : forall U s, linv U s -> forall sd a b,
  (lnk s sd a b = true <-> lnk s (other sd) b a = true) /\
  (In b (get_links U s sd a) <-> In a (get_links U s (other sd) b)) /\
  is_linked s sd a b = is_linked s (other sd) b a.
Proof.
  intros U s I sd a b. pose proof (linv_sym_eq _ _ I sd a b) as E. split; [|split].
  - rewrite E. tauto.
  - rewrite !(get_links_In _ _ I), E. tauto.
  - rewrite !(is_linked_lnk _ _ I), E. reflexivity.
Qed.

Lemma links_symmetric_lemma : forall U h, hist_in U h ->
  let s := run_hist U h init_state in
  forall sd a b,
    (lnk s sd a b = true <-> lnk s (other sd) b a = true) /\
    (In b (get_links U s sd a) <-> In a (get_links U s (other sd) b)) /\
    is_linked s sd a b = is_linked s (other sd) b a.
Proof. intros U h H s. apply linv_symmetric_views. apply reachable_linv. exact H. Qed.

Lemma links_between_present_lemma : forall U h, hist_in U h ->
  let s := run_hist U h init_state in
  forall sd a b, lnk s sd a b = true -> pres s sd a = true /\ pres s (other sd) b = true.
Proof.
  intros U h H s sd a b L. pose proof (reachable_linv U h H) as I. split.
  - eapply (li_pres _ _ I); eauto.
  - eapply linv_peer_pres; eauto.
Qed.

(* ---- 2. SetLinks ------------------------------------------------------------------------------ *)

Lemma set_links_exact_lemma : forall U s sd a keys, univ_ok U -> linv U s -> pres s sd a = true ->
  (forall k, In k keys -> pres s (other sd) k = true) ->
  exists s', set_links U sd a keys s = Done s' /\ linv U s' /\
    (forall b, In b (get_links U s' sd a) <-> In b keys) /\
    (forall b, In a (get_links U s' (other sd) b) <-> In b keys) /\
    (forall a' b, a' <> a -> lnk s' sd a' b = lnk s sd a' b) /\
    (forall b a', a' <> a -> lnk s' (other sd) b a' = lnk s (other sd) b a') /\
    pres s' = pres s /\ rc s' = rc s.
Proof.
  intros U s sd a keys HU I Ha Hk.
  destruct (set_links_spec U s sd a keys HU I Ha Hk) as (s' & E & Hp & Hr & Hl).
  exists s'. split; [exact E|].
  assert (I' : linv U s') by (eapply linv_set_links; eauto).
  split; [exact I'|]. split; [|split; [|split; [|split; [|split; assumption]]]].
  - intros b. rewrite (get_links_In _ _ I'), Hl. unfold at2. rewrite eqb_reflx, id_eqb_refl. simpl. apply mem_In.
  - intros b. rewrite (get_links_In _ _ I'), Hl. unfold at2. rewrite eqb_other_l. simpl.
    rewrite eqb_reflx, id_eqb_refl. simpl. apply mem_In.
  - intros a' b N. rewrite Hl. unfold at2. rewrite eqb_reflx, eqb_other_r. simpl.
    destruct (id_eqb_spec a' a); [contradiction | reflexivity].
  - intros b a' N. rewrite Hl. unfold at2. rewrite eqb_other_l, eqb_reflx. simpl.
    destruct (id_eqb_spec a' a); [contradiction | reflexivity].
Qed.

(* ---- 3. linking to a missing entity ------------------------------------------------------------- *)

Lemma link_missing_fails_lemma : forall U s sd a keys, univ_ok U -> linv U s ->
  (pres s sd a = false \/ exists k, In k keys /\ pres s (other sd) k = false) ->
  add_links sd a keys s = Failed /\ set_links U sd a keys s = Failed.
Proof.
  intros U s sd a keys HU I H. split.
  - unfold add_links. destruct (pres s sd a) eqn:Ha; [|reflexivity].
    destruct H as [H|(k & Hin & Hf)]; [discriminate|].
    pose proof (link_all_spec sd a keys s) as S. destruct (link_all sd a keys s); [|reflexivity|contradiction].
    destruct S as (Hall & _). rewrite (Hall k Hin) in Hf. discriminate.
  - destruct H as [H|H]; [unfold set_links; rewrite H; reflexivity|].
    apply set_links_missing; assumption.
Qed.

Lemma link_missing_single_lemma : forall s sd a k,
  (pres s sd a = false \/ pres s (other sd) k = false) ->
  add_link sd a k s = Failed /\ rc_incr sd a k s = Failed /\ forall n, rc_set sd a k n s = Failed.
Proof.
  intros s sd a k H. split; [|split].
  - unfold add_link. destruct (pres s sd a) eqn:Ha; [|reflexivity].
    destruct H as [H|H]; [discriminate|]. apply link_failed. exact H.
  - apply rc_incr_failed. exact H.
  - intros n. apply rc_set_failed. exact H.
Qed.

Lemma run_ops_app : forall U pre post s, run_ops U (pre ++ post) s = bind (run_ops U pre s) (run_ops U post).
Proof.
  intros U pre. induction pre as [|o t IH]; intros post s; simpl; [reflexivity|].
  destruct (step U o s); simpl; auto.
Qed.

Lemma failed_tx_changes_nothing_lemma : forall U pre o post s s1,
  run_ops U pre s = Done s1 -> step U o s1 = Failed -> run_tx U (pre ++ o :: post) s = (false, s).
Proof.
  intros U pre o post s s1 E1 E2. unfold run_tx. rewrite run_ops_app, E1. simpl. rewrite E2. reflexivity.
Qed.

Lemma rollback_lemma : forall U ops s, fst (run_tx U ops s) = false -> snd (run_tx U ops s) = s.
Proof. intros U ops s. unfold run_tx. destruct (run_ops U ops s); simpl; congruence. Qed.

(* ---- 4. counts agree and are positive --------------------------------------------------------- *)

Lemma rinv_counts_agree : forall M s, rinv M s -> forall sd a b,
  match rc s sd a b, rc s (other sd) b a with
  | Some c, Some c' => c = c' /\ 0 < c <= M
  | None, None => True
  | _, _ => False
  end.
Proof.
  intros M s R sd a b. rewrite (rinv_sym_eq _ _ R). destruct (rc s sd a b) as [c|] eqn:E; [|exact I].
  split; [reflexivity | apply (ri_pos _ _ R _ _ _ _ E)].
Qed.

Lemma rc_counts_agree_positive_lemma : forall U h, hist_in U h -> hist_counts_ok h ->
  hist_bound 0 h <= max_int32 ->
  let s := run_hist U h init_state in
  forall sd a b,
    match rc s sd a b, rc s (other sd) b a with
    | Some c, Some c' => c = c' /\ 0 < c <= max_int32
    | None, None => True
    | _, _ => False
    end.
Proof.
  intros U h H1 H2 H3 s sd a b. pose proof (reachable_rinv U h H1 H2 H3) as R.
  pose proof (rinv_counts_agree _ _ R sd a b) as C. fold s in C.
  destruct (rc s sd a b), (rc s (other sd) b a); auto. destruct C as [C1 C2]. split; [exact C1 | lia].
Qed.

Lemma get_link_counts_agree_lemma : forall U h, hist_in U h -> hist_counts_ok h ->
  hist_bound 0 h <= max_int32 ->
  let s := run_hist U h init_state in
  forall sd a b, fst (get_link_counts s sd a b) = snd (get_link_counts s sd a b) /\
                 fst (get_link_counts s sd a b) = rc s sd a b.
Proof.
  intros U h H1 H2 H3 s sd a b. pose proof (reachable_rinv U h H1 H2 H3) as R. fold s in R.
  unfold get_link_counts. simpl. rewrite (rinv_sym_eq _ _ R).
  destruct (rc s sd a b) as [c|] eqn:E.
  - rewrite (ri_pres _ _ R _ _ _ _ E), (rinv_peer_pres _ _ R _ _ _ _ E). auto.
  - destruct (pres s sd a), (pres s (other sd) b); auto.
Qed.

(* ---- 5. the link disappears at zero and on delete ------------------------------------------------ *)

Lemma set_both_get : forall s sd a k v,
  rc (set_both s sd a k v) sd a k = v /\ rc (set_both s sd a k v) (other sd) k a = v.
Proof.
  intros. unfold set_both. simpl. unfold at3. rewrite eqb_other_r, !eqb_reflx, !id_eqb_refl. simpl. auto.
Qed.

Lemma rc_vanish_on_set_zero_lemma : forall M s sd a k, rinv M s -> pres s sd a = true -> pres s (other sd) k = true ->
  exists s', rc_set sd a k 0 s = Done s' /\ rc s' sd a k = None /\ rc s' (other sd) k a = None.
Proof.
  intros M s sd a k R Ha Hk.
  destruct (rc_set_spec M s sd a k 0 R Ha Hk) as (s' & E & _ & _ & Hr); [unfold max_int32; lia|].
  exists s'. split; [exact E|]. rewrite !Hr. simpl (0 =? 0). apply set_both_get.
Qed.

Lemma rinv_set_both_same : forall M s sd a k v, rinv M s -> pres s sd a = true -> pres s (other sd) k = true ->
  (forall c, v = Some c -> 0 < c <= M) -> rinv M (set_both s sd a k v).
Proof.
  intros M s sd a k v R Ha Hk Hv.
  apply (rinv_set_both M M s _ sd a k v R); [lia | exact Ha | exact Hk | exact Hv | reflexivity | reflexivity].
Qed.

Lemma rc_vanish_on_decrements_nat : forall U M n s sd a k, rinv M s -> M <= max_int32 -> pres s sd a = true ->
  rc s sd a k = Some (Z.of_nat (S n)) ->
  exists s', run_ops U (repeat (ODecr sd a k) (S n)) s = Done s' /\ rc s' sd a k = None /\ rc s' (other sd) k a = None.
Proof.
  intros U M n. induction n as [|n IH]; intros s sd a k R HM Ha E.
  - pose proof (rc_decr_spec M s sd a k R HM Ha) as HS. rewrite E in HS.
    exists (set_both s sd a k (decr_val 1)). simpl. rewrite HS. simpl. split; [reflexivity|]. apply set_both_get.
  - pose proof (rc_decr_spec M s sd a k R HM Ha) as HS. rewrite E in HS.
    pose proof (ri_pos _ _ R _ _ _ _ E) as Hc. pose proof (rinv_peer_pres _ _ R _ _ _ _ E) as Hk.
    assert (Hd : decr_val (Z.of_nat (S (S n))) = Some (Z.of_nat (S n))).
    { unfold decr_val. destruct (Z.ltb_spec 1 (Z.of_nat (S (S n)))); [f_equal; lia | lia]. }
    rewrite Hd in HS.
    assert (R1 : rinv M (set_both s sd a k (Some (Z.of_nat (S n))))).
    { apply rinv_set_both_same; try assumption. intros c Hc'. inversion Hc'. lia. }
    destruct (IH (set_both s sd a k (Some (Z.of_nat (S n)))) sd a k R1 HM Ha) as (s' & E' & H1 & H2).
    { apply set_both_get. }
    exists s'. split; [|split; assumption].
    change (repeat (ODecr sd a k) (S (S n))) with (ODecr sd a k :: repeat (ODecr sd a k) (S n)).
    simpl run_ops. simpl step. rewrite HS. simpl bind. exact E'.
Qed.

Lemma rc_vanish_on_decrements_lemma : forall U M s sd a k c, rinv M s -> M <= max_int32 -> pres s sd a = true ->
  rc s sd a k = Some c ->
  exists s', run_ops U (repeat (ODecr sd a k) (Z.to_nat c)) s = Done s' /\
             rc s' sd a k = None /\ rc s' (other sd) k a = None.
Proof.
  intros U M s sd a k c R HM Ha E. pose proof (ri_pos _ _ R _ _ _ _ E) as Hc.
  destruct (Z.to_nat c) as [|n] eqn:N; [lia|].
  apply (rc_vanish_on_decrements_nat U M n s sd a k R HM Ha). rewrite E. f_equal. lia.
Qed.

Lemma vanish_on_delete_lemma : forall U M s sd x, linv U s -> rinv M s -> pres s sd x = true ->
  exists s', delete_entity U sd x s = Done s' /\ linv U s' /\ rinv M s' /\ pres s' sd x = false /\
    (forall k, lnk s' sd x k = false /\ lnk s' (other sd) k x = false /\
               rc s' sd x k = None /\ rc s' (other sd) k x = None) /\
    (forall sd' p q, (sd', p) <> (sd, x) -> (sd', q) <> (other sd, x) ->
               lnk s' sd' p q = lnk s sd' p q /\ rc s' sd' p q = rc s sd' p q).
Proof.
  intros U M s sd x I R Hx. exists (drop_entity (delete_mid U sd x s) sd x).
  split; [apply delete_entity_done; exact Hx|]. split; [apply linv_delete; exact I|].
  split; [apply rinv_delete; assumption|]. split.
  - rewrite delete_pres. unfold at2. rewrite eqb_reflx, id_eqb_refl. reflexivity.
  - split.
    + intros k. rewrite !(delete_lnk _ _ _ _ I), !(delete_rc _ _ _ _ _ I R). unfold at2.
      rewrite !eqb_reflx, !id_eqb_refl. simpl. rewrite andb_false_r. simpl. rewrite orb_true_r. auto.
    + intros sd' p q N1 N2. rewrite (delete_lnk _ _ _ _ I), (delete_rc _ _ _ _ _ I R).
      assert (A1 : at2 sd x sd' p = false).
      { destruct (at2 sd x sd' p) eqn:A; [|reflexivity]. apply at2_true in A. destruct A as [-> ->]. contradiction. }
      assert (A2 : at2 (other sd) x sd' q = false).
      { destruct (at2 (other sd) x sd' q) eqn:A; [|reflexivity]. apply at2_true in A. destruct A as [-> ->]. contradiction. }
      rewrite A1, A2. simpl. auto.
Qed.

Lemma absent_entity_has_no_links_lemma : forall U h, hist_in U h -> hist_counts_ok h ->
  hist_bound 0 h <= max_int32 ->
  let s := run_hist U h init_state in
  forall sd x, pres s sd x = false ->
    forall k, lnk s sd x k = false /\ lnk s (other sd) k x = false /\
              rc s sd x k = None /\ rc s (other sd) k x = None.
Proof.
  intros U h H1 H2 H3 s sd x Hx k.
  pose proof (reachable_linv U h H1) as I. pose proof (reachable_rinv U h H1 H2 H3) as R. fold s in I, R.
  assert (L1 : lnk s sd x k = false).
  { destruct (lnk s sd x k) eqn:L; [|reflexivity]. apply (li_pres _ _ I) in L. congruence. }
  assert (C1 : rc s sd x k = None).
  { destruct (rc s sd x k) eqn:C; [|reflexivity]. apply (ri_pres _ _ R) in C. congruence. }
  rewrite (linv_sym_eq _ _ I), (rinv_sym_eq _ _ R). auto.
Qed.

Lemma reachable_invariants_lemma : forall U h, hist_in U h -> hist_counts_ok h -> hist_bound 0 h <= max_int32 ->
  linv U (run_hist U h init_state) /\ rinv (hist_bound 0 h) (run_hist U h init_state).
Proof. intros U h H1 H2 H3. split; [apply reachable_linv; exact H1 | apply reachable_rinv; assumption]. Qed.

Lemma rc_vanish_on_zero_or_delete_lemma : forall U M s, linv U s -> rinv M s -> M <= max_int32 ->
  (* SetLinkCount 0 *)
  (forall sd a k, pres s sd a = true -> pres s (other sd) k = true ->
     exists s', rc_set sd a k 0 s = Done s' /\ rc s' sd a k = None /\ rc s' (other sd) k a = None) /\
  (* a count c is gone from both sides after c decrements *)
  (forall sd a k c, pres s sd a = true -> rc s sd a k = Some c ->
     exists s', run_ops U (repeat (ODecr sd a k) (Z.to_nat c)) s = Done s' /\
                rc s' sd a k = None /\ rc s' (other sd) k a = None) /\
  (* deleting either end removes the entity, its links and counts, and every peer's entry for it *)
  (forall sd x, pres s sd x = true ->
     exists s', delete_entity U sd x s = Done s' /\ linv U s' /\ rinv M s' /\ pres s' sd x = false /\
       (forall k, lnk s' sd x k = false /\ lnk s' (other sd) k x = false /\
                  rc s' sd x k = None /\ rc s' (other sd) k x = None) /\
       (forall sd' p q, (sd', p) <> (sd, x) -> (sd', q) <> (other sd, x) ->
                  lnk s' sd' p q = lnk s sd' p q /\ rc s' sd' p q = rc s sd' p q)).
Proof.
  intros U M s I R HM. split; [|split].
  - intros sd a k Ha Hk. eapply rc_vanish_on_set_zero_lemma; eauto.
  - intros sd a k c Ha E. eapply rc_vanish_on_decrements_lemma; eauto.
  - intros sd x Hx. apply vanish_on_delete_lemma; assumption.
Qed.
