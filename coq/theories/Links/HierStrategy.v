(* C05 - links written through the ENTITY STRATEGY of a store (boltz/base.go, store_crud.go):

     func (ctx *PersistContext) SetLinkedIds(field string, value []string) {
         if ctx.ProceedWithSet(field) {
             collection := ctx.Store.GetLinkCollection(field)
             ctx.Bucket.SetError(collection.SetLinks(ctx.Bucket.Tx(), ctx.Id, value)) } }

   An entity carries the ids it is linked to; its store's EntityStrategy.PersistEntity persists them with
   SetLinkedIds, inside store.Create (after getOrCreateEntityBucket) and inside store.Update (after the
   FindById / GetEntityBucket checks of the store the call goes through).  A child store's strategy first
   runs the parent strategy on ctx.GetParentContext() - the parent store, the parent entity bucket, and the
   SAME error holder as the child's bucket - and then persists its own fields, so the link field of a
   root-level collection is written through every store of the family, and an error SetLinks reports on the
   parent context is the error of the Create / Update.  The root store's Update hands the entity to the child
   store that holds it (ChildStoreUpdateHandler); the writes are the same.

   Both are derived operations: a Create with a link field is the Create followed by SetLinks of the field's
   collection, an Update is the presence check of the store followed by SetLinks.  Every theorem about
   run_xops therefore covers them (sflatten, run_sops_flatten); in particular a target that does not exist
   fails the operation, and with it the transaction (strategy_missing_target_fails).  Model and proofs. *)
From Coq Require Import List NArith ZArith Bool Arith Lia.
From Storage Require Import Base.Bytes Links.StrOrder Links.LinkModel Links.LinkModelProofs
  Links.SetLinksMerge Links.SetLinksMergeProofs Links.RefCount Links.RefCountProofs Links.LinkMachine
  Links.LinkMachineProofs Links.HierMachine Links.HierProofs Links.HierWhere Links.HierWhereProofs.
Import ListNotations.
Local Open Scope nat_scope.

Inductive sop :=
| SOp (o : xop)
(* store.Create / store.Update through store (sd, lv) of an entity whose link field of pair p holds ids *)
| SCreate (sd : side) (lv : nat) (x : id) (p : nat) (ids : list id)
| SUpdate (sd : side) (lv : nat) (x : id) (p : nat) (ids : list id).

(* the strategy of store (sd, lv) persists the field: it belongs to the store itself or to its parent (the root) *)
Definition field_of (T : topo) (sd : side) (lv p : nat) : bool :=
  (p <? npairs T) && ((lvl T p sd =? lv) || (lvl T p sd =? 0)).

(* the operations the call amounts to in the state it starts from; None: refused before anything is written *)
Definition sexpand (T : topo) (h : hstate) (o : sop) : option (list xop) :=
  match o with
  | SOp o => Some [o]
  | SCreate sd lv x p ids =>
      if field_of T sd lv p then Some [XOp (HCreate sd lv x); XOp (HLink p (OSetLinks sd x ids))] else None
  | SUpdate sd lv x p ids =>
      if field_of T sd lv p && level_ok T sd lv && hp h sd lv x then Some [XOp (HLink p (OSetLinks sd x ids))] else None
  end.

Definition sstep (T : topo) (U : univ) (o : sop) (h : hstate) : hres :=
  match sexpand T h o with Some l => run_xops T U l h | None => HFailed end.

Fixpoint run_sops (T : topo) (U : univ) (ops : list sop) (h : hstate) : hres :=
  match ops with
  | [] => HDone h
  | o :: t => hbind (sstep T U o h) (run_sops T U t)
  end.

Fixpoint sfirst_failure (T : topo) (U : univ) (ops : list sop) (h : hstate) (i : nat) : option nat :=
  match ops with
  | [] => None
  | o :: t => match sstep T U o h with
              | HDone h' => sfirst_failure T U t h' (S i)
              | _ => Some i
              end
  end.

Definition run_stx (T : topo) (U : univ) (ops : list sop) (h : hstate) : bool * hstate :=
  match run_sops T U ops h with
  | HDone h' => (true, h')
  | _ => (false, h)
  end.

Definition shistory := list (list sop).

Fixpoint run_shist (T : topo) (U : univ) (hs : shistory) (h : hstate) : hstate :=
  match hs with
  | [] => h
  | tx :: t => run_shist T U t (snd (run_stx T U tx h))
  end.

(* the operations a successful transaction amounts to *)
Fixpoint sflatten (T : topo) (U : univ) (ops : list sop) (h : hstate) : list xop :=
  match ops with
  | [] => []
  | o :: t => match sexpand T h o with
              | Some l => l ++ match run_xops T U l h with HDone h' => sflatten T U t h' | _ => [] end
              | None => []
              end
  end.

(* ---- guards ------------------------------------------------------------------------------------------ *)

Definition sop_in (U : univ) (o : sop) : Prop :=
  match o with SOp o => xop_in U o | SCreate sd _ x _ _ => In x (uni U sd) | SUpdate _ _ _ _ _ => True end.
Definition shist_in (U : univ) (hs : shistory) : Prop := Forall (Forall (sop_in U)) hs.

Definition sop_count_ok (o : sop) : Prop := match o with SOp o => xop_count_ok o | _ => True end.
Definition shist_counts_ok (hs : shistory) : Prop := Forall (Forall sop_count_ok) hs.

Definition sop_bound (M : Z) (o : sop) : Z := match o with SOp o => xop_bound M o | _ => M end.
Definition stx_bound (M : Z) (ops : list sop) : Z := fold_left sop_bound ops M.
Definition shist_bound (M : Z) (hs : shistory) : Z := fold_left stx_bound hs M.

Definition embed_shist (hs : xhistory) : shistory := map (map SOp) hs.

(* ======================================================================================== *)
(* proofs                                                                                    *)
(* ======================================================================================== *)

Lemma run_xops_app : forall T U a b h, run_xops T U (a ++ b) h = hbind (run_xops T U a h) (run_xops T U b).
Proof.
  intros T U a. induction a as [|o t IH]; intros b h; simpl; [reflexivity|].
  destruct (xstep T U o h); simpl; [apply IH | reflexivity | reflexivity].
Qed.

Lemma run_sops_flatten : forall T U ops h h', run_sops T U ops h = HDone h' ->
  run_xops T U (sflatten T U ops h) h = HDone h'.
Proof.
  intros T U ops. induction ops as [|o t IH]; intros h h' E; simpl in *; [exact E|].
  unfold sstep in E. destruct (sexpand T h o) as [l|]; simpl in E; [|discriminate].
  rewrite run_xops_app.
  destruct (run_xops T U l h) as [h1| |] eqn:E1; simpl in *; try discriminate.
  apply IH. exact E.
Qed.

Lemma sstep_embed : forall T U o h, sstep T U (SOp o) h = xstep T U o h.
Proof. intros. unfold sstep. simpl. destruct (xstep T U o h); reflexivity. Qed.

Lemma run_sops_embed : forall T U ops h, run_sops T U (map SOp ops) h = run_xops T U ops h.
Proof.
  intros T U ops. induction ops as [|o t IH]; intros h; simpl; [reflexivity|].
  rewrite sstep_embed. destruct (xstep T U o h); simpl; [apply IH | reflexivity | reflexivity].
Qed.

Lemma run_shist_embed : forall T U hs h, run_shist T U (embed_shist hs) h = run_xhist T U hs h.
Proof.
  intros T U hs. induction hs as [|tx t IH]; intros h; simpl; [reflexivity|].
  unfold run_stx, run_xtx. rewrite run_sops_embed. destruct (run_xops T U tx h); simpl; apply IH.
Qed.

Lemma sop_bound_ge : forall M o, (M <= sop_bound M o)%Z.
Proof. intros M o. destruct o; simpl; [apply xop_bound_ge | lia | lia]. Qed.

Lemma stx_bound_ge : forall ops M, (M <= stx_bound M ops)%Z.
Proof.
  induction ops as [|o t IH]; intros M; simpl; [lia|].
  unfold stx_bound in *. simpl. pose proof (IH (sop_bound M o)). pose proof (sop_bound_ge M o). lia.
Qed.

Lemma shist_bound_ge : forall hs M, (M <= shist_bound M hs)%Z.
Proof.
  induction hs as [|tx t IH]; intros M; simpl; [lia|].
  unfold shist_bound in *. simpl. pose proof (IH (stx_bound M tx)). pose proof (stx_bound_ge tx M). lia.
Qed.

Lemma sstep_inv : forall T U M o h h', hinv T U M h -> (0 <= M)%Z -> sop_in U o -> sop_count_ok o ->
  (sop_bound M o <= max_int32)%Z -> sstep T U o h = HDone h' -> hinv T U (sop_bound M o) h'.
Proof.
  intros T U M o h h' I HM Hin Hok Hb E. destruct o as [o|sd lv x p ids|sd lv x p ids]; simpl in *.
  - rewrite sstep_embed in E. eapply xstep_inv; eauto.
  - unfold sstep in E. simpl in E. destruct (field_of T sd lv p); [|discriminate].
    assert (B : xtx_bound M [XOp (HCreate sd lv x); XOp (HLink p (OSetLinks sd x ids))] = M) by reflexivity.
    rewrite <- B. eapply run_xops_inv; try eassumption; repeat constructor; exact Hin.
  - unfold sstep in E. simpl in E.
    destruct (field_of T sd lv p && level_ok T sd lv && hp h sd lv x); [|discriminate].
    assert (B : xtx_bound M [XOp (HLink p (OSetLinks sd x ids))] = M) by reflexivity.
    rewrite <- B. eapply run_xops_inv; try eassumption; repeat constructor.
Qed.

Lemma run_sops_inv : forall T U ops M h h', hinv T U M h -> (0 <= M)%Z -> Forall (sop_in U) ops ->
  Forall sop_count_ok ops -> (stx_bound M ops <= max_int32)%Z -> run_sops T U ops h = HDone h' ->
  hinv T U (stx_bound M ops) h'.
Proof.
  intros T U ops. induction ops as [|o t IH]; intros M h h' I HM Hin Hok Hb E; simpl in E.
  - inversion E. subst. exact I.
  - inversion Hin; subst. inversion Hok; subst.
    destruct (sstep T U o h) as [h1| |] eqn:E1; simpl in E; try discriminate.
    unfold stx_bound in *. simpl in *.
    pose proof (stx_bound_ge t (sop_bound M o)) as G. unfold stx_bound in G. pose proof (sop_bound_ge M o).
    apply (IH (sop_bound M o) h1 h'); try assumption; try lia.
    eapply sstep_inv; eauto. lia.
Qed.

Lemma run_stx_inv : forall T U ops M h, hinv T U M h -> (0 <= M)%Z -> Forall (sop_in U) ops ->
  Forall sop_count_ok ops -> (stx_bound M ops <= max_int32)%Z -> hinv T U (stx_bound M ops) (snd (run_stx T U ops h)).
Proof.
  intros T U ops M h I HM Hin Hok Hb. unfold run_stx.
  destruct (run_sops T U ops h) as [h'| |] eqn:E; simpl.
  - eapply run_sops_inv; eauto.
  - eapply hinv_mono; [apply stx_bound_ge | exact I].
  - eapply hinv_mono; [apply stx_bound_ge | exact I].
Qed.

Lemma run_shist_inv : forall T U hs M h, hinv T U M h -> (0 <= M)%Z -> shist_in U hs -> shist_counts_ok hs ->
  (shist_bound M hs <= max_int32)%Z -> hinv T U (shist_bound M hs) (run_shist T U hs h).
Proof.
  intros T U hs. induction hs as [|tx t IH]; intros M h I HM Hin Hok Hb; simpl; [exact I|].
  inversion Hin; subst. inversion Hok; subst. unfold shist_bound in *. simpl in *.
  pose proof (shist_bound_ge t (stx_bound M tx)) as G. unfold shist_bound in G. pose proof (stx_bound_ge tx M).
  apply IH; try assumption; try lia.
  apply run_stx_inv; try assumption. lia.
Qed.

Lemma strategy_reachable_lemma : forall T U hs, shist_in U hs -> shist_counts_ok hs ->
  (shist_bound 0 hs <= max_int32)%Z -> hinv T U (shist_bound 0 hs) (run_shist T U hs hinit).
Proof. intros. apply run_shist_inv; try assumption; [apply hinv_init | lia]. Qed.

Lemma strategy_pairs_lemma : forall T U hs, shist_in U hs -> shist_counts_ok hs -> (shist_bound 0 hs <= max_int32)%Z ->
  let h := run_shist T U hs hinit in
  forall p, p < npairs T -> forall sd a b,
  (hl h p sd a b = true <-> hl h p (other sd) b a = true) /\
  (In b (get_links U (view T p h) sd a) <-> In a (get_links U (view T p h) (other sd) b)) /\
  is_linked (view T p h) sd a b = is_linked (view T p h) (other sd) b a /\
  (hl h p sd a b = true ->
     hp h sd (lvl T p sd) a = true /\ hp h (other sd) (lvl T p (other sd)) b = true /\
     hp h sd 0 a = true /\ hp h (other sd) 0 b = true) /\
  match hr h p sd a b, hr h p (other sd) b a with
  | Some c, Some c' => c = c' /\ (0 < c <= max_int32)%Z
  | None, None => True
  | _, _ => False
  end.
Proof.
  intros T U hs H1 H2 H3 h. eapply hinv_pairs_lemma; [apply strategy_reachable_lemma; eassumption | exact H3].
Qed.

(* a link field that names an entity its collection's peer store does not hold fails the Create / Update *)
Lemma hcreate_other_side : forall T sd lv x h h', hcreate T sd lv x h = HDone h' ->
  forall k y, hp h' (other sd) k y = hp h (other sd) k y.
Proof.
  intros T sd lv x h h'. unfold hcreate.
  destruct (negb (level_ok T sd lv)); [discriminate|].
  destruct (hp h sd lv x || hp h sd 0 x); [discriminate|].
  intros E k y. inversion E. simpl. unfold at2. destruct sd; simpl; reflexivity.
Qed.

Lemma hcreate_fuel : forall T sd lv x h, hcreate T sd lv x h <> HNoFuel.
Proof.
  intros T sd lv x h. unfold hcreate.
  destruct (negb (level_ok T sd lv)); [discriminate|].
  destruct (hp h sd lv x || hp h sd 0 x); discriminate.
Qed.

Lemma strategy_missing_lemma : forall T U M h sd lv x p ids k, univ_ok U -> hinv T U M h -> (0 <= M)%Z ->
  (M <= max_int32)%Z -> In x (uni U sd) ->
  In k ids -> hp h (other sd) (lvl T p (other sd)) k = false ->
  sstep T U (SCreate sd lv x p ids) h = HFailed /\ sstep T U (SUpdate sd lv x p ids) h = HFailed /\
  (forall pre post h0, run_sops T U pre h0 = HDone h ->
     run_stx T U (pre ++ SCreate sd lv x p ids :: post) h0 = (false, h0) /\
     run_stx T U (pre ++ SUpdate sd lv x p ids :: post) h0 = (false, h0)).
Proof.
  intros T U M h sd lv x p ids k UO I HM HB Hx Hk Hmiss.
  assert (Fail : forall h1, hinv T U M h1 -> hp h1 (other sd) (lvl T p (other sd)) k = false ->
            hstep T U (HLink p (OSetLinks sd x ids)) h1 = HFailed).
  { intros h1 I1 Hm. cbn [hstep].
    destruct (p <? npairs T) eqn:Hp; cbn [andb]; [|reflexivity].
    destruct (is_link_op (OSetLinks sd x ids) && op_registered T p (OSetLinks sd x ids)); [|reflexivity].
    apply Nat.ltb_lt in Hp. unfold cell_apply. cbn [step].
    destruct (link_missing_fails_lemma U (view T p h1) sd x ids UO (hi_linv _ _ _ _ I1 p Hp)) as [_ F].
    { right. exists k. split; [exact Hk | exact Hm]. }
    rewrite F. reflexivity. }
  assert (C : sstep T U (SCreate sd lv x p ids) h = HFailed).
  { unfold sstep. cbn [sexpand]. destruct (field_of T sd lv p); [|reflexivity]. cbn [run_xops].
    rewrite xstep_embed. cbn [hstep]. destruct (hcreate T sd lv x h) as [h1| |] eqn:E1; cbn [hbind]; try reflexivity;
      [|exfalso; exact (hcreate_fuel _ _ _ _ _ E1)].
    rewrite xstep_embed. rewrite Fail; [reflexivity | eapply hcreate_inv; eauto |].
    rewrite (hcreate_other_side _ _ _ _ _ _ E1). exact Hmiss. }
  assert (Up : sstep T U (SUpdate sd lv x p ids) h = HFailed).
  { unfold sstep. cbn [sexpand]. destruct (field_of T sd lv p && level_ok T sd lv && hp h sd lv x); [|reflexivity].
    cbn [run_xops]. rewrite xstep_embed. rewrite Fail; [reflexivity | exact I | exact Hmiss]. }
  split; [exact C|]. split; [exact Up|].
  intros pre post h0 Epre.
  assert (R : forall o, sstep T U o h = HFailed -> run_stx T U (pre ++ o :: post) h0 = (false, h0)).
  { intros o Fo. unfold run_stx.
    assert (A : forall l h2, run_sops T U l h2 = HDone h -> run_sops T U (l ++ o :: post) h2 = HFailed).
    { induction l as [|o' t IH]; intros h2 E2; simpl in *.
      - inversion E2. subst. rewrite Fo. reflexivity.
      - destruct (sstep T U o' h2) as [h3| |]; simpl in *; try discriminate. apply IH. exact E2. }
    rewrite (A pre h0 Epre). reflexivity. }
  split; apply R; assumption.
Qed.
