(* C05 - model of boltz/link_collection.go (plain many-to-many link collections).
   Model only; proofs are in LinkModelProofs.v.

   Two stores A and B.  [side] = bool, [true] = store A, [false] = store B, [other] = negb.
   A link collection exists on each side: the one on side [sd] has [field] = the link bucket of
   the [sd] entities and [otherField] = a LinkedSetSymbol over the link bucket of the [other sd]
   entities (boltz/store_crud.go AddLinkCollection).

   State: which entities exist on each side, and for every entity the key set of its link
   bucket ([lnk s sd a b] = "the bucket of entity a of side sd holds key b") and of its
   ref-counted link bucket ([rc s sd a b = Some c] = "... holds key b with int32 payload c").
   Buckets are characteristic functions; what the code iterates with a cursor is enumerated
   from the explicit sorted universe [U] (DESIGN.md section 4).

   An operation returns [Done s'] or [Failed] (the Go error).  The writes an operation made
   before it failed are not represented: every error aborts the enclosing bolt transaction
   (LinkMachine.run_tx), which restores the state.  [NoFuel] only exists for the fuel of the
   SetLinks merge loop and is shown never to occur. *)
From Coq Require Import List NArith ZArith Bool.
From Storage Require Import Base.Bytes.
Import ListNotations.

Definition id := str.
Definition id_eqb : id -> id -> bool := str_eqb.
Definition side := bool.
Definition other (sd : side) : side := negb sd.

Record lstate := mkLS {
  pres : side -> id -> bool;
  lnk : side -> id -> id -> bool;
  rc : side -> id -> id -> option Z }.

Definition init_state : lstate :=
  mkLS (fun _ _ => false) (fun _ _ _ => false) (fun _ _ _ => None).

(* the id universes of the two stores: sorted, duplicate free (Go: bolt key order) *)
Definition univ := (list id * list id)%type.
Definition uni (U : univ) (sd : side) : list id := if sd then fst U else snd U.

Inductive res := Done (s : lstate) | Failed | NoFuel.
Definition bind (r : res) (f : lstate -> res) : res :=
  match r with Done s => f s | Failed => Failed | NoFuel => NoFuel end.

(* ---- point updates ------------------------------------------------------------------- *)
Definition at2 (sd : side) (a : id) (sd' : side) (a' : id) : bool :=
  Bool.eqb sd' sd && id_eqb a' a.
Definition at3 (sd : side) (a b : id) (sd' : side) (a' b' : id) : bool :=
  Bool.eqb sd' sd && id_eqb a' a && id_eqb b' b.

Definition set_pres (s : lstate) (sd : side) (x : id) (v : bool) : lstate :=
  mkLS (fun sd' x' => if at2 sd x sd' x' then v else pres s sd' x') (lnk s) (rc s).
Definition set_lnk (s : lstate) (sd : side) (a b : id) (v : bool) : lstate :=
  mkLS (pres s) (fun sd' a' b' => if at3 sd a b sd' a' b' then v else lnk s sd' a' b') (rc s).
Definition set_rc (s : lstate) (sd : side) (a b : id) (v : option Z) : lstate :=
  mkLS (pres s) (lnk s) (fun sd' a' b' => if at3 sd a b sd' a' b' then v else rc s sd' a' b').

(* bucket.DeleteEntity(id): the entity bucket with everything below it disappears *)
Definition drop_entity (s : lstate) (sd : side) (x : id) : lstate :=
  mkLS (fun sd' x' => if at2 sd x sd' x' then false else pres s sd' x')
       (fun sd' a' b' => if at2 sd x sd' a' then false else lnk s sd' a' b')
       (fun sd' a' b' => if at2 sd x sd' a' then None else rc s sd' a' b').

(* ---- LinkedSetSymbol (the "other field" of a collection), on the entities of side sd ---- *)

(* LinkedSetSymbol.AddLink(id = x, link = l): NotFound error when the entity is missing *)
Definition sym_add_link (sd : side) (x l : id) (s : lstate) : res :=
  if pres s sd x then Done (set_lnk s sd x l true) else Failed.

(* LinkedSetSymbol.RemoveLink(id = x, link = l): nothing to do when the entity (or its link
   bucket) is missing *)
Definition sym_remove_link (sd : side) (x l : id) (s : lstate) : lstate :=
  if pres s sd x then set_lnk s sd x l false else s.

(* ---- linkCollectionImpl of side sd ---------------------------------------------------- *)

(* link: fieldBucket.SetListEntry(k); otherField.AddLink(k, a) *)
Definition link (sd : side) (a k : id) (s : lstate) : res :=
  sym_add_link (other sd) k a (set_lnk s sd a k true).

(* unlink: fieldBucket.DeleteListEntry(k); otherField.RemoveLink(k, a) *)
Definition unlink (sd : side) (a k : id) (s : lstate) : lstate :=
  sym_remove_link (other sd) k a (set_lnk s sd a k false).

Fixpoint link_all (sd : side) (a : id) (keys : list id) (s : lstate) : res :=
  match keys with
  | [] => Done s
  | k :: t => bind (link sd a k s) (link_all sd a t)
  end.

Fixpoint unlink_all (sd : side) (a : id) (keys : list id) (s : lstate) : lstate :=
  match keys with
  | [] => s
  | k :: t => unlink_all sd a t (unlink sd a k s)
  end.

(* getFieldBucket fails when the entity does not exist *)
Definition add_links (sd : side) (a : id) (keys : list id) (s : lstate) : res :=
  if pres s sd a then link_all sd a keys s else Failed.

Definition remove_links (sd : side) (a : id) (keys : list id) (s : lstate) : res :=
  if pres s sd a then Done (unlink_all sd a keys s) else Failed.

(* AddLink / RemoveLink (checkAndLink / checkAndUnlink): CheckAndSetListEntry and
   CheckAndDeleteListEntry write exactly what SetListEntry / DeleteListEntry write; the
   returned "changed" flag is not part of the property *)
Definition add_link (sd : side) (a k : id) (s : lstate) : res :=
  if pres s sd a then link sd a k s else Failed.

Definition remove_link (sd : side) (a k : id) (s : lstate) : res :=
  if pres s sd a then Done (unlink sd a k s) else Failed.

(* the rows a cursor over the link bucket of entity a yields (ascending key order) *)
Definition rows (U : univ) (s : lstate) (sd : side) (a : id) : list id :=
  filter (fun k => lnk s sd a k) (uni U (other sd)).

(* EntityDeleted(id = x): for every row k, otherField.RemoveLink(k, x); the local bucket goes
   away with the entity *)
Fixpoint unlink_peers (sd : side) (x : id) (ks : list id) (s : lstate) : lstate :=
  match ks with
  | [] => s
  | k :: t => unlink_peers sd x t (sym_remove_link (other sd) k x s)
  end.

Definition entity_deleted (U : univ) (sd : side) (x : id) (s : lstate) : res :=
  if pres s sd x then Done (unlink_peers sd x (rows U s sd x) s) else Failed.

(* observers: GetLinks / IterateLinks (sorted) and IsLinked; nil / empty / false when the
   entity does not exist *)
Definition get_links (U : univ) (s : lstate) (sd : side) (a : id) : list id :=
  if pres s sd a then rows U s sd a else [].
Definition is_linked (s : lstate) (sd : side) (a b : id) : bool :=
  pres s sd a && lnk s sd a b.
