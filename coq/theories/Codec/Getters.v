(* Model of the remaining TypedBucket readers of boltz/typed_bucket.go: the *WithDefault /
   *OrDefault / *OrError getters, IsStringListEmpty, ForEachTypedBucket, MapFieldChecker.ToSlice
   and TypedBucket.Copy.
   Model only: no proofs in this file. *)
From Coq Require Import List NArith ZArith Bool.
From Storage Require Import Base.Bytes Codec.CodecBase Codec.FieldCodec Codec.Containers.
Import ListNotations.
Open Scope N_scope.

Definition or_default {A : Type} (o : option A) (d : A) : A :=
  match o with
  | Some a => a
  | None => d
  end.

(* GetStringWithDefault: the default for a null / absent field *)
Definition get_string_with_default (name d : str) (b : bucket) : sres :=
  match get_string name b with
  | SVal None => SVal (Some d)
  | r => r
  end.
(* GetStringOrError: "" and an error on the bucket for a null / absent field *)
Definition get_string_or_error (name : str) (b : bucket) : sres * bool :=
  match get_string name b with
  | SVal None => (SVal (Some []), true)
  | r => (r, false)
  end.
Definition get_bool_with_default (name : str) (d : bool) (b : bucket) : bool := or_default (get_bool name b) d.
Definition get_int32_with_default (name : str) (d : Z) (b : bucket) : Z := or_default (get_int32 name b) d.
Definition get_int64_with_default (name : str) (d : Z) (b : bucket) : Z := or_default (get_int64 name b) d.
Definition get_time_or_default (name : str) (d : Z * N) (b : bucket) : Z * N := or_default (get_time name b) d.
(* GetTimeOrError: time.Time{} (second 0 of year 1) and an error for a null / absent field *)
Definition get_time_or_error (name : str) (b : bucket) : (Z * N) * bool :=
  match get_time name b with
  | Some t => (t, false)
  | None => ((0%Z, 0), true)
  end.

(* IsStringListEmpty: no such sub-bucket, or the cursor finds no key in it *)
Definition is_string_list_empty (name : str) (b : bucket) : bool :=
  match a_lookup name b with
  | Some (Sub []) => true
  | Some (Sub (_ :: _)) => false
  | _ => true
  end.

(* ForEachTypedBucket: the keys bound to sub-buckets, in key order, each with its bucket *)
Fixpoint child_buckets (b : bucket) : list (str * bucket) :=
  match b with
  | [] => []
  | (k, Sub c) :: t => (k, c) :: child_buckets t
  | (_, Leaf _) :: t => child_buckets t
  end.

(* MapFieldChecker.ToSlice: the selected names in no particular order; as a set *)
Fixpoint names_set (l : list str) (acc : list (str * unit)) : list str :=
  match l with
  | [] => a_keys acc
  | x :: t => names_set t (a_insert x tt acc)
  end.

(* GetOrCreateBucket(name) on the destination of a copy; over a plain value the code goes on
   with a bucket-less TypedBucket and dereferences it *)
Definition get_or_create (k : str) (local : bucket) : res bucket :=
  if len k =? 0 then Err
  else match a_lookup k local with
       | Some (Leaf _) => Panic
       | Some (Sub c) => Ok c
       | None => Ok []
       end.

(* TypedBucket.Copy(other, filterF) / copyImpl: every entry of [other] whose key path the filter
   accepts is copied into the receiver - plain values by bbolt Put of the raw bytes, sub-buckets
   recursively into GetOrCreateBucket(key).  [n] is the source (Sub other). *)
Fixpoint copy_node (filter : list str -> bool) (path : list str) (n : node) (local : bucket) {struct n} : res bucket :=
  match n with
  | Leaf _ => Ok local
  | Sub other =>
      (fix go (l : list (str * node)) (local : bucket) {struct l} : res bucket :=
         match l with
         | [] => Ok local
         | (k, n') :: t =>
             if filter (path ++ [k]) then
               match n' with
               | Leaf v => bind (b_put k v local) (fun local' => go t local')
               | Sub _ =>
                   bind (get_or_create k local) (fun lc =>
                   bind (copy_node filter (path ++ [k]) n' lc) (fun lc' => go t (a_insert k (Sub lc') local)))
               end
             else go t local
         end) other local
  end.
Definition copy_bucket (filter : list str -> bool) (other local : bucket) : res bucket :=
  copy_node filter [] (Sub other) local.

(* the key paths Copy offers to the filter, in order *)
Fixpoint copy_paths (filter : list str -> bool) (path : list str) (n : node) {struct n} : list (list str) :=
  match n with
  | Leaf _ => []
  | Sub other =>
      (fix go (l : list (str * node)) : list (list str) :=
         match l with
         | [] => []
         | (k, n') :: t =>
             (path ++ [k]) ::
             (if filter (path ++ [k]) then copy_paths filter (path ++ [k]) n' else []) ++ go t
         end) other
  end.

(* the source without the entries the filter rejects *)
Fixpoint prune (filter : list str -> bool) (path : list str) (n : node) {struct n} : node :=
  match n with
  | Leaf v => Leaf v
  | Sub other =>
      Sub ((fix go (l : list (str * node)) : list (str * node) :=
              match l with
              | [] => []
              | (k, n') :: t =>
                  if filter (path ++ [k]) then (k, prune filter (path ++ [k]) n') :: go t else go t
              end) other)
  end.
