(* Model of the scalar part of boltz/typed_bucket.go: type tags, PrependFieldType, setTyped's
   nil rule, GetTypeAndValue, BytesTo*/FieldTo*, and of time.Time.MarshalBinary (UTC) /
   UnmarshalBinary (Go 1.23).  Model only: no proofs in this file. *)
From Coq Require Import List NArith ZArith Bool.
From Storage Require Import Base.Bytes Codec.CodecBase.
Import ListNotations.
Open Scope N_scope.

Definition TypeBool : N := 1.
Definition TypeInt32 : N := 2.
Definition TypeInt64 : N := 3.
Definition TypeFloat64 : N := 4.
Definition TypeString : N := 5.
Definition TypeTime : N := 6.
Definition TypeNil : N := 7.

(* A supported scalar as the Go caller holds it.
   int32/int64: the mathematical value; float64: the IEEE-754 bit pattern (< 2^64);
   time: the instant as (seconds since 0001-01-01T00:00:00Z as an int64, nanoseconds < 10^9),
   which is what t.sec(), t.nsec() are - the location is not part of the instant. *)
Inductive scalar : Type :=
| SNil
| SBool (b : bool)
| SInt32 (z : Z)
| SInt64 (z : Z)
| SFloat64 (bits : N)
| SString (s : str)
| STime (sec : Z) (nsec : N).

Definition wf_scalar (v : scalar) : bool :=
  match v with
  | SNil | SBool _ | SString _ => true
  | SInt32 z => in_int32 z
  | SInt64 z => in_int64 z
  | SFloat64 bits => bits <? 2 ^ 64
  | STime sec nsec => in_int64 sec && (nsec <? 1000000000)
  end.

(* func PrependFieldType(fieldType FieldType, value []byte) []byte *)
Definition prepend_field_type (ft : N) (value : str) : str := ft :: value.

(* func (bucket *TypedBucket) setTyped(fieldType FieldType, name string, value []byte) {
     if fieldType == TypeNil || value == nil { Put(name, []byte{byte(TypeNil)}) }
     else { Put(name, PrependFieldType(fieldType, value)) } }
   [None] is the nil slice; the stored bytes: *)
Definition set_typed_bytes (ft : N) (value : option str) : str :=
  match value with
  | None => [TypeNil]
  | Some v => if ft =? TypeNil then [TypeNil] else prepend_field_type ft v
  end.

(* time.Time.MarshalBinary of t.UTC(): version 1, seconds big-endian (8), nanoseconds
   big-endian (4), zone offset minutes -1 (= UTC) big-endian (2) *)
Definition time_marshal_utc (sec : Z) (nsec : N) : str :=
  1 :: be_bytes 8 (to_unsigned 64 sec) ++ be_bytes 4 nsec ++ [255; 255].

(* the bytes a setter stores under the field name
     SetNil / SetStringP(nil) / SetTimeP(nil)  -> setTyped(TypeNil, name, nil)
     SetBool    -> buf[0]=TypeBool; buf[1]=1 if value
     SetInt32   -> Int32ToBytes: tag + PutUint32(uint32(value))
     SetInt64   -> tag + PutUint64(uint64(value))
     SetFloat64 -> tag + PutUint64(math.Float64bits(value))
     SetString  -> setTyped(TypeString, name, []byte(value))   ([]byte("") is not nil)
     SetTime    -> setTyped(TypeTime, name, value.UTC().MarshalBinary()) *)
Definition encode_scalar (v : scalar) : str :=
  match v with
  | SNil => set_typed_bytes TypeNil None
  | SBool b => [TypeBool; if b then 1 else 0]
  | SInt32 z => TypeInt32 :: le_bytes 4 (to_unsigned 32 z)
  | SInt64 z => TypeInt64 :: le_bytes 8 (to_unsigned 64 z)
  | SFloat64 bits => TypeFloat64 :: le_bytes 8 bits
  | SString s => set_typed_bytes TypeString (Some s)
  | STime sec nsec => set_typed_bytes TypeTime (Some (time_marshal_utc sec nsec))
  end.

(* func GetTypeAndValue(bytes []byte) (FieldType, []byte): a missing key (nil) and an empty
   value are TypeNil; the payload of a one-byte value is nil, which every consumer below
   treats like the empty slice *)
Definition get_type_and_value (bytes : str) : N * str :=
  match bytes with
  | [] => (TypeNil, [])
  | ft :: payload => (ft, payload)
  end.

(* BytesToBool / BytesToInt32 / BytesToInt64 / BytesToFloat64 *)
Definition bytes_to_bool (v : str) : option bool :=
  match v with
  | [] => None
  | b :: _ => Some (b =? 1)
  end.
Definition bytes_to_int32 (v : str) : option Z :=
  if Nat.eqb (length v) 4 then Some (to_signed 32 (le_val v)) else None.
Definition bytes_to_int64 (v : str) : option Z :=
  if Nat.eqb (length v) 8 then Some (to_signed 64 (le_val v)) else None.
Definition bytes_to_float64 (v : str) : option N :=
  if Nat.eqb (length v) 8 then Some (le_val v) else None.

(* time.Time.UnmarshalBinary: version 1 (15 bytes) or 2 (16 bytes); the instant is
   (int64 seconds, int32 nanoseconds); the zone bytes do not change the instant.
   Returns the raw (sec, nsec-as-uint32). *)
Definition time_unmarshal (buf : str) : option (Z * N) :=
  match buf with
  | [] => None
  | version :: rest =>
      if (version =? 1) || (version =? 2) then
        let wantLen := if version =? 2 then 16%nat else 15%nat in
        if Nat.eqb (length buf) wantLen then
          Some (to_signed 64 (be_val (firstn 8 rest)), be_val (firstn 4 (skipn 8 rest)))
        else None
      else None
  end.

(* BytesToDatetime: nil for a nil buffer or when UnmarshalBinary fails *)
Definition bytes_to_datetime (v : str) : option (Z * N) := time_unmarshal v.

(* FieldToBool / FieldToInt32 / FieldToInt64 / FieldToFloat64 (float-typed fields only; the
   int -> float conversion is not modelled) / FieldToDatetime *)
Definition field_to_bool (ft : N) (v : str) : option bool :=
  if ft =? TypeBool then bytes_to_bool v else None.
Definition field_to_int32 (ft : N) (v : str) : option Z :=
  if ft =? TypeInt32 then bytes_to_int32 v else None.
Definition field_to_int64 (ft : N) (v : str) : option Z :=
  if ft =? TypeInt32 then bytes_to_int32 v
  else if ft =? TypeInt64 then bytes_to_int64 v
  else None.
Inductive fres : Type :=
| FVal (o : option N)
| FUnmodelled.                (* float64(int64) rounding is outside the model *)
Definition field_to_float64 (ft : N) (v : str) : fres :=
  if (ft =? TypeInt32) || (ft =? TypeInt64) then
    match field_to_int64 ft v with
    | None => FVal None
    | Some _ => FUnmodelled
    end
  else if ft =? TypeFloat64 then FVal (bytes_to_float64 v)
  else FVal None.
Definition field_to_datetime (ft : N) (v : str) : option (Z * N) :=
  if ft =? TypeTime then bytes_to_datetime v else None.

(* strconv.Itoa(int(i)) / strconv.FormatBool *)
Fixpoint dec_digits (fuel : nat) (n : N) (acc : str) : str :=
  match fuel with
  | O => acc
  | S f => let acc' := (48 + n mod 10) :: acc in
           if n <? 10 then acc' else dec_digits f (n / 10) acc'
  end.
Definition itoa (z : Z) : str :=
  match z with
  | Z0 => [48]
  | Zpos p => dec_digits 20 (Npos p) []
  | Zneg p => 45 :: dec_digits 20 (Npos p) []
  end.
Definition format_bool (b : bool) : str :=
  if b then [116; 114; 117; 101] else [102; 97; 108; 115; 101].

(* FieldToString: strings as they are; bool/int coerced to text (a missing payload is an
   unchecked nil dereference: panic); float and time formatting is not modelled *)
Inductive sres : Type :=
| SVal (o : option str)
| SPanic
| SUnmodelled.
Definition field_to_string (ft : N) (v : str) : sres :=
  if ft =? TypeString then SVal (Some v)
  else if ft =? TypeBool then
    match field_to_bool ft v with Some b => SVal (Some (format_bool b)) | None => SPanic end
  else if (ft =? TypeInt32) || (ft =? TypeInt64) then
    match field_to_int64 ft v with Some z => SVal (Some (itoa z)) | None => SPanic end
  else if ft =? TypeFloat64 then
    match bytes_to_float64 v with Some _ => SUnmodelled | None => SPanic end
  else if ft =? TypeTime then
    match bytes_to_datetime v with Some _ => SUnmodelled | None => SVal None end
  else SVal None.

(* the dynamic value getMarshaled returns for a non-bucket key holding [bytes] *)
Definition decode_scalar (bytes : str) : scalar :=
  let (ft, v) := get_type_and_value bytes in
  if ft =? TypeString then SString v
  else if ft =? TypeInt32 then match bytes_to_int32 v with Some z => SInt32 z | None => SNil end
  else if ft =? TypeInt64 then match bytes_to_int64 v with Some z => SInt64 z | None => SNil end
  else if ft =? TypeFloat64 then match bytes_to_float64 v with Some b => SFloat64 b | None => SNil end
  else if ft =? TypeTime then match bytes_to_datetime v with Some (s, n) => STime s n | None => SNil end
  else if ft =? TypeBool then match bytes_to_bool v with Some b => SBool b | None => SNil end
  else SNil.

(* the typed getters applied to stored bytes ([] = key absent) *)
Definition read_string (bytes : str) : sres := let (ft, v) := get_type_and_value bytes in field_to_string ft v.
Definition read_bool (bytes : str) : option bool := let (ft, v) := get_type_and_value bytes in field_to_bool ft v.
Definition read_int32 (bytes : str) : option Z := let (ft, v) := get_type_and_value bytes in field_to_int32 ft v.
Definition read_int64 (bytes : str) : option Z := let (ft, v) := get_type_and_value bytes in field_to_int64 ft v.
Definition read_float64 (bytes : str) : fres := let (ft, v) := get_type_and_value bytes in field_to_float64 ft v.
Definition read_time (bytes : str) : option (Z * N) := let (ft, v) := get_type_and_value bytes in field_to_datetime ft v.

(* what reading a scalar back with the getter of its own type must give (int32 widens) *)
Definition widen (v : scalar) : scalar :=
  match v with
  | SInt32 z => SInt64 z
  | other => other
  end.
