(* The ways a field checker is handed to the library (C13, "a write restricted by a field checker
   touches only the fields the checker selects").

   boltz.FieldChecker is an interface, { IsUpdated(string) bool }: the library is given a VALUE of
   some Go type, not a set of names.  boltz/typed_bucket.go ProceedWithSet is
       bucket.Err == nil && (checker == nil || checker.IsUpdated(name))
   and boltz/base.go WithFieldOverrides wraps the context's checker when `ctx.FieldChecker != nil`:
   the only value that means "no restriction" is the nil INTERFACE.  Every other value - among them
   values whose dynamic type is a nil map, a nil pointer, a nil slice or a nil func - restricts the
   write to what its IsUpdated method answers.  In particular
       var none boltz.MapFieldChecker        (a nil map: the lookup in IsUpdated finds nothing)
   selects NO field, exactly like the allocated boltz.MapFieldChecker{}.

   Containers.checker (option (str -> bool)) is the meaning; this file gives the representations and
   their meaning.  Model only: no proofs in this file. *)
From Coq Require Import List NArith Bool.
From Storage Require Import Base.Bytes Codec.CodecBase Codec.Containers Codec.Persist.
Import ListNotations.
Open Scope N_scope.

Inductive checker_repr : Type :=
| RNilInterface
    (* FieldChecker(nil) *)
| RNilMap
    (* boltz.MapFieldChecker(nil) inside the interface *)
| RMap (names : list str)
    (* an allocated boltz.MapFieldChecker holding the names *)
| RCustom (nil_inside : bool) (is_updated : str -> bool)
    (* a value of any other type implementing the interface, with what its IsUpdated answers;
       nil_inside: the value in the interface is a nil pointer / map / slice / func (its method is
       callable on that receiver and answers is_updated) *)
| RMapped (inner : checker_repr) (mappings : option (list (str * str))).
    (* PersistContext.WithFieldOverrides(mappings) on a context holding inner; for a non-nil inner
       this is NewMappedFieldChecker(inner, mappings).  None: a nil mappings map (nothing mapped) *)

Definition mappings_of (m : option (list (str * str))) : list (str * str) :=
  match m with
  | Some l => l
  | None => []
  end.

(* the checker a representation stands for *)
Fixpoint repr_checker (r : checker_repr) : checker :=
  match r with
  | RNilInterface => None
  | RNilMap => Some (map_field_checker [])
  | RMap names => Some (map_field_checker names)
  | RCustom _ f => Some f
  | RMapped inner m => with_field_overrides (repr_checker inner) (mappings_of m)
  end.

(* read off the Go values directly: does a setter naming the field proceed.  The nil interface has
   no method to ask (first disjunct of ProceedWithSet); a lookup in a nil map finds nothing; a
   wrapper asks the wrapped value about the mapped name *)
Fixpoint repr_selects (r : checker_repr) (name : str) : bool :=
  match r with
  | RNilInterface => true
  | RNilMap => false
  | RMap names => name_in names name
  | RCustom _ f => f name
  | RMapped inner m =>
      repr_selects inner (match a_lookup name (mappings_of m) with
                          | Some override => override
                          | None => name
                          end)
  end.

(* two checkers selecting the same fields *)
Definition same_selection (c1 c2 : checker) : Prop := forall name, proceed c1 name = proceed c2 name.

(* a checker selecting no field *)
Definition selects_nothing (c : checker) : Prop := forall name, proceed c name = false.

(* a statement of a persist that consults its context's checker: everything but SetNil *)
Definition pstmt_restricted (st : pstmt) : bool :=
  match st with
  | PSet _ (PBase op) => op_restricted op
  | _ => true
  end.
