(* Model of the container part of boltz/typed_bucket.go over a model of a bbolt bucket:
   EmptyBucket, setMarshaled/getMarshaled, PutMap/GetMap, PutList/GetList (list-size marker
   key), SetStringList/GetStringList/ReadStringList, ProceedWithSet and the field-checker
   restricted setters (also PersistContext's in boltz/base.go).
   Model only: no proofs in this file. *)
From Coq Require Import List NArith ZArith Bool.
From Storage Require Import Base.Bytes Codec.CodecBase Codec.FieldCodec.
Import ListNotations.
Open Scope N_scope.

(* ---- a bbolt bucket: keys in ascending byte order, each bound to a value or a sub-bucket -- *)
Inductive node : Type :=
| Leaf (v : str)
| Sub (b : list (str * node)).
Definition bucket : Type := list (str * node).

Definition MaxKeySize : N := 32768.
Definition MaxValueSize : N := 2147483646.

(* "__list__size__36484231-110c-4767-afe2-01b6e3db107a" *)
Definition ListSizeKeyName : str :=
  [95; 95; 108; 105; 115; 116; 95; 95; 115; 105; 122; 101; 95; 95; 51; 54; 52; 56; 52; 50; 51; 49;
   45; 49; 49; 48; 99; 45; 52; 55; 54; 55; 45; 97; 102; 101; 50; 45; 48; 49; 98; 54; 101; 51; 100;
   98; 49; 48; 55; 97].

(* bbolt Bucket.Put: ErrKeyRequired, ErrKeyTooLarge, ErrValueTooLarge, ErrIncompatibleValue
   (the key names a sub-bucket) *)
Definition b_put (k v : str) (b : bucket) : res bucket :=
  if len k =? 0 then Err
  else if MaxKeySize <? len k then Err
  else if MaxValueSize <? len v then Err
  else match a_lookup k b with
       | Some (Sub _) => Err
       | _ => Ok (a_insert k (Leaf v) b)
       end.

(* TypedBucket.EmptyBucket(name) followed by filling the fresh child with [c]:
   an existing sub-bucket is deleted first; CreateBucketIfNotExists fails with
   ErrBucketNameRequired for the empty name and ErrIncompatibleValue over a plain value *)
Definition b_put_bucket (k : str) (c : bucket) (b : bucket) : res bucket :=
  if len k =? 0 then Err
  else match a_lookup k b with
       | Some (Leaf _) => Err
       | _ => Ok (a_insert k (Sub c) b)
       end.

Definition place (k : str) (n : node) (b : bucket) : res bucket :=
  match n with
  | Leaf v => b_put k v b
  | Sub c => b_put_bucket k c b
  end.

(* ---- values of map[string]interface{} / []interface{} --------------------------------- *)
(* VBad: as an input a Go value of a type setMarshaled does not support (its default branch);
   as an output: the read panics (GetList with a negative stored size). *)
Inductive value : Type :=
| VS (s : scalar)
| VBad
| VMap (m : list (str * value))
| VList (l : list value).

(* Int32ToBytes(int32(n)) for a non-negative count or index n *)
Definition int32_to_bytes (n : N) : str := TypeInt32 :: le_bytes 4 (n mod 2 ^ 32).
(* the key of list element idx *)
Definition index_key (idx : N) : str := int32_to_bytes idx.

Section Fill.
  Variable X : Type.
  Variable f : X -> res node.
  (* for key, val := range value {
       if key == ListSizeKeyName { tagsBucket.SetError(reserved key); break }
       tagsBucket.setMarshaled(key, val, allowNested) }
     The key under which PutList keeps the list size cannot be a map key: a map holding an int32
     there would be read back as a list. *)
  Fixpoint fill_map (m : list (str * X)) (acc : bucket) : res bucket :=
    match m with
    | [] => Ok acc
    | (k, x) :: t =>
        if str_eqb k ListSizeKeyName then Err
        else bind (f x) (fun n => bind (place k n acc) (fun acc' => fill_map t acc'))
    end.
  (* the loop as it was before the reserved key was rejected (pinned tree) *)
  Fixpoint fill_map_legacy (m : list (str * X)) (acc : bucket) : res bucket :=
    match m with
    | [] => Ok acc
    | (k, x) :: t => bind (f x) (fun n => bind (place k n acc) (fun acc' => fill_map_legacy t acc'))
    end.
  (* for idx, val := range value { listBucket.setMarshaled(string(Int32ToBytes(int32(idx))), val, true) } *)
  Fixpoint fill_list (l : list X) (idx : N) (acc : bucket) : res bucket :=
    match l with
    | [] => Ok acc
    | x :: t => bind (f x) (fun n => bind (place (index_key idx) n acc) (fun acc' => fill_list t (idx + 1) acc'))
    end.
End Fill.
Arguments fill_map {X} f m acc.
Arguments fill_map_legacy {X} f m acc.
Arguments fill_list {X} f l idx acc.

(* what setMarshaled(name, v, allowNested) puts under [name]: a typed scalar, or a freshly
   emptied sub-bucket filled by PutMap(name, val, nil, true) / PutList(name, val, nil).
   PutList ends with listBucket.SetInt32(ListSizeKeyName, int32(len(value)), nil). *)
Fixpoint entry_node (allowNested : bool) (v : value) {struct v} : res node :=
  match v with
  | VS s => Ok (Leaf (encode_scalar s))
  | VBad => Err
  | VMap m =>
      if allowNested then bind (fill_map (entry_node true) m []) (fun c => Ok (Sub c)) else Err
  | VList l =>
      if allowNested then
        bind (fill_list (entry_node true) l 0 []) (fun c =>
        bind (b_put ListSizeKeyName (int32_to_bytes (N.of_nat (length l))) c) (fun c' => Ok (Sub c')))
      else Err
  end.

(* setMarshaled of the pinned tree: PutMap accepted the reserved key *)
Fixpoint entry_node_legacy (allowNested : bool) (v : value) {struct v} : res node :=
  match v with
  | VS s => Ok (Leaf (encode_scalar s))
  | VBad => Err
  | VMap m =>
      if allowNested then bind (fill_map_legacy (entry_node_legacy true) m []) (fun c => Ok (Sub c)) else Err
  | VList l =>
      if allowNested then
        bind (fill_list (entry_node_legacy true) l 0 []) (fun c =>
        bind (b_put ListSizeKeyName (int32_to_bytes (N.of_nat (length l))) c) (fun c' => Ok (Sub c')))
      else Err
  end.

(* PutMap(name, m, checker, allowNested) / PutList(name, l, checker), the node they put *)
Definition map_node (allowNested : bool) (m : list (str * value)) : res node :=
  bind (fill_map (entry_node allowNested) m []) (fun c => Ok (Sub c)).
Definition list_node (l : list value) : res node := entry_node true (VList l).

(* SetStringList: EmptyBucket(name), then SetListEntry(TypeString, []byte(key)) per element:
   Put(PrependFieldType(TypeString, key), nil) *)
Fixpoint fill_string_list (l : list str) (acc : bucket) : res bucket :=
  match l with
  | [] => Ok acc
  | s :: t => bind (b_put (prepend_field_type TypeString s) [] acc) (fun acc' => fill_string_list t acc')
  end.
Definition string_list_node (l : list str) : res node :=
  bind (fill_string_list l []) (fun c => Ok (Sub c)).

(* ---- reading ---------------------------------------------------------------------------- *)

(* childBucket.GetInt32(ListSizeKeyName) *)
Definition list_size (b : bucket) : option Z :=
  match a_lookup ListSizeKeyName b with
  | Some (Leaf bytes) => read_int32 bytes
  | _ => None
  end.

Definition nth_entry (entries : list (str * value)) (i : nat) : value :=
  match a_lookup (index_key (N.of_nat i)) entries with
  | Some v => v
  | None => VS SNil
  end.

(* getMarshaled(name) for an existing key bound to node n.  A sub-bucket with an int32 under
   the marker key is read by GetList (the elements under the index keys 0 .. size-1; a missing
   one reads as nil), any other sub-bucket by GetMap (every key the cursor yields).  The code
   recurses through GetList/GetMap; here every entry of the sub-bucket is decoded structurally
   and the list picks its elements from them - the same function, structurally recursive. *)
Fixpoint get_node (n : node) : value :=
  match n with
  | Leaf bytes => VS (decode_scalar bytes)
  | Sub b =>
      let entries :=
        (fix go (l : list (str * node)) : list (str * value) :=
           match l with
           | [] => []
           | (k, n') :: t => (k, get_node n') :: go t
           end) b in
      match list_size b with
      | Some size =>
          if (size <? 0)%Z then VBad
          else VList (map (nth_entry entries) (seq 0 (Z.to_nat size)))
      | None => VMap entries
      end
  end.

Definition entries_of (b : bucket) : list (str * value) :=
  map (fun kn : str * node => let (k, n) := kn in (k, get_node n)) b.

(* bucket.getMarshaled(name) *)
Definition get_marshaled (name : str) (b : bucket) : value :=
  match a_lookup name b with
  | Some n => get_node n
  | None => VS SNil
  end.

(* bucket.GetMap(name): the empty map when there is no such sub-bucket *)
Definition get_map (name : str) (b : bucket) : list (str * value) :=
  match a_lookup name b with
  | Some (Sub c) => entries_of c
  | _ => []
  end.

(* bucket.GetList(name): nil when the sub-bucket has no size marker; an unchecked nil
   dereference (panic) when there is no such sub-bucket *)
Definition get_list (name : str) (b : bucket) : res (option (list value)) :=
  match a_lookup name b with
  | Some (Sub c) =>
      match list_size c with
      | Some size =>
          if (size <? 0)%Z then Panic
          else Ok (Some (map (nth_entry (entries_of c)) (seq 0 (Z.to_nat size))))
      | None => Ok None
      end
  | _ => Panic
  end.

(* bucket.GetStringList(name) / ReadStringList: the cursor's keys without their type byte;
   nil (= no elements) when there is no such sub-bucket *)
Definition read_string_list (c : bucket) : list str :=
  map (fun k => snd (get_type_and_value k)) (a_keys c).
Definition get_string_list (name : str) (b : bucket) : list str :=
  match a_lookup name b with
  | Some (Sub c) => read_string_list c
  | _ => []
  end.

(* bucket.getTyped(name): Get returns nil for a missing key and for a sub-bucket *)
Definition get_bytes (name : str) (b : bucket) : str :=
  match a_lookup name b with
  | Some (Leaf v) => v
  | _ => []
  end.
Definition get_string (name : str) (b : bucket) : sres := read_string (get_bytes name b).
Definition get_bool (name : str) (b : bucket) : option bool := read_bool (get_bytes name b).
Definition get_int32 (name : str) (b : bucket) : option Z := read_int32 (get_bytes name b).
Definition get_int64 (name : str) (b : bucket) : option Z := read_int64 (get_bytes name b).
Definition get_float64 (name : str) (b : bucket) : fres := read_float64 (get_bytes name b).
Definition get_time (name : str) (b : bucket) : option (Z * N) := read_time (get_bytes name b).

(* ---- field-checker restricted writes ------------------------------------------------------ *)

(* a FieldChecker: None is the nil checker.  MapFieldChecker is membership in a set of names. *)
Definition checker : Type := option (str -> bool).

Fixpoint name_in (l : list str) (name : str) : bool :=
  match l with
  | [] => false
  | x :: t => str_eqb name x || name_in t name
  end.
Definition map_field_checker (names : list str) : str -> bool := name_in names.

(* MappedFieldChecker.IsUpdated *)
Definition mapped_field_checker (inner : str -> bool) (mappings : list (str * str)) : str -> bool :=
  fun field =>
    match a_lookup field mappings with
    | Some override => inner override
    | None => inner field
    end.

(* PersistContext.WithFieldOverrides: only a non-nil checker is wrapped *)
Definition with_field_overrides (c : checker) (mappings : list (str * str)) : checker :=
  match c with
  | None => None
  | Some inner => Some (mapped_field_checker inner mappings)
  end.

(* ProceedWithSet(name, checker) on a bucket without error *)
Definition proceed (c : checker) (name : str) : bool :=
  match c with
  | None => true
  | Some f => f name
  end.

(* one setter call on the entity bucket *)
Inductive fop : Type :=
| OpNil (name : str)                           (* SetNil: takes no checker *)
| OpScalar (name : str) (v : scalar)           (* SetString/SetStringP/SetBool/SetInt32/SetInt64/SetFloat64/SetTime/SetTimeP, GetAndSetString *)
| OpReqString (name : str) (s : str)           (* PersistContext.SetRequiredString *)
| OpStringList (name : str) (l : list str)     (* SetStringList, GetAndSetStringList *)
| OpMap (name : str) (m : list (str * value)) (allowNested : bool)   (* PutMap, PersistContext.SetMap *)
| OpList (name : str) (l : list value).        (* PutList *)

Definition op_name (op : fop) : str :=
  match op with
  | OpNil n | OpScalar n _ | OpReqString n _ | OpStringList n _ | OpMap n _ _ | OpList n _ => n
  end.

Definition op_restricted (op : fop) : bool :=
  match op with
  | OpNil _ => false
  | _ => true
  end.

Definition op_node (op : fop) : res node :=
  match op with
  | OpNil _ => Ok (Leaf (encode_scalar SNil))
  | OpScalar _ v => Ok (Leaf (encode_scalar v))
  | OpReqString _ s => if len s =? 0 then Err else Ok (Leaf (encode_scalar (SString s)))
  | OpStringList _ l => string_list_node l
  | OpMap _ m an => map_node an m
  | OpList _ l => list_node l
  end.

(* does the call write at all *)
Definition op_proceeds (c : checker) (op : fop) : bool :=
  negb (op_restricted op) || proceed c (op_name op).

Definition apply_op (c : checker) (op : fop) (b : bucket) : res bucket :=
  if op_proceeds c op then bind (op_node op) (fun n => place (op_name op) n b) else Ok b.

(* a sequence of setter calls on one TypedBucket: after the first error (bucket.Err) nothing
   proceeds *)
Fixpoint apply_ops (c : checker) (ops : list fop) (b : bucket) : res bucket :=
  match ops with
  | [] => Ok b
  | op :: t => bind (apply_op c op b) (fun b' => apply_ops c t b')
  end.

(* return values of GetAndSetString(name, value, checker): (old, changed) *)
Inductive gas_out : Type :=
| GasVal (old : option str) (changed : bool)
| GasPanic
| GasUnmodelled.
Definition get_and_set_string_out (c : checker) (name value : str) (b : bucket) : gas_out :=
  if proceed c name then
    match get_string name b with
    | SVal None => GasVal None true
    | SVal (Some old) => GasVal (Some old) (negb (str_eqb old value))
    | SPanic => GasPanic
    | SUnmodelled => GasUnmodelled
    end
  else GasVal None false.

(* return values of GetAndSetStringList(name, value, checker): (previous list, proceeded) *)
Definition get_and_set_string_list_out (c : checker) (name : str) (b : bucket) : list str * bool :=
  (get_string_list name b, proceed c name).
