(* Proofs about the varint model (C13). *)
From Coq Require Import List NArith ZArith Bool Lia Arith.
From Storage Require Import Base.Bytes Codec.CodecBase Codec.Varint.
Import ListNotations.
Open Scope N_scope.
(* let lia see div and mod by constants *)
Ltac Zify.zify_post_hook ::= Z.to_euclidean_division_equations.

Lemma put_uvarint_fuel_nonempty f x : put_uvarint_fuel f x <> [].
Proof. destruct f; cbn; [discriminate|]. destruct (128 <=? x); discriminate. Qed.

Lemma put_uvarint_fuel_length f x : (1 <= length (put_uvarint_fuel f x) <= S f)%nat.
Proof.
  revert x. induction f as [|f IH]; intros x; cbn.
  - lia.
  - destruct (128 <=? x); cbn; [specialize (IH (x / 128)); lia | lia].
Qed.

Lemma put_uvarint_length x : (1 <= length (put_uvarint x) <= 10)%nat.
Proof. unfold put_uvarint. pose proof (put_uvarint_fuel_length 9 x). lia. Qed.

Lemma put_uvarint_fuel_bytes f x : Forall (fun b => b < 256) (put_uvarint_fuel f x).
Proof.
  revert x. induction f as [|f IH]; intros x; cbn.
  - constructor; [apply N.mod_lt; lia | constructor].
  - destruct (128 <=? x).
    + constructor; [| apply IH].
      assert (x mod 128 < 128) by (apply N.mod_lt; lia). lia.
    + constructor; [apply N.mod_lt; lia | constructor].
Qed.

Lemma put_uvarint_bytes x : Forall (fun b => b < 256) (put_uvarint x).
Proof. apply put_uvarint_fuel_bytes. Qed.

Lemma pow2_7_succ (i : nat) : 2 ^ (7 * N.of_nat (S i)) = 128 * 2 ^ (7 * N.of_nat i).
Proof.
  replace (7 * N.of_nat (S i)) with (7 + 7 * N.of_nat i) by lia.
  rewrite N.pow_add_r. reflexivity.
Qed.

(* decoding what PutUvarint wrote: position i, accumulated value acc, shift 7i.
   x is what remains to be written; it fits the remaining 64 - 7i bits *)
Lemma uvarint_go_put : forall (f : nat) (x : N) (i : nat) (acc : N) (rest : str),
  (i + f <= 9)%nat ->
  x * 2 ^ (7 * N.of_nat i) < 2 ^ 64 ->
  x < 128 ^ N.of_nat (S f) ->
  uvarint_go (put_uvarint_fuel f x ++ rest) i acc (7 * N.of_nat i)
  = UvOk (acc + x * 2 ^ (7 * N.of_nat i)) (i + length (put_uvarint_fuel f x)).
Proof.
  induction f as [|f IH]; intros x i acc rest Hi Hfit Hx.
  - (* no fuel left: x < 128 *)
    cbn [put_uvarint_fuel app uvarint_go].
    assert (Hx' : x < 128) by (cbn in Hx; lia).
    rewrite (N.mod_small x 256) by lia.
    replace (Nat.eqb i MaxVarintLen64) with false
      by (symmetry; apply Nat.eqb_neq; unfold MaxVarintLen64; lia).
    replace (x <? 128) with true by (symmetry; apply N.ltb_lt; exact Hx').
    destruct (Nat.eqb i (MaxVarintLen64 - 1)) eqn:E9.
    + apply Nat.eqb_eq in E9. unfold MaxVarintLen64 in E9. cbn in E9. subst i.
      assert (H63 : 7 * N.of_nat 9 = 63) by reflexivity. rewrite H63 in *.
      assert (x < 2).
      { destruct (N.lt_ge_cases x 2) as [|Hge]; [assumption|].
        exfalso. assert (2 * 2 ^ 63 <= x * 2 ^ 63) by (apply N.mul_le_mono_r; exact Hge).
        change (2 ^ 64) with (2 * 2 ^ 63) in Hfit. lia. }
      replace (1 <? x) with false by (symmetry; apply N.ltb_ge; lia).
      cbn [andb length]. f_equal; lia.
    + cbn [andb length]. f_equal; lia.
  - cbn [put_uvarint_fuel].
    destruct (128 <=? x) eqn:E128.
    + apply N.leb_le in E128.
      cbn [app uvarint_go].
      replace (Nat.eqb i MaxVarintLen64) with false
        by (symmetry; apply Nat.eqb_neq; unfold MaxVarintLen64; lia).
      assert (Hm : x mod 128 < 128) by (apply N.mod_lt; lia).
      replace (x mod 128 + 128 <? 128) with false by (symmetry; apply N.ltb_ge; lia).
      replace ((x mod 128 + 128) mod 128) with (x mod 128).
      2:{ rewrite N.add_mod by lia. rewrite N.mod_same by lia. rewrite N.add_0_r.
          rewrite N.mod_mod by lia. rewrite N.mod_mod by lia. reflexivity. }
      replace (7 * N.of_nat i + 7) with (7 * N.of_nat (S i)) by lia.
      pose proof (N.div_mod x 128 ltac:(lia)) as Hdm.
      rewrite IH.
      * f_equal.
        -- rewrite pow2_7_succ. lia.
        -- cbn [length]. lia.
      * lia.
      * rewrite pow2_7_succ.
        assert (x / 128 * 128 <= x) by lia.
        assert (x / 128 * (128 * 2 ^ (7 * N.of_nat i)) <= x * 2 ^ (7 * N.of_nat i)).
        { replace (x / 128 * (128 * 2 ^ (7 * N.of_nat i))) with ((x / 128 * 128) * 2 ^ (7 * N.of_nat i)) by lia.
          apply N.mul_le_mono_r. assumption. }
        lia.
      * apply N.div_lt_upper_bound; [lia|].
        replace (N.of_nat (S (S f))) with (N.succ (N.of_nat (S f))) in Hx by lia.
        rewrite N.pow_succ_r' in Hx. exact Hx.
    + apply N.leb_gt in E128.
      cbn [app uvarint_go].
      rewrite (N.mod_small x 256) by lia.
      replace (Nat.eqb i MaxVarintLen64) with false
        by (symmetry; apply Nat.eqb_neq; unfold MaxVarintLen64; lia).
      replace (x <? 128) with true by (symmetry; apply N.ltb_lt; exact E128).
      replace (Nat.eqb i (MaxVarintLen64 - 1)) with false
        by (symmetry; apply Nat.eqb_neq; unfold MaxVarintLen64; lia).
      cbn [andb length]. f_equal; lia.
Qed.

(* Uvarint reads back what PutUvarint wrote, whatever follows *)
Lemma uvarint_put (x : N) (rest : str) :
  x < 2 ^ 64 ->
  uvarint (put_uvarint x ++ rest) = UvOk x (length (put_uvarint x)).
Proof.
  intros Hx. unfold uvarint, put_uvarint.
  change 0 with (7 * N.of_nat 0) at 2.
  rewrite uvarint_go_put.
  - f_equal; cbn; lia.
  - lia.
  - cbn. lia.
  - change (128 ^ N.of_nat 10) with (2 ^ 70).
    assert (2 ^ 64 < 2 ^ 70) by (apply N.pow_lt_mono_r; lia). lia.
Qed.

(* whatever the input, Uvarint's count is within the buffer and its value fits 64 bits *)
Lemma uvarint_go_bounds : forall (buf : str) (i : nat) (acc s : N) (x : N) (n : nat),
  (i <= 10)%nat -> s = 7 * N.of_nat i -> acc < 2 ^ s ->
  uvarint_go buf i acc s = UvOk x n ->
  (i < n <= i + length buf)%nat /\ x < 2 ^ 64.
Proof.
  induction buf as [|b rest IH]; intros i acc s x n Hi10 Hs Hacc H; [discriminate|].
  cbn [uvarint_go] in H.
  destruct (Nat.eqb i MaxVarintLen64) eqn:E10; [discriminate|].
  apply Nat.eqb_neq in E10. unfold MaxVarintLen64 in *.
  destruct (b <? 128) eqn:Eb.
  - apply N.ltb_lt in Eb.
    destruct (Nat.eqb i (10 - 1) && (1 <? b)) eqn:E9; [discriminate|].
    inversion H; subst x n. split; [cbn [length]; lia|].
    destruct (Nat.eq_dec i 9) as [Hi9|Hne].
    + subst i. cbn in E9. apply N.ltb_ge in E9.
      assert (s = 63) by (subst s; reflexivity). subst s.
      assert (b * 2 ^ 63 <= 1 * 2 ^ 63) by (apply N.mul_le_mono_r; lia).
      change (2 ^ 64) with (2 * 2 ^ 63). lia.
    + assert (s + 7 <= 63) by lia.
      assert (acc + b * 2 ^ s < 2 ^ (s + 7)).
      { rewrite N.pow_add_r. change (2 ^ 7) with 128.
        assert (b * 2 ^ s <= 127 * 2 ^ s) by (apply N.mul_le_mono_r; lia). lia. }
      assert (2 ^ (s + 7) <= 2 ^ 63) by (apply N.pow_le_mono_r; lia).
      assert (2 ^ 63 < 2 ^ 64) by (apply N.pow_lt_mono_r; lia). lia.
  - apply IH in H.
    + cbn [length]. destruct H as [H1 H2]. split; [lia | exact H2].
    + lia.
    + lia.
    + rewrite N.pow_add_r. change (2 ^ 7) with 128.
      assert (b mod 128 < 128) by (apply N.mod_lt; lia).
      assert (b mod 128 * 2 ^ s <= 127 * 2 ^ s) by (apply N.mul_le_mono_r; lia). lia.
Qed.

Lemma uvarint_bounds (buf : str) (x : N) (n : nat) :
  uvarint buf = UvOk x n -> (1 <= n <= length buf)%nat /\ x < 2 ^ 64.
Proof.
  intros H. unfold uvarint in H.
  apply uvarint_go_bounds in H; [| lia | reflexivity | cbn; lia].
  destruct H as [H1 H2]. split; [lia | exact H2].
Qed.
