(* Model of encoding/binary PutUvarint / Uvarint (Go 1.23) as used by boltz/encode.go.
   Model only: no proofs in this file. *)
From Coq Require Import List NArith Bool.
From Storage Require Import Base.Bytes Codec.CodecBase.
Import ListNotations.
Open Scope N_scope.

Definition MaxVarintLen64 : nat := 10.

(* func PutUvarint(buf []byte, x uint64) int {
     i := 0
     for x >= 0x80 { buf[i] = byte(x) | 0x80; x >>= 7; i++ }
     buf[i] = byte(x)
     return i + 1 }
   byte(x)|0x80 = x mod 128 + 128.  The loop runs at most 9 times for x < 2^64; the fuel is
   that bound. *)
Fixpoint put_uvarint_fuel (fuel : nat) (x : N) : str :=
  match fuel with
  | O => [x mod 256]
  | S f => if 128 <=? x then (x mod 128 + 128) :: put_uvarint_fuel f (x / 128) else [x mod 256]
  end.

Definition put_uvarint (x : N) : str := put_uvarint_fuel 9 x.

(* func Uvarint(buf []byte) (uint64, int) {
     var x uint64; var s uint
     for i, b := range buf {
       if i == MaxVarintLen64 { return 0, -(i + 1) }            // overflow
       if b < 0x80 {
         if i == MaxVarintLen64-1 && b > 1 { return 0, -(i + 1) } // overflow
         return x | uint64(b)<<s, i + 1 }
       x |= uint64(b&0x7f) << s
       s += 7 }
     return 0, 0 }
   The bits or-ed together are disjoint (x < 2^s), so | is +; nothing exceeds 2^64
   (Varint proofs: uvarint_lt_2_64). *)
Inductive uvres : Type :=
| UvOk (x : N) (n : nat)      (* value, bytes read (n >= 1) *)
| UvShort                     (* 0, 0 : buffer too small *)
| UvOverflow (n : nat).       (* 0, -n : value larger than 64 bits *)

Fixpoint uvarint_go (buf : str) (i : nat) (x s : N) : uvres :=
  match buf with
  | [] => UvShort
  | b :: rest =>
      if Nat.eqb i MaxVarintLen64 then UvOverflow (S i)
      else if b <? 128 then
        if Nat.eqb i (MaxVarintLen64 - 1) && (1 <? b) then UvOverflow (S i)
        else UvOk (x + b * 2 ^ s) (S i)
      else uvarint_go rest (S i) (x + (b mod 128) * 2 ^ s) (s + 7)
  end.

Definition uvarint (buf : str) : uvres := uvarint_go buf 0 0 0.
