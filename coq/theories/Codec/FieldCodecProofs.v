(* Proofs about the scalar field codec (C13): every setter's bytes read back as the value. *)
From Coq Require Import List NArith ZArith Bool Lia Arith.
From Storage Require Import Base.Bytes Codec.CodecBase Codec.FieldCodec.
Import ListNotations.
Open Scope N_scope.
Ltac Zify.zify_post_hook ::= Z.to_euclidean_division_equations.

Lemma le_bytes_length w x : length (le_bytes w x) = w.
Proof. revert x. induction w as [|w IH]; intros x; cbn; [reflexivity | rewrite IH; reflexivity]. Qed.

Lemma le_val_le_bytes w x : le_val (le_bytes w x) = x mod 256 ^ N.of_nat w.
Proof.
  revert x. induction w as [|w IH]; intros x.
  - cbn. rewrite N.mod_1_r. reflexivity.
  - cbn [le_bytes le_val]. rewrite IH.
    replace (N.of_nat (S w)) with (N.succ (N.of_nat w)) by lia.
    rewrite N.pow_succ_r'.
    rewrite N.mod_mul_r; [reflexivity | lia | apply N.pow_nonzero; lia].
Qed.

Lemma be_val_be_bytes w x : be_val (be_bytes w x) = x mod 256 ^ N.of_nat w.
Proof. unfold be_val, be_bytes. rewrite rev_involutive. apply le_val_le_bytes. Qed.

Lemma be_bytes_length w x : length (be_bytes w x) = w.
Proof. unfold be_bytes. rewrite rev_length. apply le_bytes_length. Qed.

Lemma le_bytes_wf w x : Forall (fun b => b < 256) (le_bytes w x).
Proof.
  revert x. induction w as [|w IH]; intros x; cbn; constructor; [apply N.mod_lt; lia | apply IH].
Qed.

Lemma signed_unsigned_64 z : in_int64 z = true -> to_signed 64 (to_unsigned 64 z mod 256 ^ 8) = z.
Proof.
  unfold in_int64, to_signed, to_unsigned. intros H. apply andb_true_iff in H. destruct H as [H1 H2].
  apply Z.leb_le in H1. apply Z.ltb_lt in H2.
  change (2 ^ Z.of_N 64)%Z with 18446744073709551616%Z.
  change (256 ^ 8) with 18446744073709551616.
  change (2 ^ (64 - 1)) with 9223372036854775808.
  change (2 ^ 63)%Z with 9223372036854775808%Z in *.
  rewrite N.mod_small by lia.
  destruct (Z.to_N (z mod 18446744073709551616) <? 9223372036854775808) eqn:E.
  - apply N.ltb_lt in E. lia.
  - apply N.ltb_ge in E. lia.
Qed.

Lemma signed_unsigned_32 z : in_int32 z = true -> to_signed 32 (to_unsigned 32 z mod 256 ^ 4) = z.
Proof.
  unfold in_int32, to_signed, to_unsigned. intros H. apply andb_true_iff in H. destruct H as [H1 H2].
  apply Z.leb_le in H1. apply Z.ltb_lt in H2.
  change (2 ^ Z.of_N 32)%Z with 4294967296%Z.
  change (256 ^ 4) with 4294967296.
  change (2 ^ (32 - 1)) with 2147483648.
  change (2 ^ 31)%Z with 2147483648%Z in *.
  rewrite N.mod_small by lia.
  destruct (Z.to_N (z mod 4294967296) <? 2147483648) eqn:E.
  - apply N.ltb_lt in E. lia.
  - apply N.ltb_ge in E. lia.
Qed.

(* UnmarshalBinary reads the instant MarshalBinary (of the UTC time) wrote *)
Lemma time_unmarshal_marshal sec nsec :
  in_int64 sec = true -> nsec < 2 ^ 32 ->
  time_unmarshal (time_marshal_utc sec nsec) = Some (sec, nsec).
Proof.
  intros Hs Hn. unfold time_unmarshal, time_marshal_utc.
  cbv beta iota zeta.
  change ((1 =? 1) || (1 =? 2)) with true. change (1 =? 2) with false. cbv beta iota.
  replace (length (1 :: be_bytes 8 (to_unsigned 64 sec) ++ be_bytes 4 nsec ++ [255; 255])) with 15%nat
    by (cbn [length]; rewrite !app_length, !be_bytes_length; reflexivity).
  change (Nat.eqb 15 15) with true. cbv beta iota.
  rewrite firstn_app, be_bytes_length. change (8 - 8)%nat with 0%nat. rewrite firstn_O, app_nil_r.
  rewrite firstn_all2 by (rewrite be_bytes_length; lia).
  rewrite skipn_app, be_bytes_length. change (8 - 8)%nat with 0%nat. rewrite skipn_O.
  rewrite skipn_all2 by (rewrite be_bytes_length; lia). rewrite app_nil_l.
  rewrite firstn_app, be_bytes_length. change (4 - 4)%nat with 0%nat. rewrite firstn_O, app_nil_r.
  rewrite firstn_all2 by (rewrite be_bytes_length; lia).
  rewrite !be_val_be_bytes.
  change (N.of_nat 8) with 8. rewrite (signed_unsigned_64 _ Hs).
  change (256 ^ N.of_nat 4) with (2 ^ 32). rewrite N.mod_small by exact Hn. reflexivity.
Qed.

(* ---- every setter's bytes, read with the getter of the same type ------------------------- *)

Lemma bytes_to_int32_le z : in_int32 z = true -> bytes_to_int32 (le_bytes 4 (to_unsigned 32 z)) = Some z.
Proof.
  intros H. unfold bytes_to_int32. rewrite le_bytes_length. change (Nat.eqb 4 4) with true. cbv iota.
  rewrite le_val_le_bytes. change (N.of_nat 4) with 4. rewrite (signed_unsigned_32 _ H). reflexivity.
Qed.

Lemma bytes_to_int64_le z : in_int64 z = true -> bytes_to_int64 (le_bytes 8 (to_unsigned 64 z)) = Some z.
Proof.
  intros H. unfold bytes_to_int64. rewrite le_bytes_length. change (Nat.eqb 8 8) with true. cbv iota.
  rewrite le_val_le_bytes. change (N.of_nat 8) with 8. rewrite (signed_unsigned_64 _ H). reflexivity.
Qed.

Lemma bytes_to_float64_le bits : bits < 2 ^ 64 -> bytes_to_float64 (le_bytes 8 bits) = Some bits.
Proof.
  intros H. unfold bytes_to_float64. rewrite le_bytes_length. change (Nat.eqb 8 8) with true. cbv iota.
  rewrite le_val_le_bytes. change (256 ^ N.of_nat 8) with (2 ^ 64). rewrite N.mod_small by exact H. reflexivity.
Qed.

Lemma bytes_to_datetime_marshal sec nsec :
  in_int64 sec = true -> nsec < 1000000000 -> bytes_to_datetime (time_marshal_utc sec nsec) = Some (sec, nsec).
Proof.
  intros Hs Hn. unfold bytes_to_datetime. apply time_unmarshal_marshal; [exact Hs|].
  assert (1000000000 < 2 ^ 32) by (cbn; lia). lia.
Qed.

Lemma read_string_string s : read_string (encode_scalar (SString s)) = SVal (Some s).
Proof. reflexivity. Qed.

Lemma read_bool_bool b : read_bool (encode_scalar (SBool b)) = Some b.
Proof. destruct b; reflexivity. Qed.

Lemma read_int32_int32 z : in_int32 z = true -> read_int32 (encode_scalar (SInt32 z)) = Some z.
Proof.
  intros H. unfold read_int32, encode_scalar, get_type_and_value, field_to_int32.
  change (TypeInt32 =? TypeInt32) with true. cbv iota. apply bytes_to_int32_le. exact H.
Qed.

(* an int32 read as int64: the same number (widening) *)
Lemma read_int64_int32 z : in_int32 z = true -> read_int64 (encode_scalar (SInt32 z)) = Some z.
Proof.
  intros H. unfold read_int64, encode_scalar, get_type_and_value, field_to_int64.
  change (TypeInt32 =? TypeInt32) with true. cbv iota. apply bytes_to_int32_le. exact H.
Qed.

Lemma read_int64_int64 z : in_int64 z = true -> read_int64 (encode_scalar (SInt64 z)) = Some z.
Proof.
  intros H. unfold read_int64, encode_scalar, get_type_and_value, field_to_int64.
  change (TypeInt64 =? TypeInt32) with false. change (TypeInt64 =? TypeInt64) with true. cbv iota.
  apply bytes_to_int64_le. exact H.
Qed.

(* every one of the 2^64 bit patterns - NaN payloads, infinities, -0 - comes back unchanged *)
Lemma read_float64_float64 bits : bits < 2 ^ 64 -> read_float64 (encode_scalar (SFloat64 bits)) = FVal (Some bits).
Proof.
  intros H. unfold read_float64, encode_scalar, get_type_and_value, field_to_float64.
  change ((TypeFloat64 =? TypeInt32) || (TypeFloat64 =? TypeInt64)) with false.
  change (TypeFloat64 =? TypeFloat64) with true. cbv iota.
  rewrite (bytes_to_float64_le _ H). reflexivity.
Qed.

Lemma read_time_time sec nsec :
  in_int64 sec = true -> nsec < 1000000000 -> read_time (encode_scalar (STime sec nsec)) = Some (sec, nsec).
Proof.
  intros Hs Hn. unfold read_time, encode_scalar, set_typed_bytes, prepend_field_type, get_type_and_value,
    field_to_datetime.
  change (TypeTime =? TypeNil) with false. change (TypeTime =? TypeTime) with true. cbv iota.
  apply bytes_to_datetime_marshal; assumption.
Qed.

(* nil reads as nil with every getter *)
Lemma read_nil :
  read_string (encode_scalar SNil) = SVal None /\ read_bool (encode_scalar SNil) = None /\
  read_int32 (encode_scalar SNil) = None /\ read_int64 (encode_scalar SNil) = None /\
  read_float64 (encode_scalar SNil) = FVal None /\ read_time (encode_scalar SNil) = None.
Proof. repeat split; reflexivity. Qed.

(* an absent key reads as nil with every getter *)
Lemma read_absent :
  read_string [] = SVal None /\ read_bool [] = None /\ read_int32 [] = None /\ read_int64 [] = None /\
  read_float64 [] = FVal None /\ read_time [] = None.
Proof. repeat split; reflexivity. Qed.

(* the typed value a getter of the scalar's own type returns *)
Definition read_own (v : scalar) (bytes : str) : option scalar :=
  match v with
  | SNil => match read_string bytes with SVal None => Some SNil | _ => None end
  | SBool _ => option_map SBool (read_bool bytes)
  | SInt32 _ => option_map SInt64 (read_int64 bytes)      (* GetInt64: the widening read *)
  | SInt64 _ => option_map SInt64 (read_int64 bytes)
  | SFloat64 _ => match read_float64 bytes with FVal (Some b) => Some (SFloat64 b) | _ => None end
  | SString _ => match read_string bytes with SVal (Some s) => Some (SString s) | _ => None end
  | STime _ _ => option_map (fun p : Z * N => STime (fst p) (snd p)) (read_time bytes)
  end.

Lemma field_roundtrip_lemma (v : scalar) :
  wf_scalar v = true -> read_own v (encode_scalar v) = Some (widen v).
Proof.
  destruct v as [|b|z|z|bits|s|sec nsec]; intros H; cbn [wf_scalar] in H; unfold read_own, widen.
  - reflexivity.
  - rewrite read_bool_bool. reflexivity.
  - rewrite (read_int64_int32 _ H). reflexivity.
  - rewrite (read_int64_int64 _ H). reflexivity.
  - apply N.ltb_lt in H. rewrite (read_float64_float64 _ H). reflexivity.
  - reflexivity.
  - apply andb_true_iff in H. destruct H as [H1 H2]. apply N.ltb_lt in H2.
    rewrite (read_time_time _ _ H1 H2). reflexivity.
Qed.

(* the dynamic read (getMarshaled): exactly the value, int32 staying int32 *)
Lemma decode_encode_scalar (v : scalar) : wf_scalar v = true -> decode_scalar (encode_scalar v) = v.
Proof.
  destruct v as [|b|z|z|bits|s|sec nsec]; intros H; cbn [wf_scalar] in H.
  - reflexivity.
  - destruct b; reflexivity.
  - unfold decode_scalar, encode_scalar, get_type_and_value.
    change (TypeInt32 =? TypeString) with false. change (TypeInt32 =? TypeInt32) with true. cbv iota.
    rewrite (bytes_to_int32_le _ H). reflexivity.
  - unfold decode_scalar, encode_scalar, get_type_and_value.
    change (TypeInt64 =? TypeString) with false. change (TypeInt64 =? TypeInt32) with false.
    change (TypeInt64 =? TypeInt64) with true. cbv iota.
    rewrite (bytes_to_int64_le _ H). reflexivity.
  - apply N.ltb_lt in H. unfold decode_scalar, encode_scalar, get_type_and_value.
    change (TypeFloat64 =? TypeString) with false. change (TypeFloat64 =? TypeInt32) with false.
    change (TypeFloat64 =? TypeInt64) with false. change (TypeFloat64 =? TypeFloat64) with true. cbv iota.
    rewrite (bytes_to_float64_le _ H). reflexivity.
  - reflexivity.
  - apply andb_true_iff in H. destruct H as [H1 H2]. apply N.ltb_lt in H2.
    unfold decode_scalar, encode_scalar, set_typed_bytes, prepend_field_type, get_type_and_value.
    change (TypeTime =? TypeNil) with false. cbv iota.
    change (TypeTime =? TypeString) with false. change (TypeTime =? TypeInt32) with false.
    change (TypeTime =? TypeInt64) with false. change (TypeTime =? TypeFloat64) with false.
    change (TypeTime =? TypeTime) with true. cbv iota.
    rewrite (bytes_to_datetime_marshal _ _ H1 H2). reflexivity.
Qed.

(* nil and the empty string are stored differently and read differently *)
Lemma nil_vs_empty_lemma :
  encode_scalar SNil <> encode_scalar (SString []) /\
  read_string (encode_scalar SNil) = SVal None /\
  read_string (encode_scalar (SString [])) = SVal (Some []) /\
  decode_scalar (encode_scalar SNil) = SNil /\
  decode_scalar (encode_scalar (SString [])) = SString [].
Proof. repeat split; try reflexivity. cbn. discriminate. Qed.

(* stored bytes determine the value: two different well-formed scalars never share bytes *)
Lemma encode_scalar_injective v1 v2 :
  wf_scalar v1 = true -> wf_scalar v2 = true -> encode_scalar v1 = encode_scalar v2 -> v1 = v2.
Proof.
  intros H1 H2 E. rewrite <- (decode_encode_scalar v1 H1), <- (decode_encode_scalar v2 H2), E. reflexivity.
Qed.

Lemma encode_scalar_nonempty v : encode_scalar v <> [].
Proof. destruct v as [|b|z|z|bits|s|sec nsec]; cbn; discriminate. Qed.
