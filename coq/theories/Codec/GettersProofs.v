(* Proofs about the readers with a default, IsStringListEmpty and TypedBucket.Copy (C13). *)
From Coq Require Import List NArith ZArith Bool Lia Arith Sorted.
From Storage Require Import Base.Bytes Codec.CodecBase Codec.FieldCodec Codec.FieldCodecProofs
  Codec.StrOrderProofs Codec.Containers Codec.ContainersProofs Codec.Getters.
Import ListNotations.
Open Scope N_scope.

(* ---- getters with a default ---------------------------------------------------------------------- *)
(* a stored value of the getter's type is returned, whatever the default *)
Lemma default_getters_stored c name v b b' :
  wf_scalar v = true -> proceed c name = true -> apply_op c (OpScalar name v) b = Ok b' ->
  match v with
  | SBool x => forall d, get_bool_with_default name d b' = x
  | SInt32 z => forall d, get_int32_with_default name d b' = z /\ get_int64_with_default name d b' = z
  | SInt64 z => forall d, get_int64_with_default name d b' = z
  | SString s => (forall d, get_string_with_default name d b' = SVal (Some s)) /\
                 get_string_or_error name b' = (SVal (Some s), false)
  | STime sec nsec => (forall d, get_time_or_default name d b' = (sec, nsec)) /\
                      get_time_or_error name b' = ((sec, nsec), false)
  | _ => True
  end.
Proof.
  intros Hwf Hp H. pose proof (scalar_field_written _ _ _ _ _ Hp H) as Hb.
  destruct v as [|x|z|z|bits|s|sec nsec]; cbn [wf_scalar] in Hwf; try exact I.
  - intros d. unfold get_bool_with_default, get_bool. rewrite Hb, read_bool_bool. reflexivity.
  - intros d. unfold get_int32_with_default, get_int64_with_default, get_int32, get_int64.
    rewrite Hb, (read_int32_int32 _ Hwf), (read_int64_int32 _ Hwf). split; reflexivity.
  - intros d. unfold get_int64_with_default, get_int64. rewrite Hb, (read_int64_int64 _ Hwf). reflexivity.
  - unfold get_string_with_default, get_string_or_error, get_string. rewrite Hb.
    split; [intros d|]; reflexivity.
  - apply andb_true_iff in Hwf. destruct Hwf as [H1 H2]. apply N.ltb_lt in H2.
    unfold get_time_or_default, get_time_or_error, get_time. rewrite Hb, (read_time_time _ _ H1 H2).
    split; [intros d|]; reflexivity.
Qed.

(* a null or absent field (also a name bound to a sub-bucket: Get returns nil) gives the default,
   and the *OrError getters flag the error *)
Lemma default_getters_null name b :
  get_bytes name b = [] \/ get_bytes name b = encode_scalar SNil ->
  (forall d, get_string_with_default name d b = SVal (Some d)) /\
  get_string_or_error name b = (SVal (Some []), true) /\
  (forall d, get_bool_with_default name d b = d) /\
  (forall d, get_int32_with_default name d b = d) /\
  (forall d, get_int64_with_default name d b = d) /\
  (forall d, get_time_or_default name d b = d) /\
  get_time_or_error name b = ((0%Z, 0), true).
Proof.
  unfold get_string_with_default, get_string_or_error, get_bool_with_default, get_int32_with_default,
    get_int64_with_default, get_time_or_default, get_time_or_error, get_string, get_bool, get_int32,
    get_int64, get_time.
  intros [H|H]; rewrite H; repeat split.
Qed.

Lemma get_bytes_absent name b : a_lookup name b = None -> get_bytes name b = [].
Proof. unfold get_bytes. intros H. rewrite H. reflexivity. Qed.

Lemma get_bytes_after_nil c name b b' :
  apply_op c (OpNil name) b = Ok b' -> get_bytes name b' = encode_scalar SNil.
Proof.
  intros H. unfold apply_op in H. change (op_proceeds c (OpNil name)) with true in H.
  cbn [op_node bind op_name] in H.
  unfold get_bytes. rewrite (place_lookup_same _ _ _ _ H). reflexivity.
Qed.

(* ---- IsStringListEmpty ------------------------------------------------------------------------------ *)
Lemma is_string_list_empty_iff name b :
  is_string_list_empty name b = true <-> get_string_list name b = [].
Proof.
  unfold is_string_list_empty, get_string_list.
  destruct (a_lookup name b) as [[v|[|[k n] t]]|]; cbn; split; intros H; try reflexivity; discriminate.
Qed.

Lemma is_string_list_empty_written c name (l : list str) b b' :
  Forall elem_ok l -> proceed c name = true -> apply_op c (OpStringList name l) b = Ok b' ->
  is_string_list_empty name b' = match sort_dedup l with [] => true | _ :: _ => false end.
Proof.
  intros Hl Hp H. pose proof (strlist_roundtrip_lemma _ _ _ _ _ Hl Hp H) as Hr.
  destruct (sort_dedup l) as [|x t] eqn:E.
  - apply is_string_list_empty_iff. exact Hr.
  - destruct (is_string_list_empty name b') eqn:Ei; [|reflexivity].
    apply is_string_list_empty_iff in Ei. rewrite Ei in Hr. discriminate.
Qed.

(* ---- ForEachTypedBucket ------------------------------------------------------------------------------- *)
Lemma child_buckets_spec k c (b : bucket) : In (k, c) (child_buckets b) <-> In (k, Sub c) b.
Proof.
  induction b as [|[k' [v|c']] t IH]; cbn [child_buckets]; [tauto| |].
  - rewrite IH. split; [intros H; right; exact H | intros [H|H]; [discriminate | exact H]].
  - cbn [In]. rewrite IH. split; intros [H|H]; try (right; exact H); left; inversion H; reflexivity.
Qed.

(* ---- Copy ------------------------------------------------------------------------------------------------ *)
Section NodeInd.
  Variable P : node -> Prop.
  Hypothesis HL : forall v, P (Leaf v).
  Hypothesis HS : forall l, Forall (fun kn : str * node => P (snd kn)) l -> P (Sub l).
  Fixpoint node_ind' (n : node) : P n :=
    match n with
    | Leaf v => HL v
    | Sub l =>
        HS l ((fix go (l : list (str * node)) : Forall (fun kn : str * node => P (snd kn)) l :=
                 match l with
                 | [] => Forall_nil _
                 | (k, x) :: t => Forall_cons (k, x) (node_ind' x) (go t)
                 end) l)
    end.
End NodeInd.

(* what a bbolt bucket can hold: keys strictly ascending and non-empty, keys of plain values within
   MaxKeySize, values within MaxValueSize - at every depth *)
Fixpoint canon (n : node) : Prop :=
  match n with
  | Leaf v => len v <= MaxValueSize
  | Sub l =>
      Sorted str_lt (a_keys l) /\
      (fix all (l : list (str * node)) : Prop :=
         match l with
         | [] => True
         | (k, n') :: t => (k <> [] /\ (forall v, n' = Leaf v -> len k <= MaxKeySize) /\ canon n') /\ all t
         end) l
  end.

Fixpoint canon_entries (l : list (str * node)) : Prop :=
  match l with
  | [] => True
  | (k, n') :: t => (k <> [] /\ (forall v, n' = Leaf v -> len k <= MaxKeySize) /\ canon n') /\ canon_entries t
  end.
Lemma canon_sub l : canon (Sub l) <-> Sorted str_lt (a_keys l) /\ canon_entries l.
Proof.
  cbn [canon]. assert (E : forall l, (fix all (l : list (str * node)) : Prop :=
         match l with
         | [] => True
         | (k, n') :: t => (k <> [] /\ (forall v, n' = Leaf v -> len k <= MaxKeySize) /\ canon n') /\ all t
         end) l <-> canon_entries l).
  { induction l0 as [|[k n'] t IH]; cbn [canon_entries]; [tauto|]. rewrite IH. tauto. }
  rewrite E. tauto.
Qed.

(* the loops of copyImpl and prune as top-level functions *)
Fixpoint copy_entries (filter : list str -> bool) (path : list str) (l : list (str * node)) (local : bucket) : res bucket :=
  match l with
  | [] => Ok local
  | (k, n') :: t =>
      if filter (path ++ [k]) then
        match n' with
        | Leaf v => bind (b_put k v local) (fun local' => copy_entries filter path t local')
        | Sub _ =>
            bind (get_or_create k local) (fun lc =>
            bind (copy_node filter (path ++ [k]) n' lc) (fun lc' => copy_entries filter path t (a_insert k (Sub lc') local)))
        end
      else copy_entries filter path t local
  end.
Lemma copy_node_sub filter path other local :
  copy_node filter path (Sub other) local = copy_entries filter path other local.
Proof.
  cbn [copy_node]. revert local. induction other as [|[k n'] t IH]; intros local; [reflexivity|].
  cbn [copy_entries]. destruct (filter (path ++ [k])); [|apply IH].
  destruct n' as [v|c].
  - destruct (b_put k v local); cbn [bind]; try reflexivity. apply IH.
  - destruct (get_or_create k local) as [lc| | |]; cbn [bind]; try reflexivity.
    destruct (copy_node filter (path ++ [k]) (Sub c) lc); cbn [bind]; try reflexivity. apply IH.
Qed.

Fixpoint prune_entries (filter : list str -> bool) (path : list str) (l : list (str * node)) : list (str * node) :=
  match l with
  | [] => []
  | (k, n') :: t =>
      if filter (path ++ [k]) then (k, prune filter (path ++ [k]) n') :: prune_entries filter path t
      else prune_entries filter path t
  end.
Lemma prune_sub filter path other : prune filter path (Sub other) = Sub (prune_entries filter path other).
Proof.
  cbn [prune]. f_equal. induction other as [|[k n'] t IH]; [reflexivity|].
  cbn [prune_entries]. destruct (filter (path ++ [k])); [f_equal|]; exact IH.
Qed.

Definition keys_below (acc : bucket) (k : str) : Prop := Forall (fun kv : str * node => str_lt (fst kv) k) acc.

Lemma keys_below_lookup acc k : keys_below acc k -> a_lookup k acc = None.
Proof.
  intros H. apply a_lookup_none_keys. intros Hin. unfold a_keys in Hin. apply in_map_iff in Hin.
  destruct Hin as ([k' n] & E & Hin). cbn in E. subst k'.
  unfold keys_below in H. rewrite Forall_forall in H. exact (str_lt_irrefl _ (H _ Hin)).
Qed.

Lemma keys_below_snoc acc k n k2 : keys_below acc k2 -> str_lt k k2 -> keys_below (acc ++ [(k, n)]) k2.
Proof. intros H Hk. unfold keys_below. apply Forall_app. split; [exact H | constructor; [exact Hk | constructor]]. Qed.

Lemma keys_below_trans acc k k2 : keys_below acc k -> str_lt k k2 -> keys_below acc k2.
Proof.
  unfold keys_below. intros H Hk. rewrite Forall_forall in *. intros x Hx. exact (str_lt_trans _ _ _ (H x Hx) Hk).
Qed.

(* the loop on a sorted source whose keys are all above those already copied *)
Lemma copy_entries_canon filter path : forall (l : list (str * node)) (acc : bucket),
  Forall (fun kn : str * node =>
            forall p, canon (snd kn) ->
                      match prune filter p (snd kn) with
                      | Sub c' => copy_node filter p (snd kn) [] = Ok c'
                      | Leaf _ => True
                      end) l ->
  Sorted str_lt (a_keys l) -> canon_entries l ->
  (forall k, In k (a_keys l) -> keys_below acc k) ->
  copy_entries filter path l acc = Ok (acc ++ prune_entries filter path l).
Proof.
  induction l as [|[k n'] t IH]; intros acc HIH Hs Hc Hb; cbn [copy_entries prune_entries].
  - rewrite app_nil_r. reflexivity.
  - inversion HIH as [|? ? Hn Ht]; subst. cbn [a_keys map fst] in Hs.
    assert (Hs' : Sorted str_lt (a_keys t)) by (inversion Hs; assumption).
    destruct Hc as ((Hk & Hkl & Hcn) & Hct).
    assert (Hbk : keys_below acc k) by (apply Hb; left; reflexivity).
    assert (Hmin : forall x, In x (a_keys t) -> str_lt k x) by (apply sorted_strict_head_min; exact Hs).
    destruct (filter (path ++ [k])).
    + destruct n' as [v|c].
      * change (b_put k v acc) with (place k (Leaf v) acc).
        rewrite (place_fresh k (Leaf v) acc Hk (Hkl v eq_refl) Hcn (keys_below_lookup _ _ Hbk)). cbn [bind].
        rewrite (a_insert_last k (Leaf v) acc Hbk).
        rewrite (IH (acc ++ [(k, Leaf v)]) Ht Hs' Hct).
        -- rewrite <- app_assoc. reflexivity.
        -- intros x Hx. apply keys_below_snoc; [apply Hb; right; exact Hx | exact (Hmin x Hx)].
      * unfold get_or_create. rewrite (proj2 (len_zero_iff k) Hk), (keys_below_lookup _ _ Hbk). cbn [bind].
        cbn [snd] in Hn. specialize (Hn (path ++ [k]) Hcn). rewrite prune_sub in Hn. rewrite Hn. cbn [bind].
        rewrite (a_insert_last k _ acc Hbk).
        rewrite (IH _ Ht Hs' Hct).
        -- rewrite <- app_assoc. rewrite prune_sub. reflexivity.
        -- intros x Hx. apply keys_below_snoc; [apply Hb; right; exact Hx | exact (Hmin x Hx)].
    + apply (IH acc Ht Hs' Hct). intros x Hx. apply Hb. right. exact Hx.
Qed.

(* Copy into an empty bucket stores the source without the entries the filter rejects *)
Lemma copy_node_canon filter : forall (n : node) (path : list str),
  canon n ->
  match prune filter path n with
  | Sub c' => copy_node filter path n [] = Ok c'
  | Leaf _ => True
  end.
Proof.
  intros n. induction n as [v|l IHl] using node_ind'; intros path Hc; [exact I|].
  rewrite prune_sub, copy_node_sub. apply canon_sub in Hc. destruct Hc as [Hs Hce].
  rewrite (copy_entries_canon filter path l [] ); [reflexivity| |exact Hs|exact Hce|intros; constructor].
  rewrite Forall_forall in *. intros kn Hin p Hcn. exact (IHl kn Hin p Hcn).
Qed.

Lemma prune_all : forall (n : node) (path : list str), prune (fun _ => true) path n = n.
Proof.
  intros n. induction n as [v|l IHl] using node_ind'; intros path; [reflexivity|].
  rewrite prune_sub. f_equal. induction l as [|[k n'] t IH]; [reflexivity|].
  cbn [prune_entries]. inversion IHl as [|? ? Hn Ht]; subst. cbn [snd] in Hn. rewrite Hn, (IH Ht). reflexivity.
Qed.

Lemma copy_filtered (filter : list str -> bool) (b : bucket) :
  canon (Sub b) -> copy_bucket filter b [] = Ok (prune_entries filter [] b).
Proof.
  intros Hc. pose proof (copy_node_canon filter (Sub b) [] Hc) as H. rewrite prune_sub in H. exact H.
Qed.

(* a deep copy reads back equal *)
Lemma copy_whole (b : bucket) : canon (Sub b) -> copy_bucket (fun _ => true) b [] = Ok b.
Proof.
  intros Hc. pose proof (copy_node_canon (fun _ => true) (Sub b) [] Hc) as H.
  rewrite prune_all in H. exact H.
Qed.
