(* Model of boltz/encode.go: EncodeStringSlice / EncodeByteSlice / DecodeStringSlice /
   DecodeNext (compound keys of link collections).  Model only: no proofs in this file. *)
From Coq Require Import List NArith ZArith Bool.
From Storage Require Import Base.Bytes Codec.CodecBase Codec.Varint.
Import ListNotations.
Open Scope N_scope.

Definition MaxLinkedSetKeySize : N := 4096.

(* func EncodeByteSlice(value []byte) ([]byte, error) {
     if len(value) > MaxLinkedSetKeySize { return nil, error }
     buf := make([]byte, binary.MaxVarintLen64+len(value))
     written := binary.PutUvarint(buf, uint64(len(value)))
     buf = append(buf[0:written], value...)
     return buf, nil } *)
Definition encode_byte_slice (value : str) : res str :=
  if MaxLinkedSetKeySize <? len value then Err
  else Ok (put_uvarint (len value) ++ value).

(* func EncodeStringSlice(values []string) ([]byte, error): concatenation, first error wins *)
Fixpoint encode_string_slice (values : list str) : res str :=
  match values with
  | [] => Ok []
  | v :: t =>
      bind (encode_byte_slice v) (fun e =>
      bind (encode_string_slice t) (fun r => Ok (e ++ r)))
  end.

(* Go slice expressions val[n:] and val[:n] with an unsigned index: panic when n > len(val) *)
Definition slice_from (val : str) (n : N) : res str :=
  if len val <? n then Panic else Ok (skipn (N.to_nat n) val).
Definition slice_to (val : str) (n : N) : res str :=
  if len val <? n then Panic else Ok (firstn (N.to_nat n) val).

(* int(keyLen) for a uint64 *)
Definition int_of_uint64 (n : N) : Z := to_signed 64 (n mod 2 ^ 64).

(* func DecodeNext(val []byte) ([]byte, []byte, error) {
     keyLen, read := binary.Uvarint(val)
     if read < 1 { return nil, nil, error }
     if keyLen > MaxLinkedSetKeySize { return nil, nil, error }
     val = val[read:]
     if len(val) < int(keyLen) { return nil, nil, error }
     next := val[:keyLen]
     val = val[keyLen:]
     return next, val, nil } *)
Definition decode_next (val : str) : res (str * str) :=
  match uvarint val with
  | UvOk keyLen read =>
      if MaxLinkedSetKeySize <? keyLen then Err
      else
        bind (slice_from val (N.of_nat read)) (fun val1 =>
        if (Z.of_N (len val1) <? int_of_uint64 keyLen)%Z then Err
        else
          bind (slice_to val1 keyLen) (fun next =>
          bind (slice_from val1 keyLen) (fun val2 => Ok (next, val2))))
  | UvShort => Err
  | UvOverflow _ => Err
  end.

(* func DecodeStringSlice(compoundKey []byte) ([]string, error) {
     for len(compoundKey) > 0 {
       next, compoundKey, err = DecodeNext(compoundKey)
       if err != nil { return nil, err }
       result = append(result, string(next)) }
     return result, nil }
   Every iteration consumes at least one byte; the fuel is the length of the input. *)
Fixpoint decode_go (fuel : nat) (key : str) : res (list str) :=
  match key with
  | [] => Ok []
  | _ :: _ =>
      match fuel with
      | O => OutOfFuel
      | S f =>
          bind (decode_next key) (fun nr =>
          bind (decode_go f (snd nr)) (fun l => Ok (fst nr :: l)))
      end
  end.

Definition decode_string_slice (key : str) : res (list str) := decode_go (length key) key.
