(* Proofs about the representations of a field checker (C13): a restricted write depends on the
   checker value only through the fields it selects, and a checker selecting nothing - a nil
   MapFieldChecker among them - writes nothing. *)
From Coq Require Import List NArith ZArith Bool Lia.
From Storage Require Import Base.Bytes Codec.CodecBase Codec.FieldCodec Codec.Containers Codec.ContainersProofs
  Codec.Persist Codec.PersistProofs Codec.CheckerRepr.
Import ListNotations.
Open Scope N_scope.

(* ---- what a representation selects ------------------------------------------------------------- *)
Lemma proceed_with_overrides c m name :
  proceed (with_field_overrides c m) name =
  proceed c (match a_lookup name m with Some override => override | None => name end).
Proof.
  destruct c as [f|]; cbn [with_field_overrides proceed]; [|reflexivity].
  unfold mapped_field_checker. destruct (a_lookup name m); reflexivity.
Qed.

Lemma repr_checker_selects : forall r name, proceed (repr_checker r) name = repr_selects r name.
Proof.
  induction r as [| |names|ni f|inner IH m]; intros name; cbn [repr_checker repr_selects proceed]; try reflexivity.
  rewrite proceed_with_overrides. apply IH.
Qed.

Lemma nil_map_selects_nothing : selects_nothing (repr_checker RNilMap).
Proof. intros name. reflexivity. Qed.

Lemma nil_map_is_restriction : repr_checker RNilMap <> None.
Proof. discriminate. Qed.

Lemma mapped_selects_nothing r m : selects_nothing (repr_checker r) -> selects_nothing (repr_checker (RMapped r m)).
Proof. intros H name. cbn [repr_checker]. rewrite proceed_with_overrides. apply H. Qed.

(* ---- one bucket: the checker value matters through its selection only ----------------------------- *)
Lemma op_proceeds_ext c1 c2 op : same_selection c1 c2 -> op_proceeds c1 op = op_proceeds c2 op.
Proof. intros H. unfold op_proceeds. rewrite (H (op_name op)). reflexivity. Qed.

Lemma apply_op_ext c1 c2 op b : same_selection c1 c2 -> apply_op c1 op b = apply_op c2 op b.
Proof. intros H. unfold apply_op. rewrite (op_proceeds_ext c1 c2 op H). reflexivity. Qed.

Lemma apply_ops_ext : forall ops c1 c2 b, same_selection c1 c2 -> apply_ops c1 ops b = apply_ops c2 ops b.
Proof.
  induction ops as [|op t IH]; intros c1 c2 b H; cbn [apply_ops]; [reflexivity|].
  rewrite (apply_op_ext c1 c2 op b H).
  destruct (apply_op c2 op b); cbn [bind]; try reflexivity. apply IH. exact H.
Qed.

Lemma get_and_set_string_out_ext c1 c2 name v b :
  same_selection c1 c2 -> get_and_set_string_out c1 name v b = get_and_set_string_out c2 name v b.
Proof. intros H. unfold get_and_set_string_out. rewrite (H name). reflexivity. Qed.

Lemma get_and_set_string_list_out_ext c1 c2 name b :
  same_selection c1 c2 -> get_and_set_string_list_out c1 name b = get_and_set_string_list_out c2 name b.
Proof. intros H. unfold get_and_set_string_list_out. rewrite (H name). reflexivity. Qed.

Lemma apply_ops_ext_lemma (c1 c2 : checker) (ops : list fop) (b : bucket) :
  (forall name, proceed c1 name = proceed c2 name) -> apply_ops c1 ops b = apply_ops c2 ops b.
Proof. intros H. apply apply_ops_ext. exact H. Qed.

(* a checker selecting nothing: every setter that takes a checker is skipped *)
Lemma apply_ops_selects_nothing : forall ops c b,
  selects_nothing c -> forallb op_restricted ops = true -> apply_ops c ops b = Ok b.
Proof.
  induction ops as [|op t IH]; intros c b Hc Hr; cbn [apply_ops]; [reflexivity|].
  cbn [forallb] in Hr. apply andb_true_iff in Hr. destruct Hr as [Hop Ht].
  rewrite apply_op_skips.
  - cbn [bind]. apply IH; assumption.
  - unfold op_proceeds. rewrite Hop, (Hc (op_name op)). reflexivity.
Qed.

Lemma empty_selection_lemma (r : checker_repr) (ops : list fop) (b : bucket) :
  (forall name, repr_selects r name = false) -> forallb op_restricted ops = true ->
  apply_ops (repr_checker r) ops b = Ok b.
Proof.
  intros H. apply apply_ops_selects_nothing. intros name. rewrite repr_checker_selects. apply H.
Qed.

(* ---- persists: contexts that agree up to the selection of their checkers ---------------------------- *)
Definition same_ctx (a b : pctx) : Prop :=
  pc_level a = pc_level b /\ same_selection (pc_checker a) (pc_checker b) /\
  pc_create a = pc_create b /\ pc_id a = pc_id b.

Definition same_slots (cs1 cs2 : slots) : Prop :=
  forall s, match cs1 s, cs2 s with
            | Some a, Some b => same_ctx a b
            | None, None => True
            | _, _ => False
            end.

Definition same_result (r1 r2 : res (slots * bucket)) : Prop :=
  match r1, r2 with
  | Ok (c1, b1), Ok (c2, b2) => same_slots c1 c2 /\ b1 = b2
  | Err, Err => True
  | Panic, Panic => True
  | OutOfFuel, OutOfFuel => True
  | _, _ => False
  end.

Lemma same_selection_overrides c1 c2 m :
  same_selection c1 c2 -> same_selection (with_field_overrides c1 m) (with_field_overrides c2 m).
Proof. intros H name. rewrite !proceed_with_overrides. apply H. Qed.

Lemma same_slots_upd cs1 cs2 s a b : same_slots cs1 cs2 -> same_ctx a b -> same_slots (upd cs1 s a) (upd cs2 s b).
Proof.
  intros H Hab s'. unfold upd. destruct (Nat.eqb s' s); [exact Hab | apply H].
Qed.

Lemma ctx_write_ext ch a b o x : same_ctx a b -> apply_write (ctx_write ch a o) x = apply_write (ctx_write ch b o) x.
Proof.
  destruct a as [la ca cra ida], b as [lb cb crb idb]. unfold same_ctx. cbn [pc_level pc_checker pc_create pc_id].
  intros (Hl & Hs & Hc & Hi). subst lb crb idb.
  unfold ctx_write, apply_write, w_proceeds. cbn [w_path w_checker w_op pc_level pc_checker pc_create pc_id].
  assert (Hr : resolve (mk_pctx la ca cra ida) o = resolve (mk_pctx la cb cra ida) o) by (destruct o; reflexivity).
  rewrite Hr. rewrite (op_proceeds_ext ca cb _ Hs).
  destruct (op_proceeds cb (resolve (mk_pctx la cb cra ida) o)); [|reflexivity].
  apply at_path_ext. intros y. apply apply_op_ext. exact Hs.
Qed.

Lemma same_ctx_parent a b : same_ctx a b -> same_ctx (parent_context a) (parent_context b).
Proof.
  unfold same_ctx, parent_context. cbn. intros (Hl & Hs & Hc & Hi). rewrite Hl. repeat split; assumption.
Qed.

Lemma same_ctx_override a b m : same_ctx a b -> same_ctx (override_context a m) (override_context b m).
Proof.
  unfold same_ctx, override_context. cbn. intros (Hl & Hs & Hc & Hi).
  repeat split; try assumption. apply same_selection_overrides. exact Hs.
Qed.

Lemma step_ext ch st cs1 cs2 b : same_slots cs1 cs2 -> same_result (step ch st cs1 b) (step ch st cs2 b).
Proof.
  intros H. destruct st as [s o|s|s m]; cbn [step]; pose proof (H s) as Hs;
    destruct (cs1 s) as [a|], (cs2 s) as [a'|]; try contradiction; cbn [same_result]; try exact I.
  - rewrite (ctx_write_ext ch a a' o b Hs).
    destruct (apply_write (ctx_write ch a' o) b); cbn [bind same_result]; try exact I.
    split; [exact H | reflexivity].
  - destruct Hs as (Hl & Hrest). rewrite Hl.
    destruct (Nat.ltb (S (pc_level a')) (length ch)); cbn [same_result]; try exact I.
    destruct (get_path (level_path ch (S (pc_level a'))) b); cbn [same_result]; try exact I.
    split; [|reflexivity]. apply same_slots_upd; [exact H|]. apply same_ctx_parent. split; assumption.
  - split; [|reflexivity]. apply same_slots_upd; [exact H|]. apply same_ctx_override. exact Hs.
Qed.

Lemma after_error_ext : forall ch prog cs1 cs2 b,
  same_slots cs1 cs2 -> after_error ch prog cs1 b = after_error ch prog cs2 b.
Proof.
  induction prog as [|st t IH]; intros cs1 cs2 b H; [reflexivity|].
  destruct st as [s o|s|s m]; cbn [after_error].
  - pose proof (H s) as Hs. destruct (cs1 s), (cs2 s); try contradiction; [|reflexivity].
    apply IH. exact H.
  - pose proof (step_ext ch (PParent s) cs1 cs2 b H) as Hst.
    destruct (step ch (PParent s) cs1 b) as [[c1 b1]| | |], (step ch (PParent s) cs2 b) as [[c2 b2]| | |];
      cbn [same_result] in Hst; try contradiction; cbn [bind fst]; try reflexivity.
    apply IH. exact (proj1 Hst).
  - pose proof (step_ext ch (POverride s m) cs1 cs2 b H) as Hst.
    destruct (step ch (POverride s m) cs1 b) as [[c1 b1]| | |], (step ch (POverride s m) cs2 b) as [[c2 b2]| | |];
      cbn [same_result] in Hst; try contradiction; cbn [bind fst]; try reflexivity.
    apply IH. exact (proj1 Hst).
Qed.

Lemma run_ext : forall ch prog cs1 cs2 b,
  same_slots cs1 cs2 -> same_result (run ch prog cs1 b) (run ch prog cs2 b).
Proof.
  induction prog as [|st t IH]; intros cs1 cs2 b H; cbn [run].
  - cbn [same_result]. split; [exact H | reflexivity].
  - pose proof (step_ext ch st cs1 cs2 b H) as Hst.
    destruct (step ch st cs1 b) as [[c1 b1]| | |], (step ch st cs2 b) as [[c2 b2]| | |];
      cbn [same_result] in Hst; try contradiction; cbn [fst snd].
    + destruct Hst as [Hc Hb]. subst b2. apply IH. exact Hc.
    + rewrite (after_error_ext ch t cs1 cs2 b H).
      destruct (after_error ch t cs2 b); cbn [bind same_result]; exact I.
    + exact I.
    + exact I.
Qed.

Lemma same_slots_init c1 c2 cr id :
  same_selection c1 c2 -> same_slots (init_slots (mk_pctx 0 c1 cr id)) (init_slots (mk_pctx 0 c2 cr id)).
Proof.
  intros H s. unfold init_slots. destruct s; [|exact I].
  unfold same_ctx. cbn. repeat split. exact H.
Qed.

Lemma persist_ext_lemma (ch : chain) (c1 c2 : checker) (cr : bool) (id : str) (prog : list pstmt) (b : bucket) :
  (forall name, proceed c1 name = proceed c2 name) ->
  persist ch c1 cr id prog b = persist ch c2 cr id prog b.
Proof.
  intros H. unfold persist.
  destruct (if cr then ensure_path (level_path ch 0) b else Ok b) as [b0| | |]; cbn [bind]; try reflexivity.
  destruct (get_path (level_path ch 0) b0) as [bp|]; [|reflexivity].
  pose proof (run_ext ch prog _ _ b0 (same_slots_init c1 c2 cr id H)) as Hr.
  destruct (run ch prog (init_slots (mk_pctx 0 c1 cr id)) b0) as [[s1 b1]| | |],
           (run ch prog (init_slots (mk_pctx 0 c2 cr id)) b0) as [[s2 b2]| | |];
    cbn [same_result] in Hr; try contradiction; cbn [bind snd]; try reflexivity.
  destruct Hr as [_ Hb]. rewrite Hb. reflexivity.
Qed.

(* ---- a persist under a checker selecting nothing ------------------------------------------------- *)
Definition slots_select_nothing (cs : slots) : Prop :=
  forall s c, cs s = Some c -> selects_nothing (pc_checker c).

Lemma slots_select_nothing_upd cs s c :
  slots_select_nothing cs -> selects_nothing (pc_checker c) -> slots_select_nothing (upd cs s c).
Proof.
  intros H Hc s' c'. unfold upd. destruct (Nat.eqb s' s).
  - intros E. inversion E. subst c'. exact Hc.
  - apply H.
Qed.

Lemma selects_nothing_overrides c m : selects_nothing c -> selects_nothing (with_field_overrides c m).
Proof. intros H name. rewrite proceed_with_overrides. apply H. Qed.

Lemma resolve_restricted c o : pstmt_restricted (PSet 0 o) = true -> op_restricted (resolve c o) = true.
Proof. destruct o; cbn; intros H; try reflexivity. exact H. Qed.

Lemma run_selects_nothing : forall ch prog cs b cs' b',
  slots_select_nothing cs -> forallb pstmt_restricted prog = true ->
  run ch prog cs b = Ok (cs', b') -> b' = b.
Proof.
  induction prog as [|st t IH]; intros cs b cs' b' Hcs Hr H; cbn [run] in H.
  - inversion H. reflexivity.
  - cbn [forallb] in Hr. apply andb_true_iff in Hr. destruct Hr as [Hst Ht].
    destruct st as [s o|s|s m]; cbn [step] in H.
    + destruct (cs s) as [c|] eqn:Es; [|discriminate].
      assert (Hw : apply_write (ctx_write ch c o) b = Ok b).
      { unfold apply_write, w_proceeds, ctx_write. cbn [w_checker w_op].
        unfold op_proceeds. rewrite (resolve_restricted c o).
        - rewrite (Hcs s c Es (op_name (resolve c o))). reflexivity.
        - destruct o; cbn in *; try reflexivity. exact Hst. }
      rewrite Hw in H. cbn [bind fst snd] in H. exact (IH _ _ _ _ Hcs Ht H).
    + destruct (cs s) as [c|] eqn:Es; [|discriminate].
      destruct (Nat.ltb (S (pc_level c)) (length ch)); [|discriminate].
      destruct (get_path (level_path ch (S (pc_level c))) b); [|discriminate].
      cbn [fst snd] in H. refine (IH _ _ _ _ _ Ht H).
      apply slots_select_nothing_upd; [exact Hcs|]. cbn. exact (Hcs s c Es).
    + destruct (cs s) as [c|] eqn:Es; [|discriminate].
      cbn [fst snd] in H. refine (IH _ _ _ _ _ Ht H).
      apply slots_select_nothing_upd; [exact Hcs|]. cbn. apply selects_nothing_overrides. exact (Hcs s c Es).
Qed.

(* an Update (the store's part of the entity exists) restricted by a checker that selects no field
   - whatever contexts are derived, whatever overrides are put on them - leaves the whole entity as
   it was *)
Lemma persist_empty_selection_lemma (ch : chain) (r : checker_repr) (id : str) (prog : list pstmt) (b b' : bucket) :
  (forall name, repr_selects r name = false) ->
  forallb pstmt_restricted prog = true ->
  persist ch (repr_checker r) false id prog b = Ok b' -> b' = b.
Proof.
  intros Hr Hp H. destruct (persist_inv _ _ _ _ _ _ _ H) as (b0 & cs' & E0 & Er).
  inversion E0; subst b0.
  refine (run_selects_nothing ch prog _ b cs' b' _ Hp Er).
  intros s c. unfold init_slots. destruct s; [|discriminate].
  intros E. inversion E. cbn. intros name. rewrite repr_checker_selects. apply Hr.
Qed.
