(* Shared definitions of the codec models (C13): result type, fixed-width integers as byte
   strings, sorted association lists keyed by byte strings (the shape of a bbolt bucket).
   Model only: no proofs in this file. *)
From Coq Require Import List NArith ZArith Bool.
From Storage Require Import Base.Bytes.
Import ListNotations.
Open Scope N_scope.

(* outcome of a modelled Go call: value, returned error, run-time panic (out-of-range slice,
   nil dereference), or the model ran out of fuel (never the case with the fuel the
   definitions supply - a theorem) *)
Inductive res (A : Type) : Type :=
| Ok (a : A)
| Err
| Panic
| OutOfFuel.
Arguments Ok {A} a.
Arguments Err {A}.
Arguments Panic {A}.
Arguments OutOfFuel {A}.

Definition bind {A B : Type} (r : res A) (f : A -> res B) : res B :=
  match r with
  | Ok a => f a
  | Err => Err
  | Panic => Panic
  | OutOfFuel => OutOfFuel
  end.

Definition len (s : str) : N := N.of_nat (length s).

(* ---- fixed width integers ---------------------------------------------------------- *)

(* binary.LittleEndian.PutUintNN: the w low-order bytes of x, least significant first *)
Fixpoint le_bytes (w : nat) (x : N) : str :=
  match w with
  | O => []
  | S w' => (x mod 256) :: le_bytes w' (x / 256)
  end.

(* binary.LittleEndian.UintNN on a slice of exactly that width *)
Fixpoint le_val (s : str) : N :=
  match s with
  | [] => 0
  | b :: t => b + 256 * le_val t
  end.

Definition be_bytes (w : nat) (x : N) : str := rev (le_bytes w x).
Definition be_val (s : str) : N := le_val (rev s).

(* uintNN(z) of a signed z, and intNN(n) of an unsigned n < 2^bits (two's complement) *)
Definition to_unsigned (bits : N) (z : Z) : N := Z.to_N (z mod (2 ^ Z.of_N bits)).
Definition to_signed (bits : N) (n : N) : Z :=
  if n <? 2 ^ (bits - 1) then Z.of_N n else (Z.of_N n - 2 ^ Z.of_N bits)%Z.

Definition in_int32 (z : Z) : bool := ((- 2 ^ 31 <=? z) && (z <? 2 ^ 31))%Z.
Definition in_int64 (z : Z) : bool := ((- 2 ^ 63 <=? z) && (z <? 2 ^ 63))%Z.

(* ---- association lists sorted by key: the content of one bbolt bucket ----------------- *)

Section Assoc.
  Variable V : Type.

  Fixpoint a_lookup (k : str) (l : list (str * V)) : option V :=
    match l with
    | [] => None
    | (k', v) :: t => if str_eqb k k' then Some v else a_lookup k t
    end.

  (* sorted insertion, replacing an existing binding (bbolt node.put) *)
  Fixpoint a_insert (k : str) (v : V) (l : list (str * V)) : list (str * V) :=
    match l with
    | [] => [(k, v)]
    | (k', v') :: t =>
        match str_cmp k k' with
        | Eq => (k, v) :: t
        | Lt => (k, v) :: (k', v') :: t
        | Gt => (k', v') :: a_insert k v t
        end
    end.

  Fixpoint a_remove (k : str) (l : list (str * V)) : list (str * V) :=
    match l with
    | [] => []
    | (k', v') :: t => if str_eqb k k' then t else (k', v') :: a_remove k t
    end.

  Definition a_keys (l : list (str * V)) : list str := map fst l.
End Assoc.
Arguments a_lookup {V} k l.
Arguments a_insert {V} k v l.
Arguments a_remove {V} k l.
Arguments a_keys {V} l.

(* strictly ascending key list (what a bbolt cursor enumerates) *)
Fixpoint strictly_sorted (l : list str) : bool :=
  match l with
  | [] => true
  | a :: t =>
      match t with
      | [] => true
      | b :: _ => str_ltb a b && strictly_sorted t
      end
  end.
