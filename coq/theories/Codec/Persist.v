(* Model of boltz/base.go PersistContext over a chain of stores (a store, its parent store, the
   parent's parent ...): the context a store builds for one persist, the contexts derived from
   it by GetParentContext and WithFieldOverrides, and every PersistContext setter running through
   one of those contexts on the bucket of that context's store.  The buckets of all stores of a
   chain live inside the entity bucket of the root store (boltz/store.go GetEntityBucket:
   entityBucket.GetPath(store.entityPath...)), so one persist is a sequence of setter calls at
   key paths inside one bucket tree.
   Model only: no proofs in this file. *)
From Coq Require Import List NArith ZArith Bool.
From Storage Require Import Base.Bytes Codec.CodecBase Codec.FieldCodec Codec.Containers.
Import ListNotations.
Open Scope N_scope.

(* a key path below the root store's entity bucket *)
Definition path : Type := list str.

(* TypedBucket.GetPath: nil when a component is missing or is a plain value *)
Fixpoint get_path (p : path) (b : bucket) : option bucket :=
  match p with
  | [] => Some b
  | k :: t =>
      match a_lookup k b with
      | Some (Sub c) => get_path t c
      | _ => None
      end
  end.

(* TypedBucket.GetOrCreatePath (CreateBucketIfNotExists per component: ErrBucketNameRequired,
   ErrIncompatibleValue over a plain value) *)
Fixpoint ensure_path (p : path) (b : bucket) : res bucket :=
  match p with
  | [] => Ok b
  | k :: t =>
      if len k =? 0 then Err
      else match a_lookup k b with
           | Some (Leaf _) => Err
           | Some (Sub c) => bind (ensure_path t c) (fun c' => Ok (a_insert k (Sub c') b))
           | None => bind (ensure_path t []) (fun c' => Ok (a_insert k (Sub c') b))
           end
  end.

(* a write inside the sub-bucket at path p: bbolt nested buckets - the sub-bucket changes, the
   keys around it do not.  A missing sub-bucket is a nil *TypedBucket in the code (dereferenced) *)
Fixpoint at_path (p : path) (f : bucket -> res bucket) (b : bucket) : res bucket :=
  match p with
  | [] => f b
  | k :: t =>
      match a_lookup k b with
      | Some (Sub c) => bind (at_path t f c) (fun c' => Ok (a_insert k (Sub c') b))
      | _ => Panic
      end
  end.

(* the node stored at a key path (the empty path: the given node itself) *)
Fixpoint node_at (a : path) (n : node) : option node :=
  match a with
  | [] => Some n
  | k :: t =>
      match n with
      | Sub c =>
          match a_lookup k c with
          | Some n' => node_at t n'
          | None => None
          end
      | Leaf _ => None
      end
  end.

(* ---- PersistContext ------------------------------------------------------------------------ *)

(* what a PersistContext carries besides the transaction: the store (its position in the chain:
   0 = the store the entity is persisted through, k = its k-th ancestor), FieldChecker, IsCreate,
   Id.  Bucket is the entity bucket of that store; the error holder is shared by all contexts of
   one persist, so the first error stops every later setter whichever context it goes through. *)
Record pctx : Type := mk_pctx { pc_level : nat; pc_checker : checker; pc_create : bool; pc_id : str }.

(* PersistContext.GetParentContext: parent store and its entity bucket; MutateContext, Id,
   FieldChecker and IsCreate are those of the receiver *)
Definition parent_context (c : pctx) : pctx :=
  mk_pctx (S (pc_level c)) (pc_checker c) (pc_create c) (pc_id c).

(* PersistContext.WithFieldOverrides *)
Definition override_context (c : pctx) (m : list (str * str)) : pctx :=
  mk_pctx (pc_level c) (with_field_overrides (pc_checker c) m) (pc_create c) (pc_id c).

(* a setter call through a context.  Beyond the calls of Containers.fop (which the PersistContext
   methods SetString/SetStringP/SetRequiredString/SetBool/SetInt32/SetInt64/SetTimeP/SetMap/
   SetStringList/GetAndSetString/GetAndSetStringList forward with ctx.FieldChecker, and the
   TypedBucket setters an entity strategy calls as ctx.Bucket.SetX(.., ctx.FieldChecker)):
   - SetLinkedIds(field, ids): guarded by ctx.ProceedWithSet(field); the link collection of
     ctx.Store makes the field's list hold exactly the given ids (on a field only SetLinkedIds
     writes this is the bucket SetStringList leaves; the far side of the links is C05's);
   - a value chosen by ctx.IsCreate (BaseExtEntity.SetBaseValues is of this shape);
   - ctx.Id stored as a string; a flag stored when ctx.Tx() is the transaction of the persist. *)
Inductive pop : Type :=
| PBase (op : fop)
| PLinked (name : str) (ids : list str)
| PByCreate (name : str) (vc vu : scalar)
| PId (name : str)
| PTx (name : str).

Definition resolve (c : pctx) (o : pop) : fop :=
  match o with
  | PBase op => op
  | PLinked n ids => OpStringList n ids
  | PByCreate n vc vu => OpScalar n (if pc_create c then vc else vu)
  | PId n => OpScalar n (SString (pc_id c))
  | PTx n => OpScalar n (SBool true)
  end.

(* the body of a PersistEntity implementation as far as contexts go: contexts are kept in
   numbered slots, slot 0 holding the context the store built *)
Inductive pstmt : Type :=
| PSet (slot : nat) (o : pop)                       (* ctx[slot].SetX(...) *)
| PParent (slot : nat)                              (* ctx[slot+1] := ctx[slot].GetParentContext() *)
| POverride (slot : nat) (m : list (str * str)).    (* ctx[slot].WithFieldOverrides(m) *)

Definition slots : Type := nat -> option pctx.
Definition upd (cs : slots) (s : nat) (c : pctx) : slots :=
  fun s' => if Nat.eqb s' s then Some c else cs s'.
Definition init_slots (c : pctx) : slots :=
  fun s => match s with O => Some c | S _ => None end.

(* the stores of a chain by the key path of their entity bucket below the root store's *)
Definition chain : Type := list path.
Definition level_path (ch : chain) (l : nat) : path := nth l ch [].

(* one setter call as it reaches a bucket: where, under which checker, what *)
Record write : Type := mk_write { w_path : path; w_checker : checker; w_op : fop }.

Definition w_proceeds (w : write) : bool := op_proceeds (w_checker w) (w_op w).
(* the key path of the field the call names *)
Definition w_addr (w : write) : path := w_path w ++ [op_name (w_op w)].

(* a call that does not proceed performs no bucket operation at all *)
Definition apply_write (w : write) (b : bucket) : res bucket :=
  if w_proceeds w then at_path (w_path w) (apply_op (w_checker w) (w_op w)) b else Ok b.

Fixpoint apply_writes (ws : list write) (b : bucket) : res bucket :=
  match ws with
  | [] => Ok b
  | w :: t => bind (apply_write w b) (fun b' => apply_writes t b')
  end.

Definition ctx_write (ch : chain) (c : pctx) (o : pop) : write :=
  mk_write (level_path ch (pc_level c)) (pc_checker c) (resolve c o).

(* an unset slot is a nil context (dereferenced); GetParentContext on the root store calls a
   method of a nil Store, and dereferences the nil bucket of a parent entity that is absent *)
Definition step (ch : chain) (st : pstmt) (cs : slots) (b : bucket) : res (slots * bucket) :=
  match st with
  | PSet s o =>
      match cs s with
      | Some c => bind (apply_write (ctx_write ch c o) b) (fun b' => Ok (cs, b'))
      | None => Panic
      end
  | PParent s =>
      match cs s with
      | Some c =>
          if Nat.ltb (S (pc_level c)) (length ch) then
            match get_path (level_path ch (S (pc_level c))) b with
            | Some _ => Ok (upd cs (S s) (parent_context c), b)
            | None => Panic
            end
          else Panic
      | None => Panic
      end
  | POverride s m =>
      match cs s with
      | Some c => Ok (upd cs s (override_context c m), b)
      | None => Panic
      end
  end.

(* once a setter has failed the error is latched in the holder all contexts share: the setters
   that follow do nothing, but the program goes on - deriving a context still dereferences what
   it dereferences.  (Only a PSet step returns Err, so slots and bucket are those before it.) *)
Fixpoint after_error (ch : chain) (prog : list pstmt) (cs : slots) (b : bucket) : res unit :=
  match prog with
  | [] => Ok tt
  | PSet s _ :: t =>
      match cs s with
      | Some _ => after_error ch t cs b
      | None => Panic
      end
  | st :: t => bind (step ch st cs b) (fun r => after_error ch t (fst r) b)
  end.

Fixpoint run (ch : chain) (prog : list pstmt) (cs : slots) (b : bucket) : res (slots * bucket) :=
  match prog with
  | [] => Ok (cs, b)
  | st :: t =>
      match step ch st cs b with
      | Ok r => run ch t (fst r) (snd r)
      | Err => bind (after_error ch t cs b) (fun _ => Err)
      | Panic => Panic
      | OutOfFuel => OutOfFuel
      end
  end.

(* the setter calls a program performs, each with the bucket and the checker of the context it
   goes through; which context holds what does not depend on the stored data *)
Fixpoint trace (ch : chain) (prog : list pstmt) (cs : slots) : list write :=
  match prog with
  | [] => []
  | PSet s o :: t =>
      match cs s with
      | Some c => ctx_write ch c o :: trace ch t cs
      | None => []
      end
  | PParent s :: t =>
      match cs s with
      | Some c => trace ch t (upd cs (S s) (parent_context c))
      | None => []
      end
  | POverride s m :: t =>
      match cs s with
      | Some c => trace ch t (upd cs s (override_context c m))
      | None => []
      end
  end.

(* one persist of entity id through the store at level 0 under checker c: Create makes the
   store's entity bucket (getOrCreateEntityBucket), Update requires it *)
Definition persist (ch : chain) (c : checker) (create : bool) (id : str) (prog : list pstmt) (b : bucket)
  : res bucket :=
  bind (if create then ensure_path (level_path ch 0) b else Ok b) (fun b0 =>
  match get_path (level_path ch 0) b0 with
  | None => Panic
  | Some _ => bind (run ch prog (init_slots (mk_pctx 0 c create id)) b0) (fun r => Ok (snd r))
  end).

Definition persist_trace (ch : chain) (c : checker) (create : bool) (id : str) (prog : list pstmt) : list write :=
  trace ch prog (init_slots (mk_pctx 0 c create id)).

(* key paths: one a prefix of the other *)
Fixpoint is_prefix (p q : path) : bool :=
  match p, q with
  | [], _ => true
  | _ :: _, [] => false
  | x :: p', y :: q' => str_eqb x y && is_prefix p' q'
  end.
(* two nodes of the bucket tree of which one contains the other (or both are the same node) *)
Definition comparable (a w : path) : bool := is_prefix a w || is_prefix w a.

Definition is_override (st : pstmt) : bool :=
  match st with
  | POverride _ _ => true
  | _ => false
  end.

Definition unrestrict (w : write) : write := mk_write (w_path w) None (w_op w).
