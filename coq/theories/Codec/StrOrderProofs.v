(* The byte-string order of Base.Bytes is a strict total order; sorted association lists. *)
From Coq Require Import List NArith Bool Lia Sorted.
From Storage Require Import Base.Bytes Codec.CodecBase.
Import ListNotations.
Open Scope N_scope.

Lemma str_eqb_refl a : str_eqb a a = true.
Proof. induction a as [|x a IH]; cbn; [reflexivity | rewrite N.eqb_refl, IH; reflexivity]. Qed.

Lemma str_eqb_eq a b : str_eqb a b = true <-> a = b.
Proof.
  split.
  - revert b. induction a as [|x a IH]; intros [|y b] H; cbn in H; try discriminate; [reflexivity|].
    apply andb_true_iff in H. destruct H as [H1 H2]. apply N.eqb_eq in H1. subst y.
    rewrite (IH _ H2). reflexivity.
  - intros ->. apply str_eqb_refl.
Qed.

Lemma str_eqb_neq a b : str_eqb a b = false <-> a <> b.
Proof.
  split.
  - intros H E. subst b. rewrite str_eqb_refl in H. discriminate.
  - intros H. destruct (str_eqb a b) eqn:E; [apply str_eqb_eq in E; contradiction | reflexivity].
Qed.

Lemma str_eqb_sym a b : str_eqb a b = str_eqb b a.
Proof.
  destruct (str_eqb a b) eqn:E.
  - apply str_eqb_eq in E. subst b. symmetry. apply str_eqb_refl.
  - symmetry. apply str_eqb_neq. apply str_eqb_neq in E. congruence.
Qed.

Lemma str_cmp_refl a : str_cmp a a = Eq.
Proof. induction a as [|x a IH]; cbn; [reflexivity | rewrite N.compare_refl; exact IH]. Qed.

Lemma str_cmp_eq a b : str_cmp a b = Eq <-> a = b.
Proof.
  split.
  - revert b. induction a as [|x a IH]; intros [|y b] H; cbn in H; try discriminate; [reflexivity|].
    destruct (x ?= y) eqn:E; try discriminate.
    apply N.compare_eq in E. subst y. rewrite (IH _ H). reflexivity.
  - intros ->. apply str_cmp_refl.
Qed.

Lemma str_cmp_antisym a b : str_cmp b a = CompOpp (str_cmp a b).
Proof.
  revert b. induction a as [|x a IH]; intros [|y b]; cbn; try reflexivity.
  rewrite (N.compare_antisym x y). destruct (x ?= y); cbn; [apply IH | reflexivity | reflexivity].
Qed.

Lemma str_cmp_lt_gt a b : str_cmp a b = Lt <-> str_cmp b a = Gt.
Proof. rewrite (str_cmp_antisym a b). destruct (str_cmp a b); cbn; split; congruence. Qed.

Lemma str_cmp_lt_trans a b c : str_cmp a b = Lt -> str_cmp b c = Lt -> str_cmp a c = Lt.
Proof.
  revert b c. induction a as [|x a IH]; intros [|y b] [|z c] H1 H2; cbn in *; try discriminate; try reflexivity.
  destruct (x ?= y) eqn:Exy; try discriminate.
  - apply N.compare_eq in Exy. subst y.
    destruct (x ?= z) eqn:Exz; try discriminate; [|reflexivity].
    exact (IH _ _ H1 H2).
  - destruct (y ?= z) eqn:Eyz; try discriminate.
    + apply N.compare_eq in Eyz. subst z. rewrite Exy. reflexivity.
    + apply N.compare_lt_iff in Exy. apply N.compare_lt_iff in Eyz.
      replace (x ?= z) with Lt by (symmetry; apply N.compare_lt_iff; exact (N.lt_trans _ _ _ Exy Eyz)). reflexivity.
Qed.

Lemma str_cmp_cons x a b : str_cmp (x :: a) (x :: b) = str_cmp a b.
Proof. cbn. rewrite N.compare_refl. reflexivity. Qed.

Lemma str_eqb_cmp a b : str_eqb a b = match str_cmp a b with Eq => true | _ => false end.
Proof.
  destruct (str_cmp a b) eqn:E.
  - apply str_cmp_eq in E. subst b. apply str_eqb_refl.
  - apply str_eqb_neq. intros ->. rewrite str_cmp_refl in E. discriminate.
  - apply str_eqb_neq. intros ->. rewrite str_cmp_refl in E. discriminate.
Qed.

Definition str_lt (a b : str) : Prop := str_cmp a b = Lt.

Lemma str_lt_irrefl a : ~ str_lt a a.
Proof. unfold str_lt. rewrite str_cmp_refl. discriminate. Qed.

Lemma str_lt_trans a b c : str_lt a b -> str_lt b c -> str_lt a c.
Proof. apply str_cmp_lt_trans. Qed.

(* ---- association lists ----------------------------------------------------------------- *)
Section AssocFacts.
  Variable V : Type.
  Implicit Types (l : list (str * V)).

  Lemma a_lookup_insert_same k v l : a_lookup k (a_insert k v l) = Some v.
  Proof.
    induction l as [|[k' v'] t IH]; cbn.
    - rewrite str_eqb_refl. reflexivity.
    - destruct (str_cmp k k') eqn:E; cbn.
      + rewrite str_eqb_refl. reflexivity.
      + rewrite str_eqb_refl. reflexivity.
      + rewrite str_eqb_cmp, E. exact IH.
  Qed.

  Lemma a_lookup_insert_other k k2 v l : k2 <> k -> a_lookup k2 (a_insert k v l) = a_lookup k2 l.
  Proof.
    intros Hne. induction l as [|[k' v'] t IH]; cbn.
    - replace (str_eqb k2 k) with false by (symmetry; apply str_eqb_neq; exact Hne). reflexivity.
    - destruct (str_cmp k k') eqn:E; cbn.
      + apply str_cmp_eq in E. subst k'.
        replace (str_eqb k2 k) with false by (symmetry; apply str_eqb_neq; exact Hne). reflexivity.
      + replace (str_eqb k2 k) with false by (symmetry; apply str_eqb_neq; exact Hne). reflexivity.
      + rewrite IH. reflexivity.
  Qed.

  Lemma a_lookup_in k v l : a_lookup k l = Some v -> In (k, v) l.
  Proof.
    induction l as [|[k' v'] t IH]; cbn; [discriminate|].
    destruct (str_eqb k k') eqn:E.
    - apply str_eqb_eq in E. subst k'. intros H; inversion H. left. reflexivity.
    - intros H. right. exact (IH H).
  Qed.

  Lemma a_lookup_none_keys k l : a_lookup k l = None <-> ~ In k (a_keys l).
  Proof.
    induction l as [|[k' v'] t IH]; cbn; [tauto|].
    destruct (str_eqb k k') eqn:E.
    - apply str_eqb_eq in E. subst k'. split; [discriminate | intros H; exfalso; apply H; left; reflexivity].
    - apply str_eqb_neq in E. rewrite IH. split; [intros H [H1|H1]; [congruence | tauto] | tauto].
  Qed.

  Lemma a_insert_keys_in k v l k2 : In k2 (a_keys (a_insert k v l)) <-> k2 = k \/ In k2 (a_keys l).
  Proof.
    induction l as [|[k' v'] t IH]; cbn.
    - split; [intros [H|[]]; left; congruence | intros [H|[]]; left; congruence].
    - destruct (str_cmp k k') eqn:E; cbn.
      + apply str_cmp_eq in E. subst k'. split; [intros [H|H]; [left; congruence | right; right; exact H] |
          intros [H|[H|H]]; [left; congruence | left; congruence | right; exact H]].
      + split; [intros [H|[H|H]]; [left; congruence | right; left; exact H | right; right; exact H] |
          intros [H|[H|H]]; [left; congruence | right; left; exact H | right; right; exact H]].
      + rewrite IH. split; [intros [H|[H|H]]; [right; left; exact H | left; exact H | right; right; exact H] |
          intros [H|[H|H]]; [right; left; exact H | left; exact H | right; right; exact H]].
  Qed.

  (* inserting a key larger than every present key appends *)
  Lemma a_insert_last k v l :
    Forall (fun kv => str_lt (fst kv) k) l -> a_insert k v l = l ++ [(k, v)].
  Proof.
    induction l as [|[k' v'] t IH]; intros H; cbn; [reflexivity|].
    inversion H as [|? ? H1 H2]; subst. cbn in H1. unfold str_lt in H1.
    apply str_cmp_lt_gt in H1. rewrite H1. rewrite (IH H2). reflexivity.
  Qed.

  Lemma HdRel_insert a k v l :
    str_lt a k -> HdRel str_lt a (a_keys l) -> HdRel str_lt a (a_keys (a_insert k v l)).
  Proof.
    intros Hak Hd. destruct l as [|[k' v'] t]; cbn.
    - constructor. exact Hak.
    - destruct (str_cmp k k'); cbn; constructor; try exact Hak.
      inversion Hd; assumption.
  Qed.

  (* sorted insertion keeps the keys strictly ascending *)
  Lemma a_insert_sorted k v l : Sorted str_lt (a_keys l) -> Sorted str_lt (a_keys (a_insert k v l)).
  Proof.
    induction l as [|[k' v'] t IH]; intros Hs; cbn.
    - constructor; constructor.
    - inversion Hs as [|? ? Hs' Hd]; subst.
      destruct (str_cmp k k') eqn:E; cbn.
      + apply str_cmp_eq in E. subst k'. constructor; assumption.
      + constructor; [exact Hs | constructor; exact E].
      + constructor; [apply IH; exact Hs' | apply HdRel_insert; [apply str_cmp_lt_gt; exact E | exact Hd]].
  Qed.

  Lemma a_lookup_map (W : Type) (g : V -> W) k l :
    a_lookup k (map (fun kv : str * V => let (k', v) := kv in (k', g v)) l) = option_map g (a_lookup k l).
  Proof.
    induction l as [|[k' v'] t IH]; cbn; [reflexivity|].
    destruct (str_eqb k k'); [reflexivity | exact IH].
  Qed.
End AssocFacts.
Arguments a_lookup_insert_same {V}.
Arguments a_lookup_insert_other {V}.
Arguments a_lookup_in {V}.
Arguments a_lookup_none_keys {V}.
Arguments a_insert_keys_in {V}.
Arguments a_insert_last {V}.
Arguments a_insert_sorted {V}.
Arguments a_lookup_map {V W}.

(* a strictly ascending list is determined by its elements *)
Lemma sorted_strict_head_min a l : Sorted str_lt (a :: l) -> forall x, In x l -> str_lt a x.
Proof.
  intros Hs. apply Sorted_StronglySorted in Hs; [| intros x y z; apply str_lt_trans].
  inversion Hs as [|? ? _ Hall]; subst. intros x Hx. rewrite Forall_forall in Hall. exact (Hall x Hx).
Qed.

Lemma sorted_unique (l1 l2 : list str) :
  Sorted str_lt l1 -> Sorted str_lt l2 -> (forall x, In x l1 <-> In x l2) -> l1 = l2.
Proof.
  revert l2. induction l1 as [|a t1 IH]; intros [|b t2] S1 S2 Hin.
  - reflexivity.
  - exfalso. apply (proj2 (Hin b)). left; reflexivity.
  - exfalso. apply (proj1 (Hin a)). left; reflexivity.
  - assert (Hab : a = b).
    { destruct (proj1 (Hin a) (or_introl eq_refl)) as [E|Ha]; [congruence|].
      destruct (proj2 (Hin b) (or_introl eq_refl)) as [E|Hb]; [congruence|].
      pose proof (sorted_strict_head_min _ _ S1 _ Hb) as L1.
      pose proof (sorted_strict_head_min _ _ S2 _ Ha) as L2.
      exfalso. exact (str_lt_irrefl _ (str_lt_trans _ _ _ L1 L2)). }
    subst b. f_equal. apply IH.
    + inversion S1; assumption.
    + inversion S2; assumption.
    + intros x. split; intros Hx.
      * destruct (proj1 (Hin x) (or_intror Hx)) as [E|H]; [|exact H].
        subst x. exfalso. exact (str_lt_irrefl _ (sorted_strict_head_min _ _ S1 _ Hx)).
      * destruct (proj2 (Hin x) (or_intror Hx)) as [E|H]; [|exact H].
        subst x. exfalso. exact (str_lt_irrefl _ (sorted_strict_head_min _ _ S2 _ Hx)).
Qed.
