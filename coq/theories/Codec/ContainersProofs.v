(* Proofs about containers, string lists and checker-restricted writes (C13). *)
From Coq Require Import List NArith ZArith Bool Lia Arith Sorted Permutation.
From Storage Require Import Base.Bytes Codec.CodecBase Codec.FieldCodec Codec.FieldCodecProofs
  Codec.StrOrderProofs Codec.Containers.
Import ListNotations.
Open Scope N_scope.
Ltac Zify.zify_post_hook ::= Z.to_euclidean_division_equations.

(* ---- induction over nested values -------------------------------------------------------- *)
Section ValueInd.
  Variable P : value -> Prop.
  Hypothesis HS : forall s, P (VS s).
  Hypothesis HB : P VBad.
  Hypothesis HM : forall m, Forall (fun kv : str * value => P (snd kv)) m -> P (VMap m).
  Hypothesis HL : forall l, Forall P l -> P (VList l).
  Fixpoint value_ind' (v : value) : P v :=
    match v with
    | VS s => HS s
    | VBad => HB
    | VMap m =>
        HM m ((fix go (m : list (str * value)) : Forall (fun kv : str * value => P (snd kv)) m :=
                 match m with
                 | [] => Forall_nil _
                 | (k, x) :: t => Forall_cons (k, x) (value_ind' x) (go t)
                 end) m)
    | VList l =>
        HL l ((fix go (l : list value) : Forall P l :=
                 match l with
                 | [] => Forall_nil _
                 | x :: t => Forall_cons x (value_ind' x) (go t)
                 end) l)
    end.
End ValueInd.

(* ---- the guards ------------------------------------------------------------------------------ *)
(* a usable map key: bbolt accepts it (non-empty, at most MaxKeySize) and it is not the key
   PutList reserves for the list size *)
Definition key_ok (k : str) : Prop := k <> [] /\ len k <= MaxKeySize /\ k <> ListSizeKeyName.
(* a scalar of a supported type in range whose encoding bbolt accepts as a value *)
Definition leaf_ok (s : scalar) : Prop := wf_scalar s = true /\ len (encode_scalar s) <= MaxValueSize.

(* a well-formed dynamic value: a Go map is represented by its key-sorted association list *)
Inductive WfValue : value -> Prop :=
| WfS s : leaf_ok s -> WfValue (VS s)
| WfMap m :
    Sorted str_lt (map fst m) ->
    Forall (fun kv : str * value => key_ok (fst kv) /\ WfValue (snd kv)) m ->
    WfValue (VMap m)
| WfList l : N.of_nat (length l) < 2 ^ 31 -> Forall WfValue l -> WfValue (VList l).

Definition node_fits (n : node) : Prop :=
  match n with
  | Leaf v => len v <= MaxValueSize
  | Sub _ => True
  end.

(* ---- placing a node under a key ------------------------------------------------------------ *)
Lemma len_zero_iff (k : str) : (len k =? 0) = false <-> k <> [].
Proof.
  unfold len. destruct k; cbn; split; intros H; try congruence; try discriminate; reflexivity.
Qed.

Lemma place_fresh k n b :
  k <> [] -> len k <= MaxKeySize -> node_fits n -> a_lookup k b = None ->
  place k n b = Ok (a_insert k n b).
Proof.
  intros Hk Hl Hf Hn. destruct n as [v|c]; cbn [place node_fits] in *.
  - unfold b_put. rewrite (proj2 (len_zero_iff k) Hk).
    replace (MaxKeySize <? len k) with false by (symmetry; apply N.ltb_ge; exact Hl).
    replace (MaxValueSize <? len v) with false by (symmetry; apply N.ltb_ge; exact Hf).
    rewrite Hn. reflexivity.
  - unfold b_put_bucket. rewrite (proj2 (len_zero_iff k) Hk). rewrite Hn. reflexivity.
Qed.

Lemma place_ok_insert k n b b' : place k n b = Ok b' -> b' = a_insert k n b.
Proof.
  destruct n as [v|c]; cbn [place].
  - unfold b_put. destruct (len k =? 0); [discriminate|]. destruct (MaxKeySize <? len k); [discriminate|].
    destruct (MaxValueSize <? len v); [discriminate|].
    destruct (a_lookup k b) as [[?|?]|]; intros H; inversion H; reflexivity.
  - unfold b_put_bucket. destruct (len k =? 0); [discriminate|].
    destruct (a_lookup k b) as [[?|?]|]; intros H; inversion H; reflexivity.
Qed.

Lemma place_lookup_same k n b b' : place k n b = Ok b' -> a_lookup k b' = Some n.
Proof. intros H. rewrite (place_ok_insert _ _ _ _ H). apply a_lookup_insert_same. Qed.

Lemma place_lookup_other k n b b' k2 : place k n b = Ok b' -> k2 <> k -> a_lookup k2 b' = a_lookup k2 b.
Proof. intros H Hne. rewrite (place_ok_insert _ _ _ _ H). apply a_lookup_insert_other. exact Hne. Qed.

Lemma place_not_panic k n b : place k n b <> Panic /\ place k n b <> OutOfFuel.
Proof.
  destruct n as [v|c]; cbn [place].
  - unfold b_put. destruct (len k =? 0); [split; discriminate|]. destruct (MaxKeySize <? len k); [split; discriminate|].
    destruct (MaxValueSize <? len v); [split; discriminate|].
    destruct (a_lookup k b) as [[?|?]|]; split; discriminate.
  - unfold b_put_bucket. destruct (len k =? 0); [split; discriminate|].
    destruct (a_lookup k b) as [[?|?]|]; split; discriminate.
Qed.

(* ---- reading a sub-bucket --------------------------------------------------------------------- *)
Lemma entries_fix_eq (b : bucket) :
  (fix go (l : list (str * node)) : list (str * value) :=
     match l with
     | [] => []
     | (k, n') :: t => (k, get_node n') :: go t
     end) b = entries_of b.
Proof.
  induction b as [|[k n] t IH]; [reflexivity|].
  cbn [entries_of map]. f_equal. exact IH.
Qed.

Lemma get_node_sub (b : bucket) :
  get_node (Sub b) =
  match list_size b with
  | Some size =>
      if (size <? 0)%Z then VBad
      else VList (map (nth_entry (entries_of b)) (seq 0 (Z.to_nat size)))
  | None => VMap (entries_of b)
  end.
Proof.
  cbn [get_node]. rewrite entries_fix_eq. reflexivity.
Qed.

Lemma a_lookup_entries k (b : bucket) : a_lookup k (entries_of b) = option_map get_node (a_lookup k b).
Proof. unfold entries_of. apply a_lookup_map. Qed.

(* ---- maps --------------------------------------------------------------------------------------- *)
Definition keys_below (acc : bucket) (ks : list str) : Prop :=
  forall ka km, In ka (a_keys acc) -> In km ks -> str_lt ka km.

Section FillMap.
  Variable X : Type.
  Variable f : X -> res node.
  Variable P : X -> node -> Prop.

  Lemma fill_map_append : forall (m : list (str * X)) (acc : bucket),
    Sorted str_lt (map fst m) ->
    Forall (fun kv : str * X => (fst kv <> [] /\ len (fst kv) <= MaxKeySize /\ fst kv <> ListSizeKeyName)
              /\ exists n, f (snd kv) = Ok n /\ node_fits n /\ P (snd kv) n) m ->
    keys_below acc (map fst m) ->
    exists ns, Forall2 (fun (kv : str * X) (kn : str * node) => fst kn = fst kv /\ P (snd kv) (snd kn)) m ns
               /\ fill_map f m acc = Ok (acc ++ ns).
  Proof.
    induction m as [|[k x] t IH]; intros acc Hs Hall Hbelow.
    - exists []. split; [constructor | cbn; rewrite app_nil_r; reflexivity].
    - inversion Hall as [|? ? [(Hk1 & Hk2 & Hk3) (n & Hf & Hfit & HP)] Hall']; subst. cbn [fst snd] in *.
      cbn [fill_map]. rewrite (proj2 (str_eqb_neq k ListSizeKeyName) Hk3). rewrite Hf. cbn [bind].
      assert (Hnone : a_lookup k acc = None).
      { apply a_lookup_none_keys. intros Hin.
        apply (str_lt_irrefl k). apply (Hbelow k k Hin). left; reflexivity. }
      rewrite (place_fresh k n acc Hk1 Hk2 Hfit Hnone). cbn [bind].
      rewrite a_insert_last.
      2:{ apply Forall_forall. intros [ka va] Hin. cbn [fst]. apply (Hbelow ka k).
          - unfold a_keys. apply in_map_iff. exists (ka, va). split; [reflexivity | exact Hin].
          - left; reflexivity. }
      cbn [map] in Hs.
      destruct (IH (acc ++ [(k, n)])) as (ns & HF2 & Hfill).
      + inversion Hs; assumption.
      + exact Hall'.
      + intros ka km Hka Hkm. unfold a_keys in Hka. rewrite map_app in Hka. apply in_app_iff in Hka.
        destruct Hka as [Hka|Hka].
        * apply (Hbelow ka km Hka). right. exact Hkm.
        * cbn in Hka. destruct Hka as [<-|[]]. exact (sorted_strict_head_min _ _ Hs _ Hkm).
      + exists ((k, n) :: ns). split.
        * constructor; [split; [reflexivity | exact HP] | exact HF2].
        * rewrite Hfill. rewrite <- app_assoc. reflexivity.
  Qed.
End FillMap.

Lemma forall2_keys (X : Type) (P : X -> node -> Prop) (m : list (str * X)) (ns : bucket) :
  Forall2 (fun (kv : str * X) (kn : str * node) => fst kn = fst kv /\ P (snd kv) (snd kn)) m ns ->
  a_keys ns = map fst m.
Proof.
  induction 1 as [|[k x] [k' n] t t' [Hk _] _ IH]; [reflexivity|].
  cbn in *. subst k'. f_equal. exact IH.
Qed.

Lemma forall2_entries (m : list (str * value)) (ns : bucket) :
  Forall2 (fun (kv : str * value) (kn : str * node) => fst kn = fst kv /\ get_node (snd kn) = snd kv) m ns ->
  entries_of ns = m.
Proof.
  induction 1 as [|[k x] [k' n] t t' [Hk Hg] _ IH]; [reflexivity|].
  cbn in *. subst k' x. f_equal. exact IH.
Qed.

(* ---- lists ---------------------------------------------------------------------------------------- *)
Lemma index_key_inj i j : i < 2 ^ 32 -> j < 2 ^ 32 -> index_key i = index_key j -> i = j.
Proof.
  intros Hi Hj H. unfold index_key, int32_to_bytes in H.
  assert (H' := f_equal (@tl byte) H). cbn [tl] in H'.
  apply (f_equal le_val) in H'. rewrite !le_val_le_bytes in H'.
  change (256 ^ N.of_nat 4) with (2 ^ 32) in H'.
  rewrite !N.mod_mod in H' by (cbn; lia). rewrite !N.mod_small in H' by assumption. exact H'.
Qed.

Lemma index_key_not_marker i : index_key i <> ListSizeKeyName.
Proof.
  intros H. apply (f_equal (@length byte)) in H.
  unfold index_key, int32_to_bytes in H. cbn [length] in H. rewrite le_bytes_length in H. discriminate.
Qed.

Lemma index_key_len i : index_key i <> [] /\ len (index_key i) <= MaxKeySize.
Proof.
  split; [discriminate|]. unfold len, index_key, int32_to_bytes. cbn [length]. rewrite le_bytes_length.
  unfold MaxKeySize. lia.
Qed.

Lemma read_int32_count n : n < 2 ^ 31 -> read_int32 (int32_to_bytes n) = Some (Z.of_N n).
Proof.
  intros H. change (2 ^ 31) with 2147483648 in H.
  replace (int32_to_bytes n) with (encode_scalar (SInt32 (Z.of_N n))).
  - apply read_int32_int32. unfold in_int32. apply andb_true_iff. split; [apply Z.leb_le | apply Z.ltb_lt]; lia.
  - unfold int32_to_bytes, encode_scalar. f_equal. f_equal. unfold to_unsigned.
    change (2 ^ Z.of_N 32)%Z with 4294967296%Z. change (2 ^ 32) with 4294967296. lia.
Qed.

Section FillList.
  Variable X : Type.
  Variable f : X -> res node.
  Variable P : X -> node -> Prop.
  Variable d : X.

  Lemma fill_list_spec : forall (l : list X) (idx : N) (acc : bucket),
    Forall (fun x => exists n, f x = Ok n /\ node_fits n /\ P x n) l ->
    idx + N.of_nat (length l) <= 2 ^ 32 ->
    (forall j, idx <= j -> j < 2 ^ 32 -> a_lookup (index_key j) acc = None) ->
    exists c, fill_list f l idx acc = Ok c /\
      (forall j, (j < length l)%nat ->
         exists n, a_lookup (index_key (idx + N.of_nat j)) c = Some n /\ P (nth j l d) n) /\
      (forall k, (forall j, (j < length l)%nat -> k <> index_key (idx + N.of_nat j)) -> a_lookup k c = a_lookup k acc).
  Proof.
    induction l as [|x t IH]; intros idx acc Hall Hidx Hfree.
    - exists acc. split; [reflexivity|]. split; [intros j Hj; cbn in Hj; lia | reflexivity].
    - inversion Hall as [|? ? (n & Hf & Hfit & HP) Hall']; subst.
      cbn [fill_list]. rewrite Hf. cbn [bind]. cbn [length] in Hidx.
      destruct (index_key_len idx) as [Hne Hlen].
      rewrite (place_fresh _ n acc Hne Hlen Hfit) by (apply Hfree; lia). cbn [bind].
      destruct (IH (idx + 1) (a_insert (index_key idx) n acc) Hall') as (c & Hfill & Hget & Hother).
      + lia.
      + intros j Hj1 Hj2. rewrite a_lookup_insert_other.
        * apply Hfree; lia.
        * intros E. apply index_key_inj in E; lia.
      + exists c. split; [exact Hfill|]. split.
        * intros [|j] Hj.
          -- exists n. split; [|exact HP]. rewrite N.add_0_r. rewrite Hother.
             ++ apply a_lookup_insert_same.
             ++ intros j' Hj' E. apply index_key_inj in E; lia.
          -- cbn [length] in Hj. destruct (Hget j ltac:(lia)) as (n' & Hl & HP').
             exists n'. split; [|exact HP']. replace (idx + N.of_nat (S j)) with (idx + 1 + N.of_nat j) by lia. exact Hl.
        * intros k Hk. rewrite Hother.
          -- apply a_lookup_insert_other. specialize (Hk 0%nat ltac:(cbn; lia)). rewrite N.add_0_r in Hk. exact Hk.
          -- intros j Hj. specialize (Hk (S j) ltac:(cbn [length]; lia)).
             replace (idx + N.of_nat (S j)) with (idx + 1 + N.of_nat j) in Hk by lia. exact Hk.
  Qed.
End FillList.

Lemma map_seq_nth (A : Type) (g : nat -> A) (l : list A) (d : A) :
  (forall j, (j < length l)%nat -> g j = nth j l d) -> map g (seq 0 (length l)) = l.
Proof.
  intros H. apply (nth_ext _ _ d d).
  - rewrite map_length, seq_length. reflexivity.
  - intros n Hn. rewrite map_length, seq_length in Hn.
    rewrite (nth_indep _ d (g 0%nat)) by (rewrite map_length, seq_length; exact Hn).
    rewrite map_nth. rewrite seq_nth by exact Hn. cbn. apply H. exact Hn.
Qed.

(* ---- nested round trip -------------------------------------------------------------------------- *)
(* setMarshaled then getMarshaled: the stored node of a well-formed value decodes to that value *)
Lemma entry_node_roundtrip : forall v : value,
  WfValue v -> exists n, entry_node true v = Ok n /\ node_fits n /\ get_node n = v.
Proof.
  induction v as [s| |m IH|l IH] using value_ind'; intros Hwf.
  - inversion Hwf as [? [Hw Hsz]| |]; subst.
    exists (Leaf (encode_scalar s)). split; [reflexivity|]. split; [exact Hsz|].
    cbn [get_node]. rewrite (decode_encode_scalar _ Hw). reflexivity.
  - inversion Hwf.
  - inversion Hwf as [|? Hs Hall|]; subst.
    cbn [entry_node].
    destruct (fill_map_append value (entry_node true) (fun x n => get_node n = x) m []) as (ns & HF2 & Hfill).
    + exact Hs.
    + rewrite Forall_forall in *. intros kv Hin. destruct (Hall kv Hin) as [(Hk1 & Hk2 & Hk3) Hw].
      split; [repeat split; assumption|]. exact (IH kv Hin Hw).
    + intros ka km []. 
    + rewrite Hfill. cbn [bind app]. exists (Sub ns). split; [reflexivity|]. split; [exact I|].
      rewrite get_node_sub.
      assert (Hnone : list_size ns = None).
      { unfold list_size. replace (a_lookup ListSizeKeyName ns) with (@None node); [reflexivity|].
        symmetry. apply a_lookup_none_keys. rewrite (forall2_keys _ (fun x n => get_node n = x) _ _ HF2).
        intros Hin. apply in_map_iff in Hin. destruct Hin as (kv & Hkv & Hin).
        rewrite Forall_forall in Hall. destruct (Hall kv Hin) as [(_ & _ & Hm) _]. congruence. }
      rewrite Hnone. rewrite (forall2_entries _ _ HF2). reflexivity.
  - inversion Hwf as [| |? Hlen Hall]; subst.
    cbn [entry_node].
    destruct (fill_list_spec value (entry_node true) (fun x n => get_node n = x) (VS SNil) l 0 []) as (c & Hfill & Hget & Hother).
    + rewrite Forall_forall in *. intros x Hin. exact (IH x Hin (Hall x Hin)).
    + assert (2 ^ 31 < 2 ^ 32) by (apply N.pow_lt_mono_r; lia). lia.
    + reflexivity.
    + rewrite Hfill. cbn [bind].
      assert (Hmk : a_lookup ListSizeKeyName c = None).
      { rewrite Hother; [reflexivity|]. intros j _ E. symmetry in E. exact (index_key_not_marker _ E). }
      unfold b_put.
      change (len ListSizeKeyName =? 0) with false. change (MaxKeySize <? len ListSizeKeyName) with false.
      replace (MaxValueSize <? len (int32_to_bytes (N.of_nat (length l)))) with false.
      2:{ symmetry. apply N.ltb_ge. unfold len, int32_to_bytes. cbn [length]. rewrite le_bytes_length. unfold MaxValueSize. lia. }
      cbv iota. rewrite Hmk. cbn [bind].
      eexists. split; [reflexivity|]. split; [exact I|].
      rewrite get_node_sub. unfold list_size. rewrite a_lookup_insert_same.
      rewrite (read_int32_count _ Hlen).
      replace (Z.of_N (N.of_nat (length l)) <? 0)%Z with false by (symmetry; apply Z.ltb_ge; lia).
      replace (Z.to_nat (Z.of_N (N.of_nat (length l)))) with (length l) by lia.
      f_equal. apply (map_seq_nth _ _ _ (VS SNil)). intros j Hj.
      unfold nth_entry. rewrite a_lookup_entries.
      rewrite a_lookup_insert_other by (apply index_key_not_marker).
      destruct (Hget j Hj) as (n & Hl & Hg). rewrite N.add_0_l in Hl. rewrite Hl. cbn [option_map]. exact Hg.
Qed.

(* ---- whatever was written reads back equal --------------------------------------------------------- *)
(* the values the model can stand for: scalars in the range of their Go type, a Go map as its
   key-sorted association list, lists shorter than 2^31.  No condition on the keys: a key the
   store cannot take makes the write fail, it never makes it succeed with another content. *)
Inductive Representable : value -> Prop :=
| RepS s : wf_scalar s = true -> Representable (VS s)
| RepMap m : Sorted str_lt (map fst m) -> Forall (fun kv : str * value => Representable (snd kv)) m -> Representable (VMap m)
| RepList l : N.of_nat (length l) < 2 ^ 31 -> Forall Representable l -> Representable (VList l).

Lemma WfValue_Representable v : WfValue v -> Representable v.
Proof.
  induction v as [s| |m IH|l IH] using value_ind'; intros H; inversion H; subst.
  - constructor. match goal with Hl : leaf_ok _ |- _ => exact (proj1 Hl) end.
  - constructor; [assumption|]. rewrite Forall_forall in *. intros kv Hin.
    match goal with Ha : forall x, In x m -> key_ok _ /\ WfValue _ |- _ => exact (IH kv Hin (proj2 (Ha kv Hin))) end.
  - constructor; [assumption|]. rewrite Forall_forall in *. intros x Hin.
    match goal with Ha : forall x, In x l -> WfValue x |- _ => exact (IH x Hin (Ha x Hin)) end.
Qed.

Section FillMapOk.
  Variable X : Type.
  Variable f : X -> res node.
  Variable P : X -> node -> Prop.

  Lemma fill_map_ok_shape : forall (m : list (str * X)) (acc c : bucket),
    Sorted str_lt (map fst m) ->
    keys_below acc (map fst m) ->
    Forall (fun kv : str * X => forall n, f (snd kv) = Ok n -> P (snd kv) n) m ->
    fill_map f m acc = Ok c ->
    ~ In ListSizeKeyName (map fst m) /\
    exists ns, Forall2 (fun (kv : str * X) (kn : str * node) => fst kn = fst kv /\ P (snd kv) (snd kn)) m ns
               /\ c = acc ++ ns.
  Proof.
    induction m as [|[k x] t IH]; intros acc c Hs Hbelow Hall H.
    - cbn in H. inversion H; subst. split; [intros []|]. exists []. split; [constructor | rewrite app_nil_r; reflexivity].
    - cbn [fill_map] in H. destruct (str_eqb k ListSizeKeyName) eqn:Em; [discriminate|]. apply str_eqb_neq in Em.
      destruct (f x) as [n| | |] eqn:Ef; cbn [bind] in H; try discriminate.
      destruct (place k n acc) as [acc1| | |] eqn:Ep; cbn [bind] in H; try discriminate.
      inversion Hall as [|? ? HP Hall']; subst. cbn [fst snd] in *.
      rewrite (place_ok_insert _ _ _ _ Ep) in H.
      rewrite a_insert_last in H.
      2:{ apply Forall_forall. intros [ka va] Hin. cbn [fst]. apply (Hbelow ka k).
          - unfold a_keys. apply in_map_iff. exists (ka, va). split; [reflexivity | exact Hin].
          - left; reflexivity. }
      cbn [map] in Hs.
      destruct (IH (acc ++ [(k, n)]) c) as (Hnm & ns & HF2 & Hc).
      + inversion Hs; assumption.
      + intros ka km Hka Hkm. unfold a_keys in Hka. rewrite map_app in Hka. apply in_app_iff in Hka.
        destruct Hka as [Hka|Hka].
        * apply (Hbelow ka km Hka). right. exact Hkm.
        * cbn in Hka. destruct Hka as [<-|[]]. exact (sorted_strict_head_min _ _ Hs _ Hkm).
      + exact Hall'.
      + exact H.
      + split.
        * cbn [map fst In]. intros [E|E]; [congruence | contradiction].
        * exists ((k, n) :: ns). split.
          -- constructor; [split; [reflexivity | exact (HP n Ef)] | exact HF2].
          -- rewrite Hc, <- app_assoc. reflexivity.
  Qed.
End FillMapOk.

Section FillListOk.
  Variable X : Type.
  Variable f : X -> res node.
  Variable P : X -> node -> Prop.
  Variable d : X.

  Lemma fill_list_ok_lookup : forall (l : list X) (idx : N) (acc c : bucket),
    Forall (fun x => forall n, f x = Ok n -> P x n) l ->
    idx + N.of_nat (length l) <= 2 ^ 32 ->
    fill_list f l idx acc = Ok c ->
    (forall j, (j < length l)%nat ->
       exists n, a_lookup (index_key (idx + N.of_nat j)) c = Some n /\ P (nth j l d) n) /\
    (forall k, (forall j, (j < length l)%nat -> k <> index_key (idx + N.of_nat j)) -> a_lookup k c = a_lookup k acc).
  Proof.
    induction l as [|x t IH]; intros idx acc c Hall Hidx H.
    - cbn in H. inversion H; subst. split; [intros j Hj; cbn in Hj; lia | reflexivity].
    - cbn [fill_list] in H. destruct (f x) as [n| | |] eqn:Ef; cbn [bind] in H; try discriminate.
      destruct (place (index_key idx) n acc) as [acc1| | |] eqn:Ep; cbn [bind] in H; try discriminate.
      inversion Hall as [|? ? HP Hall']; subst. cbn [length] in Hidx.
      destruct (IH (idx + 1) acc1 c Hall' ltac:(lia) H) as (Hget & Hother). split.
      + intros [|j] Hj.
        * exists n. split; [|exact (HP n Ef)]. rewrite N.add_0_r. rewrite Hother.
          -- exact (place_lookup_same _ _ _ _ Ep).
          -- intros j' Hj' E. apply index_key_inj in E; lia.
        * cbn [length] in Hj. destruct (Hget j ltac:(lia)) as (n' & Hl & HP').
          exists n'. split; [|exact HP']. replace (idx + N.of_nat (S j)) with (idx + 1 + N.of_nat j) by lia. exact Hl.
      + intros k Hk. rewrite Hother.
        * apply (place_lookup_other _ _ _ _ _ Ep). specialize (Hk 0%nat ltac:(cbn; lia)). rewrite N.add_0_r in Hk. exact Hk.
        * intros j Hj. specialize (Hk (S j) ltac:(cbn [length]; lia)).
          replace (idx + N.of_nat (S j)) with (idx + 1 + N.of_nat j) in Hk by lia. exact Hk.
  Qed.
End FillListOk.

Lemma b_put_ok_insert k v b b' : b_put k v b = Ok b' -> b' = a_insert k (Leaf v) b.
Proof. intros H. exact (place_ok_insert k (Leaf v) b b' H). Qed.

(* every successful setMarshaled is read back by getMarshaled as the value written *)
Lemma entry_node_read_back : forall (v : value) (n : node),
  Representable v -> entry_node true v = Ok n -> get_node n = v.
Proof.
  induction v as [s| |m IH|l IH] using value_ind'; intros n Hrep H.
  - inversion Hrep; subst. cbn in H. inversion H; subst n. cbn [get_node].
    rewrite decode_encode_scalar by assumption. reflexivity.
  - inversion Hrep.
  - inversion Hrep as [|? Hs Hall|]; subst. cbn [entry_node] in H.
    destruct (fill_map (entry_node true) m []) as [c| | |] eqn:Ec; cbn [bind] in H; try discriminate.
    inversion H; subst n.
    destruct (fill_map_ok_shape value (entry_node true) (fun x n => get_node n = x) m [] c Hs) as (Hnm & ns & HF2 & Hc).
    + intros ka km [].
    + rewrite Forall_forall in *. intros kv Hin n Hn. exact (IH kv Hin n (Hall kv Hin) Hn).
    + exact Ec.
    + cbn [app] in Hc. subst c. rewrite get_node_sub.
      assert (Hnone : list_size ns = None).
      { unfold list_size. replace (a_lookup ListSizeKeyName ns) with (@None node); [reflexivity|].
        symmetry. apply a_lookup_none_keys. rewrite (forall2_keys _ (fun x n => get_node n = x) _ _ HF2). exact Hnm. }
      rewrite Hnone. rewrite (forall2_entries _ _ HF2). reflexivity.
  - inversion Hrep as [| |? Hlen Hall]; subst. cbn [entry_node] in H.
    destruct (fill_list (entry_node true) l 0 []) as [c| | |] eqn:Ec; cbn [bind] in H; try discriminate.
    destruct (b_put ListSizeKeyName (int32_to_bytes (N.of_nat (length l))) c) as [c'| | |] eqn:Eb; cbn [bind] in H; try discriminate.
    inversion H; subst n.
    destruct (fill_list_ok_lookup value (entry_node true) (fun x n => get_node n = x) (VS SNil) l 0 [] c) as (Hget & Hother).
    + rewrite Forall_forall in *. intros x Hin n Hn. exact (IH x Hin n (Hall x Hin) Hn).
    + assert (2 ^ 31 < 2 ^ 32) by (apply N.pow_lt_mono_r; lia). lia.
    + exact Ec.
    + rewrite (b_put_ok_insert _ _ _ _ Eb).
      rewrite get_node_sub. unfold list_size. rewrite a_lookup_insert_same.
      rewrite (read_int32_count _ Hlen).
      replace (Z.of_N (N.of_nat (length l)) <? 0)%Z with false by (symmetry; apply Z.ltb_ge; lia).
      replace (Z.to_nat (Z.of_N (N.of_nat (length l)))) with (length l) by lia.
      f_equal. apply (map_seq_nth _ _ _ (VS SNil)). intros j Hj.
      unfold nth_entry. rewrite a_lookup_entries.
      rewrite a_lookup_insert_other by (apply index_key_not_marker).
      destruct (Hget j Hj) as (n & Hl & Hg). rewrite N.add_0_l in Hl. rewrite Hl. cbn [option_map]. exact Hg.
Qed.

Lemma entry_node_read_back_any (an : bool) (v : value) (n : node) :
  Representable v -> entry_node an v = Ok n -> get_node n = v.
Proof.
  intros Hrep H. destruct an; [exact (entry_node_read_back v n Hrep H)|].
  apply (entry_node_read_back v n Hrep). destruct v; cbn in *; try discriminate; exact H.
Qed.

(* ---- setter calls on the entity bucket ----------------------------------------------------------- *)
Lemma apply_op_skips c op b : op_proceeds c op = false -> apply_op c op b = Ok b.
Proof. intros H. unfold apply_op. rewrite H. reflexivity. Qed.

Lemma apply_op_proceeds c op b b' :
  op_proceeds c op = true -> apply_op c op b = Ok b' ->
  exists n, op_node op = Ok n /\ a_lookup (op_name op) b' = Some n /\
            forall k, k <> op_name op -> a_lookup k b' = a_lookup k b.
Proof.
  intros Hp H. unfold apply_op in H. rewrite Hp in H.
  destruct (op_node op) as [n| | |] eqn:En; cbn [bind] in H; try discriminate.
  exists n. split; [reflexivity|]. split.
  - exact (place_lookup_same _ _ _ _ H).
  - intros k Hk. exact (place_lookup_other _ _ _ _ _ H Hk).
Qed.

(* a call changes nothing but the field it names *)
Lemma apply_op_frame c op b b' k :
  apply_op c op b = Ok b' -> k <> op_name op -> a_lookup k b' = a_lookup k b.
Proof.
  intros H Hk. destruct (op_proceeds c op) eqn:Hp.
  - destruct (apply_op_proceeds _ _ _ _ Hp H) as (n & _ & _ & Ho). exact (Ho k Hk).
  - rewrite (apply_op_skips _ _ _ Hp) in H. inversion H. reflexivity.
Qed.

(* a field the checker does not select (and no SetNil names) keeps its stored bytes *)
Lemma apply_ops_frame : forall c ops b b' k,
  apply_ops c ops b = Ok b' ->
  (forall op, In op ops -> op_name op = k -> op_proceeds c op = false) ->
  a_lookup k b' = a_lookup k b.
Proof.
  induction ops as [|op t IH]; intros b b' k H Hsel; cbn [apply_ops] in H.
  - inversion H. reflexivity.
  - destruct (apply_op c op b) as [b1| | |] eqn:E1; cbn [bind] in H; try discriminate.
    rewrite (IH b1 b' k H) by (intros op' Hin; apply Hsel; right; exact Hin).
    destruct (str_eqb k (op_name op)) eqn:Ek.
    + apply str_eqb_eq in Ek. rewrite (apply_op_skips c op b) in E1 by (apply Hsel; [left; reflexivity | congruence]).
      inversion E1. reflexivity.
    + apply str_eqb_neq in Ek. exact (apply_op_frame _ _ _ _ _ E1 Ek).
Qed.

(* a restricted write is the unrestricted write of the calls that proceed *)
Lemma op_proceeds_nil op : op_proceeds None op = true.
Proof. unfold op_proceeds, proceed. destruct (op_restricted op); reflexivity. Qed.

Lemma apply_op_unrestricted c op b : op_proceeds c op = true -> apply_op c op b = apply_op None op b.
Proof. intros H. unfold apply_op. rewrite H, op_proceeds_nil. reflexivity. Qed.

Lemma apply_ops_filter : forall c ops b,
  apply_ops c ops b = apply_ops None (filter (op_proceeds c) ops) b.
Proof.
  induction ops as [|op t IH]; intros b; [reflexivity|].
  cbn [apply_ops filter]. destruct (op_proceeds c op) eqn:Hp.
  - cbn [apply_ops]. rewrite (apply_op_unrestricted _ _ _ Hp).
    destruct (apply_op None op b); cbn [bind]; try reflexivity. apply IH.
  - rewrite (apply_op_skips _ _ _ Hp). cbn [bind]. apply IH.
Qed.

(* the last proceeding call on a field decides what the field holds *)
Lemma apply_ops_last : forall c ops op b b',
  apply_ops c (ops ++ [op]) b = Ok b' -> op_proceeds c op = true ->
  exists n, op_node op = Ok n /\ a_lookup (op_name op) b' = Some n.
Proof.
  induction ops as [|o t IH]; intros op b b' H Hp; cbn [app apply_ops] in H.
  - destruct (apply_op c op b) as [b1| | |] eqn:E1; cbn [bind] in H; try discriminate. inversion H; subst b1.
    destruct (apply_op_proceeds _ _ _ _ Hp E1) as (n & Hn & Hl & _). exists n. split; assumption.
  - destruct (apply_op c o b) as [b1| | |] eqn:E1; cbn [bind] in H; try discriminate.
    exact (IH op b1 b' H Hp).
Qed.

(* ---- scalar fields through the bucket -------------------------------------------------------------- *)
Lemma scalar_field_written c name v b b' :
  proceed c name = true -> apply_op c (OpScalar name v) b = Ok b' -> get_bytes name b' = encode_scalar v.
Proof.
  intros Hp H.
  destruct (apply_op_proceeds c (OpScalar name v) b b') as (n & Hn & Hl & _);
    [unfold op_proceeds; cbn; exact Hp | exact H |].
  cbn in Hn, Hl. inversion Hn; subst n. unfold get_bytes. rewrite Hl. reflexivity.
Qed.

Lemma scalar_field_write_succeeds c name v b :
  name <> [] -> len name <= MaxKeySize -> len (encode_scalar v) <= MaxValueSize ->
  (forall sub, a_lookup name b <> Some (Sub sub)) ->
  exists b', apply_op c (OpScalar name v) b = Ok b'.
Proof.
  intros H1 H2 H3 H4. unfold apply_op. destruct (op_proceeds c (OpScalar name v)); [|eauto].
  cbn [op_node op_name bind place]. unfold b_put.
  rewrite (proj2 (len_zero_iff name) H1).
  replace (MaxKeySize <? len name) with false by (symmetry; apply N.ltb_ge; exact H2).
  replace (MaxValueSize <? len (encode_scalar v)) with false by (symmetry; apply N.ltb_ge; exact H3).
  destruct (a_lookup name b) as [[?|sub]|] eqn:E; eauto. exfalso. exact (H4 sub eq_refl).
Qed.

(* ---- maps and lists through the bucket ------------------------------------------------------------- *)
Lemma entry_node_false_true v n : entry_node false v = Ok n -> entry_node true v = Ok n.
Proof. destruct v; cbn; intros H; try discriminate; exact H. Qed.

Lemma fill_map_mono (X : Type) (f g : X -> res node) :
  (forall x n, f x = Ok n -> g x = Ok n) ->
  forall m acc c, fill_map f m acc = Ok c -> fill_map g m acc = Ok c.
Proof.
  intros Hfg. induction m as [|[k x] t IH]; intros acc c H; cbn [fill_map] in *; [exact H|].
  destruct (str_eqb k ListSizeKeyName); [discriminate|].
  destruct (f x) as [n| | |] eqn:Ef; cbn [bind] in H; try discriminate.
  rewrite (Hfg _ _ Ef). cbn [bind].
  destruct (place k n acc) as [acc'| | |]; cbn [bind] in *; try discriminate. exact (IH _ _ H).
Qed.

Lemma map_node_entry an m n : map_node an m = Ok n -> entry_node true (VMap m) = Ok n.
Proof.
  unfold map_node. cbn [entry_node]. intros H.
  destruct (fill_map (entry_node an) m []) as [c| | |] eqn:E; cbn [bind] in H; try discriminate.
  destruct an.
  - rewrite E. exact H.
  - rewrite (fill_map_mono _ _ _ entry_node_false_true _ _ _ E). exact H.
Qed.

Lemma get_node_vmap_inv n m : get_node n = VMap m -> exists c, n = Sub c /\ entries_of c = m.
Proof.
  destruct n as [v|c]; [cbn; discriminate|]. rewrite get_node_sub.
  destruct (list_size c) as [size|]; [destruct (size <? 0)%Z; discriminate|].
  intros H; inversion H. exists c. split; reflexivity.
Qed.

(* PutMap then GetMap / getMarshaled, in a bucket with arbitrary other content *)
Lemma map_roundtrip c name m an b b' :
  Representable (VMap m) -> proceed c name = true -> apply_op c (OpMap name m an) b = Ok b' ->
  get_map name b' = m /\ get_marshaled name b' = VMap m.
Proof.
  intros Hrep Hp H.
  destruct (apply_op_proceeds c (OpMap name m an) b b') as (n & Hn & Hl & _);
    [unfold op_proceeds; cbn; exact Hp | exact H |].
  cbn [op_node op_name] in Hn, Hl. apply map_node_entry in Hn.
  pose proof (entry_node_read_back _ _ Hrep Hn) as Hg.
  unfold get_map, get_marshaled. rewrite Hl.
  destruct (get_node_vmap_inv _ _ Hg) as (sub & -> & He). split; [exact He | exact Hg].
Qed.

Lemma get_node_vlist_inv n l :
  get_node n = VList l ->
  exists c size, n = Sub c /\ list_size c = Some size /\ (size <? 0)%Z = false /\
                 map (nth_entry (entries_of c)) (seq 0 (Z.to_nat size)) = l.
Proof.
  destruct n as [v|c]; [cbn; discriminate|]. rewrite get_node_sub.
  destruct (list_size c) as [size|] eqn:Es; [|discriminate].
  destruct (size <? 0)%Z eqn:E; [discriminate|].
  intros H; inversion H. exists c, size. repeat split; try reflexivity; assumption.
Qed.

(* PutList then GetList / getMarshaled *)
Lemma list_roundtrip c name l b b' :
  Representable (VList l) -> proceed c name = true -> apply_op c (OpList name l) b = Ok b' ->
  get_list name b' = Ok (Some l) /\ get_marshaled name b' = VList l.
Proof.
  intros Hrep Hp H.
  destruct (apply_op_proceeds c (OpList name l) b b') as (n & Hn & Hl & _);
    [unfold op_proceeds; cbn; exact Hp | exact H |].
  cbn [op_node op_name] in Hn, Hl. unfold list_node in Hn.
  pose proof (entry_node_read_back _ _ Hrep Hn) as Hg.
  unfold get_list, get_marshaled. rewrite Hl.
  destruct (get_node_vlist_inv _ _ Hg) as (sub & size & -> & Hs & Hneg & Hm).
  rewrite Hs, Hneg, Hm. split; [reflexivity | exact Hg].
Qed.

(* a well-formed container can always be written under a usable field name that does not hold
   a plain value *)
Lemma container_write_succeeds c name v b :
  WfValue v -> name <> [] -> len name <= MaxKeySize ->
  (forall x, a_lookup name b <> Some (Leaf x)) ->
  match v with
  | VMap m => exists b', apply_op c (OpMap name m true) b = Ok b'
  | VList l => exists b', apply_op c (OpList name l) b = Ok b'
  | _ => True
  end.
Proof.
  intros Hwf H1 H2 Hcompat.
  destruct (entry_node_roundtrip _ Hwf) as (n & Hn & Hfit & Hg).
  destruct v as [s| |m|l]; try exact I.
  - unfold apply_op. destruct (op_proceeds c (OpMap name m true)); [|eauto].
    cbn [op_node op_name]. unfold map_node. cbn [entry_node] in Hn.
    destruct (fill_map (entry_node true) m []) as [sub| | |]; cbn [bind] in Hn; try discriminate.
    cbn [bind place]. unfold b_put_bucket. rewrite (proj2 (len_zero_iff name) H1).
    destruct (a_lookup name b) as [[x|sub']|] eqn:E; eauto.
    exfalso; exact (Hcompat x eq_refl).
  - unfold apply_op. destruct (op_proceeds c (OpList name l)); [|eauto].
    cbn [op_node op_name]. unfold list_node. rewrite Hn. cbn [bind].
    assert (Hsub : exists sub, n = Sub sub).
    { destruct (get_node_vlist_inv _ _ Hg) as (sub & _ & -> & _). eauto. }
    destruct Hsub as (sub & ->). cbn [place]. unfold b_put_bucket. rewrite (proj2 (len_zero_iff name) H1).
    destruct (a_lookup name b) as [[x|sub']|] eqn:E; eauto.
    exfalso; exact (Hcompat x eq_refl).
Qed.

(* ---- string lists ------------------------------------------------------------------------------------ *)
Definition all_leaves (b : bucket) : Prop := Forall (fun kn : str * node => exists v, snd kn = Leaf v) b.

Lemma a_insert_forall (V : Type) (P : str * V -> Prop) k v (l : list (str * V)) :
  Forall P l -> P (k, v) -> Forall P (a_insert k v l).
Proof.
  intros Hl Hk. induction l as [|[k' v'] t IH]; cbn.
  - constructor; [exact Hk | constructor].
  - inversion Hl; subst. destruct (str_cmp k k'); constructor; auto.
Qed.

Definition elem_ok (s : str) : Prop := len s + 1 <= MaxKeySize.

Lemma fill_string_list_spec : forall (l : list str) (acc : bucket),
  Forall elem_ok l -> all_leaves acc -> Sorted str_lt (a_keys acc) ->
  exists c, fill_string_list l acc = Ok c /\ all_leaves c /\ Sorted str_lt (a_keys c) /\
    (forall k, In k (a_keys c) <-> In k (a_keys acc) \/ exists s, In s l /\ k = prepend_field_type TypeString s).
Proof.
  induction l as [|s t IH]; intros acc Hok Hleaves Hsorted.
  - exists acc. split; [reflexivity|]. split; [exact Hleaves|]. split; [exact Hsorted|].
    intros k. split; [intros H; left; exact H | intros [H|(s & [] & _)]; exact H].
  - inversion Hok as [|? ? Hs Hok']; subst. cbn [fill_string_list]. unfold b_put at 1.
    unfold prepend_field_type at 1 2. change (len (TypeString :: s) =? 0) with (N.of_nat (S (length s)) =? 0).
    replace (N.of_nat (S (length s)) =? 0) with false by (symmetry; apply N.eqb_neq; lia).
    replace (MaxKeySize <? len (TypeString :: s)) with false
      by (symmetry; apply N.ltb_ge; unfold elem_ok, len in *; cbn [length]; lia).
    change (MaxValueSize <? len []) with false. cbv iota.
    assert (Hnsub : forall sub, a_lookup (prepend_field_type TypeString s) acc <> Some (Sub sub)).
    { intros sub E. apply a_lookup_in in E. unfold all_leaves in Hleaves. rewrite Forall_forall in Hleaves.
      destruct (Hleaves _ E) as (v & Hv). discriminate. }
    destruct (a_lookup (prepend_field_type TypeString s) acc) as [[x|sub]|] eqn:E;
      [| exfalso; exact (Hnsub sub eq_refl) |]; cbn [bind].
    all: destruct (IH (a_insert (prepend_field_type TypeString s) (Leaf []) acc) Hok') as (c & Hc & Hl & Hso & Hin);
      [ apply a_insert_forall; [exact Hleaves | exists []; reflexivity]
      | apply a_insert_sorted; exact Hsorted
      | exists c; split; [exact Hc|]; split; [exact Hl|]; split; [exact Hso|];
        intros k; rewrite Hin, a_insert_keys_in; split;
        [ intros [[->|H]|(s' & Hs' & ->)];
          [ right; exists s; split; [left; reflexivity | reflexivity]
          | left; exact H
          | right; exists s'; split; [right; exact Hs' | reflexivity] ]
        | intros [H|(s' & [<-|Hs'] & ->)];
          [ left; right; exact H
          | left; left; reflexivity
          | right; exists s'; split; [exact Hs' | reflexivity] ] ] ].
Qed.

Definition strip (k : str) : str := snd (get_type_and_value k).

Lemma strip_cons ft s : strip (ft :: s) = s.
Proof. reflexivity. Qed.

Lemma sorted_strip (ks : list str) :
  Sorted str_lt ks -> (forall k, In k ks -> exists s, k = TypeString :: s) -> Sorted str_lt (map strip ks).
Proof.
  induction 1 as [|a t Hs IH Hd]; intros Hform; cbn [map]; constructor.
  - apply IH. intros k Hk. apply Hform. right; exact Hk.
  - destruct t as [|b t']; cbn [map]; constructor.
    inversion Hd as [|? ? Hab]; subst.
    destruct (Hform a (or_introl eq_refl)) as (sa & ->).
    destruct (Hform b (or_intror (or_introl eq_refl))) as (sb & ->).
    rewrite !strip_cons. unfold str_lt in *. rewrite str_cmp_cons in Hab. exact Hab.
Qed.

(* SetStringList then GetStringList: the elements, each once, in ascending byte order *)
Lemma string_list_node_spec (l : list str) :
  Forall elem_ok l ->
  exists c, string_list_node l = Ok (Sub c) /\
    Sorted str_lt (read_string_list c) /\ (forall s, In s (read_string_list c) <-> In s l).
Proof.
  intros Hok.
  destruct (fill_string_list_spec l [] Hok) as (c & Hc & _ & Hso & Hin); [constructor | constructor |].
  exists c. unfold string_list_node. rewrite Hc. cbn [bind]. split; [reflexivity|].
  assert (Hform : forall k, In k (a_keys c) -> exists s, k = TypeString :: s).
  { intros k Hk. apply Hin in Hk. destruct Hk as [[]|(s & _ & ->)]. exists s. reflexivity. }
  unfold read_string_list. fold strip. split.
  - change (map (fun k : str => snd (get_type_and_value k)) (a_keys c)) with (map strip (a_keys c)).
    apply sorted_strip; assumption.
  - intros s. change (map (fun k : str => snd (get_type_and_value k)) (a_keys c)) with (map strip (a_keys c)).
    rewrite in_map_iff. split.
    + intros (k & <- & Hk). apply Hin in Hk. destruct Hk as [[]|(s' & Hs' & ->)]. exact Hs'.
    + intros Hs. exists (prepend_field_type TypeString s). split; [reflexivity|].
      apply Hin. right. exists s. split; [exact Hs | reflexivity].
Qed.

(* an independent, executable description of "sorted, duplicate-free" *)
Definition sort_dedup (l : list str) : list str :=
  a_keys (fold_left (fun acc s => a_insert s tt acc) l []).

Lemma sort_dedup_spec_gen : forall (l : list str) (acc : list (str * unit)),
  Sorted str_lt (a_keys acc) ->
  Sorted str_lt (a_keys (fold_left (fun acc s => a_insert s tt acc) l acc)) /\
  (forall s, In s (a_keys (fold_left (fun acc s => a_insert s tt acc) l acc)) <-> In s (a_keys acc) \/ In s l).
Proof.
  induction l as [|x t IH]; intros acc Hs; cbn [fold_left].
  - split; [exact Hs | intros s; split; [intros H; left; exact H | intros [H|[]]; exact H]].
  - destruct (IH (a_insert x tt acc) (a_insert_sorted _ _ _ Hs)) as [H1 H2]. split; [exact H1|].
    intros s. rewrite H2, a_insert_keys_in. cbn [In]. split.
    + intros [[->|H]|H]; [right; left; reflexivity | left; exact H | right; right; exact H].
    + intros [H|[<-|H]]; [left; right; exact H | left; left; reflexivity | right; exact H].
Qed.

Lemma sort_dedup_spec (l : list str) :
  Sorted str_lt (sort_dedup l) /\ (forall s, In s (sort_dedup l) <-> In s l).
Proof.
  destruct (sort_dedup_spec_gen l [] ltac:(constructor)) as [H1 H2]. split; [exact H1|].
  intros s. unfold sort_dedup. rewrite H2. cbn. tauto.
Qed.

Lemma strlist_roundtrip_lemma c name (l : list str) b b' :
  Forall elem_ok l -> proceed c name = true -> apply_op c (OpStringList name l) b = Ok b' ->
  get_string_list name b' = sort_dedup l.
Proof.
  intros Hok Hp H.
  destruct (apply_op_proceeds c (OpStringList name l) b b') as (n & Hn & Hl & _);
    [unfold op_proceeds; cbn; exact Hp | exact H |].
  cbn [op_node op_name] in Hn, Hl.
  destruct (string_list_node_spec l Hok) as (sub & Hsub & Hso & Hin). rewrite Hsub in Hn. inversion Hn; subst n.
  unfold get_string_list. rewrite Hl.
  destruct (sort_dedup_spec l) as [S2 I2].
  apply sorted_unique; [exact Hso | exact S2 |]. intros x. rewrite Hin, I2. tauto.
Qed.

Lemma strlist_write_succeeds c name (l : list str) b :
  Forall elem_ok l -> name <> [] -> (forall x, a_lookup name b <> Some (Leaf x)) ->
  exists b', apply_op c (OpStringList name l) b = Ok b'.
Proof.
  intros Hok H1 H2. unfold apply_op. destruct (op_proceeds c (OpStringList name l)); [|eauto].
  cbn [op_node op_name]. destruct (string_list_node_spec l Hok) as (sub & -> & _). cbn [bind place].
  unfold b_put_bucket. rewrite (proj2 (len_zero_iff name) H1).
  destruct (a_lookup name b) as [[x|sub']|] eqn:E; eauto. exfalso; exact (H2 x eq_refl).
Qed.

(* ---- the scalar round trip through a bucket ------------------------------------------------------------ *)
Lemma field_roundtrip_bucket c name v b b' :
  wf_scalar v = true -> proceed c name = true -> apply_op c (OpScalar name v) b = Ok b' ->
  read_own v (get_bytes name b') = Some (widen v) /\ get_marshaled name b' = VS v.
Proof.
  intros Hw Hp H. split.
  - rewrite (scalar_field_written _ _ _ _ _ Hp H). apply field_roundtrip_lemma. exact Hw.
  - destruct (apply_op_proceeds c (OpScalar name v) b b') as (n & Hn & Hl & _);
      [unfold op_proceeds; cbn; exact Hp | exact H |].
    cbn in Hn, Hl. inversion Hn; subst n. unfold get_marshaled. rewrite Hl. cbn [get_node].
    rewrite (decode_encode_scalar _ Hw). reflexivity.
Qed.

(* SetNil / SetStringP(nil) against SetString(""): different bytes, different reads *)
Lemma nil_vs_empty_bucket c name b b1 b2 :
  proceed c name = true ->
  apply_op c (OpScalar name SNil) b = Ok b1 -> apply_op c (OpScalar name (SString [])) b = Ok b2 ->
  get_string name b1 = SVal None /\ get_string name b2 = SVal (Some []) /\
  get_bytes name b1 <> get_bytes name b2 /\
  get_marshaled name b1 = VS SNil /\ get_marshaled name b2 = VS (SString []).
Proof.
  intros Hp H1 H2.
  pose proof (scalar_field_written _ _ _ _ _ Hp H1) as E1.
  pose proof (scalar_field_written _ _ _ _ _ Hp H2) as E2.
  unfold get_string. rewrite E1, E2.
  split; [reflexivity|]. split; [reflexivity|]. split; [cbn; discriminate|].
  split.
  - exact (proj2 (field_roundtrip_bucket _ _ SNil _ _ eq_refl Hp H1)).
  - exact (proj2 (field_roundtrip_bucket _ _ (SString []) _ _ eq_refl Hp H2)).
Qed.

(* SetNil takes no checker: it always writes the nil marker *)
Lemma set_nil_written c name b b' :
  apply_op c (OpNil name) b = Ok b' -> get_bytes name b' = encode_scalar SNil.
Proof.
  intros H. destruct (apply_op_proceeds c (OpNil name) b b') as (n & Hn & Hl & _); [reflexivity | exact H |].
  cbn in Hn, Hl. inversion Hn; subst n. unfold get_bytes. rewrite Hl. reflexivity.
Qed.

(* ---- the iteration order of a Go map does not matter ------------------------------------------------- *)
(* PutMap ranges over the Go map in an unspecified order; the model ranges over the association
   list.  For distinct keys every order stores the same bucket (or fails alike). *)

Lemma sorted_assoc_ext (V : Type) (l1 l2 : list (str * V)) :
  Sorted str_lt (a_keys l1) -> Sorted str_lt (a_keys l2) ->
  (forall k, a_lookup k l1 = a_lookup k l2) -> l1 = l2.
Proof.
  revert l2. induction l1 as [|[k1 v1] t1 IH]; intros [|[k2 v2] t2] S1 S2 H.
  - reflexivity.
  - specialize (H k2). cbn in H. rewrite str_eqb_refl in H. discriminate.
  - specialize (H k1). cbn in H. rewrite str_eqb_refl in H. discriminate.
  - cbn [a_keys map fst] in S1, S2.
    assert (Hk : k1 = k2).
    { pose proof (H k1) as H1. pose proof (H k2) as H2. cbn in H1, H2. rewrite str_eqb_refl in H1, H2.
      destruct (str_eqb k1 k2) eqn:E12; [apply str_eqb_eq in E12; exact E12|].
      rewrite (str_eqb_sym k2 k1), E12 in H2.
      symmetry in H1. apply a_lookup_in in H1. apply a_lookup_in in H2.
      assert (I1 : In k1 (a_keys t2)) by (unfold a_keys; apply in_map_iff; exists (k1, v1); split; [reflexivity | exact H1]).
      assert (I2 : In k2 (a_keys t1)) by (unfold a_keys; apply in_map_iff; exists (k2, v2); split; [reflexivity | exact H2]).
      pose proof (sorted_strict_head_min _ _ S1 _ I2) as L1.
      pose proof (sorted_strict_head_min _ _ S2 _ I1) as L2.
      exfalso. exact (str_lt_irrefl _ (str_lt_trans _ _ _ L1 L2)). }
    subst k2.
    assert (Hv : v1 = v2).
    { specialize (H k1). cbn in H. rewrite str_eqb_refl in H. inversion H. reflexivity. }
    subst v2. f_equal. apply IH.
    + inversion S1; assumption.
    + inversion S2; assumption.
    + intros k. destruct (str_eqb k k1) eqn:E.
      * apply str_eqb_eq in E. subst k.
        assert (N1 : a_lookup k1 t1 = None).
        { apply a_lookup_none_keys. intros I. exact (str_lt_irrefl _ (sorted_strict_head_min _ _ S1 _ I)). }
        assert (N2 : a_lookup k1 t2 = None).
        { apply a_lookup_none_keys. intros I. exact (str_lt_irrefl _ (sorted_strict_head_min _ _ S2 _ I)). }
        rewrite N1, N2. reflexivity.
      * specialize (H k). cbn in H. rewrite E in H. exact H.
Qed.

Section MapOrder.
  Variable X : Type.
  Variable f : X -> res node.

  Definition entry_storable (kx : str * X) : Prop :=
    fst kx <> ListSizeKeyName /\
    exists n, f (snd kx) = Ok n /\ fst kx <> [] /\
              forall v, n = Leaf v -> len (fst kx) <= MaxKeySize /\ len v <= MaxValueSize.

  Lemma place_ok_conditions k n b b' :
    place k n b = Ok b' -> k <> [] /\ forall v, n = Leaf v -> len k <= MaxKeySize /\ len v <= MaxValueSize.
  Proof.
    destruct n as [v|c]; cbn [place].
    - unfold b_put. destruct (len k =? 0) eqn:E0; [discriminate|].
      destruct (MaxKeySize <? len k) eqn:E1; [discriminate|]. destruct (MaxValueSize <? len v) eqn:E2; [discriminate|].
      intros _. split; [apply len_zero_iff; exact E0|]. intros v' Hv. inversion Hv; subst v'.
      apply N.ltb_ge in E1. apply N.ltb_ge in E2. split; assumption.
    - unfold b_put_bucket. destruct (len k =? 0) eqn:E0; [discriminate|].
      intros _. split; [apply len_zero_iff; exact E0|]. intros v' Hv. discriminate.
  Qed.

  Lemma place_fresh_storable k n b :
    k <> [] -> (forall v, n = Leaf v -> len k <= MaxKeySize /\ len v <= MaxValueSize) -> a_lookup k b = None ->
    place k n b = Ok (a_insert k n b).
  Proof.
    intros Hk Hleaf Hn. destruct n as [v|c].
    - destruct (Hleaf v eq_refl) as [H1 H2]. apply place_fresh; assumption.
    - cbn [place]. unfold b_put_bucket. rewrite (proj2 (len_zero_iff k) Hk), Hn. reflexivity.
  Qed.

  Lemma fill_map_storable : forall (m : list (str * X)) (acc c : bucket),
    fill_map f m acc = Ok c -> Forall entry_storable m.
  Proof.
    induction m as [|[k x] t IH]; intros acc c H; [constructor|].
    cbn [fill_map] in H. destruct (str_eqb k ListSizeKeyName) eqn:Em; [discriminate|]. apply str_eqb_neq in Em.
    destruct (f x) as [n| | |] eqn:Ef; cbn [bind] in H; try discriminate.
    destruct (place k n acc) as [acc1| | |] eqn:Ep; cbn [bind] in H; try discriminate.
    constructor; [|exact (IH _ _ H)].
    destruct (place_ok_conditions _ _ _ _ Ep) as [H1 H2]. split; [exact Em|]. exists n. cbn [fst snd].
    split; [exact Ef|]. split; [exact H1|]. exact H2.
  Qed.

  Lemma fill_map_sorted : forall (m : list (str * X)) (acc c : bucket),
    Sorted str_lt (a_keys acc) -> fill_map f m acc = Ok c -> Sorted str_lt (a_keys c).
  Proof.
    induction m as [|[k x] t IH]; intros acc c Hs H; cbn [fill_map] in H; [inversion H; subst; exact Hs|].
    destruct (str_eqb k ListSizeKeyName); [discriminate|].
    destruct (f x) as [n| | |] eqn:Ef; cbn [bind] in H; try discriminate.
    destruct (place k n acc) as [acc1| | |] eqn:Ep; cbn [bind] in H; try discriminate.
    apply (IH acc1 c); [|exact H]. rewrite (place_ok_insert _ _ _ _ Ep). apply a_insert_sorted. exact Hs.
  Qed.

  Lemma fill_map_lookup : forall (m : list (str * X)) (acc c : bucket),
    NoDup (map fst m) -> fill_map f m acc = Ok c ->
    (forall k x, In (k, x) m -> exists n, f x = Ok n /\ a_lookup k c = Some n) /\
    (forall k, ~ In k (map fst m) -> a_lookup k c = a_lookup k acc).
  Proof.
    induction m as [|[k x] t IH]; intros acc c Hnd H; cbn [fill_map] in H.
    - inversion H; subst. split; [intros k x [] | reflexivity].
    - destruct (str_eqb k ListSizeKeyName); [discriminate|].
      destruct (f x) as [n| | |] eqn:Ef; cbn [bind] in H; try discriminate.
      destruct (place k n acc) as [acc1| | |] eqn:Ep; cbn [bind] in H; try discriminate.
      cbn [map fst] in Hnd. inversion Hnd as [|? ? Hnotin Hnd']; subst.
      destruct (IH acc1 c Hnd' H) as [IH1 IH2]. split.
      + intros k' x' [E|Hin].
        * inversion E; subst k' x'. exists n. split; [exact Ef|].
          rewrite (IH2 k Hnotin). exact (place_lookup_same _ _ _ _ Ep).
        * exact (IH1 k' x' Hin).
      + intros k' Hk'. cbn [map fst In] in Hk'.
        rewrite IH2 by tauto. apply (place_lookup_other _ _ _ _ _ Ep). intros E. apply Hk'. left. congruence.
  Qed.

  Lemma fill_map_total : forall (m : list (str * X)) (acc : bucket),
    NoDup (map fst m) -> (forall k, In k (map fst m) -> a_lookup k acc = None) ->
    Forall entry_storable m -> exists c, fill_map f m acc = Ok c.
  Proof.
    induction m as [|[k x] t IH]; intros acc Hnd Hfresh Hst; [exists acc; reflexivity|].
    inversion Hst as [|? ? (Hm & n & Hf & Hk & Hleaf) Hst']; subst. cbn [fst snd] in *.
    cbn [map fst] in Hnd. inversion Hnd as [|? ? Hnotin Hnd']; subst.
    cbn [fill_map]. rewrite (proj2 (str_eqb_neq k ListSizeKeyName) Hm). rewrite Hf. cbn [bind].
    rewrite (place_fresh_storable k n acc Hk Hleaf) by (apply Hfresh; left; reflexivity). cbn [bind].
    apply IH; [exact Hnd' | | exact Hst'].
    intros k' Hk'. rewrite a_lookup_insert_other by (intros E; subst k'; contradiction).
    apply Hfresh. right. exact Hk'.
  Qed.

  Lemma fill_map_perm_ok (m m' : list (str * X)) (c : bucket) :
    NoDup (map fst m) -> Permutation m m' -> fill_map f m [] = Ok c -> fill_map f m' [] = Ok c.
  Proof.
    intros Hnd Hperm H.
    assert (Hnd' : NoDup (map fst m')) by (apply (Permutation_NoDup (Permutation_map fst Hperm)); exact Hnd).
    pose proof (fill_map_storable _ _ _ H) as Hst.
    assert (Hst' : Forall entry_storable m') by (apply (Permutation_Forall Hperm); exact Hst).
    destruct (fill_map_total m' [] Hnd' (fun _ _ => eq_refl) Hst') as (c' & Hc').
    rewrite Hc'. f_equal.
    destruct (fill_map_lookup _ _ _ Hnd H) as [L1 L2].
    destruct (fill_map_lookup _ _ _ Hnd' Hc') as [L1' L2'].
    apply sorted_assoc_ext.
    - apply (fill_map_sorted m' [] c'); [constructor | exact Hc'].
    - apply (fill_map_sorted m [] c); [constructor | exact H].
    - intros k. destruct (in_dec (list_eq_dec N.eq_dec) k (map fst m)) as [Hin|Hnin].
      + apply in_map_iff in Hin. destruct Hin as ([k0 x] & Hk0 & Hin). cbn in Hk0. subst k0.
        destruct (L1 k x Hin) as (n & Hn & Hl).
        destruct (L1' k x (Permutation_in _ Hperm Hin)) as (n' & Hn' & Hl').
        rewrite Hn in Hn'. inversion Hn'; subst n'. rewrite Hl, Hl'. reflexivity.
      + rewrite (L2 k Hnin).
        rewrite (L2' k); [reflexivity|]. intros Hin. apply Hnin.
        apply (Permutation_in _ (Permutation_sym (Permutation_map fst Hperm))). exact Hin.
  Qed.

  Lemma fill_map_perm (m m' : list (str * X)) :
    NoDup (map fst m) -> Permutation m m' -> forall c, fill_map f m [] = Ok c <-> fill_map f m' [] = Ok c.
  Proof.
    intros Hnd Hperm c. split.
    - apply fill_map_perm_ok; assumption.
    - apply fill_map_perm_ok; [|apply Permutation_sym; exact Hperm].
      apply (Permutation_NoDup (Permutation_map fst Hperm)). exact Hnd.
  Qed.
End MapOrder.

Lemma map_node_order_irrelevant (an : bool) (m m' : list (str * value)) :
  NoDup (map fst m) -> Permutation m m' -> forall n, map_node an m = Ok n <-> map_node an m' = Ok n.
Proof.
  intros Hnd Hperm n. unfold map_node.
  pose proof (fill_map_perm value (entry_node an) m m' Hnd Hperm) as H.
  split; intros E.
  - destruct (fill_map (entry_node an) m []) as [c| | |] eqn:Ec; cbn [bind] in E; try discriminate.
    rewrite (proj1 (H c) eq_refl). exact E.
  - destruct (fill_map (entry_node an) m' []) as [c| | |] eqn:Ec; cbn [bind] in E; try discriminate.
    rewrite (proj2 (H c) eq_refl). exact E.
Qed.
