(* Proofs about the compound-key codec (C13). *)
From Coq Require Import List NArith ZArith Bool Lia Arith.
From Storage Require Import Base.Bytes Codec.CodecBase Codec.Varint Codec.VarintProofs Codec.CompoundKey.
Import ListNotations.
Open Scope N_scope.
Ltac Zify.zify_post_hook ::= Z.to_euclidean_division_equations.

Definition within_limit (v : str) : Prop := len v <= MaxLinkedSetKeySize.

Lemma len_app a b : len (a ++ b) = len a + len b.
Proof. unfold len. rewrite app_length. lia. Qed.

Lemma int_of_uint64_small n : n < 2 ^ 63 -> int_of_uint64 n = Z.of_N n.
Proof.
  intros H. unfold int_of_uint64, to_signed.
  assert (2 ^ 63 < 2 ^ 64) by (apply N.pow_lt_mono_r; lia).
  rewrite N.mod_small by lia.
  change (64 - 1) with 63.
  replace (n <? 2 ^ 63) with true by (symmetry; apply N.ltb_lt; exact H). reflexivity.
Qed.

Lemma limit_lt_2_63 n : n <= MaxLinkedSetKeySize -> n < 2 ^ 63.
Proof.
  unfold MaxLinkedSetKeySize. intros H.
  assert (2 ^ 13 <= 2 ^ 63) by (apply N.pow_le_mono_r; lia). change (2 ^ 13) with 8192 in *. lia.
Qed.

(* DecodeNext returns the first component of an encoding and what follows it *)
Lemma decode_next_encoded (v rest : str) :
  within_limit v ->
  decode_next ((put_uvarint (len v) ++ v) ++ rest) = Ok (v, rest).
Proof.
  intros Hl. unfold within_limit in Hl. pose proof (limit_lt_2_63 _ Hl) as H63.
  assert (H64 : len v < 2 ^ 64).
  { assert (2 ^ 63 < 2 ^ 64) by (apply N.pow_lt_mono_r; lia). lia. }
  unfold decode_next. rewrite <- app_assoc. rewrite (uvarint_put _ _ H64).
  replace (MaxLinkedSetKeySize <? len v) with false by (symmetry; apply N.ltb_ge; exact Hl).
  unfold slice_from at 1.
  rewrite len_app.
  replace (len (put_uvarint (len v)) + len (v ++ rest) <? N.of_nat (length (put_uvarint (len v)))) with false
    by (symmetry; apply N.ltb_ge; unfold len; lia).
  rewrite Nat2N.id. cbn [bind].
  rewrite skipn_app, skipn_all, Nat.sub_diag. cbn [app skipn].
  rewrite int_of_uint64_small by exact H63.
  rewrite len_app.
  replace (Z.of_N (len v + len rest) <? Z.of_N (len v))%Z with false by (symmetry; apply Z.ltb_ge; lia).
  unfold slice_to, slice_from. rewrite len_app.
  replace (len v + len rest <? len v) with false by (symmetry; apply N.ltb_ge; lia).
  cbn [bind]. unfold len. rewrite Nat2N.id.
  rewrite firstn_app, firstn_all, Nat.sub_diag, skipn_app, skipn_all, Nat.sub_diag.
  cbn [firstn skipn app]. rewrite app_nil_r. reflexivity.
Qed.

Lemma encode_byte_slice_ok v e : encode_byte_slice v = Ok e -> within_limit v /\ e = put_uvarint (len v) ++ v.
Proof.
  unfold encode_byte_slice, within_limit. destruct (MaxLinkedSetKeySize <? len v) eqn:E; [discriminate|].
  apply N.ltb_ge in E. intros H; inversion H. split; [exact E | reflexivity].
Qed.

Lemma encode_byte_slice_within v : within_limit v -> encode_byte_slice v = Ok (put_uvarint (len v) ++ v).
Proof.
  unfold encode_byte_slice, within_limit. intros H.
  replace (MaxLinkedSetKeySize <? len v) with false by (symmetry; apply N.ltb_ge; exact H). reflexivity.
Qed.

Lemma encode_nonempty v e : encode_byte_slice v = Ok e -> e <> [].
Proof.
  intros H. apply encode_byte_slice_ok in H. destruct H as [_ ->].
  pose proof (put_uvarint_length (len v)).
  destruct (put_uvarint (len v)); cbn in *; [lia | discriminate].
Qed.

(* the encoder succeeds exactly on lists whose components respect the size limit *)
Lemma encode_ok_iff (l : list str) :
  (exists b, encode_string_slice l = Ok b) <-> Forall within_limit l.
Proof.
  induction l as [|v t IH]; cbn [encode_string_slice].
  - split; [constructor | eauto].
  - split.
    + intros [b Hb]. destruct (encode_byte_slice v) as [e| | |] eqn:Ee; cbn [bind] in Hb; try discriminate.
      destruct (encode_string_slice t) as [r| | |] eqn:Er; cbn [bind] in Hb; try discriminate.
      constructor; [apply (encode_byte_slice_ok _ _ Ee) | apply IH; eauto].
    + intros H. inversion H as [|? ? Hv Ht]; subst.
      rewrite (encode_byte_slice_within _ Hv). cbn [bind].
      apply IH in Ht. destruct Ht as [r ->]. cbn [bind]. eauto.
Qed.

Lemma encode_not_ok_err (l : list str) : encode_string_slice l <> Panic /\ encode_string_slice l <> OutOfFuel.
Proof.
  induction l as [|v t [IH1 IH2]]; cbn [encode_string_slice]; [split; discriminate|].
  unfold encode_byte_slice. destruct (MaxLinkedSetKeySize <? len v); cbn [bind]; [split; discriminate|].
  destruct (encode_string_slice t); cbn [bind]; split; try discriminate; congruence.
Qed.

Lemma decode_go_encoded : forall (l : list str) (b : str) (fuel : nat),
  encode_string_slice l = Ok b -> (length b <= fuel)%nat -> decode_go fuel b = Ok l.
Proof.
  induction l as [|v t IH]; intros b fuel He Hf; cbn [encode_string_slice] in He.
  - inversion He; subst b. destruct fuel; reflexivity.
  - destruct (encode_byte_slice v) as [e| | |] eqn:Ee; cbn [bind] in He; try discriminate.
    destruct (encode_string_slice t) as [r| | |] eqn:Er; cbn [bind] in He; try discriminate.
    inversion He; subst b. clear He.
    pose proof (encode_nonempty _ _ Ee) as Hne.
    destruct (encode_byte_slice_ok _ _ Ee) as [Hl ->].
    destruct ((put_uvarint (len v) ++ v) ++ r) as [|c0 rest0] eqn:Eb.
    { apply app_eq_nil in Eb. destruct Eb; contradiction. }
    destruct fuel as [|f]; [cbn [length] in Hf; lia|].
    cbn [decode_go]. rewrite <- Eb. rewrite (decode_next_encoded _ _ Hl). cbn [bind fst snd].
    rewrite (IH r f eq_refl).
    + reflexivity.
    + assert (length ((put_uvarint (len v) ++ v) ++ r) = length (c0 :: rest0)) by (rewrite Eb; reflexivity).
      rewrite !app_length in H. pose proof (put_uvarint_length (len v)). cbn [length] in H, Hf. lia.
Qed.

(* decode (encode l) = l *)
Lemma compound_key_roundtrip_lemma (l : list str) :
  Forall within_limit l ->
  exists b, encode_string_slice l = Ok b /\ decode_string_slice b = Ok l.
Proof.
  intros H. apply encode_ok_iff in H. destruct H as [b Hb].
  exists b. split; [exact Hb|]. unfold decode_string_slice. apply (decode_go_encoded _ _ _ Hb). lia.
Qed.

(* distinct lists never share an encoding *)
Lemma compound_key_injective_lemma (l1 l2 : list str) (b : str) :
  encode_string_slice l1 = Ok b -> encode_string_slice l2 = Ok b -> l1 = l2.
Proof.
  intros H1 H2.
  assert (D1 : decode_string_slice b = Ok l1) by (unfold decode_string_slice; apply (decode_go_encoded _ _ _ H1); lia).
  assert (D2 : decode_string_slice b = Ok l2) by (unfold decode_string_slice; apply (decode_go_encoded _ _ _ H2); lia).
  rewrite D1 in D2. inversion D2. reflexivity.
Qed.

(* DecodeNext never panics, and consumes at least one byte when it succeeds *)
Lemma decode_next_cases (val : str) :
  match decode_next val with
  | Err => True
  | Ok (next, rest) => (length rest < length val)%nat /\ within_limit next /\ exists head, val = head ++ next ++ rest
  | Panic => False
  | OutOfFuel => False
  end.
Proof.
  unfold decode_next. destruct (uvarint val) as [keyLen read| |] eqn:Eu; [|exact I|exact I].
  destruct (uvarint_bounds _ _ _ Eu) as [[Hr1 Hr2] H64].
  destruct (MaxLinkedSetKeySize <? keyLen) eqn:Elim; [exact I|].
  apply N.ltb_ge in Elim.
  unfold slice_from at 1.
  replace (len val <? N.of_nat read) with false by (symmetry; apply N.ltb_ge; unfold len; lia).
  cbn [bind]. rewrite Nat2N.id.
  rewrite int_of_uint64_small by (apply limit_lt_2_63; exact Elim).
  destruct (Z.of_N (len (skipn read val)) <? Z.of_N keyLen)%Z eqn:Ecmp; [exact I|].
  apply Z.ltb_ge in Ecmp.
  unfold slice_to, slice_from.
  replace (len (skipn read val) <? keyLen) with false by (symmetry; apply N.ltb_ge; lia).
  cbn [bind].
  assert (Hsk : length (skipn read val) = (length val - read)%nat) by apply skipn_length.
  split; [rewrite skipn_length; lia|].
  split.
  - unfold within_limit, len. rewrite firstn_length. unfold len in Ecmp. lia.
  - exists (firstn read val). rewrite firstn_skipn. rewrite firstn_skipn. reflexivity.
Qed.

Lemma decode_next_total (val : str) :
  decode_next val = Err \/
  exists next rest, decode_next val = Ok (next, rest) /\ (length rest < length val)%nat /\ within_limit next
                    /\ exists head, val = head ++ next ++ rest.
Proof.
  pose proof (decode_next_cases val) as H.
  destruct (decode_next val) as [[next rest]| | |]; [|left; reflexivity|contradiction|contradiction].
  right. exists next, rest. destruct H as (H1 & H2 & H3). repeat split; assumption.
Qed.

Lemma decode_go_total : forall (fuel : nat) (key : str),
  (length key <= fuel)%nat ->
  decode_go fuel key = Err \/ exists l, decode_go fuel key = Ok l /\ Forall within_limit l.
Proof.
  induction fuel as [|f IH]; intros key Hf.
  - destruct key; [right; exists []; split; [reflexivity|constructor] | cbn [length] in Hf; lia].
  - destruct key as [|c k]; [right; exists []; split; [reflexivity|constructor]|].
    cbn [decode_go].
    destruct (decode_next_total (c :: k)) as [E|(next & rest & E & Hlt & Hlim & _)]; rewrite E; cbn [bind fst snd].
    + left; reflexivity.
    + destruct (IH rest) as [E2|(l & E2 & Hl)]; [cbn [length] in *; lia| |]; rewrite E2; cbn [bind].
      * left; reflexivity.
      * right. exists (next :: l). split; [reflexivity | constructor; assumption].
Qed.

(* DecodeStringSlice on arbitrary bytes: a list or an error, never a panic, and the loop ends *)
Lemma decode_total_lemma (key : str) :
  decode_string_slice key = Err \/
  exists l, decode_string_slice key = Ok l /\ Forall within_limit l.
Proof. unfold decode_string_slice. apply decode_go_total. lia. Qed.
