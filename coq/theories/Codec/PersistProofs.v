(* Proofs about field-checker restricted persists through PersistContext and the contexts
   derived from it (C13): a restricted persist over a chain of stores touches exactly the
   selected fields of every store of the chain. *)
From Coq Require Import List NArith ZArith Bool Lia Arith.
From Storage Require Import Base.Bytes Codec.CodecBase Codec.FieldCodec Codec.StrOrderProofs
  Codec.Containers Codec.ContainersProofs Codec.Persist.
Import ListNotations.
Open Scope N_scope.

(* ---- key paths ---------------------------------------------------------------------------------- *)
Lemma is_prefix_nil_r p : is_prefix p [] = true -> p = [].
Proof. destruct p; [reflexivity | discriminate]. Qed.

Lemma comparable_nil_l w : comparable [] w = true.
Proof. reflexivity. Qed.

Lemma comparable_cons_same k a w : comparable (k :: a) (k :: w) = comparable a w.
Proof. unfold comparable. cbn [is_prefix]. rewrite str_eqb_refl. reflexivity. Qed.

Lemma comparable_single k a name : comparable (k :: a) [name] = false -> k <> name.
Proof.
  unfold comparable. cbn [is_prefix]. intros H E. subst k. rewrite str_eqb_refl in H.
  cbn in H. rewrite orb_true_r in H. discriminate.
Qed.

(* ---- a write inside a sub-bucket --------------------------------------------------------------- *)
Lemma at_path_ext p f g b : (forall x, f x = g x) -> at_path p f b = at_path p g b.
Proof.
  intros E. revert b. induction p as [|k t IH]; intros b; cbn [at_path]; [apply E|].
  destruct (a_lookup k b) as [[v|c]|]; try reflexivity. rewrite IH. reflexivity.
Qed.

(* a function on buckets that leaves every key but [name] alone, applied at path q, leaves every
   node alone that neither contains nor is contained in the node q/name *)
Lemma at_path_frame (f : bucket -> res bucket) (name : str) :
  (forall x x' k, f x = Ok x' -> k <> name -> a_lookup k x' = a_lookup k x) ->
  forall q b b' a,
    at_path q f b = Ok b' -> comparable a (q ++ [name]) = false ->
    node_at a (Sub b') = node_at a (Sub b).
Proof.
  intros Hf. induction q as [|k0 q IH]; intros b b' a H Hc.
  - cbn [at_path] in H. cbn [app] in Hc. destruct a as [|k t]; [discriminate|].
    pose proof (comparable_single _ _ _ Hc) as Hne. cbn [node_at].
    rewrite (Hf _ _ _ H Hne). reflexivity.
  - cbn [at_path] in H. destruct (a_lookup k0 b) as [[v|c]|] eqn:El; try discriminate.
    destruct (at_path q f c) as [c'| | |] eqn:Ec; cbn [bind] in H; try discriminate.
    inversion H; subst b'; clear H.
    destruct a as [|k t]; [discriminate|]. cbn [node_at].
    destruct (str_eqb k k0) eqn:Ek.
    + apply str_eqb_eq in Ek. subst k. cbn [app] in Hc. rewrite comparable_cons_same in Hc.
      rewrite a_lookup_insert_same, El.
      exact (IH c c' t Ec Hc).
    + apply str_eqb_neq in Ek. rewrite (a_lookup_insert_other k0 k (Sub c') b Ek). reflexivity.
Qed.

Lemma apply_write_frame w b b' a :
  apply_write w b = Ok b' -> (w_proceeds w = true -> comparable a (w_addr w) = false) ->
  node_at a (Sub b') = node_at a (Sub b).
Proof.
  unfold apply_write. destruct (w_proceeds w) eqn:Hp; intros H Hc.
  - refine (at_path_frame _ (op_name (w_op w)) _ _ _ _ _ H (Hc eq_refl)).
    intros x x' k Hx Hk. exact (apply_op_frame _ _ _ _ _ Hx Hk).
  - inversion H. reflexivity.
Qed.

(* a sequence of setter calls, each in its bucket under its checker, leaves alone every node
   that no proceeding call's field contains or lies in *)
Lemma apply_writes_frame : forall ws b b' a,
  apply_writes ws b = Ok b' ->
  (forall w, In w ws -> w_proceeds w = true -> comparable a (w_addr w) = false) ->
  node_at a (Sub b') = node_at a (Sub b).
Proof.
  induction ws as [|w t IH]; intros b b' a H Hc; cbn [apply_writes] in H.
  - inversion H. reflexivity.
  - destruct (apply_write w b) as [b1| | |] eqn:E1; cbn [bind] in H; try discriminate.
    rewrite (IH b1 b' a H) by (intros w' Hin; apply Hc; right; exact Hin).
    apply (apply_write_frame _ _ _ _ E1). apply Hc. left. reflexivity.
Qed.

(* ... and is the unrestricted sequence of the calls that proceed *)
Lemma w_proceeds_unrestrict w : w_proceeds (unrestrict w) = true.
Proof. unfold w_proceeds, unrestrict. cbn. apply op_proceeds_nil. Qed.

Lemma apply_write_unrestrict w b : w_proceeds w = true -> apply_write w b = apply_write (unrestrict w) b.
Proof.
  intros Hp. unfold apply_write. rewrite Hp, w_proceeds_unrestrict. unfold unrestrict. cbn.
  apply at_path_ext. intros x. apply apply_op_unrestricted. exact Hp.
Qed.

Lemma apply_writes_filter : forall ws b,
  apply_writes ws b = apply_writes (map unrestrict (filter w_proceeds ws)) b.
Proof.
  induction ws as [|w t IH]; intros b; [reflexivity|].
  cbn [apply_writes filter]. destruct (w_proceeds w) eqn:Hp.
  - cbn [map apply_writes]. rewrite (apply_write_unrestrict _ _ Hp).
    destruct (apply_write (unrestrict w) b); cbn [bind]; try reflexivity. apply IH.
  - unfold apply_write at 1. rewrite Hp. cbn [bind]. apply IH.
Qed.

(* ---- programs over contexts ------------------------------------------------------------------------ *)
Lemma run_is_trace : forall ch prog cs b cs' b',
  run ch prog cs b = Ok (cs', b') -> apply_writes (trace ch prog cs) b = Ok b'.
Proof.
  induction prog as [|st t IH]; intros cs b cs' b' H; cbn [run] in H.
  - inversion H. reflexivity.
  - destruct st as [s o|s|s m]; cbn [step trace] in *.
    + destruct (cs s) as [c|]; [|discriminate].
      cbn [apply_writes].
      destruct (apply_write (ctx_write ch c o) b) as [b1| | |]; cbn [bind] in *; try discriminate.
      * exact (IH _ _ _ _ H).
      * destruct (after_error ch t cs b); discriminate.
    + destruct (cs s) as [c|]; [|discriminate].
      destruct (Nat.ltb (S (pc_level c)) (length ch)); [|discriminate].
      destruct (get_path (level_path ch (S (pc_level c))) b); [|discriminate].
      cbn [fst snd] in H. exact (IH _ _ _ _ H).
    + destruct (cs s) as [c|]; [|discriminate].
      cbn [fst snd] in H. exact (IH _ _ _ _ H).
Qed.

Lemma run_frame ch prog cs b cs' b' a :
  run ch prog cs b = Ok (cs', b') ->
  (forall w, In w (trace ch prog cs) -> w_proceeds w = true -> comparable a (w_addr w) = false) ->
  node_at a (Sub b') = node_at a (Sub b).
Proof. intros H. exact (apply_writes_frame _ _ _ _ (run_is_trace _ _ _ _ _ _ H)). Qed.

(* contexts derived by GetParentContext alone carry the checker (and IsCreate, Id) of the context
   the store built *)
Definition slots_carry (c0 : checker) (cr : bool) (id : str) (cs : slots) : Prop :=
  forall s c, cs s = Some c -> pc_checker c = c0 /\ pc_create c = cr /\ pc_id c = id.

Lemma slots_carry_upd c0 cr id cs s c :
  slots_carry c0 cr id cs -> pc_checker c = c0 /\ pc_create c = cr /\ pc_id c = id ->
  slots_carry c0 cr id (upd cs s c).
Proof.
  intros Hcs Hc s' c'. unfold upd. destruct (Nat.eqb s' s).
  - intros E. inversion E. subst c'. exact Hc.
  - apply Hcs.
Qed.

Lemma trace_carries : forall ch prog cs c0 cr id,
  forallb (fun st => negb (is_override st)) prog = true ->
  slots_carry c0 cr id cs ->
  Forall (fun w => w_checker w = c0) (trace ch prog cs).
Proof.
  induction prog as [|st t IH]; intros cs c0 cr id Hno Hcs; cbn [trace]; [constructor|].
  cbn [forallb] in Hno. apply andb_true_iff in Hno. destruct Hno as [Hst Hno].
  destruct st as [s o|s|s m]; cbn in Hst; try discriminate.
  - destruct (cs s) as [c|] eqn:Es; [|constructor]. constructor.
    + cbn. exact (proj1 (Hcs s c Es)).
    + exact (IH cs c0 cr id Hno Hcs).
  - destruct (cs s) as [c|] eqn:Es; [|constructor].
    apply (IH _ c0 cr id Hno). apply slots_carry_upd; [exact Hcs|].
    cbn. exact (Hcs s c Es).
Qed.

Lemma init_slots_carry c0 cr id : slots_carry c0 cr id (init_slots (mk_pctx 0 c0 cr id)).
Proof.
  intros s c. unfold init_slots. destruct s; [|discriminate].
  intros E. inversion E. cbn. repeat split.
Qed.

(* ---- one persist -------------------------------------------------------------------------------------- *)
Lemma persist_inv ch c cr id prog b b' :
  persist ch c cr id prog b = Ok b' ->
  exists b0 cs', (if cr then ensure_path (level_path ch 0) b else Ok b) = Ok b0 /\
                 run ch prog (init_slots (mk_pctx 0 c cr id)) b0 = Ok (cs', b').
Proof.
  unfold persist. intros H.
  destruct (if cr then ensure_path (level_path ch 0) b else Ok b) as [b0| | |] eqn:E0; cbn [bind] in H; try discriminate.
  destruct (get_path (level_path ch 0) b0); [|discriminate].
  destruct (run ch prog (init_slots (mk_pctx 0 c cr id)) b0) as [[cs' bz]| | |] eqn:Er; cbn [bind snd] in H; try discriminate.
  inversion H; subst bz. exists b0, cs'. split; [reflexivity | exact Er].
Qed.

(* GetOrCreatePath only adds empty buckets along the path: a node off the path is untouched *)
Lemma ensure_path_frame : forall p b b' a,
  ensure_path p b = Ok b' -> is_prefix a p = false -> node_at a (Sub b') = node_at a (Sub b).
Proof.
  induction p as [|k0 p IH]; intros b b' a H Ha; cbn [ensure_path] in H.
  - inversion H. reflexivity.
  - destruct (len k0 =? 0); [discriminate|].
    destruct a as [|k t]; [discriminate|]. cbn [is_prefix] in Ha. cbn [node_at].
    destruct (str_eqb k k0) eqn:Ek.
    + apply str_eqb_eq in Ek. subst k. cbn [andb] in Ha.
      destruct (a_lookup k0 b) as [[v|c]|] eqn:El; try discriminate.
      * destruct (ensure_path p c) as [c'| | |] eqn:Ec; cbn [bind] in H; try discriminate.
        inversion H; subst b'. rewrite a_lookup_insert_same.
        exact (IH c c' t Ec Ha).
      * destruct (ensure_path p []) as [c'| | |] eqn:Ec; cbn [bind] in H; try discriminate.
        inversion H; subst b'. rewrite a_lookup_insert_same.
        rewrite (IH [] c' t Ec Ha). destruct t as [|k1 t1]; [cbn in Ha; discriminate | reflexivity].
    + apply str_eqb_neq in Ek.
      destruct (a_lookup k0 b) as [[v|c]|] eqn:El; try discriminate.
      * destruct (ensure_path p c) as [c'| | |]; cbn [bind] in H; try discriminate.
        inversion H; subst b'. rewrite (a_lookup_insert_other k0 k (Sub c') b Ek). reflexivity.
      * destruct (ensure_path p []) as [c'| | |]; cbn [bind] in H; try discriminate.
        inversion H; subst b'. rewrite (a_lookup_insert_other k0 k (Sub c') b Ek). reflexivity.
Qed.

(* a persist under a checker leaves every node of the bucket tree alone that no proceeding setter
   call's field contains or lies in - whichever context of the chain the calls go through; a
   Create may besides make the (empty) buckets on the way to the store's entity bucket *)
Lemma persist_frame_lemma ch c cr id prog b b' a :
  persist ch c cr id prog b = Ok b' ->
  (cr = true -> is_prefix a (level_path ch 0) = false) ->
  (forall w, In w (persist_trace ch c cr id prog) -> w_proceeds w = true -> comparable a (w_addr w) = false) ->
  node_at a (Sub b') = node_at a (Sub b).
Proof.
  intros H Hcr Hc. destruct (persist_inv _ _ _ _ _ _ _ H) as (b0 & cs' & E0 & Er).
  rewrite (run_frame _ _ _ _ _ _ a Er Hc).
  destruct cr.
  - exact (ensure_path_frame _ _ _ _ E0 (Hcr eq_refl)).
  - inversion E0. reflexivity.
Qed.

Lemma persist_selected_lemma ch prog cs b cs' b' :
  run ch prog cs b = Ok (cs', b') ->
  apply_writes (map unrestrict (filter w_proceeds (trace ch prog cs))) b = Ok b'.
Proof. intros H. rewrite <- apply_writes_filter. exact (run_is_trace _ _ _ _ _ _ H). Qed.

Lemma derived_contexts_share_checker_lemma ch c cr id prog :
  forallb (fun st => negb (is_override st)) prog = true ->
  Forall (fun w => w_checker w = c) (persist_trace ch c cr id prog).
Proof. intros Hno. exact (trace_carries ch prog _ c cr id Hno (init_slots_carry c cr id)). Qed.

(* without WithFieldOverrides the checker the store was given decides for every context *)
Lemma restricted_persist_frame_lemma ch c cr id prog b b' a :
  forallb (fun st => negb (is_override st)) prog = true ->
  persist ch c cr id prog b = Ok b' ->
  (cr = true -> is_prefix a (level_path ch 0) = false) ->
  (forall w, In w (persist_trace ch c cr id prog) -> op_proceeds c (w_op w) = true -> comparable a (w_addr w) = false) ->
  node_at a (Sub b') = node_at a (Sub b).
Proof.
  intros Hno H Hcr Hc. apply (persist_frame_lemma _ _ _ _ _ _ _ _ H Hcr).
  intros w Hin Hp. apply (Hc w Hin).
  pose proof (derived_contexts_share_checker_lemma ch c cr id prog Hno) as Hall.
  rewrite Forall_forall in Hall. unfold w_proceeds in Hp. rewrite (Hall w Hin) in Hp. exact Hp.
Qed.
