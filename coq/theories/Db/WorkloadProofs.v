(* C18: the store family a reader addresses (its place in the database) is not an input of the
   serial answer - what Db/Mvcc.v proves for any query type therefore holds for placed queries with
   the answers of the unplaced ones. *)
From Coq Require Import List NArith ZArith Bool.
From Storage Require Import Base.Bytes Db.Mvcc Db.Workload.

Lemma eval_placed_place_irrelevant : forall (d1 d2 : nat) (q : query) (s : wstate),
  eval_placed (d1, q) s = eval_placed (d2, q) s.
Proof. intros. reflexivity. Qed.

Lemma eval_placed_is_eval_query : forall (d : nat) (q : query) (s : wstate),
  eval_placed (d, q) s = eval_query q s.
Proof. intros. reflexivity. Qed.
