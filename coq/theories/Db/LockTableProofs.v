From Coq Require Import List String Bool Arith Lia.
From Storage Require Import Db.RwLock Db.RwLockProofs Db.LockTable.
Import ListNotations.

Lemma fn_plan_plain : forall f, no_acquisition f = true -> fn_plan f = [TStep].
Proof. intros f H. unfold fn_plan, no_acquisition in *. destruct (lf_in_tx f); [reflexivity|discriminate]. Qed.

Lemma body_plan_steps : forall t calls, reentrant_free t = true -> (forall f, In f calls -> In f t) ->
  forallb is_tstep (body_plan calls) = true.
Proof.
  intros t calls Ht. unfold reentrant_free in Ht. rewrite forallb_forall in Ht.
  induction calls as [|f r IH]; intro Hin; [reflexivity|].
  unfold body_plan. simpl. rewrite forallb_app. apply andb_true_iff. split.
  - rewrite fn_plan_plain; [reflexivity|]. apply Ht. apply Hin. now left.
  - apply IH. intros g Hg. apply Hin. now right.
Qed.

Lemma forall_initial_app : forall a b, Forall initial_thread a -> Forall initial_thread b -> Forall initial_thread (a ++ b).
Proof. intros a b Ha Hb. apply Forall_app. now split. Qed.

(* Whatever transaction bodies are composed of calls of the table's functions, with any number of
   restores, under either lock preference and every schedule: if no row acquires the lock on the
   in-transaction path, the system never reaches a state in which unfinished threads all wait. *)
Lemma reentrant_free_no_deadlock_lemma : forall (t : list lockfn), reentrant_free t = true ->
  forall (p : bool) (bodies : list (list lockfn)) (nrestore : nat) (sched : list nat),
  (forall b f, In b bodies -> In f b -> In f t) ->
  let ths := (map tx_thread bodies ++ repeat (Restorer RIdle) nrestore)%list in
  let s := run (init p ths) sched in
  forallb finished (threads s) = true \/ exists i, step s i <> s.
Proof.
  intros t Ht p bodies nrestore sched Hin ths s.
  apply no_deadlock_lemma.
  - subst ths. apply forall_initial_app.
    + apply Forall_forall. intros th Hth. apply in_map_iff in Hth. destruct Hth as [b [<- _]]. exact I.
    + apply Forall_forall. intros th Hth. apply repeat_spec in Hth. subst th. exact I.
  - subst ths. rewrite forallb_app. apply andb_true_iff. split.
    + apply forallb_forall. intros th Hth. apply in_map_iff in Hth. destruct Hth as [b [<- Hb]].
      simpl. apply (body_plan_steps t b Ht). intros f Hf. exact (Hin b f Hb Hf).
    + apply forallb_forall. intros th Hth. apply repeat_spec in Hth. subst th. reflexivity.
Qed.

(* a row that does acquire the lock: the transaction "call it once" against one restore has a
   reachable state in which nobody can move - the counter-example of RwLockProofs, read as a table row *)
Definition reentrant_row : lockfn := {| lf_name := "joining call that locks again"; lf_in_tx := ["RLock"%string] |}.

Lemma reentrant_row_deadlocks_lemma :
  reentrant_free [reentrant_row] = false /\
  let s := run (init true [tx_thread [reentrant_row]; Restorer RIdle]) [0; 0; 1] in
  forallb finished (threads s) = false /\ forall i, step s i = s.
Proof. split; [reflexivity|]. exact recursive_rlock_deadlocks_lemma. Qed.

(* the schedule of the harness: with a plain row it always finishes, the final reader sees the restored
   file exactly when a restore ran, and the transaction saw all its steps *)
Lemma lock_scenario_plain_examples :
  lock_scenario plain_row 3 1 true = Some (1, 3) /\ lock_scenario plain_row 3 0 false = Some (0, 3)
  /\ lock_scenario plain_row 1 0 true = Some (1, 1) /\ lock_scenario reentrant_row 3 1 true = None.
Proof. vm_compute. repeat split. Qed.
