(* C18, second half: which package-level variables the exported helpers touch.
   The table itself (Gen/GenAccess.v) is regenerated from the Go source on every run by
   translators/access; this file is the generic theory about any such table. *)
From Coq Require Import List String Bool.
Import ListNotations.

Inductive akind := ARead | AWrite.

Record access := {
  a_loc : string;     (* a shared location (rules: translators/access/main.go):
                         "pkg.name"          a package-level variable
                         "*pkg.name"         the object a package-level variable points to, once a helper hands
                                             that object out to its callers and its type has mutating methods
                         "pkg.Type.field"    a field of a shared receiver type (the store), one location per type
                         "<location>[*]"     the values stored in a synchronised container at <location>, when a
                                             helper stores a value of a type with mutating methods there
                         "pkg.F$v"           variable v of function F, captured by a function literal that F stores in
                                             a struct field (the literal outlives the call: all its invocations share v)
                         "<location>[spare capacity]"  the part of the array behind the slice at <location> (a field,
                                             a package-level or a captured variable) beyond its length: written by an
                                             append on that slice whose result does not go back to it *)
  a_kind : akind;
  a_sync : bool;      (* sync.Pool / sync.Once / atomic / mutex guarded *)
  a_via : string      (* function in which the access occurs (diagnostics) *)
}.

Record helper := { h_name : string; h_acc : list access }.

Definition is_write (k : akind) : bool := match k with AWrite => true | ARead => false end.
Definition unsync (a : access) : bool := negb (a_sync a).
Definition unsync_write (a : access) : bool := unsync a && is_write (a_kind a).

(* an invocation of h1 and a concurrent invocation of h2 (possibly the same helper): an
   unsynchronised write of the first meets an unsynchronised access of the second on one location *)
Definition conflict (h1 h2 : helper) : bool :=
  existsb (fun a => unsync_write a && existsb (fun b => unsync b && String.eqb (a_loc a) (a_loc b)) (h_acc h2)) (h_acc h1).

Definition no_conflict (t : list helper) : bool :=
  forallb (fun h1 => forallb (fun h2 => negb (conflict h1 h2)) t) t.

Definition has_helper (t : list helper) (n : string) : bool := existsb (fun h => String.eqb (h_name h) n) t.

(* the first conflict, for the failing-schedule search of the check *)
Definition conflicts (t : list helper) : list (string * string * string) :=
  flat_map (fun h1 => flat_map (fun h2 =>
    flat_map (fun a => if unsync_write a && existsb (fun b => unsync b && String.eqb (a_loc a) (a_loc b)) (h_acc h2)
                       then [(h_name h1, h_name h2, a_loc a)] else []) (h_acc h1)) t) t.
