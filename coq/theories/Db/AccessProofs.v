From Coq Require Import List String Bool.
From Storage Require Import Db.Access.
Import ListNotations.

(* what the boolean check means: any two unsynchronised accesses to one location, by any two
   invocations of helpers of the table, are both reads *)
Lemma no_conflict_sound : forall t, no_conflict t = true ->
  forall h1 h2, In h1 t -> In h2 t ->
  forall a b, In a (h_acc h1) -> In b (h_acc h2) ->
    a_loc a = a_loc b -> a_sync a = false -> a_sync b = false ->
    a_kind a = ARead /\ a_kind b = ARead.
Proof.
  intros t H h1 h2 Hin1 Hin2 a b Ha Hb Hloc Hsa Hsb.
  unfold no_conflict in H. rewrite forallb_forall in H.
  assert (C12 : conflict h1 h2 = false).
  { pose proof (H h1 Hin1) as H1. rewrite forallb_forall in H1. apply negb_true_iff. now apply H1. }
  assert (C21 : conflict h2 h1 = false).
  { pose proof (H h2 Hin2) as H2. rewrite forallb_forall in H2. apply negb_true_iff. now apply H2. }
  assert (K : forall x y hx hy, In x (h_acc hx) -> In y (h_acc hy) -> conflict hx hy = false ->
              a_loc x = a_loc y -> a_sync x = false -> a_sync y = false -> a_kind x = ARead).
  { intros x y hx hy Hx Hy C Hl Hsx Hsy. destruct (a_kind x) eqn:Ek; [reflexivity|]. exfalso.
    unfold conflict in C.
    assert (E : existsb (fun a0 => unsync_write a0 && existsb (fun b0 => unsync b0 && String.eqb (a_loc a0) (a_loc b0)) (h_acc hy)) (h_acc hx) = true).
    { apply existsb_exists. exists x. split; [exact Hx|].
      unfold unsync_write, unsync. rewrite Hsx, Ek. simpl.
      apply existsb_exists. exists y. split; [exact Hy|].
      unfold unsync. rewrite Hsy. simpl. apply String.eqb_eq. exact Hl. }
    rewrite E in C. discriminate. }
  split.
  - exact (K a b h1 h2 Ha Hb C12 Hloc Hsa Hsb).
  - exact (K b a h2 h1 Hb Ha C21 (eq_sym Hloc) Hsb Hsa).
Qed.
