(* Proofs about Db/RestoreJoin.v: restore listeners that use the database never block the restore
   or each other - because the restore does not wait for them under the lock. *)
From Coq Require Import List Bool Arith Lia.
From Storage Require Import Db.RwLock Db.RwLockProofs Db.RestoreJoin.
Import ListNotations.

Lemma nth_existsb : forall {A} (f : A -> bool) l i t, nth_error l i = Some t -> f t = true -> existsb f l = true.
Proof. intros A f l i t Hi Ht. apply existsb_exists. exists t. split; [eapply nth_error_In; eauto|exact Ht]. Qed.

Lemma thread_step_shape : forall s t t' c' g', thread_step s t = Some (t', c', g') ->
  is_tx t' = is_tx t /\ (reopened t = true -> reopened t' = true).
Proof.
  intros s t t' c' g' H. destruct t as [pc plan inner b seen|pc]; simpl in H.
  - assert (E : is_tx t' = true).
    { destruct pc.
      + destruct (can_rlock s); inversion H; reflexivity.
      + inversion H; reflexivity.
      + destruct plan as [|[| |] r]; try (inversion H; reflexivity).
        destruct (can_rlock s); inversion H; reflexivity.
      + inversion H; reflexivity.
      + discriminate. }
    split; [exact E|intro C; discriminate].
  - destruct pc; simpl in H; try discriminate; try (destruct (can_wlock s); [|discriminate]);
      inversion H; subst; (split; [reflexivity|simpl; intro C; try discriminate; reflexivity]).
Qed.

(* a step changes thread i only, keeps it a transaction / a restorer, and a reopened restorer stays so *)
Lemma step_thread : forall s i j t', nth_error (threads (step s i)) j = Some t' ->
  exists t, nth_error (threads s) j = Some t /\ is_tx t' = is_tx t /\ (reopened t = true -> reopened t' = true)
            /\ (j <> i -> t' = t).
Proof.
  intros s i j t' H. unfold step in H.
  destruct (nth_error (threads s) i) as [t|] eqn:Hi.
  2:{ exists t'. repeat split; auto. }
  destruct (thread_step s t) as [[[t1 c1] g1]|] eqn:Hs.
  2:{ exists t'. repeat split; auto. }
  simpl in H. destruct (Nat.eq_dec j i) as [E|E].
  - subst j. rewrite (nth_set_nth_same _ _ _ _ Hi) in H. inversion H; subst t1.
    destruct (thread_step_shape _ _ _ _ _ Hs) as [S1 S2]. exists t. repeat split; auto. intro C; contradiction.
  - rewrite nth_set_nth_other in H by (intro C; apply E; now symmetry). exists t'. repeat split; auto.
Qed.

Lemma step_thread_back : forall s i j t, nth_error (threads s) j = Some t ->
  exists t', nth_error (threads (step s i)) j = Some t' /\ is_tx t' = is_tx t /\ (reopened t = true -> reopened t' = true).
Proof.
  intros s i j t H. unfold step.
  destruct (nth_error (threads s) i) as [ti|] eqn:Hi.
  2:{ exists t. repeat split; auto. }
  destruct (thread_step s ti) as [[[t1 c1] g1]|] eqn:Hs.
  2:{ exists t. repeat split; auto. }
  simpl. destruct (Nat.eq_dec j i) as [E|E].
  - subst j. rewrite Hi in H. inversion H; subst ti.
    rewrite (nth_set_nth_same _ _ _ _ Hi). destruct (thread_step_shape _ _ _ _ _ Hs) as [S1 S2].
    exists t1. repeat split; auto.
  - rewrite nth_set_nth_other by (intro C; apply E; now symmetry). exists t. repeat split; auto.
Qed.

Lemma gate_stays_open : forall s i, gate_closed s = false -> gate_closed (step s i) = false.
Proof.
  intros s i H. unfold gate_closed in *. apply negb_false_iff in H. apply negb_false_iff.
  destruct (existsb_true_nth _ _ H) as [j [t [Hj Ht]]].
  destruct (step_thread_back s i j t Hj) as [t' [Hj' [_ Hr]]].
  eapply nth_existsb; [exact Hj'|now apply Hr].
Qed.

(* without the join, a step of the system with listeners is a step of the lock protocol or nothing *)
Lemma jstep_false : forall ls s i, jstep false ls s i = s \/ jstep false ls s i = step s i.
Proof.
  intros ls s i. unfold jstep. destruct (nth_error (threads s) i) as [t|] eqn:Hi.
  - destruct (is_listener ls i && is_tx t && gate_closed s); [left; reflexivity|].
    right. destruct t as [pc plan inner b seen|pc]; [reflexivity|destruct pc; reflexivity].
  - left. reflexivity.
Qed.

Lemma jrun_is_run_lemma : forall ls sched s, exists sched', jrun false ls s sched = run s sched'.
Proof.
  intros ls. induction sched as [|i r IH]; intro s.
  - exists []. reflexivity.
  - simpl. destruct (jstep_false ls s i) as [E|E]; rewrite E.
    + apply IH.
    + destruct (IH (step s i)) as [sched' H]. exists (i :: sched'). exact H.
Qed.

(* ---------------- progress with listeners ---------------- *)

Record JInv (ls : list nat) (s : sys) : Prop := {
  j_norec : forallb no_recursion (threads s) = true;
  j_restorer : existsb is_restorer (threads s) = true;
  j_idle : gate_closed s = true -> forall i t, is_listener ls i = true -> nth_error (threads s) i = Some t ->
             is_tx t = true -> tx_idle t = true
}.

Lemma init_jinv : forall ls p ths, Forall initial_thread ths -> forallb no_recursion ths = true ->
  existsb is_restorer ths = true -> JInv ls (init p ths).
Proof.
  intros ls p ths Hi Hn Hr. split; simpl; try assumption.
  intros _ i t _ Hnth Htx. rewrite Forall_forall in Hi. specialize (Hi t (nth_error_In _ _ Hnth)).
  destruct t as [pc plan inner b seen|pc]; [|discriminate]. destruct pc; simpl in Hi; try contradiction. reflexivity.
Qed.

Lemma jstep_jinv : forall ls s i, JInv ls s -> JInv ls (jstep false ls s i).
Proof.
  intros ls s i [Hn Hr Hidle].
  unfold jstep. destruct (nth_error (threads s) i) as [t|] eqn:Hi; [|split; assumption].
  destruct (is_listener ls i && is_tx t && gate_closed s) eqn:G; [split; assumption|].
  assert (E : (match t with
               | Restorer ROpened => if false && negb (listeners_done ls s) then s else step s i
               | _ => step s i end) = step s i).
  { destruct t as [pc plan inner b seen|pc]; [reflexivity|destruct pc; reflexivity]. }
  rewrite E. clear E. split.
  - now apply step_no_recursion.
  - destruct (existsb_true_nth _ _ Hr) as [j [tj [Hj Htj]]].
    destruct (step_thread_back s i j tj Hj) as [t' [Hj' [Htx _]]].
    eapply nth_existsb; [exact Hj'|]. unfold is_restorer in *. now rewrite Htx.
  - intros Hg j t' Hl Hj' Htx'.
    assert (Hg0 : gate_closed s = true).
    { destruct (gate_closed s) eqn:C; [reflexivity|]. rewrite (gate_stays_open s i C) in Hg. discriminate. }
    destruct (step_thread s i j t' Hj') as [t0 [Hj0 [Htx0 [_ Hsame]]]].
    destruct (Nat.eq_dec j i) as [Eji|Eji].
    + subst j. rewrite Hi in Hj0. inversion Hj0; subst t0.
      rewrite Hl, Hg0 in G. rewrite <- Htx0, Htx' in G. discriminate.
    + rewrite (Hsame Eji). apply (Hidle Hg0 j t0 Hl Hj0). now rewrite <- Htx0.
Qed.

Lemma jrun_jinv : forall ls sched s, JInv ls s -> JInv ls (jrun false ls s sched).
Proof. intros ls. induction sched as [|i r IH]; intros s H; simpl; [exact H|]. apply IH. now apply jstep_jinv. Qed.

(* a thread that is not a listener still waiting for its start moves exactly as in the lock protocol *)
Lemma jstep_ungated : forall ls s i t, nth_error (threads s) i = Some t ->
  is_listener ls i && is_tx t && gate_closed s = false -> jstep false ls s i = step s i.
Proof.
  intros ls s i t Hi G. unfold jstep. rewrite Hi, G.
  destruct t as [pc plan inner b seen|pc]; [reflexivity|destruct pc; reflexivity].
Qed.

Lemma jprogress : forall ls s, JInv ls s ->
  forallb finished (threads s) = true \/ exists i, jstep false ls s i <> s.
Proof.
  intros ls s [Hn Hr Hidle].
  destruct (gate_closed s) eqn:Hg.
  2:{ destruct (progress s Hn) as [F|[i Hi]]; [left; exact F|right]. exists i.
      destruct (nth_error (threads s) i) as [t|] eqn:Ht.
      - rewrite (jstep_ungated ls s i t Ht); [exact Hi|]. rewrite Hg. apply andb_false_r.
      - exfalso. apply Hi. unfold step. now rewrite Ht. }
  right.
  (* a restorer that can move, or a transaction holding the read lock that can *)
  assert (Mover : forall j tj, nth_error (threads s) j = Some tj -> is_tx tj = false -> step s j <> s ->
                    exists i, jstep false ls s i <> s).
  { intros j tj Hj Htx Hmv. exists j. rewrite (jstep_ungated ls s j tj Hj); [exact Hmv|]. now rewrite Htx, andb_false_r. }
  destruct (existsb holds_w (threads s)) eqn:Ew.
  { destruct (existsb_true_nth _ _ Ew) as [j [t [Hj Ht]]].
    destruct t as [pc plan inner b seen|pc]; simpl in Ht; try discriminate.
    apply (Mover j (Restorer pc) Hj eq_refl).
    destruct pc; simpl in Ht; try discriminate;
      (eapply step_changes; [exact Hj|reflexivity|discriminate]). }
  destruct (existsb holds_r (threads s)) eqn:Er.
  { destruct (existsb_true_nth _ _ Er) as [j [t [Hj Ht]]]. exists j.
    assert (Hnr : no_recursion t = true).
    { rewrite forallb_forall in Hn. apply Hn. eapply nth_error_In; eauto. }
    assert (Hl : is_listener ls j = false).
    { destruct (is_listener ls j) eqn:L; [|reflexivity].
      destruct t as [pc plan inner b seen|pc]; simpl in Ht; try discriminate.
      pose proof (Hidle eq_refl j _ L Hj eq_refl) as C. destruct pc; simpl in *; discriminate. }
    rewrite (jstep_ungated ls s j t Hj) by now rewrite Hl.
    destruct t as [pc plan inner b seen|pc]; simpl in Ht; try discriminate.
    destruct pc; simpl in Ht; try discriminate.
    - eapply step_changes; [exact Hj|reflexivity|discriminate].
    - destruct plan as [|[| |] r]; simpl in Hnr; try discriminate.
      + eapply step_changes; [exact Hj|reflexivity|discriminate].
      + eapply step_changes; [exact Hj|reflexivity|].
        intro E. inversion E as [[E1 E2]]. exact (list_neq_cons _ _ E1).
    - eapply step_changes; [exact Hj|reflexivity|discriminate]. }
  (* nobody holds the lock: the restorer that has not reopened yet is idle or waiting and can move *)
  destruct (existsb_true_nth _ _ Hr) as [j [t [Hj Ht]]].
  destruct t as [pc plan inner b seen|pc]; [discriminate|].
  apply (Mover j (Restorer pc) Hj eq_refl).
  assert (Hro : reopened (Restorer pc) = false).
  { unfold gate_closed in Hg. apply negb_true_iff in Hg. exact (existsb_false_nth _ _ _ _ Hg Hj). }
  pose proof (existsb_false_nth _ _ _ _ Ew Hj) as Hw.
  destruct pc; simpl in Hro, Hw; try discriminate.
  - eapply step_changes; [exact Hj|reflexivity|discriminate].
  - eapply step_changes; [exact Hj|simpl; unfold can_wlock; rewrite Ew, Er; reflexivity|discriminate].
Qed.

Lemma listeners_no_deadlock_lemma : forall (p : bool) (ths : list thread) (ls : list nat) (sched : list nat),
  Forall initial_thread ths -> forallb no_recursion ths = true -> existsb is_restorer ths = true ->
  let s := jrun false ls (init p ths) sched in
  forallb finished (threads s) = true \/ exists i, jstep false ls s i <> s.
Proof.
  intros p ths ls sched Hi Hn Hr s. apply jprogress. subst s. apply jrun_jinv. now apply init_jinv.
Qed.

(* what a listener's transaction sees: one open handle, as every other transaction *)
Lemma listeners_see_one_handle_lemma : forall (p : bool) (ths : list thread) (ls : list nat) (sched : list nat),
  Forall initial_thread ths ->
  let s := jrun false ls (init p ths) sched in
  forall i pc plan inner b seen,
    nth_error (threads s) i = Some (Tx pc plan inner b seen) ->
    Forall (eq b) seen
    /\ (seen <> [] -> b <> None)
    /\ (pc = TxInTx \/ pc = TxCommitted -> b = cur s /\ cur s <> None).
Proof.
  intros p ths ls sched Hi s. subst s.
  destruct (jrun_is_run_lemma ls sched (init p ths)) as [sched' E]. rewrite E.
  now apply restore_atomic_wrt_tx_lemma.
Qed.

(* the restorer waits for its listeners while holding the write lock; one listener reads the
   database: after "Lock; close; reopen" the restorer waits for the listener, the listener for
   the lock - nobody can move and nobody has finished *)
Definition join_threads : list thread := [Restorer RIdle; Tx TxIdle [TStep] 0 None []].
Definition join_sched : list nat := [0; 0; 0; 0].

Lemma join_under_lock_deadlocks_lemma : forall p,
  let s := jrun true [1] (init p join_threads) join_sched in
  forallb finished (threads s) = false /\ forall i, jstep true [1] s i = s.
Proof.
  intros p. simpl. split; [reflexivity|]. intros [|[|i]]; try reflexivity.
  unfold jstep. simpl. destruct i; reflexivity.
Qed.

(* the same threads without the join: the schedule "restore; listener" finishes everything *)
Lemma no_join_completes_lemma : forall p,
  forallb finished (threads (jrun false [1] (init p join_threads) [0; 0; 0; 0; 0; 1; 1; 1; 1; 1])) = true.
Proof. intros [|]; reflexivity. Qed.
