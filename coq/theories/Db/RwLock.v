(* Small-step model of the reloadLock protocol of boltz/db.go.

   Any number of transaction threads (Db.Update / Db.View / Db.Batch):
       RLock ; begin (binds the open handle) ; steps of the transaction body ; commit ; RUnlock
   and any number of restorers (Db.RestoreFromReader):
       Lock (waits until no reader holds) ; close the handle ; rename + open the new file ; Unlock.

   The lock is modelled by its specification (sync.RWMutex is trusted to implement it):
   a reader may enter when no writer holds - and, when the lock prefers writers ([pref]), only
   when no writer is waiting; a writer may enter when nobody holds.  Every step of a transaction
   body observes the handle that is open AT THAT MOMENT (pessimistic: the theorem shows it is
   always the one bound at begin).  The body may also contain recursive read-lock acquisitions
   (TInnerLock), which is what RootBucket / SnapshotInTx did inside a transaction before the
   fix; they are used only for the deadlock counter-example.

   A schedule is a list of thread indexes; [step] performs the next action of that thread if
   it is enabled and leaves the system unchanged otherwise.  Model only - proofs in
   RwLockProofs.v. *)
From Coq Require Import List Bool Arith.
Import ListNotations.

Inductive txact := TStep | TInnerLock | TInnerUnlock.
Inductive txpc := TxIdle | TxHoldR | TxInTx | TxCommitted | TxDone.
Inductive rpc := RIdle | RWaiting | RHoldW | RClosed | ROpened | RDone.

Inductive thread :=
| Tx (pc : txpc) (plan : list txact) (inner : nat) (bound : option nat) (seen : list (option nat))
| Restorer (pc : rpc).

Record sys := {
  pref : bool;               (* writer-preferring lock (Go's sync.RWMutex) or not *)
  cur : option nat;          (* generation of the open handle; None while closed *)
  gen : nat;                 (* next generation *)
  threads : list thread
}.

Definition holds_r (t : thread) : bool :=
  match t with
  | Tx TxHoldR _ _ _ _ | Tx TxInTx _ _ _ _ | Tx TxCommitted _ _ _ _ => true
  | _ => false
  end.

Definition holds_w (t : thread) : bool :=
  match t with
  | Restorer RHoldW | Restorer RClosed | Restorer ROpened => true
  | _ => false
  end.

Definition waits_w (t : thread) : bool := match t with Restorer RWaiting => true | _ => false end.

Definition can_rlock (s : sys) : bool :=
  negb (existsb holds_w (threads s)) && negb (pref s && existsb waits_w (threads s)).

Definition can_wlock (s : sys) : bool :=
  negb (existsb holds_w (threads s)) && negb (existsb holds_r (threads s)).

(* next action of a thread: new thread state, new handle, new generation counter *)
Definition thread_step (s : sys) (t : thread) : option (thread * option nat * nat) :=
  match t with
  | Tx TxIdle plan inner b seen =>
      if can_rlock s then Some (Tx TxHoldR plan inner b seen, cur s, gen s) else None
  | Tx TxHoldR plan inner b seen => Some (Tx TxInTx plan inner (cur s) seen, cur s, gen s)
  | Tx TxInTx (TStep :: r) inner b seen => Some (Tx TxInTx r inner b (cur s :: seen), cur s, gen s)
  | Tx TxInTx (TInnerLock :: r) inner b seen =>
      if can_rlock s then Some (Tx TxInTx r (S inner) b seen, cur s, gen s) else None
  | Tx TxInTx (TInnerUnlock :: r) inner b seen => Some (Tx TxInTx r (pred inner) b seen, cur s, gen s)
  | Tx TxInTx [] inner b seen => Some (Tx TxCommitted [] inner b seen, cur s, gen s)
  | Tx TxCommitted plan inner b seen => Some (Tx TxDone plan inner b seen, cur s, gen s)
  | Tx TxDone _ _ _ _ => None
  | Restorer RIdle => Some (Restorer RWaiting, cur s, gen s)
  | Restorer RWaiting => if can_wlock s then Some (Restorer RHoldW, cur s, gen s) else None
  | Restorer RHoldW => Some (Restorer RClosed, None, gen s)
  | Restorer RClosed => Some (Restorer ROpened, Some (gen s), S (gen s))
  | Restorer ROpened => Some (Restorer RDone, cur s, gen s)
  | Restorer RDone => None
  end.

Fixpoint set_nth {A} (i : nat) (x : A) (l : list A) : list A :=
  match l, i with
  | [], _ => []
  | _ :: r, O => x :: r
  | y :: r, S j => y :: set_nth j x r
  end.

Definition step (s : sys) (i : nat) : sys :=
  match nth_error (threads s) i with
  | None => s
  | Some t =>
      match thread_step s t with
      | None => s
      | Some (t', c', g') => {| pref := pref s; cur := c'; gen := g'; threads := set_nth i t' (threads s) |}
      end
  end.

Definition run (s : sys) (sched : list nat) : sys := fold_left step sched s.

Definition initial_thread (t : thread) : Prop :=
  match t with
  | Tx TxIdle _ 0 None [] => True
  | Restorer RIdle => True
  | _ => False
  end.

Definition init (p : bool) (ths : list thread) : sys := {| pref := p; cur := Some 0; gen := 1; threads := ths |}.

Definition finished (t : thread) : bool :=
  match t with Tx TxDone _ _ _ _ | Restorer RDone => true | _ => false end.

Definition is_tstep (a : txact) : bool := match a with TStep => true | _ => false end.

(* the transaction body takes no read lock of its own (the code after the fix) *)
Definition no_recursion (t : thread) : bool :=
  match t with Tx _ plan _ _ _ => forallb is_tstep plan | Restorer _ => true end.
