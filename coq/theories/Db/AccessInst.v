(* The finite obligation about the CURRENT source: re-checked on every run against the table that
   translators/access has just regenerated (Gen/GenAccess.v).  Domain of the proof: that table. *)
From Coq Require Import List String Bool.
From Storage Require Import Db.Access Db.AccessProofs Gen.GenAccess.
Import ListNotations.
Open Scope string_scope.

Lemma generated_table_no_conflict : no_conflict table = true.
Proof. vm_compute. reflexivity. Qed.

(* the helpers the property names are in the table (so the statement is not about an empty table) *)
Definition named_helpers : list string :=
  ["boltz.IsReferenceExistsError"; "boltz.IsUniqueIndexDuplicateError"; "boltz.IsErrNotFoundErr";
   "zitiql.Parse"; "zitiql.ParseZqlString"; "zitiql.ParseZqlDatetime"; "ast.Parse";
   "boltz.BaseStore.GetSymbol"; "boltz.BaseStore.GetSymbolType"; "boltz.BaseStore.IsSet";
   "boltz.BaseStore.QueryIds";
   (* lookups through objects registered once on a store *)
   "boltz.setIndex.Read"; "boltz.setIndex.OpenValueCursor"; "boltz.uniqueIndex.Read";
   "boltz.linkCollectionImpl.GetLinks"; "boltz.BaseStore.GetRelatedEntitiesIdList";
   "boltz.ExternalSymbol.Eval"; "boltz.entitySymbol.Eval"].

Lemma generated_table_names_helpers : forallb (has_helper table) named_helpers = true.
Proof. vm_compute. reflexivity. Qed.

Lemma helpers_no_conflicting_access_lemma :
  forall h1 h2, In h1 table -> In h2 table ->
  forall a b, In a (h_acc h1) -> In b (h_acc h2) ->
    a_loc a = a_loc b -> a_sync a = false -> a_sync b = false ->
    a_kind a = ARead /\ a_kind b = ARead.
Proof. exact (no_conflict_sound table generated_table_no_conflict). Qed.
