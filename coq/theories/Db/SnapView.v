(* Two refinements on top of Db/RestoreMeta.v (kept unchanged, like everything below it):

   1. SnapshotInTx(tx, path) as a function of THE VIEW OF tx.  Db/Snapshot.v is MVCC-free: its
      snapshot operation copies [live d], the content committed at the moment of the call, which
      is what a transaction that begins at that moment sees.  A read transaction that was opened
      EARLIER keeps the content committed when it began (bbolt's MVCC, Db/Mvcc.v: trusted and
      exercised by the harness), whatever other goroutines commit afterwards; tx.CopyFile copies
      the pages reachable from the transaction's own meta page.  [snapshot_of_view d view] is
      the call with the view made explicit; [stale_snapshot d txs]: Db.View begins, other
      goroutines run the transactions [txs], then SnapshotInTx is called inside the old View.
      For a WRITE transaction the copy holds the content committed before it began (its own
      writes reach the file at commit): [snapshot_step d (SKInUpdate ..)] of Db/Snapshot.v, i.e.
      the view of the file the transaction started from.
      [latest_snapshot] - the copy is taken from a transaction begun at the moment of the call -
      exists for the counter-example only.

   2. Restore listeners that do not return: [KBlock] blocks for good, [KWait j] returns once the
      listener registered as number j has returned (in the same restore).  RestoreFromReader
      starts every listener in a goroutine of its own ([spawn_all]; the restore never waits for
      them), the scheduler then moves them in any order ([lrun]).  [seq_started] - one goroutine
      calling the listeners in registration order - exists for the counter-example only.

   Model only - proofs are in SnapViewProofs.v. *)
From Coq Require Import List NArith Bool Arith.
From Storage Require Import Base.Bytes Db.Content Db.Timeline Db.Snapshot Db.Reader Db.RestoreX Db.SnapPath Db.RestoreMeta.
Import ListNotations.

(* ---- 1. the snapshot of a view ---- *)

Definition snapshot_of_view (d : db) (view : content) : db * str :=
  let id := fresh (uuids d) in
  ({| live := live d; files := files d ++ [mark id view]; uuids := S (uuids d);
      listeners := listeners d; fired := fired d; idf_calls := idf_calls d |}, id).

(* the transactions other goroutines run while the read transaction is open *)
Definition tx_ops (txs : list (list wop * bool)) : list op := map (fun t => OTx (fst t) (snd t)) txs.

Definition stale_snapshot (d : db) (txs : list (list wop * bool)) : db * str :=
  let view := live d in                    (* Db.View begins: the transaction binds what is committed now *)
  let d1 := run d (tx_ops txs) in          (* other goroutines commit (or roll back) *)
  snapshot_of_view d1 view.                (* SnapshotInTx(the old transaction, path) *)

(* the variant that copies from a read transaction begun at the moment of the call *)
Definition latest_snapshot (d : db) (txs : list (list wop * bool)) : db * str :=
  let d1 := run d (tx_ops txs) in
  snapshot_of_view d1 (live d1).

(* ---- 2. listeners that wait ---- *)

Inductive lkind :=
| KRun                 (* returns by itself (everything Db/RestoreX.v registers) *)
| KBlock               (* never returns *)
| KWait (j : nat).     (* returns once listener number j has returned *)

(* who can return at all *)
Inductive Returns (ls : list lkind) : nat -> Prop :=
| RetRun : forall i, nth_error ls i = Some KRun -> Returns ls i
| RetWait : forall i j, nth_error ls i = Some (KWait j) -> Returns ls j -> Returns ls i.

Fixpoint returnsb (fuel : nat) (ls : list lkind) (i : nat) : bool :=
  match fuel with
  | O => false
  | S f =>
      match nth_error ls i with
      | Some KRun => true
      | Some (KWait j) => returnsb f ls j
      | _ => false
      end
  end.

(* what the driver prints: for every registered listener whether it returns *)
Definition returning (ls : list lkind) : list bool :=
  map (returnsb (S (length ls)) ls) (seq 0 (length ls)).

Inductive lstatus := LNotStarted | LRunning | LDone.

Definition lstatus_eqb (a b : lstatus) : bool :=
  match a, b with
  | LNotStarted, LNotStarted | LRunning, LRunning | LDone, LDone => true
  | _, _ => false
  end.

(* for _, listener := range listeners { go listener() } *)
Definition spawn_all (ls : list lkind) : list lstatus := map (fun _ => LRunning) ls.

Fixpoint set_nth {A} (i : nat) (v : A) (l : list A) {struct l} : list A :=
  match l, i with
  | [], _ => []
  | _ :: r, O => v :: r
  | x :: r, S j => x :: set_nth j v r
  end.

Definition is_done (st : list lstatus) (j : nat) : bool :=
  match nth_error st j with Some LDone => true | _ => false end.

(* the scheduler lets listener i move: a running listener returns when it can *)
Definition lstep (ls : list lkind) (st : list lstatus) (i : nat) : list lstatus :=
  match nth_error st i, nth_error ls i with
  | Some LRunning, Some KRun => set_nth i LDone st
  | Some LRunning, Some (KWait j) => if is_done st j then set_nth i LDone st else st
  | _, _ => st
  end.

Definition lrun (ls : list lkind) (st : list lstatus) (sched : list nat) : list lstatus :=
  fold_left (lstep ls) sched st.

(* one goroutine that calls the listeners in registration order: listener i is started only when
   every earlier one has returned; [done] = the listeners that have returned so far *)
Fixpoint seq_go (i : nat) (done : list nat) (todo : list lkind) : list bool :=
  match todo with
  | [] => []
  | k :: r =>
      let ret := match k with
                 | KRun => true
                 | KBlock => false
                 | KWait j => existsb (Nat.eqb j) done
                 end in
      true :: (if ret then seq_go (S i) (i :: done) r else map (fun _ => false) r)
  end.

Definition seq_started (ls : list lkind) : list bool := seq_go 0 [] ls.

(* ---- the history layer the driver runs ---- *)

Record vdb := { vm : pdb; kinds : list lkind }.

Inductive vop :=
| VM (o : mop)
| VSnapStale (ws : list wop) (commit : bool)   (* View; another goroutine runs the transaction; SnapshotInTx in the View *)
| VAddListener (k : lkind).

Inductive vobs :=
| VoM (b : mxobs)
| VoSnapStale (id : str) (txok : bool).

Definition adds_listener (o : mop) : bool :=
  match o with
  | MP (PX (XAddListener _)) => true
  | MP (PX (XBase OAddListener)) => true
  | _ => false
  end.

Definition vstep (caps : nat -> nat) (v : vdb) (o : vop) : vdb * vobs :=
  match o with
  | VM o' =>
      let '(p', b) := mstep caps (vm v) o' in
      ({| vm := p'; kinds := if adds_listener o' then kinds v ++ [KRun] else kinds v |}, VoM b)
  | VSnapStale ws c =>
      let '(d', id) := stale_snapshot (base (px (vm v))) [(ws, c)] in
      ({| vm := with_base (vm v) d'; kinds := kinds v |}, VoSnapStale id c)
  | VAddListener k =>
      (* for the database it is a listener that counts its invocations *)
      let '(p', b) := mstep caps (vm v) (MP (PX (XAddListener LCount))) in
      ({| vm := p'; kinds := kinds v ++ [k] |}, VoM b)
  end.

Definition vrun (caps : nat -> nat) (v : vdb) (ops : list vop) : vdb :=
  fold_left (fun v o => fst (vstep caps v o)) ops v.

Fixpoint vrun_obs (caps : nat -> nat) (v : vdb) (ops : list vop) : list (vobs * vdb) :=
  match ops with
  | [] => []
  | o :: r => let '(v', b) := vstep caps v o in (b, v') :: vrun_obs caps v' r
  end.

Definition empty_vdb : vdb := {| vm := empty_pdb; kinds := [] |}.

(* the history of Db/RestoreMeta.v a history amounts to: the stale snapshot is the snapshot taken
   when the View began, followed by the other goroutine's transaction *)
Definition verase (o : vop) : list mop :=
  match o with
  | VM o' => [o']
  | VSnapStale ws c => [MP (PX (XBase (OSnap SKInView))); MP (PX (XBase (OTx ws c)))]
  | VAddListener _ => [MP (PX (XAddListener LCount))]
  end.
