(* io.Reader behaviours feeding DbImpl.RestoreFromReader and the copy loop of persistSnapshot
   (io.Copy into the temp file that is renamed over the live database).

   The io.Reader contract lets a reader return its data in chunks of any size (at most the
   buffer it is handed), return zero bytes without an error, report io.EOF either together with
   its last bytes or by a separate (0, EOF) call, and fail with another error after any number
   of bytes.  A [script] fixes one such behaviour; the copy loop must write the same file for
   every script that does not fail: the concatenation of the reads.

   Generic in the element type: the copy loop moves bytes, it never looks at them.
   Model only - proofs are in ReaderProofs.v. *)
From Coq Require Import List Bool Arith.
Import ListNotations.

Record script := {
  pre : list nat;            (* sizes of the first reads; 0 = a read that returns (0, nil) *)
  rest : nat;                (* size of every later read; 0 = fill the buffer that was handed in *)
  eof_with_data : bool;      (* io.EOF comes with the last bytes instead of a separate (0, EOF) *)
  fail_at : option nat;      (* the reader fails (error other than EOF) once this many bytes were delivered *)
  fail_with_data : bool      (* that error comes with the last bytes before the failure *)
}.

Inductive rerr := ENone | EEof | EFail.

(* the failure position lies inside the data (or right at its end: an error instead of EOF) *)
Definition failing (sc : script) (len : nat) : bool :=
  match fail_at sc with Some k => k <=? len | None => false end.

(* number of bytes the reader hands out before EOF / the failure *)
Definition limit (sc : script) (len : nat) : nat :=
  match fail_at sc with Some k => Nat.min k len | None => len end.

Definition end_err (sc : script) (len : nat) : rerr := if failing sc len then EFail else EEof.
Definition end_with_data (sc : script) (len : nat) : bool :=
  if failing sc len then fail_with_data sc else eof_with_data sc.

Definition is_nil {A} (l : list A) : bool := match l with [] => true | _ => false end.

Section Copy.
Context {A : Type}.

(* One Read(p) with len(p) = cap >= 1 on a reader that still has [rem] to hand out and [pr]
   scripted sizes left: the bytes, the error, and the reader afterwards. *)
Definition read (endE : rerr) (withd : bool) (rst : nat) (cap : nat) (rem : list A) (pr : list nat)
    : list A * rerr * list A * list nat :=
  match pr with
  | 0 :: pr' => ([], ENone, rem, pr')
  | _ =>
      let want := match pr with n :: _ => n | [] => if rst =? 0 then cap else rst end in
      match rem with
      | [] => ([], endE, [], tl pr)
      | _ =>
          let k := Nat.min want cap in
          let rem' := skipn k rem in
          (firstn k rem, (if is_nil rem' && withd then endE else ENone), rem', tl pr)
      end
  end.

Inductive cstatus := COk | CFail | COutOfFuel.

(* io.Copy without WriterTo / ReaderFrom shortcuts (io.copyBuffer):
     for { nr, er := src.Read(buf); if nr > 0 { dst.Write(buf[:nr]) }; if er != nil { if er != EOF { err = er }; break } }
   [caps i] + 1 is the size of the buffer handed to the i-th Read (any positive sizes).
   The result is what was written to dst, in order: this read's bytes followed by the rest. *)
Fixpoint copy_loop (fuel : nat) (endE : rerr) (withd : bool) (rst : nat) (caps : nat -> nat) (i : nat)
    (rem : list A) (pr : list nat) : list A * cstatus :=
  match fuel with
  | 0 => ([], COutOfFuel)
  | S f =>
      match read endE withd rst (S (caps i)) rem pr with
      | (chunk, e, rem', pr') =>
          match e with
          | ENone => let '(w, st) := copy_loop f endE withd rst caps (S i) rem' pr' in (chunk ++ w, st)
          | EEof => (chunk, COk)
          | EFail => (chunk, CFail)
          end
      end
  end.

(* the same loop with the end-of-file test in front of the write (a hand-written loop that tests
   er == io.EOF before writing buf[:nr]): bytes that arrive together with EOF are dropped.
   Only for the counter-example. *)
Fixpoint copy_loop_eof_first (fuel : nat) (endE : rerr) (withd : bool) (rst : nat) (caps : nat -> nat) (i : nat)
    (rem : list A) (pr : list nat) : list A * cstatus :=
  match fuel with
  | 0 => ([], COutOfFuel)
  | S f =>
      match read endE withd rst (S (caps i)) rem pr with
      | (chunk, e, rem', pr') =>
          match e with
          | ENone => let '(w, st) := copy_loop_eof_first f endE withd rst caps (S i) rem' pr' in (chunk ++ w, st)
          | EEof => ([], COk)
          | EFail => ([], CFail)
          end
      end
  end.

Definition copy_fuel (sc : script) (len : nat) : nat := S (length (pre sc) + len).

(* what persistSnapshot writes into the temp file when [bs] is fed through a reader that behaves
   like [sc], and whether the copy succeeded *)
Definition copy (sc : script) (caps : nat -> nat) (bs : list A) : list A * cstatus :=
  let len := length bs in
  copy_loop (copy_fuel sc len) (end_err sc len) (end_with_data sc len) (rest sc) caps 0
            (firstn (limit sc len) bs) (pre sc).

Definition copy_eof_first (sc : script) (caps : nat -> nat) (bs : list A) : list A * cstatus :=
  let len := length bs in
  copy_loop_eof_first (copy_fuel sc len) (end_err sc len) (end_with_data sc len) (rest sc) caps 0
            (firstn (limit sc len) bs) (pre sc).

End Copy.

(* a chunking of a byte sequence: the list of pieces, in order (empty pieces allowed) *)
Definition chunking {A} (bs : list A) (pieces : list (list A)) : Prop := concat pieces = bs.

(* the script of a reader that hands out exactly these pieces (when the buffers are large
   enough; smaller buffers only split pieces further) *)
Definition script_of_pieces {A} (pieces : list (list A)) (eofd : bool) : script :=
  {| pre := map (@length A) pieces; rest := 0; eof_with_data := eofd; fail_at := None; fail_with_data := false |}.
