From Coq Require Import List Arith Lia.
From Storage Require Import Db.Mvcc.
Import ListNotations.

Section MvccProofs.
  Variable state : Type.
  Variable query : Type.
  Variable answer : Type.
  Variable eval : query -> state -> answer.
  Variable wtx : Type.
  Variable apply_tx : wtx -> state -> option state.

  Notation sys := (sys state query answer).
  Notation reader := (reader query answer).
  Notation obs := (obs query answer).
  Notation step := (step state query answer eval wtx apply_tx).
  Notation run := (run state query answer eval wtx apply_tx).
  Notation init := (init state query answer).
  Notation serial := (serial state wtx apply_tx).
  Notation serial_versions := (serial_versions state wtx apply_tx).
  Notation commits := (commits query wtx).
  Notation vers := (versions state query answer).
  Notation rdrs := (readers state query answer).
  Notation otx := (o_tx query answer).
  Notation over := (o_ver query answer).
  Notation oq := (o_q query answer).
  Notation oa := (o_a query answer).
  Notation robs := (r_obs query answer).
  Notation rbound := (r_bound query answer).
  Notation rtxs := (r_txs query answer).

  (* versions only grow, at the end *)
  Definition extends (a b : list state) : Prop := exists l, b = a ++ l.

  Lemma extends_refl : forall a, extends a a.
  Proof. intro a. exists []. now rewrite app_nil_r. Qed.

  Lemma extends_trans : forall a b c, extends a b -> extends b c -> extends a c.
  Proof. intros a b c [l1 H1] [l2 H2]. exists (l1 ++ l2). subst. now rewrite app_assoc. Qed.

  Lemma extends_nth : forall a b v st, extends a b -> nth_error a v = Some st -> nth_error b v = Some st.
  Proof.
    intros a b v st [l H] Hn. subst. rewrite nth_error_app1; [exact Hn|].
    apply nth_error_Some. now rewrite Hn.
  Qed.

  Lemma step_extends : forall (s : sys) e, extends (vers s) (vers (step s e)).
  Proof.
    intros s e. destruct e; simpl; try apply extends_refl.
    destruct (nth_error (vers s) (current _ _ _ s)) as [st|]; [|apply extends_refl].
    destruct (apply_tx w st); [|apply extends_refl]. simpl. eexists. reflexivity.
  Qed.

  (* ---- invariant of one reader against the version list ---- *)
  Definition obs_ok (vs : list state) (o : obs) : Prop :=
    exists st, nth_error vs (over o) = Some st /\ oa o = eval (oq o) st.

  Record reader_ok (vs : list state) (r : reader) : Prop := {
    ok_obs : Forall (obs_ok vs) (robs r);
    ok_le : forall o, In o (robs r) -> otx o <= rtxs r;
    ok_cur : forall v o, rbound r = Some v -> In o (robs r) -> otx o = rtxs r -> over o = v;
    ok_same : forall o1 o2, In o1 (robs r) -> In o2 (robs r) -> otx o1 = otx o2 -> over o1 = over o2
  }.

  Lemma obs_ok_extends : forall a b o, extends a b -> obs_ok a o -> obs_ok b o.
  Proof. intros a b o He [st [H1 H2]]. exists st. split; [eapply extends_nth; eauto|exact H2]. Qed.

  Lemma reader_ok_extends : forall a b r, extends a b -> reader_ok a r -> reader_ok b r.
  Proof.
    intros a b r He [H1 H2 H3 H4]. constructor; try assumption.
    eapply Forall_impl; [|exact H1]. intros o Ho. eapply obs_ok_extends; eauto.
  Qed.

  Lemma Forall_upd_nth : forall {A} (P : A -> Prop) (f : A -> A) l i,
    Forall P l -> (forall x, P x -> P (f x)) -> Forall P (upd_nth i f l).
  Proof.
    intros A P f l. induction l as [|x r IH]; intros i H Hf; simpl; [constructor|].
    inversion H; subst. destruct i; constructor; auto.
  Qed.

  Lemma begin_ok : forall vs v r, reader_ok vs r -> reader_ok vs (rd_begin _ _ v r).
  Proof.
    intros vs v r Hr. unfold rd_begin. destruct (rbound r) eqn:Eb; [exact Hr|].
    destruct Hr as [H1 H2 H3 H4]. constructor; simpl.
    - exact H1.
    - intros o Ho. specialize (H2 o Ho). lia.
    - intros v' o _ Ho Ht. specialize (H2 o Ho). lia.
    - exact H4.
  Qed.

  Lemma read_ok : forall vs q r, reader_ok vs r -> reader_ok vs (rd_read _ _ _ eval vs q r).
  Proof.
    intros vs q r Hr. unfold rd_read. destruct (rbound r) as [v|] eqn:Eb; [|exact Hr].
    destruct (nth_error vs v) as [st|] eqn:En; [|exact Hr].
    destruct Hr as [H1 H2 H3 H4]. constructor; simpl.
    - constructor; [|exact H1]. exists st. split; [exact En|reflexivity].
    - intros o [Ho|Ho]; [subst; simpl; lia|now apply H2].
    - intros v' o Hv [Ho|Ho] Ht; inversion Hv; subst.
      + reflexivity.
      + eapply H3; eauto.
    - intros o1 o2 [E1|I1] [E2|I2] Ht; subst; simpl in *.
      + reflexivity.
      + symmetry. eapply H3; eauto.
      + eapply H3; eauto.
      + eapply H4; eauto.
  Qed.

  Lemma end_ok : forall vs r, reader_ok vs r -> reader_ok vs (rd_end _ _ r).
  Proof.
    intros vs r [H1 H2 H3 H4]. constructor; simpl; try assumption. discriminate.
  Qed.

  Definition sys_ok (s : sys) : Prop := Forall (reader_ok (vers s)) (rdrs s).

  Lemma step_ok : forall (s : sys) e, sys_ok s -> sys_ok (step s e).
  Proof.
    intros s e H. unfold sys_ok in *. destruct e; simpl.
    - apply Forall_upd_nth; [exact H|]. intros. now apply begin_ok.
    - apply Forall_upd_nth; [exact H|]. intros. now apply read_ok.
    - apply Forall_upd_nth; [exact H|]. intros. now apply end_ok.
    - destruct (nth_error (vers s) (current _ _ _ s)) as [st|]; [|exact H].
      destruct (apply_tx w st) as [st'|]; [|exact H]. simpl.
      eapply Forall_impl; [|exact H]. intros r Hr.
      eapply reader_ok_extends; [|exact Hr]. eexists. reflexivity.
  Qed.

  Lemma run_ok : forall es (s : sys), sys_ok s -> sys_ok (run s es).
  Proof. induction es as [|e r IH]; intros s H; simpl; [exact H|]. apply IH. now apply step_ok. Qed.

  Lemma init_ok : forall v0 n, sys_ok (init v0 n).
  Proof.
    intros v0 n. unfold sys_ok, init. simpl. apply Forall_forall. intros r Hr.
    apply repeat_spec in Hr. subst. constructor; simpl; try constructor; intros; contradiction.
  Qed.

  (* ---- the version list is the serial execution of the committed writer transactions ---- *)
  Lemma last_app1 : forall (l : list state) x, nth_error (l ++ [x]) (pred (length (l ++ [x]))) = Some x.
  Proof.
    intros l x. rewrite app_length. simpl. replace (pred (length l + 1)) with (length l) by lia.
    rewrite nth_error_app2 by lia. now rewrite Nat.sub_diag.
  Qed.

  (* state: versions = pre ++ [cur] *)
  Lemma run_versions : forall es pre cur rs,
    vers (run {| versions := pre ++ [cur]; readers := rs |} es) = pre ++ [cur] ++ serial cur (commits es).
  Proof.
    induction es as [|e r IH]; intros pre cur rs; simpl.
    - reflexivity.
    - destruct e as [i|i q|i|w]; simpl; try apply IH.
      unfold current. simpl. rewrite last_app1.
      destruct (apply_tx w cur) as [st'|].
      + rewrite <- app_assoc. simpl.
        replace (pre ++ cur :: [st']) with ((pre ++ [cur]) ++ [st']) by (rewrite <- app_assoc; reflexivity).
        rewrite IH. rewrite <- app_assoc. reflexivity.
      + apply IH.
  Qed.

  Lemma versions_serial : forall v0 n es, vers (run (init v0 n) es) = serial_versions v0 (commits es).
  Proof.
    intros v0 n es. unfold init. change [v0] with ([] ++ [v0]). rewrite run_versions. reflexivity.
  Qed.

  (* ---- the theorems ---- *)
  Lemma reader_sees_one_committed_state_lemma : forall v0 n es r,
    In r (rdrs (run (init v0 n) es)) ->
    (forall o, In o (robs r) -> exists st, nth_error (vers (run (init v0 n) es)) (over o) = Some st /\ oa o = eval (oq o) st)
    /\ (forall o1 o2, In o1 (robs r) -> In o2 (robs r) -> otx o1 = otx o2 -> over o1 = over o2).
  Proof.
    intros v0 n es r Hr.
    pose proof (run_ok es _ (init_ok v0 n)) as H. unfold sys_ok in H. rewrite Forall_forall in H.
    destruct (H r Hr) as [H1 H2 H3 H4]. split.
    - intros o Ho. rewrite Forall_forall in H1. exact (H1 o Ho).
    - exact H4.
  Qed.

  Lemma reader_equals_serial_lemma : forall v0 n es r o,
    In r (rdrs (run (init v0 n) es)) -> In o (robs r) ->
    exists st, nth_error (serial_versions v0 (commits es)) (over o) = Some st /\ oa o = eval (oq o) st.
  Proof.
    intros v0 n es r o Hr Ho. rewrite <- (versions_serial v0 n es).
    destruct (reader_sees_one_committed_state_lemma v0 n es r Hr) as [H _]. now apply H.
  Qed.
End MvccProofs.
