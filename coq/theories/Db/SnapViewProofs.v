(* Proofs about Db/SnapView.v: the snapshot taken inside a transaction is the snapshot of that
   transaction's view; every restore listener is started whatever the others do. *)
From Coq Require Import List NArith Bool Arith Lia.
From Storage Require Import Base.Bytes Db.Content Db.Timeline Db.Snapshot Db.ContentProofs Db.SnapshotProofs Db.Reader Db.RestoreX
  Db.SnapPath Db.RestoreMeta Db.SnapView.
Import ListNotations.
Local Open Scope nat_scope.

(* ---------------- 1. the snapshot of a view ---------------- *)

(* what the transactions of the other goroutines leave committed *)
Fixpoint commit_all (c : content) (txs : list (list wop * bool)) : content :=
  match txs with
  | [] => c
  | (ws, true) :: r => commit_all (apply_wops c ws) r
  | (_, false) :: r => commit_all c r
  end.

Lemma run_txs : forall txs d, run d (tx_ops txs) = set_live d (commit_all (live d) txs).
Proof.
  unfold run. induction txs as [|[ws c] r IH]; intro d; simpl.
  - destruct d; reflexivity.
  - destruct c; simpl; rewrite IH; reflexivity.
Qed.

(* Db.Snapshot and SnapshotInTx in a transaction that begins now: the view is what is committed now *)
Lemma snapshot_now_is_view_lemma : forall d,
  snapshot_step d SKPlain = snapshot_of_view d (live d) /\ snapshot_step d SKInView = snapshot_of_view d (live d).
Proof. intro d. split; reflexivity. Qed.

(* SnapshotInTx in a write transaction: the copy is the snapshot of what was committed when the
   transaction began, whatever it has written / will write itself *)
Lemma snapshot_in_update_is_view_lemma : forall d before after commit,
  files (fst (snapshot_step d (SKInUpdate before after commit))) = files (fst (snapshot_of_view d (live d)))
  /\ snd (snapshot_step d (SKInUpdate before after commit)) = snd (snapshot_of_view d (live d)).
Proof. intros. split; reflexivity. Qed.

(* the snapshot taken inside an old read transaction: exactly the view goes into the file, the
   commits of the other goroutines stay in the live database and do not reach the file *)
Lemma stale_snapshot_lemma : forall d txs,
  let d' := fst (stale_snapshot d txs) in
  let id := snd (stale_snapshot d txs) in
  id = fresh (uuids d)
  /\ files d' = files d ++ [mark id (live d)]
  /\ live d' = commit_all (live d) txs
  /\ uuids d' = S (uuids d) /\ listeners d' = listeners d /\ fired d' = fired d /\ idf_calls d' = idf_calls d.
Proof.
  intros d txs. unfold stale_snapshot, snapshot_of_view. rewrite run_txs. simpl. repeat split.
Qed.

(* ... i.e. it is the snapshot taken when the View began, followed by the other transactions *)
Lemma stale_snapshot_commutes_lemma : forall d txs,
  stale_snapshot d txs = (run (fst (snapshot_step d SKInView)) (tx_ops txs), snd (snapshot_step d SKInView)).
Proof.
  intros d txs. unfold stale_snapshot, snapshot_of_view. rewrite !run_txs. reflexivity.
Qed.

Definition stale_restored (d0 : db) (pre : list op) (txs : list (list wop * bool)) (post : list op) : db :=
  let d1 := run d0 pre in
  let d2 := fst (stale_snapshot d1 txs) in
  let d3 := run d2 post in
  fst (step d3 (ORestore (length (files d1)))).

Lemma stale_restored_eq : forall d0 pre txs post,
  stale_restored d0 pre txs post = restored d0 pre SKInView (tx_ops txs ++ post).
Proof.
  intros. unfold stale_restored, restored. cbv zeta. rewrite stale_snapshot_commutes_lemma. simpl fst.
  rewrite run_app. reflexivity.
Qed.

(* restoring that file gives the view of the transaction the snapshot was taken in (plus the
   markers), not what was committed at the moment of the call *)
Lemma stale_restore_reproduces_view_lemma : forall d0 pre txs post,
  let view := live (run d0 pre) in
  let id := snd (stale_snapshot (run d0 pre) txs) in
  live (stale_restored d0 pre txs post) = mark id view
  /\ get_snapshot_id (live (stale_restored d0 pre txs post)) = Some id.
Proof.
  intros. subst view id. rewrite stale_restored_eq. rewrite restored_live.
  rewrite stale_snapshot_commutes_lemma. simpl snd. split; [reflexivity|].
  unfold get_snapshot_id. rewrite mark_meta. simpl. rewrite mark_snapshot_id.
  apply get_string_enc.
Qed.

(* ---------------- the history layer ---------------- *)

Lemma vstep_erase : forall caps v o, vm (fst (vstep caps v o)) = mrun caps (vm v) (verase o).
Proof.
  intros caps v o. destruct o as [o'|ws c|k]; unfold mrun; simpl.
  - destruct (mstep caps (vm v) o'); reflexivity.
  - destruct v as [[[d bs] nm] ks]. destruct c; reflexivity.
  - reflexivity.
Qed.

Lemma mrun_app : forall caps p a b, mrun caps p (a ++ b) = mrun caps (mrun caps p a) b.
Proof. intros. unfold mrun. apply fold_left_app. Qed.

Lemma vrun_erase_lemma : forall caps ops v, vm (vrun caps v ops) = mrun caps (vm v) (flat_map verase ops).
Proof.
  intros caps. induction ops as [|o r IH]; intro v; simpl.
  - reflexivity.
  - unfold vrun in *. simpl. rewrite IH. rewrite vstep_erase. now rewrite mrun_app.
Qed.

(* ---------------- 2. listeners that wait ---------------- *)

Definition all_started (st : list lstatus) : Prop := Forall (fun s => s <> LNotStarted) st.

Lemma set_nth_length : forall A (l : list A) i v, length (set_nth i v l) = length l.
Proof. induction l; intros [|i] v; simpl; auto. Qed.

Lemma set_nth_Forall : forall A (P : A -> Prop) (l : list A) i v, Forall P l -> P v -> Forall P (set_nth i v l).
Proof.
  induction l; intros [|i] v H Hv; simpl; auto; inversion H; subst; constructor; auto.
Qed.

Lemma set_nth_nth : forall A (l : list A) i v k x,
  nth_error (set_nth i v l) k = Some x -> (k = i /\ x = v) \/ nth_error l k = Some x.
Proof.
  induction l; intros [|i] v [|k] x H; simpl in *; auto.
  - inversion H; auto.
  - destruct (IHl _ _ _ _ H) as [[-> ->]|]; auto.
Qed.

Lemma lstep_length : forall ls st i, length (lstep ls st i) = length st.
Proof.
  intros. unfold lstep. destruct (nth_error st i) as [[]|]; auto.
  destruct (nth_error ls i) as [[]|]; auto using set_nth_length.
  destruct (is_done st j); auto using set_nth_length.
Qed.

Lemma lstep_started : forall ls st i, all_started st -> all_started (lstep ls st i).
Proof.
  intros ls st i H. unfold lstep. destruct (nth_error st i) as [[]|]; auto.
  destruct (nth_error ls i) as [[]|]; auto.
  - apply set_nth_Forall; [exact H|discriminate].
  - destruct (is_done st j); auto. apply set_nth_Forall; [exact H|discriminate].
Qed.

Lemma spawn_started : forall ls, all_started (spawn_all ls) /\ length (spawn_all ls) = length ls.
Proof.
  intro ls. split; [|apply map_length]. unfold all_started, spawn_all.
  induction ls; simpl; constructor; [discriminate|assumption].
Qed.

(* go listener() for each: whatever the scheduler does afterwards and whatever the listeners
   wait for, every registered listener has been started (and none is started twice: the list
   keeps its length, one status per listener) *)
Lemma listeners_all_started_lemma : forall ls sched,
  all_started (lrun ls (spawn_all ls) sched) /\ length (lrun ls (spawn_all ls) sched) = length ls.
Proof.
  intros ls sched. destruct (spawn_started ls) as [H L]. revert H L. generalize (spawn_all ls).
  unfold lrun. induction sched as [|i r IH]; intros st H L; simpl; [auto|].
  apply IH; [now apply lstep_started|now rewrite lstep_length].
Qed.

Definition done_sound (ls : list lkind) (st : list lstatus) : Prop :=
  forall i, nth_error st i = Some LDone -> Returns ls i.

Lemma is_done_true : forall st j, is_done st j = true -> nth_error st j = Some LDone.
Proof. intros st j. unfold is_done. destruct (nth_error st j) as [[]|]; congruence. Qed.

Lemma lstep_sound : forall ls st i, done_sound ls st -> done_sound ls (lstep ls st i).
Proof.
  intros ls st i H. unfold lstep.
  destruct (nth_error st i) as [[]|] eqn:Es; auto.
  destruct (nth_error ls i) as [[| |j]|] eqn:El; auto.
  - intros k Hk. apply set_nth_nth in Hk. destruct Hk as [[-> _]|Hk]; [now apply RetRun|now apply H].
  - destruct (is_done st j) eqn:Ed; auto.
    intros k Hk. apply set_nth_nth in Hk. destruct Hk as [[-> _]|Hk]; [|now apply H].
    eapply RetWait; [exact El|]. apply H. now apply is_done_true.
Qed.

(* only listeners that can return have returned: nobody returns without what he waits for *)
Lemma listeners_done_sound_lemma : forall ls sched i,
  nth_error (lrun ls (spawn_all ls) sched) i = Some LDone -> Returns ls i.
Proof.
  intros ls sched. assert (H : done_sound ls (spawn_all ls)).
  { intros i Hi. unfold spawn_all in Hi. rewrite nth_error_map in Hi.
    destruct (nth_error ls i); simpl in Hi; discriminate. }
  revert H. generalize (spawn_all ls). unfold lrun.
  induction sched as [|i r IH]; intros st H; simpl; [exact H|].
  apply IH. now apply lstep_sound.
Qed.

(* once returned, a listener stays returned; a listener that can return does so as soon as the
   scheduler lets it and those it waits for move in the order of the dependencies: there is a
   schedule, whatever the other listeners (blocked ones, cycles) do *)
Lemma lstep_keeps_done : forall ls st i k, nth_error st k = Some LDone -> nth_error (lstep ls st i) k = Some LDone.
Proof.
  intros ls st i k H. unfold lstep.
  destruct (nth_error st i) as [[]|] eqn:Es; auto.
  assert (S : nth_error (set_nth i LDone st) k = Some LDone).
  { clear Es. revert i k H. induction st; intros [|i] [|k] H; simpl in *; auto; discriminate. }
  destruct (nth_error ls i) as [[| |j]|]; auto. destruct (is_done st j); auto.
Qed.

Lemma lrun_keeps_done : forall ls sched st k, nth_error st k = Some LDone -> nth_error (lrun ls st sched) k = Some LDone.
Proof.
  intros ls. unfold lrun. induction sched as [|i r IH]; intros st k H; simpl; [exact H|].
  apply IH. now apply lstep_keeps_done.
Qed.

Lemma set_nth_same : forall A (l : list A) i v, i < length l -> nth_error (set_nth i v l) i = Some v.
Proof. induction l; intros [|i] v H; simpl in *; try lia; auto. apply IHl. lia. Qed.

Lemma listeners_returning_complete_lemma : forall ls i, Returns ls i ->
  forall st, all_started st -> length st = length ls ->
  exists sched, nth_error (lrun ls st sched) i = Some LDone.
Proof.
  intros ls i R. induction R as [i Hk|i j Hk Rj IH]; intros st Hs Hl.
  - assert (Hi : i < length st). { rewrite Hl. apply nth_error_Some. congruence. }
    exists [i]. unfold lrun. simpl. unfold lstep. rewrite Hk.
    destruct (nth_error st i) as [[]|] eqn:Es.
    + exfalso. unfold all_started in Hs. rewrite Forall_forall in Hs.
      apply (Hs LNotStarted); [|reflexivity]. eapply nth_error_In; eauto.
    + now apply set_nth_same.
    + exact Es.
    + apply nth_error_None in Es. lia.
  - destruct (IH st Hs Hl) as [s1 H1].
    exists (s1 ++ [i]). unfold lrun in *. rewrite fold_left_app. simpl.
    set (st1 := fold_left (lstep ls) s1 st) in *.
    assert (Hs1 : all_started st1 /\ length st1 = length ls).
    { subst st1. clear H1. revert st Hs Hl. induction s1 as [|x r IHr]; intros st Hs Hl; simpl; [auto|].
      apply IHr; [now apply lstep_started|now rewrite lstep_length]. }
    destruct Hs1 as [Hs1 Hl1].
    assert (Hi : i < length st1). { rewrite Hl1. apply nth_error_Some. congruence. }
    unfold lstep. rewrite Hk.
    destruct (nth_error st1 i) as [[]|] eqn:Es.
    + exfalso. unfold all_started in Hs1. rewrite Forall_forall in Hs1.
      apply (Hs1 LNotStarted); [|reflexivity]. eapply nth_error_In; eauto.
    + unfold is_done. rewrite H1. now apply set_nth_same.
    + exact Es.
    + apply nth_error_None in Es. lia.
Qed.

Lemma returnsb_sound : forall fuel ls i, returnsb fuel ls i = true -> Returns ls i.
Proof.
  induction fuel as [|f IH]; intros ls i H; simpl in H; [discriminate|].
  destruct (nth_error ls i) as [[| |j]|] eqn:E; try discriminate.
  - now apply RetRun.
  - eapply RetWait; [exact E|]. now apply IH.
Qed.
