(* Abstract content of a bolt file: the bucket tree as a sorted association from paths to
   entries.  A path is the list of keys from the root; a bucket is recorded by an [EBucket]
   entry at its own path (so empty buckets are expressible), a key/value pair by [EVal].
   Model only - proofs are in ContentProofs.v. *)
From Coq Require Import List NArith Bool.
From Storage Require Import Base.Bytes.
Import ListNotations.
Open Scope N_scope.

Definition path := list str.

Fixpoint path_cmp (a b : path) : comparison :=
  match a, b with
  | [], [] => Eq
  | [], _ :: _ => Lt
  | _ :: _, [] => Gt
  | x :: a', y :: b' =>
      match str_cmp x y with
      | Eq => path_cmp a' b'
      | c => c
      end
  end.

Definition path_eqb (a b : path) : bool := match path_cmp a b with Eq => true | _ => false end.

Fixpoint path_prefix (p q : path) : bool :=
  match p, q with
  | [], _ => true
  | x :: p', y :: q' => str_eqb x y && path_prefix p' q'
  | _ :: _, [] => false
  end.

Inductive entry := EBucket | EVal (v : str).

Definition content := list (path * entry).

Fixpoint lookup (p : path) (c : content) : option entry :=
  match c with
  | [] => None
  | (q, e) :: r => if path_eqb p q then Some e else lookup p r
  end.

(* insert or replace, keeping the list sorted by path *)
Fixpoint ins (p : path) (e : entry) (c : content) : content :=
  match c with
  | [] => [(p, e)]
  | (q, f) :: r =>
      match path_cmp p q with
      | Eq => (p, e) :: r
      | Lt => (p, e) :: (q, f) :: r
      | Gt => (q, f) :: ins p e r
      end
  end.

Fixpoint remove_path (p : path) (c : content) : content :=
  match c with
  | [] => []
  | (q, f) :: r => if path_eqb p q then remove_path p r else (q, f) :: remove_path p r
  end.

(* remove the bucket at [p] and everything below it *)
Fixpoint remove_tree (p : path) (c : content) : content :=
  match c with
  | [] => []
  | (q, f) :: r => if path_prefix p q then remove_tree p r else (q, f) :: remove_tree p r
  end.

(* CreateBucketIfNotExists along the chain [bs] (relative to [pre]) *)
Fixpoint ensure_from (pre bs : path) (c : content) : content :=
  match bs with
  | [] => c
  | b :: r => ensure_from (pre ++ [b]) r (ins (pre ++ [b]) EBucket c)
  end.

Definition ensure (bs : path) (c : content) : content := ensure_from [] bs c.

(* low-level write operations of a transaction *)
Inductive wop :=
| WPut (bs : path) (k v : str)     (* get-or-create the bucket chain bs, Put k v *)
| WDel (bs : path) (k : str)       (* delete key k of bucket bs (no-op when absent) *)
| WMk (bs : path)                  (* get-or-create the bucket chain *)
| WRm (bs : path).                 (* delete bucket bs with its sub-tree (no-op when absent) *)

Definition is_val (o : option entry) : bool := match o with Some (EVal _) => true | _ => false end.
Definition is_bucket (o : option entry) : bool := match o with Some EBucket => true | _ => false end.

Definition apply_wop (c : content) (w : wop) : content :=
  match w with
  | WPut bs k v => ins (bs ++ [k]) (EVal v) (ensure bs c)
  | WDel bs k => if is_val (lookup (bs ++ [k]) c) then remove_path (bs ++ [k]) c else c
  | WMk bs => ensure bs c
  | WRm bs => if is_bucket (lookup bs c) then remove_tree bs c else c
  end.

Definition apply_wops (c : content) (ws : list wop) : content := fold_left apply_wop ws c.

(* ---- typed fields as boltz.TypedBucket encodes them (type tag byte + payload) ---- *)
Definition TypeBool : byte := 1.
Definition TypeString : byte := 5.
Definition TypeNil : byte := 7.

Definition enc_string (s : str) : str := TypeString :: s.
Definition enc_bool (b : bool) : str := [TypeBool; if b then 1 else 0].

(* TypedBucket.GetString on a field that holds a string, nil, or is absent *)
Definition get_string (o : option entry) : option str :=
  match o with
  | Some (EVal (t :: s)) => if t =? TypeString then Some s else None
  | _ => None
  end.

(* TypedBucket.GetBool on a field that holds a bool, nil, or is absent *)
Definition get_bool (o : option entry) : option bool :=
  match o with
  | Some (EVal (t :: b :: _)) => if t =? TypeBool then Some (b =? 1) else None
  | _ => None
  end.

Definition get_bool_default (o : option entry) (d : bool) : bool :=
  match get_bool o with Some b => b | None => d end.

(* names used by boltz/db.go *)
Definition s_meta : str := [109; 101; 116; 97].                                    (* "meta" *)
Definition s_snapshotId : str := [115; 110; 97; 112; 115; 104; 111; 116; 73; 100]. (* "snapshotId" *)
Definition s_resetTimeline : str :=
  [114; 101; 115; 101; 116; 84; 105; 109; 101; 108; 105; 110; 101].                (* "resetTimeline" *)
Definition s_timelineId : str := [116; 105; 109; 101; 108; 105; 110; 101; 73; 100]. (* "timelineId" *)

Definition p_meta : path := [s_meta].
Definition p_snapshotId : path := [s_meta; s_snapshotId].
Definition p_resetTimeline : path := [s_meta; s_resetTimeline].
Definition p_timelineId : path := [s_meta; s_timelineId].

(* b := GetOrCreatePath(tx, "meta"); b.SetString / b.SetBool *)
Definition meta_set (k : str) (v : str) (c : content) : content := ins [s_meta; k] (EVal v) (ensure p_meta c).
