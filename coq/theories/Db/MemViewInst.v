(* The finite obligation about the CURRENT source: every string / slice the repository builds as a view
   of existing memory views memory the same function has just allocated.  Re-checked on every run against
   Gen/GenAccess.v view_table.  Domain of the computation: that table (empty on the pinned tree). *)
From Coq Require Import List String Bool.
From Storage Require Import Db.MemView Gen.GenAccess.
Import ListNotations.

Lemma generated_views_owned : views_owned view_table = true.
Proof. vm_compute. reflexivity. Qed.

Lemma no_foreign_memory_views_lemma : forall v, In v view_table -> mv_owned v = true.
Proof. exact (views_owned_sound view_table generated_views_owned). Qed.
