(* The finite obligation about the CURRENT source: no function that joins a running transaction takes
   the handle's lock again.  Re-checked on every run against the table translators/access has just
   regenerated (Gen/GenAccess.v lock_table).  Domain of the computation: that table. *)
From Coq Require Import List String Bool.
From Storage Require Import Db.RwLock Db.LockTable Db.LockTableProofs Gen.GenAccess.
Import ListNotations.
Open Scope string_scope.

Lemma generated_lock_table_reentrant_free : reentrant_free lock_table = true.
Proof. vm_compute. reflexivity. Qed.

(* the entry points the harness composes transactions of are rows (the statement is not about an empty table) *)
Definition named_lockfns : list string := ["boltz.DbImpl.Update"; "boltz.DbImpl.Batch"; "boltz.DbImpl.RootBucket"].

Lemma generated_lock_table_names : forallb (has_lockfn lock_table) named_lockfns = true.
Proof. vm_compute. reflexivity. Qed.

Lemma joined_calls_never_deadlock_lemma :
  forall (p : bool) (bodies : list (list lockfn)) (nrestore : nat) (sched : list nat),
  (forall b f, In b bodies -> In f b -> In f lock_table) ->
  let ths := (map tx_thread bodies ++ repeat (Restorer RIdle) nrestore)%list in
  let s := run (init p ths) sched in
  forallb finished (threads s) = true \/ exists i, step s i <> s.
Proof. exact (reentrant_free_no_deadlock_lemma lock_table generated_lock_table_reentrant_free). Qed.
