(* Proofs about Db/Reader.v: the copy loop writes the concatenation of the reads, whatever the
   chunking, the buffer sizes, the zero-length reads and the way EOF is reported. *)
From Coq Require Import List Bool Arith Lia.
From Storage Require Import Db.Reader.
Import ListNotations.

Section Proofs.
Context {A : Type}.

Lemma is_nil_true : forall (l : list A), is_nil l = true -> l = [].
Proof. intros [|x l] H; [reflexivity|discriminate]. Qed.

(* one read hands out a prefix of what is left; it either reports no error and makes progress
   (a scripted size is consumed or at least one byte is delivered), or it reports the end
   (EOF / the failure) exactly when everything was handed out *)
Lemma read_spec : forall endE withd rst cap (rem : list A) pr chunk e rem' pr',
  1 <= cap -> endE <> ENone ->
  read endE withd rst cap rem pr = (chunk, e, rem', pr') ->
  chunk ++ rem' = rem
  /\ ((e = ENone /\ length pr' + length rem' < length pr + length rem) \/ (e = endE /\ rem' = [])).
Proof.
  intros endE withd rst cap rem pr chunk e rem' pr' Hcap HendE H.
  unfold read in H.
  assert (Gen : forall want, 1 <= want ->
            match rem with
            | [] => ([], endE, [], tl pr)
            | _ :: _ => (firstn (Nat.min want cap) rem,
                         (if is_nil (skipn (Nat.min want cap) rem) && withd then endE else ENone),
                         skipn (Nat.min want cap) rem, tl pr)
            end = (chunk, e, rem', pr') ->
            pr <> [] \/ True ->
            chunk ++ rem' = rem
            /\ ((e = ENone /\ length (tl pr) + length rem' < length (tl pr) + length rem) \/ (e = endE /\ rem' = []))).
  { intros want Hw G _. destruct rem as [|a r].
    - inversion G; subst. split; [reflexivity|right; split; reflexivity].
    - set (k := Nat.min want cap) in *. assert (Hk : 1 <= k) by (unfold k; lia).
      inversion G; subst chunk e rem' pr'. split; [apply firstn_skipn|].
      destruct (is_nil (skipn k (a :: r)) && withd) eqn:E.
      + right. apply andb_true_iff in E. destruct E as [E _]. split; [reflexivity|now apply is_nil_true].
      + left. split; [reflexivity|]. rewrite skipn_length. simpl length. lia. }
  destruct pr as [|[|n] pr0].
  - assert (Hw : 1 <= (if rst =? 0 then cap else rst)).
    { destruct (rst =? 0) eqn:E; [exact Hcap|apply Nat.eqb_neq in E; lia]. }
    destruct (Gen _ Hw H (or_intror I)) as [G1 G2]. split; [exact G1|].
    assert (Epr : pr' = []).
    { destruct rem; inversion H; reflexivity. }
    subst pr'. simpl in *. exact G2.
  - inversion H; subst. split; [reflexivity|left; split; [reflexivity|simpl; lia]].
  - assert (Hw : 1 <= S n) by lia.
    destruct (Gen _ Hw H (or_intror I)) as [G1 G2]. split; [exact G1|].
    assert (Epr : pr' = pr0).
    { destruct rem; inversion H; reflexivity. }
    subst pr'. simpl in *. destruct G2 as [[G2 G3]|G2]; [left; split; [exact G2|lia]|right; exact G2].
Qed.

Definition status_of (e : rerr) : cstatus := match e with EFail => CFail | _ => COk end.

Lemma copy_loop_spec : forall fuel endE withd rst caps i (rem : list A) pr,
  length pr + length rem < fuel -> endE <> ENone ->
  copy_loop fuel endE withd rst caps i rem pr = (rem, status_of endE).
Proof.
  induction fuel as [|f IH]; intros endE withd rst caps i rem pr Hf HendE; [lia|].
  simpl. destruct (read endE withd rst (S (caps i)) rem pr) as [[[chunk e] rem'] pr'] eqn:R.
  apply read_spec in R; [|lia|exact HendE].
  destruct R as [Happ [[He Hlt]|[He Hnil]]].
  - subst e. rewrite IH; [|lia|exact HendE]. now rewrite Happ.
  - subst e rem'. rewrite app_nil_r in Happ. subst chunk.
    destruct endE; [congruence|reflexivity|reflexivity].
Qed.

(* THE statement: what reaches the file is a function of the byte sequence and of where (if at
   all) the reader fails - not of the sizes of the reads, of the buffers offered ([caps]), of
   zero-length reads or of the way the end is reported *)
Lemma copy_spec : forall (sc : script) (caps : nat -> nat) (bs : list A),
  copy sc caps bs = (firstn (limit sc (length bs)) bs, if failing sc (length bs) then CFail else COk).
Proof.
  intros sc caps bs. unfold copy, copy_fuel.
  rewrite copy_loop_spec.
  - unfold end_err. destruct (failing sc (length bs)); reflexivity.
  - rewrite firstn_length. lia.
  - unfold end_err. destruct (failing sc (length bs)); discriminate.
Qed.

Lemma limit_not_failing : forall sc len, failing sc len = false -> limit sc len = len.
Proof.
  intros sc len H. unfold failing, limit in *. destruct (fail_at sc) as [k|]; [|reflexivity].
  apply Nat.leb_gt in H. lia.
Qed.

Lemma copy_complete : forall (sc : script) (caps : nat -> nat) (bs : list A),
  failing sc (length bs) = false -> copy sc caps bs = (bs, COk).
Proof.
  intros sc caps bs H. rewrite copy_spec, H, limit_not_failing by exact H. now rewrite firstn_all.
Qed.

Lemma copy_failing : forall (sc : script) (caps : nat -> nat) (bs : list A),
  failing sc (length bs) = true ->
  snd (copy sc caps bs) = CFail /\ exists tail, fst (copy sc caps bs) ++ tail = bs.
Proof.
  intros sc caps bs H. rewrite copy_spec, H. simpl. split; [reflexivity|].
  exists (skipn (limit sc (length bs)) bs). apply firstn_skipn.
Qed.

Lemma copy_chunking_independent : forall (sc1 sc2 : script) (caps1 caps2 : nat -> nat) (bs : list A),
  failing sc1 (length bs) = false -> failing sc2 (length bs) = false ->
  copy sc1 caps1 bs = copy sc2 caps2 bs.
Proof. intros. now rewrite !copy_complete. Qed.

Lemma copy_of_chunking : forall (bs : list A) (pieces : list (list A)) (eofd : bool) (caps : nat -> nat),
  chunking bs pieces -> copy (script_of_pieces pieces eofd) caps bs = (concat pieces, COk).
Proof.
  intros bs pieces eofd caps H. unfold chunking in H. rewrite H. now apply copy_complete.
Qed.

(* two chunkings of one byte sequence - any piece sizes, empty pieces anywhere, EOF with the last
   piece or after it, any buffers - put the same bytes into the file: the sequence itself *)
Lemma copy_chunkings_agree_lemma : forall (bs : list A) (pieces1 pieces2 : list (list A)) (eofd1 eofd2 : bool)
    (caps1 caps2 : nat -> nat),
  chunking bs pieces1 -> chunking bs pieces2 ->
  copy (script_of_pieces pieces1 eofd1) caps1 bs = copy (script_of_pieces pieces2 eofd2) caps2 bs
  /\ copy (script_of_pieces pieces1 eofd1) caps1 bs = (bs, COk).
Proof.
  intros bs p1 p2 e1 e2 c1 c2 H1 H2. rewrite !copy_complete by reflexivity. split; reflexivity.
Qed.

End Proofs.

(* the loop never looks at the bytes: it commutes with any renaming of them *)
Lemma copy_natural : forall {A B} (f : A -> B) (sc : script) (caps : nat -> nat) (bs : list A),
  copy sc caps (map f bs) = (map f (fst (copy sc caps bs)), snd (copy sc caps bs)).
Proof.
  intros A B f sc caps bs. rewrite !copy_spec, map_length. simpl. now rewrite firstn_map.
Qed.
