(* C18: what a reader has read stays what it was.  In the model an observation is a value; the
   statement is about the system: no later event - further reads, the end of the transaction, any
   number of writer commits - removes or alters an observation a reader has made.  The harness
   counterpart: a reader keeps entities, maps and id lists beyond its transaction and compares them
   with their rendering at load time after later commits and restores (case lines "K ..."). *)
From Coq Require Import List Arith.
From Storage Require Import Db.Mvcc.
Import ListNotations.

Section MvccKeep.
  Variable state : Type.
  Variable query : Type.
  Variable answer : Type.
  Variable eval : query -> state -> answer.
  Variable wtx : Type.
  Variable apply_tx : wtx -> state -> option state.

  Notation sys := (sys state query answer).
  Notation reader := (reader query answer).
  Notation step := (step state query answer eval wtx apply_tx).
  Notation run := (run state query answer eval wtx apply_tx).
  Notation rdrs := (readers state query answer).
  Notation robs := (r_obs query answer).

  (* reader r' still holds everything reader r held, unchanged and in the same order *)
  Definition keeps (r r' : reader) : Prop := exists newer, robs r' = newer ++ robs r.

  Lemma keeps_refl : forall r, keeps r r.
  Proof. intro r. now exists []. Qed.

  Lemma keeps_trans : forall a b c, keeps a b -> keeps b c -> keeps a c.
  Proof. intros a b c [l1 H1] [l2 H2]. exists (l2 ++ l1). rewrite H2, H1. now rewrite app_assoc. Qed.

  Lemma upd_nth_keeps : forall (f : reader -> reader), (forall r, keeps r (f r)) ->
    forall j l i r, nth_error l i = Some r ->
    exists r', nth_error (upd_nth j f l) i = Some r' /\ keeps r r'.
  Proof.
    intros f Hf j l. revert j. induction l as [|x l IH]; intros j i r Hn.
    - destruct i; discriminate.
    - destruct j, i; simpl in *.
      + inversion Hn; subst. eexists. split; [reflexivity|apply Hf].
      + exists r. split; [exact Hn|apply keeps_refl].
      + inversion Hn; subst. exists r. split; [reflexivity|apply keeps_refl].
      + apply IH. exact Hn.
  Qed.

  Lemma rd_begin_keeps : forall v r, keeps r (rd_begin query answer v r).
  Proof. intros v r. unfold rd_begin. destruct (r_bound query answer r); [apply keeps_refl|now exists []]. Qed.

  Lemma rd_read_keeps : forall vs q r, keeps r (rd_read state query answer eval vs q r).
  Proof.
    intros vs q r. unfold rd_read. destruct (r_bound query answer r) as [v|]; [|apply keeps_refl].
    destruct (nth_error vs v); [|apply keeps_refl]. eexists [_]. reflexivity.
  Qed.

  Lemma rd_end_keeps : forall r, keeps r (rd_end query answer r).
  Proof. intro r. now exists []. Qed.

  Lemma step_keeps : forall (s : sys) e i r, nth_error (rdrs s) i = Some r ->
    exists r', nth_error (rdrs (step s e)) i = Some r' /\ keeps r r'.
  Proof.
    intros s e i r Hn. destruct e as [j|j q|j|w]; simpl.
    - apply upd_nth_keeps; [apply rd_begin_keeps|exact Hn].
    - apply upd_nth_keeps; [apply rd_read_keeps|exact Hn].
    - apply upd_nth_keeps; [apply rd_end_keeps|exact Hn].
    - destruct (nth_error (versions state query answer s) (current state query answer s)) as [st|];
        [|exists r; split; [exact Hn|apply keeps_refl]].
      destruct (apply_tx w st); exists r; (split; [exact Hn|apply keeps_refl]).
  Qed.

  Lemma kept_observations_persist_lemma : forall es (s : sys) i r, nth_error (rdrs s) i = Some r ->
    exists r', nth_error (rdrs (run s es)) i = Some r' /\ keeps r r'.
  Proof.
    induction es as [|e es IH]; intros s i r Hn.
    - exists r. split; [exact Hn|apply keeps_refl].
    - destruct (step_keeps s e i r Hn) as [r1 [H1 K1]].
      destruct (IH (step s e) i r1 H1) as [r2 [H2 K2]].
      exists r2. split; [exact H2|]. eapply keeps_trans; eassumption.
  Qed.
End MvccKeep.
