(* C18: values handed to a reader must own their memory.

   bbolt hands out slices of the memory-mapped database file; they are valid only while the
   transaction is open - afterwards the writer reuses the pages and a restore unmaps the file.
   boltz copies what it returns to the caller as strings, string lists, maps and entity fields
   (string(bytes) conversions), so a value a reader obtained is a picture of one committed version
   for good (Db/MvccKeepProofs.v).  The only way to build a Go string or slice WITHOUT a copy is a
   view: unsafe.String / Slice / Pointer arithmetic, reflect.StringHeader / SliceHeader.

   translators/access regenerates [view_table] (Gen/GenAccess.v) from the Go source on every run: one
   row per such construction in the repository's packages, with whether the viewed memory is a fresh
   allocation of the same function.  On the pinned tree the table is empty. *)
From Coq Require Import List String Bool.
Import ListNotations.

Record memview := {
  mv_fn : string;        (* function containing the construction *)
  mv_what : string;      (* unsafe.String, unsafe.Slice, reflect.StringHeader ... *)
  mv_operand : string;   (* the memory viewed, as written in the source *)
  mv_owned : bool        (* rooted at a local variable whose every definition is a fresh allocation *)
}.

Definition views_owned (t : list memview) : bool := forallb mv_owned t.

Definition foreign_views (t : list memview) : list (string * string * string) :=
  flat_map (fun v => if mv_owned v then [] else [(mv_fn v, mv_what v, mv_operand v)]) t.

Lemma views_owned_sound : forall t, views_owned t = true -> forall v, In v t -> mv_owned v = true.
Proof. intros t H v Hin. unfold views_owned in H. rewrite forallb_forall in H. now apply H. Qed.
