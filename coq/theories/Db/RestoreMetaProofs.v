(* Proofs about Db/RestoreMeta.v. *)
From Coq Require Import List NArith Bool Arith Lia.
From Storage Require Import Base.Bytes Db.Content Db.ContentProofs Db.Timeline Db.Snapshot Db.SnapshotProofs
  Db.Reader Db.ReaderProofs Db.RestoreX Db.RestoreXProofs Db.SnapPath Db.SnapPathProofs Db.RestoreMeta.
Import ListNotations.

(* ---------------- the snapshot id under the metadata calls ---------------- *)

(* the invariant: keys live inside buckets, and GetSnapshotId answers [v] *)
Definition sid_inv (v : option str) (c : content) : Prop := meta_wf c /\ get_snapshot_id c = v.

Lemma sid_inv_ext : forall v c c',
  lookup p_meta c' = lookup p_meta c -> lookup p_snapshotId c' = lookup p_snapshotId c ->
  sid_inv v c -> sid_inv v c'.
Proof.
  intros v c c' E1 E2 [W G]. split.
  - unfold meta_wf in *. rewrite E1, E2. exact W.
  - unfold get_snapshot_id in *. now rewrite E1, E2.
Qed.

Lemma tl_content_cases : forall m idf c,
  let c' := tl_content (get_timeline_id m idf c) in
  c' = c \/ lookup p_meta c' = Some EBucket.
Proof.
  intros m idf c. cbv zeta. unfold get_timeline_id.
  destruct (get_bool_default (lookup p_resetTimeline (ensure p_meta c)) false
            || force_reset m (get_string (lookup p_timelineId (ensure p_meta c)))).
  - destruct idf as [id|]; simpl; [right|left; reflexivity]. apply lookup_meta_set_meta.
  - simpl. right. rewrite ensure_meta. apply lookup_ins_same.
Qed.

Lemma tl_sid_inv : forall v m idf c, sid_inv v c -> sid_inv v (tl_content (get_timeline_id m idf c)).
Proof.
  intros v m idf c [W G].
  assert (S : lookup p_snapshotId (tl_content (get_timeline_id m idf c)) = lookup p_snapshotId c).
  { apply timeline_frame; discriminate. }
  destruct (tl_content_cases m idf c) as [E|B]; cbv zeta in *.
  - rewrite E. split; assumption.
  - split.
    + unfold meta_wf. rewrite B. simpl. discriminate.
    + unfold get_snapshot_id in *. rewrite B, S. simpl.
      destruct (is_bucket (lookup p_meta c)) eqn:M; [exact G|].
      rewrite (W M). simpl. exact G.
Qed.

Lemma mcall_step_live : forall d c,
  live (fst (mcall_step d c)) = live d
  \/ exists m idf, live (fst (mcall_step d c)) = tl_content (get_timeline_id m idf (live d)).
Proof.
  intros d c. destruct c as [|m idf| | |]; simpl; try (left; reflexivity).
  right. exists m, idf. reflexivity.
Qed.

Lemma mcall_step_sid : forall v d c, sid_inv v (live d) -> sid_inv v (live (fst (mcall_step d c))).
Proof.
  intros v d c H. destruct (mcall_step_live d c) as [E|[m [idf E]]]; rewrite E; [exact H|].
  now apply tl_sid_inv.
Qed.

Lemma mcall_step_obs : forall v d c, sid_inv v (live d) -> forall i, snd (mcall_step d c) = MoSnapId i -> i = v.
Proof.
  intros v d c [_ G] i E. destruct c; simpl in E; try discriminate. inversion E. subst i. exact G.
Qed.

(* whatever calls are made, in any number and order: every GetSnapshotId among them answers what
   it answered before them, and so does one made afterwards *)
Lemma mcalls_sid : forall cs v d, sid_inv v (live d) ->
  snapids_are v (snd (mcalls d cs)) /\ sid_inv v (live (fst (mcalls d cs))).
Proof.
  induction cs as [|c r IH]; intros v d H; simpl.
  - split; [constructor|exact H].
  - pose proof (mcall_step_sid v d c H) as H1. pose proof (mcall_step_obs v d c H) as O1.
    destruct (mcall_step d c) as [d1 o]. simpl in H1, O1.
    destruct (IH v d1 H1) as [F I]. destruct (mcalls d1 r) as [d2 os]. simpl in *.
    split; [|exact I]. constructor; [exact O1|exact F].
Qed.

Lemma mcall_step_files : forall d c, files (fst (mcall_step d c)) = files d.
Proof. intros d c. destruct c; reflexivity. Qed.

Lemma mcalls_files : forall cs d, files (fst (mcalls d cs)) = files d.
Proof.
  induction cs as [|c r IH]; intro d; simpl; [reflexivity|].
  pose proof (mcall_step_files d c) as E1. destruct (mcall_step d c) as [d1 o]. simpl in E1.
  pose proof (IH d1) as E2. destruct (mcalls d1 r) as [d2 os]. simpl in *. congruence.
Qed.

(* ---------------- the restored file's snapshot id survives the listeners ---------------- *)

Lemma listener_step_sid : forall v d b, sid_inv v (live d) -> sid_inv v (live (fst (listener_step d b))).
Proof.
  intros v d b H. destruct b as [| | |m|key]; simpl; try exact H.
  - now apply tl_sid_inv.
  - eapply sid_inv_ext; [| |exact H]; apply lsn_write_frame; reflexivity.
Qed.

Lemma fire_sid : forall bs v d, sid_inv v (live d) -> sid_inv v (live (fst (fire d bs))).
Proof.
  induction bs as [|b r IH]; intros v d H; simpl; [exact H|].
  pose proof (listener_step_sid v d b H) as H1. destruct (listener_step d b) as [d1 o]. simpl in H1.
  pose proof (IH v d1 H1) as H2. destruct (fire d1 r) as [d2 os]. exact H2.
Qed.

Lemma mark_sid : forall id c, sid_inv (Some id) (mark id c).
Proof.
  intros id c. split.
  - unfold meta_wf. rewrite mark_meta. simpl. discriminate.
  - unfold get_snapshot_id. rewrite mark_meta. simpl. now rewrite mark_snapshot_id.
Qed.

Lemma xrestore_sid : forall x id c, sid_inv (Some id) (live (base (fst (xrestore x (mark id c))))).
Proof.
  intros x id c. unfold xrestore.
  pose proof (fire_sid (bodies x) (Some id) (restore_step (base x) (mark id c)) (mark_sid id c)) as H.
  destruct (fire (restore_step (base x) (mark id c)) (bodies x)) as [d' os]. exact H.
Qed.

(* ---------------- RestoreFromReader through a reader that calls the database ---------------- *)

(* a reader that does not fail: the calls it makes are made on the database as it was, then the
   file replaces it *)
Lemma mstep_reader_ok : forall caps p k len sc cbs c,
  nth_error (files (base (px p))) k = Some c -> failing sc len = false ->
  let r := mcalls (base (px p)) (due sc len cbs) in
  mstep caps p (MRestoreReader k len sc cbs) =
    (let '(x2, b) := xrestore {| base := fst r; bodies := bodies (px p) |} c in
     ({| px := x2; named := named p |}, MoRestore (snd r) b)).
Proof.
  intros caps p k len sc cbs c F NF. cbv zeta. cbn [mstep]. rewrite F.
  pose proof (mcalls_files (due sc len cbs) (base (px p))) as EF.
  destruct (mcalls (base (px p)) (due sc len cbs)) as [d1 os]. cbn [fst snd] in *.
  cbn [xstep with_base px base]. rewrite EF, F.
  rewrite copy_seq_ok by exact NF. rewrite n_list_eqb_refl. reflexivity.
Qed.

(* the reader fails: the restore is refused; the database is what the calls that were made left *)
Lemma mstep_reader_refused : forall caps p k len sc cbs,
  nth_error (files (base (px p))) k <> None -> failing sc len = true ->
  let r := mcalls (base (px p)) (due sc len cbs) in
  mstep caps p (MRestoreReader k len sc cbs) = (with_base p (fst r), MoRestore (snd r) XoRefused).
Proof.
  intros caps p k len sc cbs F FL. cbv zeta. cbn [mstep].
  destruct (nth_error (files (base (px p))) k) as [c|] eqn:E; [|congruence].
  pose proof (mcalls_files (due sc len cbs) (base (px p))) as EF.
  destruct (mcalls (base (px p)) (due sc len cbs)) as [d1 os]. cbn [fst snd] in *.
  assert (N : nth_error (files (base (px (with_base p d1)))) k <> None) by (cbn; rewrite EF, E; discriminate).
  destruct (xstep_reader_refused_lemma caps (px (with_base p d1)) k len sc FL) as [E1 E2].
  specialize (E2 N).
  destruct (xstep caps (px (with_base p d1)) (XRestoreReader k len sc)) as [x2 b]. cbn [fst snd] in *.
  subst x2 b. reflexivity.
Qed.

(* after the restore of a snapshot file, whatever the reader asked while it was streaming:
   the database carries the file's snapshot id *)
Lemma mstep_reader_sid : forall caps p k len sc cbs id c,
  nth_error (files (base (px p))) k = Some (mark id c) -> failing sc len = false ->
  sid_inv (Some id) (live (base (px (fst (mstep caps p (MRestoreReader k len sc cbs)))))).
Proof.
  intros caps p k len sc cbs id c F NF. rewrite (mstep_reader_ok caps p k len sc cbs _ F NF).
  pose proof (xrestore_sid {| base := fst (mcalls (base (px p)) (due sc len cbs)); bodies := bodies (px p) |} id c) as H.
  destruct (xrestore _ (mark id c)) as [x2 b]. exact H.
Qed.

Lemma mstep_reader_frame : forall caps p k len sc cbs c q,
  nth_error (files (base (px p))) k = Some c -> failing sc len = false -> listener_touched q = false ->
  lookup q (live (base (px (fst (mstep caps p (MRestoreReader k len sc cbs)))))) = lookup q c.
Proof.
  intros caps p k len sc cbs c q F NF T. rewrite (mstep_reader_ok caps p k len sc cbs _ F NF).
  pose proof (xrestore_frame_lemma {| base := fst (mcalls (base (px p)) (due sc len cbs)); bodies := bodies (px p) |} c q T) as H.
  destruct (xrestore _ c) as [x2 b]. exact H.
Qed.

(* ---- what the restore leaves does not depend on what was asked while it was streaming ---- *)

Lemma listener_step_live_ext : forall d d' b, live d = live d' ->
  live (fst (listener_step d b)) = live (fst (listener_step d' b)) /\ snd (listener_step d b) = snd (listener_step d' b).
Proof.
  intros d d' b E. destruct b as [| | |m|key]; simpl; rewrite ?E; split; reflexivity.
Qed.

Lemma fire_live_ext : forall bs d d', live d = live d' ->
  live (fst (fire d bs)) = live (fst (fire d' bs)) /\ snd (fire d bs) = snd (fire d' bs).
Proof.
  induction bs as [|b r IH]; intros d d' E; simpl; [split; [exact E|reflexivity]|].
  destruct (listener_step_live_ext d d' b E) as [E1 O1].
  destruct (listener_step d b) as [d1 o1]. destruct (listener_step d' b) as [d1' o1']. simpl in E1, O1.
  destruct (IH d1 d1' E1) as [E2 O2].
  destruct (fire d1 r) as [d2 os]. destruct (fire d1' r) as [d2' os']. simpl in *. split; [exact E2|congruence].
Qed.

Lemma restore_independent_of_calls_lemma : forall caps p k len sc cbs c,
  nth_error (files (base (px p))) k = Some c -> failing sc len = false ->
  let with_calls := mstep caps p (MRestoreReader k len sc cbs) in
  let without := mstep caps p (MRestoreReader k len sc []) in
  live (base (px (fst with_calls))) = live (base (px (fst without)))
  /\ (forall os b os' b', snd with_calls = MoRestore os b -> snd without = MoRestore os' b' -> b = b').
Proof.
  intros caps p k len sc cbs c F NF. cbv zeta.
  rewrite (mstep_reader_ok caps p k len sc cbs _ F NF), (mstep_reader_ok caps p k len sc [] _ F NF).
  unfold xrestore. cbn [base bodies].
  set (d1 := fst (mcalls (base (px p)) (due sc len cbs))).
  set (d0 := fst (mcalls (base (px p)) (due sc len []))).
  destruct (fire_live_ext (bodies (px p)) (restore_step d1 c) (restore_step d0 c) eq_refl) as [E O].
  destruct (fire (restore_step d1 c) (bodies (px p))) as [da osa].
  destruct (fire (restore_step d0 c) (bodies (px p))) as [db osb]. simpl in *.
  split; [exact E|]. intros os b os' b' H1 H2. inversion H1. inversion H2. subst. reflexivity.
Qed.

(* ---------------- calls from inside the reader = the same calls in front of the restore ---------------- *)

Lemma with_base_base : forall p d, base (px (with_base p d)) = d.
Proof. reflexivity. Qed.

Lemma with_base_twice : forall p d d', with_base (with_base p d) d' = with_base p d'.
Proof. reflexivity. Qed.

Lemma with_base_same : forall p, with_base p (base (px p)) = p.
Proof. intros [[d bs] n]. reflexivity. Qed.

Lemma mrun_calls : forall caps cs p,
  mrun caps p (map MCall cs) = with_base p (fst (mcalls (base (px p)) cs)).
Proof.
  intros caps. induction cs as [|c r IH]; intro p; simpl.
  - now rewrite with_base_same.
  - unfold mrun in *. simpl. destruct (mcall_step (base (px p)) c) as [d1 o] eqn:E1. cbn [fst].
    rewrite IH. rewrite with_base_base, with_base_twice.
    destruct (mcalls d1 r) as [d2 os]. reflexivity.
Qed.

Lemma mrun_app : forall caps p a b, mrun caps p (a ++ b) = mrun caps (mrun caps p a) b.
Proof. intros. unfold mrun. apply fold_left_app. Qed.

Lemma mstep_flatten : forall caps p o,
  (forall k len sc cbs, o = MRestoreReader k len sc cbs -> nth_error (files (base (px p))) k <> None) ->
  fst (mstep caps p o) = mrun caps p (mflatten o).
Proof.
  intros caps p o H. destruct o as [o'|c|k len sc cbs]; try reflexivity.
  specialize (H k len sc cbs eq_refl). cbn [mflatten]. rewrite mrun_app, mrun_calls.
  unfold mrun. cbn [fold_left]. cbn [mstep].
  destruct (nth_error (files (base (px p))) k) as [c|] eqn:F; [|congruence].
  pose proof (mcalls_files (due sc len cbs) (base (px p))) as EF.
  destruct (mcalls (base (px p)) (due sc len cbs)) as [d1 os]. cbn [fst snd] in *.
  rewrite with_base_base, EF, F. unfold due at 1. cbn [filter map mcalls]. rewrite with_base_twice.
  destruct (xstep caps (px (with_base p d1)) (XRestoreReader k len sc)) as [x2 b]. reflexivity.
Qed.

(* ---------------- files are append-only ---------------- *)

Lemma mstep_files : forall caps p o, exists l, files (base (px (fst (mstep caps p o)))) = files (base (px p)) ++ l.
Proof.
  intros caps p o. destruct o as [o'|c|k len sc cbs].
  - cbn [mstep]. pose proof (pstep_files caps p o') as H. destruct (pstep caps p o') as [p' b]. exact H.
  - cbn [mstep]. pose proof (mcall_step_files (base (px p)) c) as H.
    destruct (mcall_step (base (px p)) c) as [d' b]. exists []. cbn in *. now rewrite app_nil_r.
  - cbn [mstep]. destruct (nth_error (files (base (px p))) k) as [c|]; [|exists []; cbn; now rewrite app_nil_r].
    pose proof (mcalls_files (due sc len cbs) (base (px p))) as EF.
    destruct (mcalls (base (px p)) (due sc len cbs)) as [d1 os]. cbn [fst] in EF.
    pose proof (xstep_files caps (px (with_base p d1)) (XRestoreReader k len sc)) as [l E].
    destruct (xstep caps (px (with_base p d1)) (XRestoreReader k len sc)) as [x2 b].
    exists l. cbn in *. now rewrite E, EF.
Qed.

Lemma mrun_files : forall caps ops p, exists l, files (base (px (mrun caps p ops))) = files (base (px p)) ++ l.
Proof.
  intros caps. induction ops as [|o r IH]; intro p.
  - exists []. cbn. now rewrite app_nil_r.
  - destruct (mstep_files caps p o) as [l1 H1]. destruct (IH (fst (mstep caps p o))) as [l2 H2].
    exists (l1 ++ l2). unfold mrun in *. cbn [fold_left]. rewrite H2, H1. now rewrite app_assoc.
Qed.

Lemma mrun_keeps_file : forall caps ops p k c,
  nth_error (files (base (px p))) k = Some c -> nth_error (files (base (px (mrun caps p ops)))) k = Some c.
Proof.
  intros caps ops p k c H. destruct (mrun_files caps ops p) as [l E]. rewrite E.
  rewrite nth_error_app1; [exact H|]. apply nth_error_Some. now rewrite H.
Qed.

(* ---------------- the property, with metadata readers everywhere ---------------- *)

(* pre ; snapshot ; post ; RestoreFromReader(reader over that file that calls the database from
   inside Read) - [pre] and [post] arbitrary, also such restores and calls *)
Definition mrestored (caps : nat -> nat) (p0 : pdb) (pre : list mop) (k : snap_kind) (post : list mop)
    (len : nat) (sc : script) (cbs : list (nat * mcall)) : pdb :=
  let p1 := mrun caps p0 pre in
  let p2 := fst (mstep caps p1 (MP (PX (XBase (OSnap k))))) in
  let p3 := mrun caps p2 post in
  fst (mstep caps p3 (MRestoreReader (length (files (base (px p1)))) len sc cbs)).

Lemma snapshot_mstep_file : forall caps p k,
  nth_error (files (base (px (fst (mstep caps p (MP (PX (XBase (OSnap k)))))))))
            (length (files (base (px p))))
  = Some (mark (fresh (uuids (base (px p)))) (live (base (px p)))).
Proof.
  intros caps p k. simpl. rewrite nth_error_app2 by lia. now rewrite Nat.sub_diag.
Qed.

Lemma restore_with_metadata_readers_lemma : forall caps p0 pre k post len sc cbs,
  failing sc len = false ->
  let d1 := base (px (mrun caps p0 pre)) in
  let id := fresh (uuids d1) in
  let d4 := base (px (mrestored caps p0 pre k post len sc cbs)) in
  (forall q, listener_touched q = false -> lookup q (live d4) = lookup q (mark id (live d1)))
  /\ get_snapshot_id (live d4) = Some id
  /\ forall polls, snapids_are (Some id) (snd (mcalls d4 polls))
                   /\ get_snapshot_id (live (fst (mcalls d4 polls))) = Some id.
Proof.
  intros caps p0 pre k post len sc cbs NF. cbv zeta. unfold mrestored. cbv zeta.
  set (p1 := mrun caps p0 pre).
  pose proof (snapshot_mstep_file caps p1 k) as F.
  apply (mrun_keeps_file caps post) in F.
  split; [|split].
  - intros q T. now apply mstep_reader_frame.
  - exact (proj2 (mstep_reader_sid caps _ _ len sc cbs _ _ F NF)).
  - intro polls. pose proof (mstep_reader_sid caps _ _ len sc cbs _ _ F NF) as I.
    destruct (mcalls_sid polls _ _ I) as [A [_ B]]. split; assumption.
Qed.

(* ---------------- calls of other goroutines racing the restore ---------------- *)

Lemma racing_restore_old_or_new_lemma : forall x id c before after,
  meta_wf (live (base x)) ->
  let '(x', o1, o2) := racing_restore x (mark id c) before after in
  snapids_are (get_snapshot_id (live (base x))) o1
  /\ snapids_are (Some id) o2
  /\ get_snapshot_id (live (base x')) = Some id.
Proof.
  intros x id c before after W. unfold racing_restore.
  destruct (mcalls_sid before _ (base x) (conj W eq_refl)) as [A _].
  destruct (mcalls (base x) before) as [d1 o1]. cbn [snd] in A.
  pose proof (xrestore_sid {| base := d1; bodies := bodies x |} id c) as I.
  destruct (xrestore {| base := d1; bodies := bodies x |} (mark id c)) as [x2 b]. cbn [fst] in I.
  destruct (mcalls_sid after _ (base x2) I) as [B [_ C]].
  destruct (mcalls (base x2) after) as [d3 o2]. cbn [fst snd base] in *.
  split; [exact A|split; [exact B|exact C]].
Qed.

(* the first timeline request that comes after the swap - whoever makes it, however early - is
   the fresh one (listeners that do not write) *)
Lemma racing_restore_timeline_fresh_lemma : forall x id c before m t rest,
  forallb readonly (bodies x) = true ->
  let '(_, _, o2) := racing_restore x (mark id c) before (MTimeline m (Some t) :: rest) in
  exists o2', o2 = MoTimeline (Some t) true :: o2'.
Proof.
  intros x id c before m t rest RO. unfold racing_restore.
  destruct (mcalls (base x) before) as [d1 o1].
  pose proof (xrestore_readonly {| base := d1; bodies := bodies x |} (mark id c) RO) as [E _].
  destruct (xrestore {| base := d1; bodies := bodies x |} (mark id c)) as [x2 b]. cbn [fst base] in E.
  cbn [mcalls mcall_step]. rewrite E. cbn [live restore_step].
  rewrite (timeline_reset_calls m t (mark id c) (mark_reset id c)). cbn [tl_id tl_called].
  destruct (mcalls _ rest) as [d3 os]. eexists. reflexivity.
Qed.
