(* The database handle of boltz/db.go as a state machine over abstract content:
   transactions, Snapshot / SnapshotInTx / StreamToWriter, RestoreSnapshot, GetSnapshotId,
   GetTimelineId, restore listeners.  Model only - proofs are in SnapshotProofs.v. *)
From Coq Require Import List NArith Bool Arith.
From Storage Require Import Base.Bytes Db.Content Db.Timeline.
Import ListNotations.
Open Scope N_scope.

(* uuid.NewString(): the k-th id handed out; distinct for distinct k (trusted: uuid freshness).
   Spelled "s" followed by k plus signs so that the harness can name real uuids the same way. *)
Definition fresh (k : nat) : str := 115 :: repeat 43 k.

(* MarkAsSnapshot: the two markers written INTO the copy *)
Definition mark (id : str) (c : content) : content :=
  meta_set s_resetTimeline (enc_bool true) (meta_set s_snapshotId (enc_string id) c).

Record db := {
  live : content;           (* committed content of the open bolt file *)
  files : list content;     (* snapshot files / streams produced so far *)
  uuids : nat;              (* uuid.NewString calls so far *)
  listeners : nat;          (* registered restore listeners *)
  fired : nat;              (* restore listener invocations so far *)
  idf_calls : nat           (* invocations of the caller's idF so far *)
}.

Inductive snap_kind :=
| SKPlain                                             (* Db.Snapshot(path) *)
| SKInView                                            (* Db.View(func(tx) { SnapshotInTx(tx, path) }) *)
| SKInUpdate (before after : list wop) (commit : bool). (* Db.Update(func { before; SnapshotInTx; after }) *)

Inductive op :=
| OTx (ws : list wop) (commit : bool)   (* Db.Update; commit = false: fn returns an error, bolt rolls back *)
| OSnap (k : snap_kind)
| OStream                               (* StreamToWriter: plain copy, no markers *)
| ORestore (k : nat)                    (* RestoreSnapshot(bytes of file k) *)
| OGetSnapshotId
| OTimeline (m : tmode) (idf : option str)
| OAddListener.

Inductive obs :=
| ObTx (ok : bool)
| ObSnap (id : str)
| ObUnit
| ObNoFile                              (* restore of a file that does not exist: not executed *)
| ObSnapId (id : option str)
| ObTimeline (id : option str) (called : bool).

Definition set_live (d : db) (c : content) : db :=
  {| live := c; files := files d; uuids := uuids d; listeners := listeners d; fired := fired d; idf_calls := idf_calls d |}.

(* the copy holds the content committed before the transaction it is taken in (tx.CopyFile
   copies the pages of the file, and a write transaction's pages reach the file at commit) *)
Definition snapshot_step (d : db) (k : snap_kind) : db * str :=
  let id := fresh (uuids d) in
  let file := mark id (live d) in
  let live' := match k with
               | SKInUpdate before after true => apply_wops (apply_wops (live d) before) after
               | _ => live d
               end in
  ({| live := live'; files := files d ++ [file]; uuids := S (uuids d);
      listeners := listeners d; fired := fired d; idf_calls := idf_calls d |}, id).

Definition restore_step (d : db) (c : content) : db :=
  {| live := c; files := files d; uuids := uuids d;
     listeners := listeners d; fired := fired d + listeners d; idf_calls := idf_calls d |}.

Definition get_snapshot_id (c : content) : option str :=
  if is_bucket (lookup p_meta c) then get_string (lookup p_snapshotId c) else None.

Definition step (d : db) (o : op) : db * obs :=
  match o with
  | OTx ws true => (set_live d (apply_wops (live d) ws), ObTx true)
  | OTx ws false => (d, ObTx false)
  | OSnap k => let '(d', id) := snapshot_step d k in (d', ObSnap id)
  | OStream =>
      ({| live := live d; files := files d ++ [live d]; uuids := uuids d;
          listeners := listeners d; fired := fired d; idf_calls := idf_calls d |}, ObUnit)
  | ORestore k =>
      match nth_error (files d) k with
      | Some c => (restore_step d c, ObUnit)
      | None => (d, ObNoFile)
      end
  | OGetSnapshotId => (d, ObSnapId (get_snapshot_id (live d)))
  | OTimeline m idf =>
      let r := get_timeline_id m idf (live d) in
      ({| live := tl_content r; files := files d; uuids := uuids d; listeners := listeners d; fired := fired d;
          idf_calls := if tl_called r then S (idf_calls d) else idf_calls d |},
       ObTimeline (tl_id r) (tl_called r))
  | OAddListener =>
      ({| live := live d; files := files d; uuids := uuids d; listeners := S (listeners d); fired := fired d;
          idf_calls := idf_calls d |}, ObUnit)
  end.

Definition run (d : db) (ops : list op) : db := fold_left (fun d o => fst (step d o)) ops d.

(* the run with its observations, for the correspondence driver *)
Fixpoint run_obs (d : db) (ops : list op) : list (obs * db) :=
  match ops with
  | [] => []
  | o :: r => let '(d', b) := step d o in (b, d') :: run_obs d' r
  end.

Definition empty_db : db :=
  {| live := []; files := []; uuids := 0; listeners := 0; fired := 0; idf_calls := 0 |}.
