(* C18, first half: snapshot-isolated read transactions.

   Committed versions v0, v1, ... ; a writer transaction appends the next version atomically (or
   nothing, when it rolls back); a read transaction binds the version that is current when it begins
   and answers all its queries from it.  Queries are arbitrary pure functions of a version
   (Section variable [eval]) - the concrete ones used by the correspondence harness are in
   Db/Workload.v.  bbolt's MVCC (a read transaction keeps its meta page and never sees later
   commits; a write transaction becomes visible only at commit) is what this models; it is trusted
   and exercised by the harness.  Model only - proofs in MvccProofs.v. *)
From Coq Require Import List Arith.
Import ListNotations.

Section Mvcc.
  Variable state : Type.
  Variable query : Type.
  Variable answer : Type.
  Variable eval : query -> state -> answer.
  Variable wtx : Type.
  Variable apply_tx : wtx -> state -> option state.   (* None: the transaction fails and rolls back *)

  (* one observation: sequence number of the reader's transaction, version it had bound, question, answer *)
  Record obs := { o_tx : nat; o_ver : nat; o_q : query; o_a : answer }.

  Record reader := {
    r_bound : option nat;      (* version bound by the running transaction *)
    r_txs : nat;               (* transactions begun so far *)
    r_obs : list obs           (* newest first *)
  }.

  Record sys := {
    versions : list state;     (* oldest first; never empty in reachable states *)
    readers : list reader
  }.

  Inductive event :=
  | EBegin (i : nat)                 (* reader i begins a read transaction *)
  | ERead (i : nat) (q : query)      (* reader i evaluates q inside its transaction *)
  | EEnd (i : nat)                   (* reader i ends its transaction *)
  | ECommit (w : wtx).               (* the writer runs a whole transaction *)

  Definition current (s : sys) : nat := pred (length (versions s)).

  Fixpoint upd_nth {A} (i : nat) (f : A -> A) (l : list A) {struct l} : list A :=
    match l, i with
    | [], _ => []
    | x :: r, O => f x :: r
    | x :: r, S j => x :: upd_nth j f r
    end.

  Definition rd_begin (v : nat) (r : reader) : reader :=
    match r_bound r with
    | Some _ => r
    | None => {| r_bound := Some v; r_txs := S (r_txs r); r_obs := r_obs r |}
    end.

  Definition rd_read (vs : list state) (q : query) (r : reader) : reader :=
    match r_bound r with
    | None => r
    | Some v =>
        match nth_error vs v with
        | None => r
        | Some st => {| r_bound := r_bound r; r_txs := r_txs r;
                        r_obs := {| o_tx := r_txs r; o_ver := v; o_q := q; o_a := eval q st |} :: r_obs r |}
        end
    end.

  Definition rd_end (r : reader) : reader := {| r_bound := None; r_txs := r_txs r; r_obs := r_obs r |}.

  Definition step (s : sys) (e : event) : sys :=
    match e with
    | EBegin i => {| versions := versions s; readers := upd_nth i (rd_begin (current s)) (readers s) |}
    | ERead i q => {| versions := versions s; readers := upd_nth i (rd_read (versions s) q) (readers s) |}
    | EEnd i => {| versions := versions s; readers := upd_nth i rd_end (readers s) |}
    | ECommit w =>
        match nth_error (versions s) (current s) with
        | None => s
        | Some st =>
            match apply_tx w st with
            | None => s
            | Some st' => {| versions := versions s ++ [st']; readers := readers s |}
            end
        end
    end.

  Definition run (s : sys) (es : list event) : sys := fold_left step es s.

  Definition fresh_reader : reader := {| r_bound := None; r_txs := 0; r_obs := [] |}.
  Definition init (v0 : state) (n : nat) : sys := {| versions := [v0]; readers := repeat fresh_reader n |}.

  (* ---- the serial execution: the writer's transactions alone, one after the other ---- *)
  Fixpoint serial (st : state) (ws : list wtx) : list state :=
    match ws with
    | [] => []
    | w :: r => match apply_tx w st with
                | None => serial st r
                | Some st' => st' :: serial st' r
                end
    end.

  Definition serial_versions (v0 : state) (ws : list wtx) : list state := v0 :: serial v0 ws.

  Fixpoint commits (es : list event) : list wtx :=
    match es with
    | [] => []
    | ECommit w :: r => w :: commits r
    | _ :: r => commits r
    end.
End Mvcc.
