(* Extension of Db/Snapshot.v (kept unchanged, every theorem about [step]/[run] still applies):

   - RestoreFromReader fed by a reader with an arbitrary io.Reader behaviour (Db/Reader.v):
     persistSnapshot copies the reads into a temp file BEFORE the lock is taken; a reader error
     makes the restore refuse (panic) with the database untouched; otherwise the temp file - the
     concatenation of the reads - replaces the live file;
   - restore listeners that USE the database: a read transaction over the whole content,
     GetSnapshotId, GetTimelineId (a write transaction), a read-modify-write of an own key.
     They run after the restore released the lock (go listener()), here one after the other in
     registration order (the harness makes their effects commute).

   Model only - proofs are in RestoreXProofs.v. *)
From Coq Require Import List NArith Bool Arith.
From Storage Require Import Base.Bytes Db.Content Db.Timeline Db.Snapshot Db.Reader.
Import ListNotations.
Open Scope N_scope.

Inductive lbody :=
| LCount                    (* only signals *)
| LView                     (* Db.View: walks the whole database *)
| LSnapId                   (* Db.GetSnapshotId *)
| LTimeline (m : tmode)     (* Db.GetTimelineId(m, func() { return "LT" }) *)
| LWrite (key : str).       (* Db.Update: appends one byte to lsn/<key> *)

Definition s_lsn : str := [108; 115; 110].     (* "lsn" *)
Definition lt_id : str := [76; 84].            (* "LT" *)

(* what a listener may have changed concurrently with a reading listener: the lsn bucket, the
   meta bucket's existence, the timeline id and the reset flag *)
Definition listener_touched (p : path) : bool :=
  path_prefix [s_lsn] p || path_eqb p p_meta || path_eqb p p_timelineId || path_eqb p p_resetTimeline.

Definition view_filter (c : content) : content := filter (fun pe => negb (listener_touched (fst pe))) c.

Inductive lobs :=
| LoCount
| LoView (seen : content)
| LoSnapId (id : option str)
| LoTimeline (id : option str)
| LoWrite.

Definition listener_step (d : db) (b : lbody) : db * lobs :=
  match b with
  | LCount => (d, LoCount)
  | LView => (d, LoView (view_filter (live d)))
  | LSnapId => (d, LoSnapId (get_snapshot_id (live d)))
  | LTimeline m =>
      let '(d', o) := step d (OTimeline m (Some lt_id)) in
      (d', LoTimeline (match o with ObTimeline id _ => id | _ => None end))
  | LWrite key =>
      let old := match lookup [s_lsn; key] (live d) with Some (EVal v) => v | _ => [] end in
      (set_live d (apply_wop (live d) (WPut [s_lsn] key (old ++ [1]))), LoWrite)
  end.

Fixpoint fire (d : db) (bs : list lbody) : db * list lobs :=
  match bs with
  | [] => (d, [])
  | b :: r =>
      let '(d1, o) := listener_step d b in
      let '(d2, os) := fire d1 r in
      (d2, o :: os)
  end.

Record xdb := { base : db; bodies : list lbody }.

Inductive xop :=
| XBase (o : op)
| XAddListener (b : lbody)
| XRestoreReader (k : nat) (len : nat) (sc : script).   (* RestoreFromReader(reader over file k, [len] bytes long) *)

Inductive xobs :=
| XoBase (o : obs)
| XoRestored (ls : list lobs)
| XoRefused          (* persistSnapshot failed: panic before anything was touched *)
| XoNoFile
| XoCorrupt.         (* the temp file is not the snapshot file - never produced (RestoreXProofs.v) *)

Definition xrestore (x : xdb) (c : content) : xdb * xobs :=
  let '(d', os) := fire (restore_step (base x) c) (bodies x) in
  ({| base := d'; bodies := bodies x |}, XoRestored os).

(* the positions start, start+1, ... of [len] bytes, as binary numbers (cheap to compare) *)
Fixpoint nseq (start : N) (len : nat) : list N :=
  match len with
  | O => []
  | S l => start :: nseq (N.succ start) l
  end.

Fixpoint n_list_eqb (a b : list N) : bool :=
  match a, b with
  | [], [] => true
  | x :: a', y :: b' => N.eqb x y && n_list_eqb a' b'
  | _, _ => false
  end.

(* [caps]: sizes of the buffers the copy loop offers - an implementation detail the result does
   not depend on (restore_reader_independent).  The file is represented by the positions
   0 .. len-1 of its bytes: the temp file equals the snapshot file iff exactly these positions
   were written in this order (the loop is natural in the bytes: copy_natural). *)
Definition xstep (caps : nat -> nat) (x : xdb) (o : xop) : xdb * xobs :=
  match o with
  | XBase (ORestore k) =>
      match nth_error (files (base x)) k with
      | Some c => xrestore x c
      | None => (x, XoNoFile)
      end
  | XBase OAddListener =>
      ({| base := fst (step (base x) OAddListener); bodies := bodies x ++ [LCount] |}, XoBase ObUnit)
  | XBase o' =>
      let '(d', b) := step (base x) o' in ({| base := d'; bodies := bodies x |}, XoBase b)
  | XAddListener b =>
      ({| base := fst (step (base x) OAddListener); bodies := bodies x ++ [b] |}, XoBase ObUnit)
  | XRestoreReader k len sc =>
      match nth_error (files (base x)) k with
      | None => (x, XoNoFile)
      | Some c =>
          let '(written, st) := copy sc caps (nseq 0 len) in
          match st with
          | COk => if n_list_eqb written (nseq 0 len) then xrestore x c else (x, XoCorrupt)
          | _ => (x, XoRefused)
          end
      end
  end.

Definition xrun (caps : nat -> nat) (x : xdb) (ops : list xop) : xdb :=
  fold_left (fun x o => fst (xstep caps x o)) ops x.

Fixpoint xrun_obs (caps : nat -> nat) (x : xdb) (ops : list xop) : list (xobs * xdb) :=
  match ops with
  | [] => []
  | o :: r => let '(x', b) := xstep caps x o in (b, x') :: xrun_obs caps x' r
  end.

Definition empty_xdb : xdb := {| base := empty_db; bodies := [] |}.

(* the history over Db/Snapshot.v's operations that an extended history amounts to: a reader
   with a non-failing script is RestoreSnapshot of the same file, a failing one is no operation *)
Definition erase (o : xop) : list op :=
  match o with
  | XBase o' => [o']
  | XAddListener _ => [OAddListener]
  | XRestoreReader k len sc => if failing sc len then [] else [ORestore k]
  end.

Definition readonly (b : lbody) : bool :=
  match b with LTimeline _ | LWrite _ => false | _ => true end.

Definition adds_readonly (o : xop) : bool :=
  match o with XAddListener b => readonly b | _ => true end.
