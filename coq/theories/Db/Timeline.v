(* DbImpl.GetTimelineId(mode, idF) over the abstract content (boltz/db.go). *)
From Coq Require Import List NArith Bool.
From Storage Require Import Base.Bytes Db.Content.
Import ListNotations.
Open Scope N_scope.

Inductive tmode := MDefault | MInitIfEmpty | MForceReset.

(* TimelineMode.forceResetTimeline *)
Definition force_reset (m : tmode) (idp : option str) : bool :=
  match m with
  | MForceReset => true
  | MInitIfEmpty => match idp with None => true | Some _ => false end
  | MDefault => false
  end.

Record tl_result := { tl_id : option str;        (* None = error returned to the caller *)
                      tl_called : bool;          (* idF was invoked *)
                      tl_content : content }.    (* committed content afterwards *)

(* [idf] is what idF() returns when it is called: Some id, or None for an error.
   The whole body runs in one write transaction: an error rolls everything back, also the
   creation of the meta bucket. *)
Definition get_timeline_id (m : tmode) (idf : option str) (c : content) : tl_result :=
  let c1 := ensure p_meta c in
  let reset := get_bool_default (lookup p_resetTimeline c1) false in
  let idp := get_string (lookup p_timelineId c1) in
  if reset || force_reset m idp then
    match idf with
    | None => {| tl_id := None; tl_called := true; tl_content := c |}
    | Some id =>
        {| tl_id := Some id; tl_called := true;
           tl_content := meta_set s_resetTimeline (enc_bool false) (meta_set s_timelineId (enc_string id) c1) |}
    end
  else
    {| tl_id := Some (match idp with Some s => s | None => [] end); tl_called := false; tl_content := c1 |}.
