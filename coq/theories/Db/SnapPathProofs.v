(* Proofs about Db/SnapPath.v. *)
From Coq Require Import List NArith Bool Arith Lia.
From Storage Require Import Base.Bytes Base.BytesFacts Db.Content Db.ContentProofs Db.Timeline Db.Snapshot Db.SnapshotProofs
  Db.Reader Db.ReaderProofs Db.RestoreX Db.RestoreXProofs Db.SnapPath.
Import ListNotations.

(* ---------------- the expansion leaves a path without placeholders alone ---------------- *)

Lemma repl_absent : forall old new s, occursb old s = false -> repl old new O s = s.
Proof.
  intros old new. induction s as [|c r IH]; intro H; [reflexivity|].
  cbn [occursb] in H. apply orb_false_iff in H. destruct H as [H1 H2].
  cbn [repl]. rewrite H1. now rewrite IH.
Qed.

Lemma replace_all_absent : forall old new s, occursb old s = false -> replace_all old new s = s.
Proof. intros old new s H. unfold replace_all. destruct old; [reflexivity|]. now apply repl_absent. Qed.

Lemma has_prefix_app_l : forall a b s, has_prefix (a ++ b) s = true -> has_prefix a s = true.
Proof.
  induction a as [|x a IH]; intros b s H; [reflexivity|].
  destruct s as [|y s]; simpl in *; [discriminate|].
  apply andb_true_iff in H. destruct H as [H1 H2]. rewrite H1. simpl. now apply (IH b).
Qed.

Lemma occursb_tail : forall old c s, occursb old s = true -> occursb old (c :: s) = true.
Proof. intros old c s H. cbn [occursb]. rewrite H. apply orb_true_r. Qed.

Lemma has_prefix_app_r : forall a b s, has_prefix (a ++ b) s = true -> occursb b s = true.
Proof.
  induction a as [|x a IH]; intros b s H.
  - simpl in H. destruct s; cbn [occursb]; now rewrite H.
  - destruct s as [|y s]; simpl in H; [discriminate|].
    apply andb_true_iff in H. destruct H as [_ H]. apply occursb_tail. now apply IH.
Qed.

(* an occurrence of a ++ b ++ c contains one of b *)
Lemma occursb_inner : forall a b c s, occursb (a ++ b ++ c) s = true -> occursb b s = true.
Proof.
  intros a b c. induction s as [|y s IH]; intro H.
  - cbn [occursb] in H. rewrite orb_false_r in H. apply has_prefix_app_r in H.
    cbn [occursb] in H. rewrite orb_false_r in H. apply has_prefix_app_l in H.
    cbn [occursb]. now rewrite H.
  - cbn [occursb] in H. apply orb_true_iff in H. destruct H as [H|H].
    + apply has_prefix_app_r in H.
      clear IH. revert H. generalize (y :: s). intro l. induction l as [|z l IHl]; intro H.
      * cbn [occursb] in *. rewrite orb_false_r in *. apply has_prefix_app_l in H. now rewrite H.
      * cbn [occursb] in H. apply orb_true_iff in H. destruct H as [H|H].
        -- apply has_prefix_app_l in H. cbn [occursb]. now rewrite H.
        -- apply occursb_tail. now apply IHl.
    + apply occursb_tail. now apply IH.
Qed.

Lemma us_absent : forall k s, occursb k s = false -> occursb (us k) s = false.
Proof.
  intros k s H. destruct (occursb (us k) s) eqn:E; [|reflexivity].
  unfold us in E. apply occursb_inner in E. congruence.
Qed.

Lemma expand_plain_lemma : forall e p,
  occursb k_date p = false -> occursb k_time p = false ->
  occursb k_db_dir p = false -> occursb k_db_file p = false ->
  expand e p = p.
Proof.
  intros e p H1 H2 H3 H4. unfold expand.
  rewrite (replace_all_absent (us k_date)) by now apply us_absent.
  rewrite (replace_all_absent (us k_time)) by now apply us_absent.
  rewrite (replace_all_absent (us k_db_dir)) by now apply us_absent.
  rewrite (replace_all_absent (us k_db_file)) by now apply us_absent.
  rewrite (replace_all_absent k_date) by assumption.
  rewrite (replace_all_absent k_time) by assumption.
  rewrite (replace_all_absent k_db_dir) by assumption.
  now rewrite (replace_all_absent k_db_file) by assumption.
Qed.

(* ---------------- files are append-only under the extended operations ---------------- *)

Lemma listener_step_files : forall d b, files (fst (listener_step d b)) = files d.
Proof. intros d b. destruct b; reflexivity. Qed.

Lemma fire_files : forall bs d, files (fst (fire d bs)) = files d.
Proof.
  induction bs as [|b r IH]; intro d; simpl; [reflexivity|].
  pose proof (listener_step_files d b) as E1.
  destruct (listener_step d b) as [d1 o]. simpl in E1.
  pose proof (IH d1) as E2. destruct (fire d1 r) as [d2 os]. simpl in *. congruence.
Qed.

Lemma xrestore_files : forall x c, files (base (fst (xrestore x c))) = files (base x).
Proof.
  intros x c. unfold xrestore.
  pose proof (fire_files (bodies x) (restore_step (base x) c)) as E.
  destruct (fire (restore_step (base x) c) (bodies x)) as [d' os]. simpl in *. exact E.
Qed.

Lemma xstep_files : forall caps x o, exists l, files (base (fst (xstep caps x o))) = files (base x) ++ l.
Proof.
  intros caps x o.
  assert (Nil : forall y, files (base y) = files (base x) -> exists l, files (base y) = files (base x) ++ l).
  { intros y E. exists []. now rewrite app_nil_r. }
  assert (Restore : forall k, exists l, files (base (fst (xstep caps x (XBase (ORestore k))))) = files (base x) ++ l).
  { intro k. simpl. destruct (nth_error (files (base x)) k) as [c|]; apply Nil; [apply xrestore_files|reflexivity]. }
  destruct o as [o'|b|k len sc].
  - destruct o' as [ws [|]|sk| |k| |m idf|]; try (apply Restore); try (simpl; apply Nil; reflexivity).
    + simpl. eexists. reflexivity.
    + simpl. eexists. reflexivity.
  - simpl. apply Nil. reflexivity.
  - simpl. destruct (nth_error (files (base x)) k) as [c|]; [|apply Nil; reflexivity].
    destruct (copy sc caps (nseq 0 len)) as [w st]. destruct st; try (apply Nil; reflexivity).
    destruct (n_list_eqb w (nseq 0 len)); apply Nil; [apply xrestore_files|reflexivity].
Qed.

(* ---------------- the path has no influence on the database ---------------- *)

Lemma pstep_px : forall caps p o, px (fst (pstep caps p o)) = xrun caps (px p) (perase o).
Proof.
  intros caps p o. destruct o as [o'|e t [|] k|]; simpl; try reflexivity.
  - unfold xrun. simpl. destruct (xstep caps (px p) o') as [x' b]. reflexivity.
Qed.

Lemma prun_erase_lemma : forall caps ops p, px (prun caps p ops) = xrun caps (px p) (flat_map perase ops).
Proof.
  intros caps. induction ops as [|o r IH]; intro p; simpl; [reflexivity|].
  rewrite xrun_app. rewrite <- pstep_px. unfold prun in *. simpl. apply IH.
Qed.

Lemma prun_app : forall caps p a b, prun caps p (a ++ b) = prun caps (prun caps p a) b.
Proof. intros. unfold prun. apply fold_left_app. Qed.

(* ---------------- names ---------------- *)

Lemma pstep_files : forall caps p o, exists l, files (base (px (fst (pstep caps p o)))) = files (base (px p)) ++ l.
Proof.
  intros caps p o. destruct o as [o'|e t [|] k|].
  - simpl. pose proof (xstep_files caps (px p) o') as H. destruct (xstep caps (px p) o') as [x' b]. exact H.
  - exists []. now rewrite app_nil_r.
  - simpl. eexists. reflexivity.
  - exists []. now rewrite app_nil_r.
Qed.

Lemma pwf_step : forall caps p o, pwf p -> pwf (fst (pstep caps p o)).
Proof.
  intros caps p o W. destruct (pstep_files caps p o) as [l E]. unfold pwf in *. rewrite E.
  assert (Old : Forall (fun ni : str * nat => (snd ni < length (files (base (px p)) ++ l))%nat) (named p)).
  { eapply Forall_impl; [|exact W]. intros ni H. simpl in H. rewrite app_length. lia. }
  destruct o as [o'|e t [|] k|]; simpl.
  - destruct (xstep caps (px p) o') as [x' b]. exact Old.
  - exact Old.
  - constructor; [|exact Old]. simpl.
    assert (L : l <> []).
    { simpl in E. intro C. subst l. rewrite app_nil_r in E.
      apply (f_equal (@length content)) in E. rewrite app_length in E. simpl in E. lia. }
    rewrite app_length. destruct l; [congruence|simpl; lia].
  - exact Old.
Qed.

Lemma pwf_run : forall caps ops p, pwf p -> pwf (prun caps p ops).
Proof.
  intros caps. induction ops as [|o r IH]; intros p W; [exact W|].
  unfold prun in *. simpl. apply IH. now apply pwf_step.
Qed.

Lemma pwf_empty : pwf empty_pdb.
Proof. constructor. Qed.

Lemma assoc_lt : forall n l i (bound : nat), Forall (fun ni : str * nat => (snd ni < bound)%nat) l ->
  assoc_name n l = Some i -> (i < bound)%nat.
Proof.
  intros n l i bound W. induction W as [|[m j] r H _ IH]; simpl; [discriminate|].
  destruct (str_eqb m n); [|exact IH]. intro E. injection E as <-. exact H.
Qed.

(* a file of a name that the operation does not write stays what it is *)
Lemma file_at_step : forall caps p o n, pwf p -> rewrites n o = false ->
  file_at (fst (pstep caps p o)) n = file_at p n.
Proof.
  intros caps p o n W R. destruct (pstep_files caps p o) as [l E].
  assert (Same : named (fst (pstep caps p o)) = named p \/
                 exists m i, str_eqb m n = false /\ named (fst (pstep caps p o)) = (m, i) :: named p).
  { destruct o as [o'|e t [|] k|]; simpl.
    - left. destruct (xstep caps (px p) o'). reflexivity.
    - left. reflexivity.
    - right. simpl in R. eexists. eexists. split; [exact R|reflexivity].
    - left. reflexivity. }
  unfold file_at.
  assert (A : assoc_name n (named (fst (pstep caps p o))) = assoc_name n (named p)).
  { destruct Same as [->|(m & i & Hm & ->)]; [reflexivity|]. simpl. now rewrite Hm. }
  rewrite A. destruct (assoc_name n (named p)) as [i|] eqn:Ai; [|reflexivity].
  rewrite E. apply nth_error_app1. eapply assoc_lt; [exact W|exact Ai].
Qed.

Lemma file_at_run : forall caps ops p n, pwf p -> forallb (fun o => negb (rewrites n o)) ops = true ->
  file_at (prun caps p ops) n = file_at p n.
Proof.
  intros caps. induction ops as [|o r IH]; intros p n W H; [reflexivity|].
  simpl in H. apply andb_true_iff in H. destruct H as [Ho Hr]. apply negb_true_iff in Ho.
  unfold prun in *. simpl. rewrite IH by (try apply pwf_step; assumption).
  now apply file_at_step.
Qed.

(* Snapshot(template): the returned path is the expansion; the file of that name holds the marked
   copy of the committed content (whatever was there before); no other name is touched - in
   particular not the spelling of the template itself *)
Lemma snapshot_path_lemma : forall caps p e t k,
  pwf p ->
  let d := base (px p) in
  let id := fresh (uuids d) in
  let path := actual_path e t in
  let p' := fst (pstep caps p (PSnap e t false k)) in
  snd (pstep caps p (PSnap e t false k)) = PoSnap path id
  /\ file_at p' path = Some (mark id (live d))
  /\ (forall n, n <> path -> file_at p' n = file_at p n)
  /\ px p' = fst (xstep caps (px p) (XBase (OSnap k))).
Proof.
  intros caps p e t k W. cbv zeta. repeat split.
  - unfold file_at. simpl. rewrite str_eqb_refl. rewrite nth_error_app2 by lia. now rewrite Nat.sub_diag.
  - intros n Hn. apply file_at_step; [exact W|]. simpl. apply str_eqb_neq. congruence.
Qed.

(* a snapshot that cannot write its file changes nothing *)
Lemma snapshot_blocked_lemma : forall caps p e t k,
  pstep caps p (PSnap e t true k) = (p, PoSnapFailed).
Proof. reflexivity. Qed.

(* pre ; Snapshot(template) ; post that does not write the same name again: the file at the
   returned path is still the snapshot, and it is the file number [length files] that the theorems
   about restores (restore_reproduces_snapshot through perase/erase) speak about *)
Lemma returned_path_keeps_snapshot_lemma : forall caps p0 pre e t k post,
  pwf p0 ->
  let p1 := prun caps p0 pre in
  let d1 := base (px p1) in
  let id := fresh (uuids d1) in
  let path := actual_path e t in
  let p3 := prun caps (fst (pstep caps p1 (PSnap e t false k))) post in
  forallb (fun o => negb (rewrites path o)) post = true ->
  file_at p3 path = Some (mark id (live d1))
  /\ nth_error (files (base (px p3))) (length (files d1)) = Some (mark id (live d1))
  /\ forall c, file_at p3 path = Some c -> live (restore_step (base (px p3)) c) = mark id (live d1).
Proof.
  intros caps p0 pre e t k post W0. cbv zeta. intro Hpost.
  pose proof (pwf_run caps pre p0 W0) as W1.
  destruct (snapshot_path_lemma caps (prun caps p0 pre) e t k W1) as (_ & F & _ & _).
  pose proof (pwf_step caps _ (PSnap e t false k) W1) as W2.
  assert (A : file_at (prun caps (fst (pstep caps (prun caps p0 pre) (PSnap e t false k))) post) (actual_path e t)
              = Some (mark (fresh (uuids (base (px (prun caps p0 pre))))) (live (base (px (prun caps p0 pre)))))).
  { rewrite file_at_run by assumption. exact F. }
  split; [exact A|]. split.
  - rewrite prun_erase_lemma.
    set (x2 := px (fst (pstep caps (prun caps p0 pre) (PSnap e t false k)))).
    assert (N2 : nth_error (files (base x2)) (length (files (base (px (prun caps p0 pre)))))
                 = Some (mark (fresh (uuids (base (px (prun caps p0 pre))))) (live (base (px (prun caps p0 pre)))))).
    { unfold x2. simpl. rewrite nth_error_app2 by lia. now rewrite Nat.sub_diag. }
    clearbody x2. revert x2 N2. induction (flat_map perase post) as [|o r IH]; intros x2 N2; [exact N2|].
    unfold xrun in *. simpl. apply IH.
    destruct (xstep_files caps x2 o) as [l E]. rewrite E. rewrite nth_error_app1; [exact N2|].
    apply nth_error_Some. now rewrite N2.
  - intros c Hc. rewrite A in Hc. injection Hc as <-. reflexivity.
Qed.

(* two histories that differ in the path templates and environments only (same operations, same
   snapshot flavours, the same snapshots refused): the same database, files, ids, listeners *)
Lemma path_independent_lemma : forall caps ops1 ops2 p1 p2,
  px p1 = px p2 -> flat_map perase ops1 = flat_map perase ops2 ->
  px (prun caps p1 ops1) = px (prun caps p2 ops2).
Proof. intros caps ops1 ops2 p1 p2 E H. rewrite !prun_erase_lemma. now rewrite E, H. Qed.
