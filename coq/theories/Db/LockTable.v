(* C18: Db calls that JOIN a running transaction, against a restore.

   boltz/db.go guards the open bbolt handle with reloadLock (sync.RWMutex): Update / View / Batch
   hold the read lock for the whole transaction, a restore takes the write lock.  Db.Update(ctx, f)
   and Db.Batch(ctx, f) called with a context that already carries a transaction JOIN it (a
   multi-operation writer is composed that way), Db.RootBucket(tx) / Db.SnapshotInTx(tx, ..) are
   handed the transaction itself.  None of them may take the read lock again: the goroutine holds it
   already, and a writer-preferring lock admits no new reader once a restore waits - the second
   acquisition would wait for the restore, the restore for the first one (Db/RwLock.v, the system
   C17 uses for "a transaction sees one handle").

   translators/access regenerates [lock_table] (Gen/GenAccess.v) from the Go source on every run:
   one row per function that can be called with a running transaction in hand, with the lock
   acquisitions on the path taken in that case.  A transaction body composed of such calls is a
   RwLock thread plan; this file maps table rows to plans.  Model only - proofs in LockTableProofs.v. *)
From Coq Require Import List String Bool Arith.
From Storage Require Import Db.RwLock.
Import ListNotations.

Record lockfn := {
  lf_name : string;            (* "boltz.DbImpl.Update" *)
  lf_in_tx : list string       (* acquisitions of the reload lock reached when the caller's transaction is
                                  open: where (function: what), one entry per acquisition site *)
}.

(* a call of the function from inside a transaction: its acquisitions, one step of work, the releases *)
Definition fn_plan (f : lockfn) : list txact :=
  map (fun _ => TInnerLock) (lf_in_tx f) ++ [TStep] ++ map (fun _ => TInnerUnlock) (lf_in_tx f).

(* a transaction body = a sequence of such calls (plain work through the transaction itself is a row
   without acquisitions) *)
Definition body_plan (calls : list lockfn) : list txact := flat_map fn_plan calls.

Definition tx_thread (calls : list lockfn) : thread := Tx TxIdle (body_plan calls) 0 None [].

Definition no_acquisition (f : lockfn) : bool := match lf_in_tx f with [] => true | _ => false end.

(* the obligation on the generated table *)
Definition reentrant_free (t : list lockfn) : bool := forallb no_acquisition t.

Definition has_lockfn (t : list lockfn) (n : string) : bool := existsb (fun f => String.eqb (lf_name f) n) t.

Definition offenders (t : list lockfn) : list (string * list string) :=
  flat_map (fun f => if no_acquisition f then [] else [(lf_name f, lf_in_tx f)]) t.

(* ---- the schedule the correspondence harness drives (case line "D ...") ----
   thread 0: one transaction of [nsteps] joined calls (plans as given by [row] for each of them),
   thread 1: a restorer that reaches the lock before step [at] (when [restore]),
   thread 2: a final read transaction.
   Result: None when some thread could not finish under this schedule; otherwise the generation of the
   handle the final reader saw (0 = the file the transaction wrote, 1 = the restored file) and the number
   of steps the transaction observed. *)
Definition scenario_threads (body : list txact) (restore : bool) : list thread :=
  [Tx TxIdle body 0 None []; (if restore then Restorer RIdle else Restorer RDone); Tx TxIdle [TStep] 0 None []].

Definition scenario_sched (body_len at_ : nat) : list nat :=
  [0; 0] ++ repeat 0 at_ ++ [1; 1] ++ repeat 0 (body_len - at_) ++ [0; 0]
  ++ [1; 1; 1; 1; 1] ++ [2; 2; 2; 2; 2].

Definition lock_scenario_plan (call : list txact) (nsteps at_ : nat) (restore : bool) : option (nat * nat) :=
  let body := List.concat (repeat call nsteps) in
  let s := run (init true (scenario_threads body restore)) (scenario_sched (List.length body) (at_ * List.length call)) in
  if forallb finished (threads s) then
    match threads s with
    | [Tx _ _ _ _ seen0; _; Tx _ _ _ _ (Some g :: _)] => Some (g, List.length seen0)
    | _ => None
    end
  else None.

Definition lock_scenario (row : lockfn) (nsteps at_ : nat) (restore : bool) : option (nat * nat) :=
  lock_scenario_plan (fn_plan row) nsteps at_ restore.

(* the row of a call that takes no lock of its own - what the obligation says every row is *)
Definition plain_row : lockfn := {| lf_name := "joined call"; lf_in_tx := [] |}.
