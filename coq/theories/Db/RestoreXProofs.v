(* Proofs about Db/RestoreX.v. *)
From Coq Require Import List NArith Bool Arith Lia.
From Storage Require Import Base.Bytes Db.Content Db.ContentProofs Db.Timeline Db.Snapshot Db.SnapshotProofs
  Db.Reader Db.ReaderProofs Db.RestoreX.
Import ListNotations.

Lemma n_list_eqb_refl : forall l, n_list_eqb l l = true.
Proof. induction l as [|x l IH]; simpl; [reflexivity|]. now rewrite N.eqb_refl, IH. Qed.

Lemma nseq_length : forall len start, length (nseq start len) = len.
Proof. induction len as [|l IH]; intro start; simpl; [reflexivity|]. now rewrite IH. Qed.

Lemma copy_seq_ok : forall sc caps len, failing sc len = false -> copy sc caps (nseq 0 len) = (nseq 0 len, COk).
Proof. intros sc caps len H. apply copy_complete. now rewrite nseq_length. Qed.

(* ---------------- readers ---------------- *)

(* a reader that does not fail: RestoreFromReader is RestoreSnapshot of the same file, whatever
   the sizes of its reads, zero-length reads, the way it reports EOF, and the buffers offered *)
Lemma xstep_reader_ok : forall caps caps' x k len sc,
  failing sc len = false ->
  xstep caps x (XRestoreReader k len sc) = xstep caps' x (XBase (ORestore k)).
Proof.
  intros caps caps' x k len sc H. simpl. destruct (nth_error (files (base x)) k) as [c|]; [|reflexivity].
  rewrite copy_seq_ok by exact H. now rewrite n_list_eqb_refl.
Qed.

Lemma restore_reader_independent_lemma : forall caps1 caps2 x k len sc1 sc2,
  failing sc1 len = false -> failing sc2 len = false ->
  xstep caps1 x (XRestoreReader k len sc1) = xstep caps2 x (XRestoreReader k len sc2).
Proof.
  intros. rewrite (xstep_reader_ok caps1 caps1) by assumption. rewrite (xstep_reader_ok caps2 caps1) by assumption.
  reflexivity.
Qed.

(* a reader that fails after any number of bytes (also right at the end, instead of EOF):
   the restore is refused and nothing changed - database, listeners, files *)
Lemma xstep_reader_refused_lemma : forall caps x k len sc,
  failing sc len = true ->
  fst (xstep caps x (XRestoreReader k len sc)) = x
  /\ (nth_error (files (base x)) k <> None -> snd (xstep caps x (XRestoreReader k len sc)) = XoRefused).
Proof.
  intros caps x k len sc H. simpl. destruct (nth_error (files (base x)) k) as [c|].
  - pose proof (copy_spec sc caps (nseq 0 len)) as E. rewrite nseq_length, H in E. rewrite E.
    split; [reflexivity|intros _; reflexivity].
  - split; [reflexivity|intro C; congruence].
Qed.

(* ---------------- listeners that only read ---------------- *)

Lemma fire_readonly : forall bs d, forallb readonly bs = true -> fst (fire d bs) = d.
Proof.
  induction bs as [|b r IH]; intros d H; simpl; [reflexivity|].
  simpl in H. apply andb_true_iff in H. destruct H as [Hb Hr].
  destruct b; simpl in Hb; try discriminate; simpl;
    (specialize (IH d Hr); destruct (fire d r) as [d2 os]; simpl in *; exact IH).
Qed.

Lemma xrestore_readonly : forall x c, forallb readonly (bodies x) = true ->
  base (fst (xrestore x c)) = restore_step (base x) c /\ bodies (fst (xrestore x c)) = bodies x.
Proof.
  intros x c H. unfold xrestore.
  pose proof (fire_readonly (bodies x) (restore_step (base x) c) H) as E.
  destruct (fire (restore_step (base x) c) (bodies x)) as [d' os]. simpl in *. now subst.
Qed.

Lemma forallb_app1 : forall {A} (f : A -> bool) l x, forallb f l = true -> f x = true -> forallb f (l ++ [x]) = true.
Proof. intros. rewrite forallb_app. simpl. now rewrite H, H0. Qed.

Lemma xstep_base : forall caps x o,
  forallb readonly (bodies x) = true -> adds_readonly o = true ->
  base (fst (xstep caps x o)) = run (base x) (erase o)
  /\ forallb readonly (bodies (fst (xstep caps x o))) = true.
Proof.
  intros caps x o Hro Ho.
  assert (Restore : forall k,
            base (fst (xstep caps x (XBase (ORestore k)))) = run (base x) [ORestore k]
            /\ forallb readonly (bodies (fst (xstep caps x (XBase (ORestore k))))) = true).
  { intro k. unfold run. simpl. destruct (nth_error (files (base x)) k) as [c|]; [|split; [reflexivity|exact Hro]].
    destruct (xrestore_readonly x c Hro) as [E1 E2]. rewrite E1, E2. split; [reflexivity|exact Hro]. }
  destruct o as [o'|b|k len sc].
  - destruct o' as [ws [|]|sk| |k| |m idf|]; try (apply Restore);
      try (unfold run; simpl; split; [reflexivity|exact Hro]).
    + unfold run. simpl. split; [reflexivity|]. apply forallb_app1; [exact Hro|reflexivity].
  - unfold run. simpl. split; [reflexivity|]. apply forallb_app1; [exact Hro|exact Ho].
  - simpl erase. destruct (failing sc len) eqn:F.
    + destruct (xstep_reader_refused_lemma caps x k len sc F) as [E _]. rewrite E. split; [reflexivity|exact Hro].
    + rewrite (xstep_reader_ok caps caps) by exact F. apply Restore.
Qed.

(* a history with chunked readers and read-only database listeners leaves the database that the
   plain history leaves: every theorem about Db/Snapshot.v's [run] applies to it *)
Lemma xrun_erase : forall caps ops x,
  forallb readonly (bodies x) = true -> forallb adds_readonly ops = true ->
  base (xrun caps x ops) = run (base x) (flat_map erase ops)
  /\ forallb readonly (bodies (xrun caps x ops)) = true.
Proof.
  intros caps. induction ops as [|o r IH]; intros x Hro Hops; simpl.
  - split; [reflexivity|exact Hro].
  - simpl in Hops. apply andb_true_iff in Hops. destruct Hops as [Ho Hr].
    destruct (xstep_base caps x o Hro Ho) as [E1 E2].
    destruct (IH (fst (xstep caps x o)) E2 Hr) as [E3 E4].
    unfold xrun in *. simpl. rewrite E3, E1. split; [|exact E4].
    now rewrite run_app.
Qed.

Lemma xrun_app : forall caps x a b, xrun caps x (a ++ b) = xrun caps (xrun caps x a) b.
Proof. intros. unfold xrun. apply fold_left_app. Qed.

Lemma run_single : forall d o, run d [o] = fst (step d o).
Proof. reflexivity. Qed.

Lemma step_snap_fst : forall d k, fst (step d (OSnap k)) = fst (snapshot_step d k).
Proof. intros. simpl. destruct (snapshot_step d k). reflexivity. Qed.

(* pre ; snapshot ; post ; RestoreFromReader(reader over that snapshot file) *)
Definition xrestored (caps : nat -> nat) (x0 : xdb) (pre : list xop) (k : snap_kind) (post : list xop)
    (len : nat) (sc : script) : xdb :=
  let x1 := xrun caps x0 pre in
  let x2 := fst (xstep caps x1 (XBase (OSnap k))) in
  let x3 := xrun caps x2 post in
  fst (xstep caps x3 (XRestoreReader (length (files (base x1))) len sc)).

Lemma xrestored_base : forall caps x0 pre k post len sc,
  forallb readonly (bodies x0) = true -> forallb adds_readonly pre = true -> forallb adds_readonly post = true ->
  failing sc len = false ->
  base (xrestored caps x0 pre k post len sc) = restored (base x0) (flat_map erase pre) k (flat_map erase post).
Proof.
  intros caps x0 pre k post len sc H0 Hpre Hpost F. unfold xrestored. cbv zeta.
  destruct (xrun_erase caps pre x0 H0 Hpre) as [E1 R1].
  destruct (xstep_base caps (xrun caps x0 pre) (XBase (OSnap k)) R1 eq_refl) as [E2 R2].
  destruct (xrun_erase caps post _ R2 Hpost) as [E3 R3].
  destruct (xstep_base caps (xrun caps (fst (xstep caps (xrun caps x0 pre) (XBase (OSnap k)))) post)
              (XRestoreReader (length (files (base (xrun caps x0 pre)))) len sc) R3 eq_refl) as [E4 _].
  rewrite E4, E3, E2, E1. simpl erase. rewrite F. unfold restored. cbv zeta.
  rewrite !run_single, step_snap_fst. reflexivity.
Qed.

Lemma restore_from_reader_reproduces_snapshot_lemma : forall caps x0 pre k post len sc,
  forallb readonly (bodies x0) = true -> forallb adds_readonly pre = true -> forallb adds_readonly post = true ->
  failing sc len = false ->
  let at_snapshot := live (run (base x0) (flat_map erase pre)) in
  let after := live (base (xrestored caps x0 pre k post len sc)) in
  let id := snap_id (base x0) (flat_map erase pre) k in
  after = mark id at_snapshot
  /\ snd (step (base (xrestored caps x0 pre k post len sc)) OGetSnapshotId) = ObSnapId (Some id).
Proof.
  intros caps x0 pre k post len sc H0 Hpre Hpost F. cbv zeta.
  rewrite (xrestored_base caps x0 pre k post len sc H0 Hpre Hpost F). split.
  - apply restored_live.
  - apply snapshot_id_reported_lemma.
Qed.

(* ---------------- listeners that write ---------------- *)

Lemma touched_false : forall p, listener_touched p = false ->
  path_prefix [s_lsn] p = false /\ p <> p_meta /\ p <> p_timelineId /\ p <> p_resetTimeline.
Proof.
  intros p H. unfold listener_touched in H.
  apply orb_false_iff in H. destruct H as [H H4]. apply orb_false_iff in H. destruct H as [H H3].
  apply orb_false_iff in H. destruct H as [H1 H2].
  repeat split; try exact H1; intro E; subst p.
  - now rewrite path_eqb_refl in H2.
  - now rewrite path_eqb_refl in H3.
  - now rewrite path_eqb_refl in H4.
Qed.

Lemma lookup_ensure_meta_other : forall p c, p <> p_meta -> lookup p (ensure p_meta c) = lookup p c.
Proof. intros p c H. rewrite ensure_meta. now apply lookup_ins_other. Qed.

Lemma timeline_frame : forall m idf c p,
  p <> p_meta -> p <> p_timelineId -> p <> p_resetTimeline ->
  lookup p (tl_content (get_timeline_id m idf c)) = lookup p c.
Proof.
  intros m idf c p H1 H2 H3. unfold get_timeline_id.
  destruct (get_bool_default (lookup p_resetTimeline (ensure p_meta c)) false
            || force_reset m (get_string (lookup p_timelineId (ensure p_meta c)))).
  - destruct idf as [id|]; simpl; [|reflexivity].
    rewrite lookup_meta_set_other by assumption. rewrite lookup_meta_set_other by assumption.
    now apply lookup_ensure_meta_other.
  - simpl. now apply lookup_ensure_meta_other.
Qed.

Lemma lsn_write_frame : forall key v c p,
  path_prefix [s_lsn] p = false -> lookup p (apply_wop c (WPut [s_lsn] key v)) = lookup p c.
Proof.
  intros key v c p H. simpl. unfold ensure. simpl.
  rewrite lookup_ins_other.
  - apply lookup_ins_other. intro E. subst p. vm_compute in H. discriminate.
  - intro E. subst p. simpl in H. vm_compute in H. discriminate.
Qed.

Lemma listener_step_frame : forall d b p, listener_touched p = false ->
  lookup p (live (fst (listener_step d b))) = lookup p (live d).
Proof.
  intros d b p H. destruct (touched_false p H) as [H1 [H2 [H3 H4]]].
  destruct b as [| | |m|key]; simpl; try reflexivity.
  - now apply timeline_frame.
  - now apply lsn_write_frame.
Qed.

Lemma fire_frame : forall bs d p, listener_touched p = false ->
  lookup p (live (fst (fire d bs))) = lookup p (live d).
Proof.
  induction bs as [|b r IH]; intros d p H; simpl; [reflexivity|].
  pose proof (listener_step_frame d b p H) as E1.
  destruct (listener_step d b) as [d1 o]. simpl in E1.
  pose proof (IH d1 p H) as E2. destruct (fire d1 r) as [d2 os]. simpl in *. now rewrite E2.
Qed.

(* whatever the restore listeners do with the database, every path outside the lsn bucket, the
   timeline id and the reset flag reads as in the restored file *)
Lemma xrestore_frame_lemma : forall x c p, listener_touched p = false ->
  lookup p (live (base (fst (xrestore x c)))) = lookup p c.
Proof.
  intros x c p H. unfold xrestore.
  pose proof (fire_frame (bodies x) (restore_step (base x) c) p H) as E.
  destruct (fire (restore_step (base x) c) (bodies x)) as [d' os]. simpl in *. exact E.
Qed.

(* every registered listener is run by a restore, in any case *)
Lemma fire_length : forall bs d, length (snd (fire d bs)) = length bs.
Proof.
  induction bs as [|b r IH]; intro d; simpl; [reflexivity|].
  destruct (listener_step d b) as [d1 o]. specialize (IH d1). destruct (fire d1 r) as [d2 os]. simpl in *. now rewrite IH.
Qed.

(* a listener that asks for the snapshot id right after the restore of a snapshot sees that id *)
Lemma listener_sees_snapshot_id : forall d id c,
  snd (listener_step (restore_step d (mark id c)) LSnapId) = LoSnapId (Some id).
Proof.
  intros. simpl. unfold get_snapshot_id. rewrite mark_meta. simpl. now rewrite mark_snapshot_id.
Qed.
