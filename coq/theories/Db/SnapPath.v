(* Snapshot PATHS on top of Db/RestoreX.v (kept unchanged; every theorem about [xstep]/[xrun] and,
   through [erase], about Db/Snapshot.v's [step]/[run] still applies):

   - SnapshotInTx's expansion of the path template - eight strings.ReplaceAll in the order of the
     code: __DATE__, __TIME__, __DB_DIR__, __DB_FILE__, then the bare DATE, TIME, DB_DIR, DB_FILE -
     transcribed over byte strings; GetDefaultSnapshotPath;
   - the file system as far as the property needs it: which NAME holds which snapshot file.  The
     copy and the markers go to the expanded name, the expanded name is returned, an existing file
     of that name is replaced (bbolt's CopyFile opens with O_CREATE|O_TRUNC), a name that cannot be
     written (a directory) makes the call fail before anything happened.

   The content of the file is what Db/Snapshot.v says (mark id (live d)): the path is a name only.
   Model only - proofs are in SnapPathProofs.v. *)
From Coq Require Import List NArith Bool Arith.
From Storage Require Import Base.Bytes Db.Content Db.Timeline Db.Snapshot Db.Reader Db.RestoreX.
Import ListNotations.
Open Scope N_scope.

(* strings.ReplaceAll(s, old, new) for a non-empty [old]: scan from the left; where [old] starts,
   emit [new] and continue behind the occurrence (non-overlapping), else emit the byte.
   [skip] = bytes of a replaced occurrence still to be passed over. *)
Fixpoint repl (old new : str) (skip : nat) (s : str) : str :=
  match s with
  | [] => []
  | c :: r =>
      match skip with
      | S k => repl old new k r
      | O => if has_prefix old s then new ++ repl old new (pred (length old)) r
             else c :: repl old new O r
      end
  end.

(* the code only replaces the eight non-empty constants below ([old = []] is not Go's behaviour) *)
Definition replace_all (old new s : str) : str :=
  match old with [] => s | _ => repl old new O s end.

Definition k_date : str := [68; 65; 84; 69].                (* "DATE" *)
Definition k_time : str := [84; 73; 77; 69].                (* "TIME" *)
Definition k_db_dir : str := [68; 66; 95; 68; 73; 82].      (* "DB_DIR" *)
Definition k_db_file : str := [68; 66; 95; 70; 73; 76; 69]. (* "DB_FILE" *)
Definition us (s : str) : str := [95; 95] ++ s ++ [95; 95]. (* "__" s "__" *)

(* what the expansion reads from its environment *)
Record penv := {
  e_date : str;    (* time.Now().Format("20060102") *)
  e_time : str;    (* time.Now().Format("150405") *)
  e_dir : str;     (* filepath.Dir(tx.DB().Path()) *)
  e_file : str;    (* filepath.Base(tx.DB().Path()) *)
  e_path : str     (* db.Path() *)
}.

(* SnapshotInTx, the eight replacements in the order of the code *)
Definition expand (e : penv) (p : str) : str :=
  let p := replace_all (us k_date) (e_date e) p in
  let p := replace_all (us k_time) (e_time e) p in
  let p := replace_all (us k_db_dir) (e_dir e) p in
  let p := replace_all (us k_db_file) (e_file e) p in
  let p := replace_all k_date (e_date e) p in
  let p := replace_all k_time (e_time e) p in
  let p := replace_all k_db_dir (e_dir e) p in
  replace_all k_db_file (e_file e) p.

(* GetDefaultSnapshotPath: path + "-" + now.Format("20060102-150405") *)
Definition default_path (e : penv) : str := e_path e ++ [45] ++ e_date e ++ [45] ++ e_time e.

Inductive ptemplate :=
| TGiven (p : str)      (* Snapshot(p) / SnapshotInTx(tx, p) *)
| TDefault.             (* Snapshot(GetDefaultSnapshotPath()) *)

Definition template_path (e : penv) (t : ptemplate) : str :=
  match t with TGiven p => p | TDefault => default_path e end.

Definition actual_path (e : penv) (t : ptemplate) : str := expand e (template_path e t).

(* [named]: newest first, (name, index into [files]) of the snapshots taken through a path *)
Record pdb := { px : xdb; named : list (str * nat) }.

Fixpoint assoc_name (n : str) (l : list (str * nat)) : option nat :=
  match l with
  | [] => None
  | (m, i) :: r => if str_eqb m n then Some i else assoc_name n r
  end.

(* what opening the file of that name gives *)
Definition file_at (p : pdb) (n : str) : option content :=
  match assoc_name n (named p) with
  | Some i => nth_error (files (base (px p))) i
  | None => None
  end.

Inductive pop :=
| PX (o : xop)
| PSnap (e : penv) (t : ptemplate) (blocked : bool) (k : snap_kind)
    (* blocked: the expanded name cannot be opened for writing (it is a directory): CopyFile fails,
       SnapshotInTx returns the error, a surrounding write transaction is rolled back *)
| POpen.   (* where the database file lives: no influence (the harness opens it there) *)

Inductive pobs :=
| PoX (b : xobs)
| PoSnap (path : str) (id : str)
| PoSnapFailed
| PoOpen.

Definition pstep (caps : nat -> nat) (p : pdb) (o : pop) : pdb * pobs :=
  match o with
  | PX o' => let '(x', b) := xstep caps (px p) o' in ({| px := x'; named := named p |}, PoX b)
  | PSnap e t true k => (p, PoSnapFailed)
  | PSnap e t false k =>
      let '(x', b) := xstep caps (px p) (XBase (OSnap k)) in
      let path := actual_path e t in
      ({| px := x'; named := (path, length (files (base (px p)))) :: named p |},
       match b with XoBase (ObSnap id) => PoSnap path id | _ => PoSnapFailed end)
  | POpen => (p, PoOpen)
  end.

Definition prun (caps : nat -> nat) (p : pdb) (ops : list pop) : pdb :=
  fold_left (fun p o => fst (pstep caps p o)) ops p.

Fixpoint prun_obs (caps : nat -> nat) (p : pdb) (ops : list pop) : list (pobs * pdb) :=
  match ops with
  | [] => []
  | o :: r => let '(p', b) := pstep caps p o in (b, p') :: prun_obs caps p' r
  end.

Definition empty_pdb : pdb := {| px := empty_xdb; named := [] |}.

(* the history without paths that a history with paths amounts to *)
Definition perase (o : pop) : list xop :=
  match o with
  | PX o' => [o']
  | PSnap _ _ true _ => []
  | PSnap _ _ false k => [XBase (OSnap k)]
  | POpen => []
  end.

(* does the operation write the file of this name? *)
Definition rewrites (n : str) (o : pop) : bool :=
  match o with
  | PSnap e t false _ => str_eqb (actual_path e t) n
  | _ => false
  end.

(* every recorded name points to a file that exists *)
Definition pwf (p : pdb) : Prop :=
  Forall (fun ni => (snd ni < length (files (base (px p))))%nat) (named p).

(* [old] occurs somewhere in [s] *)
Fixpoint occursb (old s : str) : bool :=
  has_prefix old s || match s with [] => false | _ :: r => occursb old r end.
