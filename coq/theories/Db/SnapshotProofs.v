(* Proofs for C17 over the machine of Snapshot.v *)
From Coq Require Import List NArith Bool Arith Lia.
From Storage Require Import Base.Bytes Db.Content Db.ContentProofs Db.Timeline Db.Snapshot.
Import ListNotations.
Open Scope N_scope.

(* ---------------- the markers ---------------- *)

Lemma mark_snapshot_id : forall id c, lookup p_snapshotId (mark id c) = Some (EVal (enc_string id)).
Proof.
  intros. unfold mark, p_snapshotId.
  rewrite lookup_meta_set_other_key by discriminate.
  apply lookup_meta_set_same.
Qed.

Lemma mark_reset : forall id c, lookup p_resetTimeline (mark id c) = Some (EVal (enc_bool true)).
Proof. intros. unfold mark, p_resetTimeline. apply lookup_meta_set_same. Qed.

Lemma mark_meta : forall id c, lookup p_meta (mark id c) = Some EBucket.
Proof. intros. unfold mark. apply lookup_meta_set_meta. Qed.

Lemma mark_other : forall id c p,
  p <> p_snapshotId -> p <> p_resetTimeline -> p <> p_meta -> lookup p (mark id c) = lookup p c.
Proof.
  intros id c p H1 H2 H3. unfold mark.
  rewrite lookup_meta_set_other by assumption.
  now rewrite lookup_meta_set_other by assumption.
Qed.

(* ---------------- files are append-only ---------------- *)

Lemma step_files : forall d o, exists l, files (fst (step d o)) = files d ++ l.
Proof.
  intros d o. destruct o as [ws [|]|k| |k| |m idf|]; simpl.
  - exists []. now rewrite app_nil_r.
  - exists []. now rewrite app_nil_r.
  - eexists. reflexivity.
  - eexists. reflexivity.
  - destruct (nth_error (files d) k); simpl; exists []; now rewrite app_nil_r.
  - exists []. now rewrite app_nil_r.
  - exists []. now rewrite app_nil_r.
  - exists []. now rewrite app_nil_r.
Qed.

Lemma run_files : forall ops d, exists l, files (run d ops) = files d ++ l.
Proof.
  induction ops as [|o r IH]; intro d; simpl.
  - exists []. now rewrite app_nil_r.
  - destruct (step_files d o) as [l1 H1]. destruct (IH (fst (step d o))) as [l2 H2].
    exists (l1 ++ l2). unfold run in *. simpl. rewrite H2, H1. now rewrite app_assoc.
Qed.

Lemma run_app : forall d a b, run d (a ++ b) = run (run d a) b.
Proof. intros. unfold run. apply fold_left_app. Qed.

Lemma run_keeps_file : forall ops d k c,
  nth_error (files d) k = Some c -> nth_error (files (run d ops)) k = Some c.
Proof.
  intros ops d k c H. destruct (run_files ops d) as [l E]. rewrite E.
  rewrite nth_error_app1; [exact H|]. apply nth_error_Some. now rewrite H.
Qed.

Lemma snapshot_file : forall d k,
  nth_error (files (fst (snapshot_step d k))) (length (files d)) = Some (mark (snd (snapshot_step d k)) (live d)).
Proof.
  intros d k. unfold snapshot_step. simpl.
  rewrite nth_error_app2 by lia. now rewrite Nat.sub_diag.
Qed.

(* ---------------- restore reproduces the snapshot ---------------- *)

Definition restored (d0 : db) (pre : list op) (k : snap_kind) (post : list op) : db :=
  let d1 := run d0 pre in
  let d2 := fst (snapshot_step d1 k) in
  let d3 := run d2 post in
  fst (step d3 (ORestore (length (files d1)))).

Definition snap_id (d0 : db) (pre : list op) (k : snap_kind) : str := snd (snapshot_step (run d0 pre) k).

Lemma step_restore : forall d k c,
  nth_error (files d) k = Some c -> fst (step d (ORestore k)) = restore_step d c.
Proof. intros d k c H. simpl. now rewrite H. Qed.

Lemma restored_eq : forall d0 pre k post,
  restored d0 pre k post =
    restore_step (run (fst (snapshot_step (run d0 pre) k)) post) (mark (snap_id d0 pre k) (live (run d0 pre))).
Proof.
  intros. unfold restored, snap_id. cbv zeta.
  pose proof (snapshot_file (run d0 pre) k) as Hf.
  apply (run_keeps_file post) in Hf.
  now apply step_restore.
Qed.

Lemma restored_live : forall d0 pre k post,
  live (restored d0 pre k post) = mark (snap_id d0 pre k) (live (run d0 pre)).
Proof. intros. rewrite restored_eq. reflexivity. Qed.

Lemma restore_reproduces_snapshot_lemma : forall (d0 : db) (pre post : list op) (k : snap_kind),
  let at_snapshot := live (run d0 pre) in
  let after := live (restored d0 pre k post) in
  let id := snap_id d0 pre k in
  after = mark id at_snapshot
  /\ (forall p, p <> p_snapshotId -> p <> p_resetTimeline -> p <> p_meta -> lookup p after = lookup p at_snapshot)
  /\ lookup p_meta after = Some EBucket
  /\ lookup p_snapshotId after = Some (EVal (enc_string id))
  /\ lookup p_resetTimeline after = Some (EVal (enc_bool true)).
Proof.
  intros. subst at_snapshot after id. rewrite restored_live. repeat split.
  - intros. now apply mark_other.
  - apply mark_meta.
  - apply mark_snapshot_id.
  - apply mark_reset.
Qed.

(* a snapshot does not disturb the live database *)
Lemma snapshot_leaves_live_lemma : forall d,
  live (fst (snapshot_step d SKPlain)) = live d /\ live (fst (snapshot_step d SKInView)) = live d
  /\ forall b a, live (fst (snapshot_step d (SKInUpdate b a false))) = live d.
Proof. intro d. repeat split. Qed.

(* ---------------- snapshot id ---------------- *)

Lemma snapshot_id_reported_lemma : forall d0 pre k post,
  snd (step (restored d0 pre k post) OGetSnapshotId) = ObSnapId (Some (snap_id d0 pre k)).
Proof.
  intros. simpl. unfold get_snapshot_id. rewrite restored_live.
  rewrite mark_meta. simpl. rewrite mark_snapshot_id. reflexivity.
Qed.

Lemma fresh_inj : forall a b, fresh a = fresh b -> a = b.
Proof.
  intros a b H. unfold fresh in H. inversion H as [H1]. clear H.
  revert b H1. induction a as [|a IH]; destruct b as [|b]; simpl; intro H; try reflexivity; try discriminate.
  inversion H. f_equal. now apply IH.
Qed.

Lemma step_uuids : forall d o, (uuids d <= uuids (fst (step d o)))%nat.
Proof.
  intros d o. destruct o as [ws [|]|k| |k| |m idf|]; simpl; try lia.
  destruct (nth_error (files d) k); simpl; lia.
Qed.

Lemma run_uuids : forall ops d, (uuids d <= uuids (run d ops))%nat.
Proof.
  induction ops as [|o r IH]; intro d; unfold run in *; simpl; [lia|].
  pose proof (step_uuids d o). pose proof (IH (fst (step d o))). lia.
Qed.

Lemma snapshot_ids_distinct_lemma : forall d0 pre k1 mid k2,
  let d1 := run d0 pre in
  let id1 := snd (snapshot_step d1 k1) in
  let d2 := run (fst (snapshot_step d1 k1)) mid in
  let id2 := snd (snapshot_step d2 k2) in
  id1 <> id2.
Proof.
  intros.
  assert (E1 : id1 = fresh (uuids d1)) by reflexivity.
  assert (E2 : id2 = fresh (uuids d2)) by reflexivity.
  rewrite E1, E2. intro E. apply fresh_inj in E.
  pose proof (run_uuids mid (fst (snapshot_step d1 k1))) as H. fold d2 in H.
  assert (E3 : uuids (fst (snapshot_step d1 k1)) = S (uuids d1)) by reflexivity.
  rewrite E3 in H. lia.
Qed.

(* ---------------- listeners ---------------- *)

Lemma restore_listeners_fire_lemma : forall d0 pre k post,
  let d3 := run (fst (snapshot_step (run d0 pre) k)) post in
  fired (restored d0 pre k post) = (fired d3 + listeners d3)%nat.
Proof.
  intros. rewrite restored_eq. reflexivity.
Qed.

(* ---------------- timeline ---------------- *)

Definition timeline_obs (d : db) (m : tmode) (idf : option str) : obs := snd (step d (OTimeline m idf)).
Definition timeline_db (d : db) (m : tmode) (idf : option str) : db := fst (step d (OTimeline m idf)).

Lemma ensure_meta_reset : forall c, lookup p_resetTimeline (ensure p_meta c) = lookup p_resetTimeline c.
Proof. intro c. rewrite ensure_meta. apply lookup_ins_other. discriminate. Qed.

Lemma ensure_meta_tlid : forall c, lookup p_timelineId (ensure p_meta c) = lookup p_timelineId c.
Proof. intro c. rewrite ensure_meta. apply lookup_ins_other. discriminate. Qed.

(* whenever the reset flag is set, every mode asks idF and returns its id *)
Lemma timeline_reset_calls : forall m t c,
  lookup p_resetTimeline c = Some (EVal (enc_bool true)) ->
  get_timeline_id m (Some t) c =
    {| tl_id := Some t; tl_called := true;
       tl_content := meta_set s_resetTimeline (enc_bool false) (meta_set s_timelineId (enc_string t) (ensure p_meta c)) |}.
Proof.
  intros m t c H. unfold get_timeline_id. rewrite ensure_meta_reset, H. reflexivity.
Qed.

Lemma timeline_reset_error : forall m c,
  lookup p_resetTimeline c = Some (EVal (enc_bool true)) ->
  get_timeline_id m None c = {| tl_id := None; tl_called := true; tl_content := c |}.
Proof.
  intros m c H. unfold get_timeline_id. rewrite ensure_meta_reset, H. reflexivity.
Qed.

(* once an id is stored and the flag is cleared, the default and initIfEmpty modes return it
   without asking idF *)
Lemma timeline_stable : forall m idf t c,
  m <> MForceReset ->
  lookup p_resetTimeline c = Some (EVal (enc_bool false)) ->
  lookup p_timelineId c = Some (EVal (enc_string t)) ->
  tl_id (get_timeline_id m idf c) = Some t /\ tl_called (get_timeline_id m idf c) = false
  /\ tl_content (get_timeline_id m idf c) = ensure p_meta c.
Proof.
  intros m idf t c Hm Hr Ht. unfold get_timeline_id.
  rewrite ensure_meta_reset, ensure_meta_tlid, Hr, Ht. simpl.
  destruct m; simpl; try contradiction; repeat split; reflexivity.
Qed.

Lemma after_fresh_flags : forall t c,
  let c' := meta_set s_resetTimeline (enc_bool false) (meta_set s_timelineId (enc_string t) (ensure p_meta c)) in
  lookup p_resetTimeline c' = Some (EVal (enc_bool false)) /\ lookup p_timelineId c' = Some (EVal (enc_string t)).
Proof.
  intros. subst c'. split.
  - apply lookup_meta_set_same.
  - unfold p_timelineId. rewrite lookup_meta_set_other_key by discriminate. apply lookup_meta_set_same.
Qed.

Lemma timeline_fresh_once_lemma : forall d0 pre k post (m m2 : tmode) (t : str) (idf2 : option str),
  let d4 := restored d0 pre k post in
  let d5 := timeline_db d4 m (Some t) in
  m2 <> MForceReset ->
  timeline_obs d4 m (Some t) = ObTimeline (Some t) true
  /\ idf_calls d5 = S (idf_calls d4)
  /\ timeline_obs d5 m2 idf2 = ObTimeline (Some t) false
  /\ idf_calls (timeline_db d5 m2 idf2) = idf_calls d5.
Proof.
  intros d0 pre k post m m2 t idf2 d4 d5 Hm2.
  assert (Hreset : lookup p_resetTimeline (live d4) = Some (EVal (enc_bool true))).
  { subst d4. rewrite restored_live. apply mark_reset. }
  pose proof (timeline_reset_calls m t (live d4) Hreset) as H1.
  unfold timeline_obs, timeline_db in *. subst d5. simpl. rewrite H1. simpl.
  destruct (after_fresh_flags t (live d4)) as [Hr Ht].
  destruct (timeline_stable m2 idf2 t _ Hm2 Hr Ht) as [Ha [Hb Hc]].
  rewrite Ha, Hb. repeat split; reflexivity.
Qed.

(* force-reset mode asks again on every call *)
Lemma force_reset_always : forall t2 c,
  tl_id (get_timeline_id MForceReset (Some t2) c) = Some t2 /\ tl_called (get_timeline_id MForceReset (Some t2) c) = true.
Proof.
  intros. unfold get_timeline_id. simpl force_reset. rewrite orb_true_r. split; reflexivity.
Qed.

Lemma timeline_force_reset_lemma : forall d m t t2,
  timeline_obs (timeline_db d m (Some t)) MForceReset (Some t2) = ObTimeline (Some t2) true.
Proof.
  intros. unfold timeline_obs, timeline_db.
  destruct (force_reset_always t2 (live (fst (step d (OTimeline m (Some t)))))) as [Ha Hb].
  simpl. simpl in Ha, Hb. now rewrite Ha, Hb.
Qed.

(* a failing idF leaves the flag set: the request after it is still the fresh one *)
Lemma timeline_error_keeps_flag_lemma : forall d0 pre k post (m m2 : tmode) (t : str),
  let d4 := restored d0 pre k post in
  let d5 := timeline_db d4 m None in
  timeline_obs d4 m None = ObTimeline None true
  /\ live d5 = live d4
  /\ timeline_obs d5 m2 (Some t) = ObTimeline (Some t) true.
Proof.
  intros d0 pre k post m m2 t d4 d5.
  assert (Hreset : lookup p_resetTimeline (live d4) = Some (EVal (enc_bool true))).
  { subst d4. rewrite restored_live. apply mark_reset. }
  unfold timeline_obs, timeline_db in *. subst d5. simpl.
  rewrite (timeline_reset_error m _ Hreset). simpl.
  rewrite (timeline_reset_calls m2 t _ Hreset). simpl. repeat split; reflexivity.
Qed.

(* the complete decision table of GetTimelineId: when idF is asked *)
Lemma timeline_called_iff_lemma : forall m idf c,
  tl_called (get_timeline_id m idf c) =
    get_bool_default (lookup p_resetTimeline c) false
    || match m with
       | MForceReset => true
       | MInitIfEmpty => match get_string (lookup p_timelineId c) with None => true | Some _ => false end
       | MDefault => false
       end.
Proof.
  intros m idf c. unfold get_timeline_id. rewrite ensure_meta_reset, ensure_meta_tlid.
  destruct (get_bool_default (lookup p_resetTimeline c) false); simpl.
  - destruct idf; reflexivity.
  - destruct m; simpl.
    + reflexivity.
    + destruct (get_string (lookup p_timelineId c)); simpl; [reflexivity|destruct idf; reflexivity].
    + destruct idf; reflexivity.
Qed.
