(* C18: a writer transaction that fails leaves no trace.  In the model a failed transaction is an
   [ECommit w] whose [apply_tx w] answers [None] on the newest version (Db/Mvcc.v: the step changes
   nothing).  Stated for the system - the run with the failed transaction equals the run without it: same
   versions, same readers, same observations, whatever the readers do before, meanwhile and afterwards -
   and for the serial execution the reader answers are compared with (the version sequence does not
   advance).  The harness counterpart: writer transactions that fail part-way, after entity, index and
   link writes, through Db.Update and Db.Batch (case lines "W 0 ... fail <kind> <k>", c18_s6.go), next to
   the readers and followed by a read transaction of the writer itself. *)
From Coq Require Import List Arith.
From Storage Require Import Db.Mvcc.
Import ListNotations.

Section MvccFail.
  Variable state : Type.
  Variable query : Type.
  Variable answer : Type.
  Variable eval : query -> state -> answer.
  Variable wtx : Type.
  Variable apply_tx : wtx -> state -> option state.

  Notation sys := (sys state query answer).
  Notation step := (step state query answer eval wtx apply_tx).
  Notation run := (run state query answer eval wtx apply_tx).
  Notation serial := (serial state wtx apply_tx).
  Notation serial_versions := (serial_versions state wtx apply_tx).
  Notation vers := (versions state query answer).
  Notation cur := (current state query answer).

  (* the transaction fails on the newest version of s *)
  Definition fails_at (s : sys) (w : wtx) : Prop :=
    forall st, nth_error (vers s) (cur s) = Some st -> apply_tx w st = None.

  Lemma failed_commit_is_noop : forall (s : sys) w, fails_at s w -> step s (ECommit query wtx w) = s.
  Proof.
    intros s w H. unfold fails_at in H. simpl.
    destruct (nth_error (vers s) (cur s)) as [st|]; [|reflexivity].
    now rewrite (H st eq_refl).
  Qed.

  Lemma run_app : forall es1 es2 (s : sys), run s (es1 ++ es2) = run (run s es1) es2.
  Proof. intros. unfold Mvcc.run. apply fold_left_app. Qed.

  Lemma failed_transaction_leaves_no_trace_lemma : forall (s : sys) es1 w es2,
    fails_at (run s es1) w ->
    run s (es1 ++ ECommit query wtx w :: es2) = run s (es1 ++ es2).
  Proof.
    intros s es1 w es2 H. rewrite !run_app.
    change (run (run s es1) (ECommit query wtx w :: es2)) with (run (step (run s es1) (ECommit query wtx w)) es2).
    now rewrite failed_commit_is_noop.
  Qed.

  (* ---- the serial execution ---- *)
  Lemma last_indep : forall (l : list state) a b, l <> [] -> last l a = last l b.
  Proof.
    induction l as [|x r IH]; intros a b Hne; [congruence|].
    destruct r as [|y r']; [reflexivity|]. simpl in *. apply IH. discriminate.
  Qed.

  Lemma last_cons : forall (l : list state) x d, last (x :: l) d = last l x.
  Proof.
    intros l x d. destruct l as [|y r]; [reflexivity|].
    change (last (x :: y :: r) d) with (last (y :: r) d). apply last_indep. discriminate.
  Qed.

  Lemma serial_app : forall ws1 ws2 st,
    serial st (ws1 ++ ws2) = serial st ws1 ++ serial (last (serial st ws1) st) ws2.
  Proof.
    induction ws1 as [|w r IH]; intros ws2 st; simpl; [reflexivity|].
    destruct (apply_tx w st) as [st'|].
    - rewrite last_cons, IH. reflexivity.
    - apply IH.
  Qed.

  (* the state the serial execution of ws has reached *)
  Definition serial_last (v0 : state) (ws : list wtx) : state := last (serial v0 ws) v0.

  Lemma failed_transaction_not_a_version_lemma : forall v0 ws1 w ws2,
    apply_tx w (serial_last v0 ws1) = None ->
    serial_versions v0 (ws1 ++ w :: ws2) = serial_versions v0 (ws1 ++ ws2).
  Proof.
    intros v0 ws1 w ws2 H. unfold Mvcc.serial_versions. f_equal.
    rewrite !serial_app. f_equal. simpl. unfold serial_last in H. now rewrite H.
  Qed.
End MvccFail.
