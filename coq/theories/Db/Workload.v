(* The concrete database states, writer transactions and queries of the C18 correspondence
   harness (harness/cmd/storageharness/c18.go): items with a unique name, a group reference, an
   integer and a tag set, and links between items and groups.  Instantiates the Section variables
   of Db/Mvcc.v.  The writer only issues operations that are valid in its current state (it is
   the only writer), so the operations are total; a transaction as a whole commits or rolls back. *)
From Coq Require Import List NArith ZArith Bool.
From Storage Require Import Base.Bytes Db.Mvcc.
Import ListNotations.
Open Scope Z_scope.

Record item := { i_id : str; i_name : str; i_group : option str; i_val : Z; i_tags : list str }.

Record wstate := {
  w_items : list item;            (* sorted by id, one per id *)
  w_links : list (str * str)      (* (item id, group id) *)
}.

Inductive wop :=
| WPut (it : item)                          (* Create, or Update of all fields *)
| WPatch (id : str) (v : Z) (tags : list str) (* Update restricted to val and tags *)
| WDelete (id : str)
| WLink (i g : str)
| WUnlink (i g : str).

Definition wtx := (bool * list wop)%type.   (* commit flag, operations *)

Fixpoint put_item (it : item) (l : list item) : list item :=
  match l with
  | [] => [it]
  | x :: r =>
      match str_cmp (i_id it) (i_id x) with
      | Eq => it :: r
      | Lt => it :: x :: r
      | Gt => x :: put_item it r
      end
  end.

Definition patch_item (id : str) (v : Z) (tags : list str) (l : list item) : list item :=
  map (fun x => if str_eqb (i_id x) id
                then {| i_id := i_id x; i_name := i_name x; i_group := i_group x; i_val := v; i_tags := tags |}
                else x) l.

Definition pair_eqb (a b : str * str) : bool := str_eqb (fst a) (fst b) && str_eqb (snd a) (snd b).

Definition apply_wop (s : wstate) (o : wop) : wstate :=
  match o with
  | WPut it => {| w_items := put_item it (w_items s); w_links := w_links s |}
  | WPatch id v tags => {| w_items := patch_item id v tags (w_items s); w_links := w_links s |}
  | WDelete id => {| w_items := filter (fun x => negb (str_eqb (i_id x) id)) (w_items s);
                     w_links := filter (fun p => negb (str_eqb (fst p) id)) (w_links s) |}
  | WLink i g => if existsb (pair_eqb (i, g)) (w_links s) then s
                 else {| w_items := w_items s; w_links := (i, g) :: w_links s |}
  | WUnlink i g => {| w_items := w_items s; w_links := filter (fun p => negb (pair_eqb (i, g) p)) (w_links s) |}
  end.

Definition apply_wtx (w : wtx) (s : wstate) : option wstate :=
  if fst w then Some (fold_left apply_wop (snd w) s) else None.

(* ---- queries ---- *)
Inductive query :=
| QLoad (id : str)            (* store.LoadById *)
| QName (n : str)             (* unique index read *)
| QTag (t : str)              (* set index read *)
| QGroupItems (g : str)       (* back-references of the fk index *)
| QLinks (i : str)            (* link collection, item side *)
| QRevLinks (g : str)         (* link collection, group side *)
| QF1 (g : str) (v : Z)       (* group = "g" and val >= v sort by name *)
| QF2 (t : str)               (* anyOf(tags) = "t" *)
| QF3 (v : Z)                 (* val < v sort by val desc *)
| QCount                      (* number of items *)
(* -- added for the shared-mutable-object classes (seeded/C18-1, C18-2): listings through the empty
      filter with the reader's own paging, dotted (composite) symbols, set functions over link and
      fk-set symbols, sub-queries, sorted pages; on the item store and on the group store -- *)
| QList (s l : Z)             (* ast.Parse("") + SetSkip s + SetLimit l (negative = not set) + QueryIdsC *)
| QAll                        (* QueryIds(tx, "") *)
| QF4 (g : str)               (* group.name = "G<g>"                       dotted fk symbol *)
| QF5 (g : str)               (* anyOf(watchers.name) = "G<g>"             dotted set symbol (link, then field) *)
| QF6 (t : str)               (* anyOf(group.items.tags) = "t"             fk, fk set, set *)
| QF7 (n : str)               (* anyOf(watchers.items.name) = "n"          link set, fk set, field *)
| QF8 (i : str)               (* anyOf(watchers.watching) = "i"            link set, link set (ids) *)
| QWatchCount (n : Z)         (* count(watchers) >= n *)
| QNoTags                     (* isEmpty(tags) *)
| QSubHas (g : str)           (* not isEmpty(from watchers where name = "G<g>") *)
| QSubCount (g : str) (n : Z) (* count(from watchers where name != "G<g>") >= n *)
| QPage (v s l : Z)           (* val >= v sort by val desc, name skip s limit l *)
| QGItemsName (n : str)       (* group store: anyOf(items.name) = "n" *)
| QGItemsTag (t : str)        (* group store: anyOf(items.tags) = "t" *)
| QGWatchTag (t : str)        (* group store: anyOf(watching.tags) = "t" *)
| QGSub (v : Z)               (* group store: not isEmpty(from watching where val < v) *)
| QGList (s l : Z)            (* group store: empty filter with paging *)
(* -- added for objects registered once on a store and used by every reader (seeded/C18-w2-2, w2-3):
      external (func) symbols of both constructors, plain / behind an fk symbol / behind a link set
      symbol, in filters and as sort keys; the remaining index and link read paths -- *)
| QExtBool (b : bool)         (* odd = true|false                          NewBoolFuncSymbol *)
| QExtBoolSort (v : Z)        (* val >= v sort by odd desc, name *)
| QExtStr (l : str)           (* label = "l"                               NewStringFuncSymbol (null for some rows) *)
| QExtStrSort (v : Z)         (* val < v sort by label, name desc          (null sorts first) *)
| QExtGroup                   (* group.gx = true                           external symbol behind an fk symbol *)
| QExtWatch                   (* anyOf(watchers.gx) = true                 external symbol behind a link set symbol *)
| QGExtBool (b : bool)        (* group store: gx = true|false *)
| QTagCursor (t : str) (fwd : bool)   (* set index OpenValueCursor, forward / backward *)
| QTagKeys (fwd : bool)       (* set index OpenKeyCursor / ReadKeys: the tags some item carries *)
| QLinked (i g : str)         (* link collection IsLinked (both sides agree): [g] or [] *)
| QGroupByName (n : str).     (* group store: unique index read *)

Inductive answer :=
| AIds (l : list str)
| AItem (o : option item)
| ACount (n : nat).

Fixpoint insert_by {A} (leb : A -> A -> bool) (x : A) (l : list A) : list A :=
  match l with
  | [] => [x]
  | y :: r => if leb x y then x :: y :: r else y :: insert_by leb x r
  end.

Definition sort_by {A} (leb : A -> A -> bool) (l : list A) : list A := fold_right (insert_by leb) [] l.

Definition opt_str_eqb (o : option str) (s : str) : bool :=
  match o with Some x => str_eqb x s | None => false end.

Definition name_leb (a b : item) : bool := str_leb (i_name a) (i_name b).

(* descending by val, ties by ascending id (the engine appends id as the last sort key) *)
Definition val_desc_leb (a b : item) : bool :=
  if i_val b <? i_val a then true
  else if i_val a <? i_val b then false
  else str_leb (i_id a) (i_id b).

(* descending by val, ties by ascending name (names are unique) *)
Definition val_desc_name_leb (a b : item) : bool :=
  if i_val b <? i_val a then true
  else if i_val a <? i_val b then false
  else str_leb (i_name a) (i_name b).

(* skip / limit as the scanners apply them; a negative value stands for "not set" *)
Definition page {A} (s l : Z) (xs : list A) : list A :=
  let r := skipn (Z.to_nat s) xs in
  if l <? 0 then r else firstn (Z.to_nat l) r.

(* the groups exist from the start and are never changed by the writer: "g0" "g1" "g2" *)
Definition group_ids : list str := [[103; 48]; [103; 49]; [103; 50]]%N.

Definition linked (s : wstate) (i g : str) : bool := existsb (pair_eqb (i, g)) (w_links s).
Definition groups_of (s : wstate) (i : str) : list str := map snd (filter (fun p => str_eqb (fst p) i) (w_links s)).
Definition items_of_group (s : wstate) (g : str) : list item := filter (fun x => opt_str_eqb (i_group x) g) (w_items s).
Definition find_item (s : wstate) (i : str) : option item := find (fun x => str_eqb (i_id x) i) (w_items s).
Definition has_tag (t : str) (x : item) : bool := existsb (str_eqb t) (i_tags x).

(* the external functions the harness registers (c18_s2.go): pure functions of the row id *)
Definition last_byte (s : str) : option byte := match rev s with [] => None | b :: _ => Some b end.
Definition ext_odd (id : str) : bool := match last_byte id with Some b => N.odd b | None => false end.
Definition ext_label (id : str) : option str :=
  match last_byte id with
  | None => None
  | Some b => let d := (b mod 5)%N in if (d =? 4)%N then None else Some [99%N; (48 + d mod 3)%N]
  end.

(* descending by the bool symbol (true first), ties by ascending name *)
Definition odd_desc_name_leb (a b : item) : bool :=
  match ext_odd (i_id a), ext_odd (i_id b) with
  | true, false => true
  | false, true => false
  | _, _ => str_leb (i_name a) (i_name b)
  end.

(* ascending by the string symbol, null before every string; ties by descending name *)
Definition label_name_desc_leb (a b : item) : bool :=
  match ext_label (i_id a), ext_label (i_id b) with
  | None, Some _ => true
  | Some _, None => false
  | None, None => str_leb (i_name b) (i_name a)
  | Some x, Some y => match str_cmp x y with
                      | Lt => true
                      | Gt => false
                      | Eq => str_leb (i_name b) (i_name a)
                      end
  end.

Fixpoint insert_uniq (x : str) (l : list str) : list str :=
  match l with
  | [] => [x]
  | y :: r => match str_cmp x y with
              | Lt => x :: y :: r
              | Eq => y :: r
              | Gt => y :: insert_uniq x r
              end
  end.

(* the keys of the set index: a key exists exactly while some item carries the tag *)
Definition tag_keys (s : wstate) : list str := fold_right insert_uniq [] (flat_map i_tags (w_items s)).

Definition eval_query (q : query) (s : wstate) : answer :=
  match q with
  | QExtBool b => AIds (map i_id (filter (fun x => Bool.eqb (ext_odd (i_id x)) b) (w_items s)))
  | QExtBoolSort v => AIds (map i_id (sort_by odd_desc_name_leb (filter (fun x => v <=? i_val x) (w_items s))))
  | QExtStr l => AIds (map i_id (filter (fun x => opt_str_eqb (ext_label (i_id x)) l) (w_items s)))
  | QExtStrSort v => AIds (map i_id (sort_by label_name_desc_leb (filter (fun x => i_val x <? v) (w_items s))))
  | QExtGroup => AIds (map i_id (filter (fun x => match i_group x with Some g => ext_odd g | None => false end) (w_items s)))
  | QExtWatch => AIds (map i_id (filter (fun x => existsb ext_odd (groups_of s (i_id x))) (w_items s)))
  | QGExtBool b => AIds (filter (fun g => Bool.eqb (ext_odd g) b) group_ids)
  | QTagCursor t fwd => let l := map i_id (filter (has_tag t) (w_items s)) in AIds (if fwd then l else rev l)
  | QTagKeys fwd => AIds (if fwd then tag_keys s else rev (tag_keys s))
  | QLinked i g => AIds (if linked s i g then [g] else [])
  | QGroupByName n => AIds (filter (fun g => str_eqb (71%N :: g) n) group_ids)
  | QList sk li => AIds (page sk li (map i_id (w_items s)))
  | QAll => AIds (map i_id (w_items s))
  | QF4 g => AIds (map i_id (items_of_group s g))
  | QF5 g => AIds (map i_id (filter (fun x => linked s (i_id x) g) (w_items s)))
  | QF6 t => AIds (map i_id (filter (fun x => match i_group x with
                                               | Some g => existsb (has_tag t) (items_of_group s g)
                                               | None => false end) (w_items s)))
  | QF7 n => AIds (map i_id (filter (fun x => existsb (fun g => existsb (fun y => str_eqb (i_name y) n) (items_of_group s g))
                                                        (groups_of s (i_id x))) (w_items s)))
  | QF8 i => AIds (map i_id (filter (fun x => existsb (fun g => linked s i g) (groups_of s (i_id x))) (w_items s)))
  | QWatchCount n => AIds (map i_id (filter (fun x => n <=? Z.of_nat (length (groups_of s (i_id x)))) (w_items s)))
  | QNoTags => AIds (map i_id (filter (fun x => match i_tags x with [] => true | _ => false end) (w_items s)))
  | QSubHas g => AIds (map i_id (filter (fun x => linked s (i_id x) g) (w_items s)))
  | QSubCount g n => AIds (map i_id (filter (fun x => n <=? Z.of_nat (length (filter (fun g' => negb (str_eqb g' g)) (groups_of s (i_id x)))))
                                            (w_items s)))
  | QPage v sk li => AIds (page sk li (map i_id (sort_by val_desc_name_leb (filter (fun x => v <=? i_val x) (w_items s)))))
  | QGItemsName n => AIds (filter (fun g => existsb (fun y => str_eqb (i_name y) n) (items_of_group s g)) group_ids)
  | QGItemsTag t => AIds (filter (fun g => existsb (has_tag t) (items_of_group s g)) group_ids)
  | QGWatchTag t => AIds (filter (fun g => existsb (fun x => linked s (i_id x) g && has_tag t x) (w_items s)) group_ids)
  | QGSub v => AIds (filter (fun g => existsb (fun x => linked s (i_id x) g && (i_val x <? v)) (w_items s)) group_ids)
  | QGList sk li => AIds (page sk li group_ids)
  | QLoad id => AItem (find (fun x => str_eqb (i_id x) id) (w_items s))
  | QName n => AIds (map i_id (filter (fun x => str_eqb (i_name x) n) (w_items s)))
  | QTag t => AIds (map i_id (filter (fun x => existsb (str_eqb t) (i_tags x)) (w_items s)))
  | QGroupItems g => AIds (map i_id (filter (fun x => opt_str_eqb (i_group x) g) (w_items s)))
  | QLinks i => AIds (sort_by str_leb (map snd (filter (fun p => str_eqb (fst p) i) (w_links s))))
  | QRevLinks g => AIds (sort_by str_leb (map fst (filter (fun p => str_eqb (snd p) g) (w_links s))))
  | QF1 g v => AIds (map i_id (sort_by name_leb (filter (fun x => opt_str_eqb (i_group x) g && (v <=? i_val x)) (w_items s))))
  | QF2 t => AIds (map i_id (filter (fun x => existsb (str_eqb t) (i_tags x)) (w_items s)))
  | QF3 v => AIds (map i_id (sort_by val_desc_leb (filter (fun x => i_val x <? v) (w_items s))))
  | QCount => ACount (length (w_items s))
  end.

Definition empty_state : wstate := {| w_items := []; w_links := [] |}.

(* the serial answer the harness compares with: evaluate q on version v of the serial execution *)
Definition serial_answer (ws : list wtx) (v : nat) (q : query) : option answer :=
  match nth_error (serial_versions wstate wtx apply_wtx empty_state ws) v with
  | Some st => Some (eval_query q st)
  | None => None
  end.

(* The harness keeps the same stores at several places of one database (base paths of depth 0 to 3:
   the depth decides which of the path slices kept by indexes, symbols and stores have spare
   capacity); the writer applies every operation to each family inside the same transaction and a
   reader addresses one family per query.  The serial answer is that of the query: it does not
   depend on the place (Db/WorkloadProofs.v). *)
Definition placed := (nat * query)%type.
Definition eval_placed (p : placed) (s : wstate) : answer := eval_query (snd p) s.
