(* Safety (handle stability under R) and progress of the reloadLock protocol. *)
From Coq Require Import List Bool Arith Lia.
From Storage Require Import Db.RwLock.
Import ListNotations.

(* ---------------- lists ---------------- *)

Lemma nth_set_nth_same : forall {A} (l : list A) i x t, nth_error l i = Some t -> nth_error (set_nth i x l) i = Some x.
Proof.
  induction l as [|y r IH]; intros [|i] x t H; simpl in *; try discriminate; try reflexivity.
  eapply IH; eauto.
Qed.

Lemma nth_set_nth_other : forall {A} (l : list A) i j x, i <> j -> nth_error (set_nth i x l) j = nth_error l j.
Proof.
  induction l as [|y r IH]; intros [|i] [|j] x H; simpl; try reflexivity; try congruence.
  apply IH. congruence.
Qed.

Lemma existsb_false_nth : forall {A} (f : A -> bool) l i t,
  existsb f l = false -> nth_error l i = Some t -> f t = false.
Proof.
  induction l as [|y r IH]; intros [|i] t H Hn; simpl in *; try discriminate.
  - inversion Hn; subst. now apply orb_false_iff in H.
  - apply orb_false_iff in H. eapply IH; [apply H|exact Hn].
Qed.

Lemma existsb_true_nth : forall {A} (f : A -> bool) l,
  existsb f l = true -> exists i t, nth_error l i = Some t /\ f t = true.
Proof.
  induction l as [|y r IH]; simpl; intro H; try discriminate.
  destruct (f y) eqn:E.
  - exists 0, y. split; [reflexivity|exact E].
  - simpl in H. destruct (IH H) as [i [t [H1 H2]]]. exists (S i), t. split; assumption.
Qed.

(* ---------------- invariant ---------------- *)

Definition in_tx (t : thread) : bool :=
  match t with Tx TxInTx _ _ _ _ | Tx TxCommitted _ _ _ _ => true | _ => false end.

Definition tx_ok (c : option nat) (t : thread) : Prop :=
  match t with
  | Tx TxIdle _ _ _ seen | Tx TxHoldR _ _ _ seen => seen = []
  | Tx TxInTx _ _ b seen | Tx TxCommitted _ _ b seen => b = c /\ c <> None /\ Forall (eq b) seen
  | Tx TxDone _ _ b seen => b <> None /\ Forall (eq b) seen
  | Restorer _ => True
  end.

Record Inv (s : sys) : Prop := {
  inv_tx : forall i t, nth_error (threads s) i = Some t -> tx_ok (cur s) t;
  inv_excl : forall i j ti tj, nth_error (threads s) i = Some ti -> nth_error (threads s) j = Some tj ->
               holds_w ti = true -> holds_r tj = true -> False;
  inv_onew : forall i j ti tj, nth_error (threads s) i = Some ti -> nth_error (threads s) j = Some tj ->
               holds_w ti = true -> holds_w tj = true -> i = j;
  inv_closed : cur s = None -> exists i, nth_error (threads s) i = Some (Restorer RClosed)
}.

Lemma tx_ok_not_in_tx : forall c c' t, in_tx t = false -> tx_ok c t -> tx_ok c' t.
Proof.
  intros c c' t H Hok. destruct t as [pc plan inner b seen|pc]; [|exact I].
  destruct pc; simpl in *; try discriminate; exact Hok.
Qed.

Lemma in_tx_holds_r : forall t, in_tx t = true -> holds_r t = true.
Proof. intros [pc plan inner b seen|pc] H; [destruct pc|]; simpl in *; try discriminate; reflexivity. Qed.

Lemma init_inv : forall p ths, Forall initial_thread ths -> Inv (init p ths).
Proof.
  intros p ths H.
  assert (Hn : forall i t, nth_error ths i = Some t -> initial_thread t).
  { intros i t Hi. rewrite Forall_forall in H. apply H. eapply nth_error_In; eauto. }
  constructor; simpl.
  - intros i t Hi. apply Hn in Hi. destruct t as [pc plan inner b seen|pc]; [|exact I].
    destruct pc; simpl in *; try contradiction.
    destruct inner; try contradiction. destruct b; try contradiction. destruct seen; [reflexivity|contradiction].
  - intros i j ti tj Hi Hj Hw Hr. apply Hn in Hi. destruct ti as [pc plan inner b seen|pc]; simpl in Hw; try discriminate.
    destruct pc; simpl in *; try discriminate; contradiction.
  - intros i j ti tj Hi Hj Hw _. apply Hn in Hi. destruct ti as [pc plan inner b seen|pc]; simpl in Hw; try discriminate.
    destruct pc; simpl in *; try discriminate; contradiction.
  - discriminate.
Qed.

(* a step that changes neither the handle nor any lock role of the thread *)
Lemma inv_local : forall s i t t',
  Inv s -> nth_error (threads s) i = Some t ->
  holds_w t' = holds_w t -> holds_r t' = holds_r t ->
  (t' = Restorer RClosed -> t = Restorer RClosed) -> (t = Restorer RClosed -> t' = Restorer RClosed) ->
  tx_ok (cur s) t' ->
  Inv {| pref := pref s; cur := cur s; gen := gen s; threads := set_nth i t' (threads s) |}.
Proof.
  intros s i t t' [I1 I2 I3 I4] Hi Hw Hr Hc1 Hc2 Hok.
  assert (G : forall j tj, nth_error (set_nth i t' (threads s)) j = Some tj ->
              (j = i /\ tj = t') \/ (j <> i /\ nth_error (threads s) j = Some tj)).
  { intros j tj Hj. destruct (Nat.eq_dec j i) as [E|E].
    - subst j. rewrite (nth_set_nth_same _ _ _ _ Hi) in Hj. inversion Hj. now left.
    - rewrite nth_set_nth_other in Hj by congruence. now right. }
  constructor; simpl.
  - intros j tj Hj. destruct (G _ _ Hj) as [[_ E]|[_ E]]; [subst; exact Hok|eapply I1; eauto].
  - intros a b ta tb Ha Hb Hwa Hrb.
    destruct (G _ _ Ha) as [[Ea Eta]|[Ea Eta]]; destruct (G _ _ Hb) as [[Eb Etb]|[Eb Etb]]; subst.
    + rewrite Hw in Hwa. rewrite Hr in Hrb. eapply I2; eauto.
    + rewrite Hw in Hwa. eapply I2; eauto.
    + rewrite Hr in Hrb. eapply I2; eauto.
    + eapply I2; eauto.
  - intros a b ta tb Ha Hb Hwa Hwb.
    destruct (G _ _ Ha) as [[Ea Eta]|[Ea Eta]]; destruct (G _ _ Hb) as [[Eb Etb]|[Eb Etb]]; subst.
    + reflexivity.
    + rewrite Hw in Hwa. eapply I3; eauto.
    + rewrite Hw in Hwb. eapply I3; eauto.
    + eapply I3; eauto.
  - intro Hc. destruct (I4 Hc) as [j Hj]. destruct (Nat.eq_dec j i) as [E|E].
    + subst j. rewrite Hi in Hj. inversion Hj as [Et]. exists i. rewrite (nth_set_nth_same _ _ _ _ Hi).
      f_equal. now apply Hc2.
    + exists j. now rewrite nth_set_nth_other by congruence.
Qed.

Lemma cur_open_when_reader : forall s i t, Inv s -> nth_error (threads s) i = Some t -> holds_r t = true -> cur s <> None.
Proof.
  intros s i t [I1 I2 I3 I4] Hi Hr Hc. destruct (I4 Hc) as [j Hj].
  eapply I2; [exact Hj|exact Hi|reflexivity|exact Hr].
Qed.

Lemma no_reader_when_writer : forall s i t j tj, Inv s -> nth_error (threads s) i = Some t -> holds_w t = true ->
  nth_error (threads s) j = Some tj -> in_tx tj = false.
Proof.
  intros s i t j tj HI Hi Hw Hj. destruct (in_tx tj) eqn:E; [|reflexivity].
  exfalso. eapply (inv_excl s HI); [exact Hi|exact Hj|exact Hw|now apply in_tx_holds_r].
Qed.

(* a restorer that holds W changes the handle: nobody is inside a transaction *)
Lemma inv_writer_step : forall s i t t' c' g',
  Inv s -> nth_error (threads s) i = Some t ->
  holds_w t = true -> holds_w t' = true -> holds_r t' = false ->
  (c' = None -> t' = Restorer RClosed) ->
  Inv {| pref := pref s; cur := c'; gen := g'; threads := set_nth i t' (threads s) |}.
Proof.
  intros s i t t' c' g' HI Hi Hw Hw' Hr' Hc.
  pose proof HI as [I1 I2 I3 I4].
  assert (G : forall j tj, nth_error (set_nth i t' (threads s)) j = Some tj ->
              (j = i /\ tj = t') \/ (j <> i /\ nth_error (threads s) j = Some tj)).
  { intros j tj Hj. destruct (Nat.eq_dec j i) as [E|E].
    - subst j. rewrite (nth_set_nth_same _ _ _ _ Hi) in Hj. inversion Hj. now left.
    - rewrite nth_set_nth_other in Hj by congruence. now right. }
  constructor; simpl.
  - intros j tj Hj. destruct (G _ _ Hj) as [[_ E]|[_ E]].
    + subst. destruct t' as [pc plan inner b seen|pc]; [|exact I]. destruct pc; simpl in Hw'; discriminate.
    + apply tx_ok_not_in_tx with (c := cur s); [|eapply I1; eauto].
      exact (no_reader_when_writer s i t j tj HI Hi Hw E).
  - intros a b ta tb Ha Hb Hwa Hrb.
    destruct (G _ _ Ha) as [[Ea Eta]|[Ea Eta]]; destruct (G _ _ Hb) as [[Eb Etb]|[Eb Etb]]; subst.
    + congruence.
    + eapply I2; [exact Hi|exact Etb|exact Hw|exact Hrb].
    + congruence.
    + eapply I2; eauto.
  - intros a b ta tb Ha Hb Hwa Hwb.
    destruct (G _ _ Ha) as [[Ea Eta]|[Ea Eta]]; destruct (G _ _ Hb) as [[Eb Etb]|[Eb Etb]]; subst.
    + reflexivity.
    + eapply I3; [exact Hi|exact Etb|exact Hw|exact Hwb].
    + symmetry. eapply I3; [exact Hi|exact Eta|exact Hw|exact Hwa].
    + eapply I3; eauto.
  - intro Hn. exists i. rewrite (nth_set_nth_same _ _ _ _ Hi). f_equal. now apply Hc.
Qed.

Lemma step_inv : forall s i, Inv s -> Inv (step s i).
Proof.
  intros s i HI. unfold step. destruct (nth_error (threads s) i) as [t|] eqn:Hi; [|exact HI].
  destruct t as [pc plan inner b seen|pc].
  - (* transaction thread *)
    pose proof (inv_tx s HI i _ Hi) as Hok.
    destruct pc; simpl.
    + (* Idle: RLock *)
      destruct (can_rlock s) eqn:Ec; [|exact HI].
      unfold can_rlock in Ec. apply andb_true_iff in Ec. destruct Ec as [Ew _].
      apply negb_true_iff in Ew.
      pose proof HI as [I1 I2 I3 I4].
      assert (G : forall j tj, nth_error (set_nth i (Tx TxHoldR plan inner b seen) (threads s)) j = Some tj ->
                  (j = i /\ tj = Tx TxHoldR plan inner b seen) \/ (j <> i /\ nth_error (threads s) j = Some tj)).
      { intros j tj Hj. destruct (Nat.eq_dec j i) as [E|E].
        - subst j. rewrite (nth_set_nth_same _ _ _ _ Hi) in Hj. inversion Hj. now left.
        - rewrite nth_set_nth_other in Hj by congruence. now right. }
      constructor; simpl.
      * intros j tj Hj. destruct (G _ _ Hj) as [[_ E]|[_ E]]; [subst; exact Hok|eapply I1; eauto].
      * intros a c ta tc Ha Hc Hwa Hrc.
        destruct (G _ _ Ha) as [[Ea Eta]|[Ea Eta]]; subst; [discriminate|].
        pose proof (existsb_false_nth _ _ _ _ Ew Eta). congruence.
      * intros a c ta tc Ha Hc Hwa Hwc.
        destruct (G _ _ Ha) as [[Ea Eta]|[Ea Eta]]; subst; [discriminate|].
        pose proof (existsb_false_nth _ _ _ _ Ew Eta). congruence.
      * intro Hn. destruct (I4 Hn) as [j Hj]. exists j. destruct (Nat.eq_dec j i) as [E|E].
        -- subst j. rewrite Hi in Hj. discriminate.
        -- now rewrite nth_set_nth_other by congruence.
    + (* HoldR: begin *)
      apply (inv_local s i _ _ HI Hi); try reflexivity; try discriminate.
      simpl in *. subst seen. repeat split; [|constructor].
      eapply cur_open_when_reader; eauto.
    + (* InTx *)
      destruct plan as [|[| |] r]; simpl.
      * apply (inv_local s i _ _ HI Hi); try reflexivity; try discriminate. exact Hok.
      * apply (inv_local s i _ _ HI Hi); try reflexivity; try discriminate.
        simpl in *. destruct Hok as [H1 [H2 H3]]. repeat split; try assumption. constructor; assumption.
      * destruct (can_rlock s); [|exact HI].
        apply (inv_local s i _ _ HI Hi); try reflexivity; try discriminate. exact Hok.
      * apply (inv_local s i _ _ HI Hi); try reflexivity; try discriminate. exact Hok.
    + (* Committed: RUnlock *)
      pose proof HI as [I1 I2 I3 I4].
      assert (G : forall j tj, nth_error (set_nth i (Tx TxDone plan inner b seen) (threads s)) j = Some tj ->
                  (j = i /\ tj = Tx TxDone plan inner b seen) \/ (j <> i /\ nth_error (threads s) j = Some tj)).
      { intros j tj Hj. destruct (Nat.eq_dec j i) as [E|E].
        - subst j. rewrite (nth_set_nth_same _ _ _ _ Hi) in Hj. inversion Hj. now left.
        - rewrite nth_set_nth_other in Hj by congruence. now right. }
      constructor; simpl.
      * intros j tj Hj. destruct (G _ _ Hj) as [[_ E]|[_ E]]; [|eapply I1; eauto].
        subst. simpl in *. destruct Hok as [H1 [H2 H3]]. split; [congruence|assumption].
      * intros a c ta tc Ha Hc Hwa Hrc.
        destruct (G _ _ Ha) as [[Ea Eta]|[Ea Eta]]; subst; [discriminate|].
        destruct (G _ _ Hc) as [[Ec Etc]|[Ec Etc]]; subst; [discriminate|]. eapply I2; eauto.
      * intros a c ta tc Ha Hc Hwa Hwc.
        destruct (G _ _ Ha) as [[Ea Eta]|[Ea Eta]]; subst; [discriminate|].
        destruct (G _ _ Hc) as [[Ec Etc]|[Ec Etc]]; subst; [discriminate|]. eapply I3; eauto.
      * intro Hn. destruct (I4 Hn) as [j Hj]. exists j. destruct (Nat.eq_dec j i) as [E|E].
        -- subst j. rewrite Hi in Hj. discriminate.
        -- now rewrite nth_set_nth_other by congruence.
    + exact HI.
  - (* restorer *)
    destruct pc; simpl.
    + (* Idle -> Waiting *)
      apply (inv_local s i _ _ HI Hi); try reflexivity; try discriminate; try exact I.
    + (* Waiting: Lock *)
      destruct (can_wlock s) eqn:Ec; [|exact HI].
      unfold can_wlock in Ec. apply andb_true_iff in Ec. destruct Ec as [Ew Er].
      apply negb_true_iff in Ew. apply negb_true_iff in Er.
      pose proof HI as [I1 I2 I3 I4].
      assert (G : forall j tj, nth_error (set_nth i (Restorer RHoldW) (threads s)) j = Some tj ->
                  (j = i /\ tj = Restorer RHoldW) \/ (j <> i /\ nth_error (threads s) j = Some tj)).
      { intros j tj Hj. destruct (Nat.eq_dec j i) as [E|E].
        - subst j. rewrite (nth_set_nth_same _ _ _ _ Hi) in Hj. inversion Hj. now left.
        - rewrite nth_set_nth_other in Hj by congruence. now right. }
      constructor; simpl.
      * intros j tj Hj. destruct (G _ _ Hj) as [[_ E]|[_ E]]; [subst; exact I|eapply I1; eauto].
      * intros a c ta tc Ha Hc Hwa Hrc.
        destruct (G _ _ Hc) as [[Ec Etc]|[Ec Etc]]; subst; [discriminate|].
        pose proof (existsb_false_nth _ _ _ _ Er Etc). congruence.
      * intros a c ta tc Ha Hc Hwa Hwc.
        destruct (G _ _ Ha) as [[Ea Eta]|[Ea Eta]]; destruct (G _ _ Hc) as [[Ec Etc]|[Ec Etc]]; subst.
        -- reflexivity.
        -- pose proof (existsb_false_nth _ _ _ _ Ew Etc). congruence.
        -- pose proof (existsb_false_nth _ _ _ _ Ew Eta). congruence.
        -- eapply I3; eauto.
      * intro Hn. destruct (I4 Hn) as [j Hj]. exists j. destruct (Nat.eq_dec j i) as [E|E].
        -- subst j. rewrite Hi in Hj. discriminate.
        -- now rewrite nth_set_nth_other by congruence.
    + (* HoldW: close *)
      apply (inv_writer_step s i _ _ None (gen s) HI Hi); reflexivity.
    + (* Closed: open the new file *)
      apply (inv_writer_step s i _ _ (Some (gen s)) (S (gen s)) HI Hi); try reflexivity. discriminate.
    + (* Opened: Unlock *)
      pose proof HI as [I1 I2 I3 I4].
      assert (Hopen : cur s <> None).
      { intro Hn. destruct (I4 Hn) as [j Hj].
        assert (E : i = j) by (eapply I3; [exact Hi|exact Hj|reflexivity|reflexivity]).
        subst j. rewrite Hi in Hj. discriminate. }
      assert (G : forall j tj, nth_error (set_nth i (Restorer RDone) (threads s)) j = Some tj ->
                  (j = i /\ tj = Restorer RDone) \/ (j <> i /\ nth_error (threads s) j = Some tj)).
      { intros j tj Hj. destruct (Nat.eq_dec j i) as [E|E].
        - subst j. rewrite (nth_set_nth_same _ _ _ _ Hi) in Hj. inversion Hj. now left.
        - rewrite nth_set_nth_other in Hj by congruence. now right. }
      constructor; simpl.
      * intros j tj Hj. destruct (G _ _ Hj) as [[_ E]|[_ E]]; [subst; exact I|eapply I1; eauto].
      * intros a c ta tc Ha Hc Hwa Hrc.
        destruct (G _ _ Ha) as [[Ea Eta]|[Ea Eta]]; subst; [discriminate|].
        destruct (G _ _ Hc) as [[Ec Etc]|[Ec Etc]]; subst; [discriminate|]. eapply I2; eauto.
      * intros a c ta tc Ha Hc Hwa Hwc.
        destruct (G _ _ Ha) as [[Ea Eta]|[Ea Eta]]; subst; [discriminate|].
        destruct (G _ _ Hc) as [[Ec Etc]|[Ec Etc]]; subst; [discriminate|]. eapply I3; eauto.
      * intro Hn. contradiction.
    + exact HI.
Qed.

Lemma run_inv : forall sched s, Inv s -> Inv (run s sched).
Proof.
  induction sched as [|i r IH]; intros s H; simpl; [exact H|]. apply IH. now apply step_inv.
Qed.

Lemma restore_atomic_wrt_tx_lemma : forall (p : bool) (ths : list thread) (sched : list nat),
  Forall initial_thread ths ->
  let s := run (init p ths) sched in
  forall i pc plan inner b seen,
    nth_error (threads s) i = Some (Tx pc plan inner b seen) ->
    Forall (eq b) seen
    /\ (seen <> [] -> b <> None)
    /\ (pc = TxInTx \/ pc = TxCommitted -> b = cur s /\ cur s <> None).
Proof.
  intros p ths sched Hinit s i pc plan inner b seen Hi.
  assert (HI : Inv s) by (apply run_inv; now apply init_inv).
  pose proof (inv_tx s HI i _ Hi) as Hok.
  destruct pc; simpl in Hok.
  - subst seen. split; [constructor|split; [congruence|intros [H|H]; discriminate]].
  - subst seen. split; [constructor|split; [congruence|intros [H|H]; discriminate]].
  - destruct Hok as [H1 [H2 H3]]. split; [assumption|split; [congruence|intros _; split; assumption]].
  - destruct Hok as [H1 [H2 H3]]. split; [assumption|split; [congruence|intros _; split; assumption]].
  - destruct Hok as [H1 H2]. split; [assumption|split; [intros _; assumption|intros [H|H]; discriminate]].
Qed.

(* ---------------- progress ---------------- *)

Lemma set_nth_neq : forall {A} (l : list A) i t t', nth_error l i = Some t -> t' <> t -> set_nth i t' l <> l.
Proof.
  intros A l i t t' Hi Hne E. pose proof (nth_set_nth_same l i t' t Hi) as H. rewrite E, Hi in H. congruence.
Qed.

Lemma step_changes : forall s i t t' c' g',
  nth_error (threads s) i = Some t -> thread_step s t = Some (t', c', g') -> t' <> t -> step s i <> s.
Proof.
  intros s i t t' c' g' Hi Hs Hne E. unfold step in E. rewrite Hi, Hs in E.
  assert (Et : threads {| pref := pref s; cur := c'; gen := g'; threads := set_nth i t' (threads s) |} = threads s) by now rewrite E.
  simpl in Et. eapply set_nth_neq; eauto.
Qed.

Lemma list_neq_cons : forall {A} (x : A) l, l <> x :: l.
Proof.
  intros A x l E. assert (H : length l = length (x :: l)) by now rewrite <- E. simpl in H. lia.
Qed.

Lemma forallb_set_nth : forall {A} (f : A -> bool) l i x,
  forallb f l = true -> f x = true -> forallb f (set_nth i x l) = true.
Proof.
  induction l as [|y r IH]; intros [|i] x H Hx; simpl in *; try reflexivity.
  - apply andb_true_iff in H. destruct H as [_ H]. now rewrite Hx, H.
  - apply andb_true_iff in H. destruct H as [Hy H]. rewrite Hy. simpl. now apply IH.
Qed.

Lemma step_no_recursion : forall s i, forallb no_recursion (threads s) = true -> forallb no_recursion (threads (step s i)) = true.
Proof.
  intros s i H. unfold step. destruct (nth_error (threads s) i) as [t|] eqn:Hi; [|exact H].
  destruct (thread_step s t) as [[[t' c'] g']|] eqn:Hs; [|exact H]. simpl.
  assert (Ht : no_recursion t = true).
  { rewrite forallb_forall in H. apply H. eapply nth_error_In; eauto. }
  assert (Ht' : no_recursion t' = true).
  { destruct t as [pc plan inner b seen|pc]; simpl in Hs.
    - destruct pc.
      + destruct (can_rlock s); inversion Hs; subst; exact Ht.
      + inversion Hs; subst; exact Ht.
      + destruct plan as [|[| |] r]; simpl in Ht; try discriminate.
        * inversion Hs; subst; reflexivity.
        * inversion Hs; subst. exact Ht.
      + inversion Hs; subst; exact Ht.
      + discriminate.
    - destruct pc; try (inversion Hs; subst; reflexivity).
      destruct (can_wlock s); inversion Hs; subst; reflexivity. }
  now apply forallb_set_nth.
Qed.

Lemma run_no_recursion : forall sched s, forallb no_recursion (threads s) = true -> forallb no_recursion (threads (run s sched)) = true.
Proof.
  induction sched as [|i r IH]; intros s H; simpl; [exact H|]. apply IH. now apply step_no_recursion.
Qed.

Definition tx_idle (t : thread) : bool := match t with Tx TxIdle _ _ _ _ => true | _ => false end.
Definition r_idle (t : thread) : bool := match t with Restorer RIdle => true | _ => false end.

(* without recursive read-locking some thread can always move until all have finished -
   whatever the lock's preference *)
Lemma progress : forall s, forallb no_recursion (threads s) = true ->
  forallb finished (threads s) = true \/ exists i, step s i <> s.
Proof.
  intros s Hnr.
  destruct (existsb holds_w (threads s)) eqn:Ew.
  { right. destruct (existsb_true_nth _ _ Ew) as [i [t [Hi Ht]]]. exists i.
    destruct t as [pc plan inner b seen|pc]; simpl in Ht; try discriminate.
    destruct pc; simpl in Ht; try discriminate.
    - eapply step_changes; [exact Hi|reflexivity|discriminate].
    - eapply step_changes; [exact Hi|reflexivity|discriminate].
    - eapply step_changes; [exact Hi|reflexivity|discriminate]. }
  destruct (existsb holds_r (threads s)) eqn:Er.
  { right. destruct (existsb_true_nth _ _ Er) as [i [t [Hi Ht]]]. exists i.
    assert (Hn : no_recursion t = true).
    { rewrite forallb_forall in Hnr. apply Hnr. eapply nth_error_In; eauto. }
    destruct t as [pc plan inner b seen|pc]; simpl in Ht; try discriminate.
    destruct pc; simpl in Ht; try discriminate.
    - eapply step_changes; [exact Hi|reflexivity|discriminate].
    - destruct plan as [|[| |] r]; simpl in Hn; try discriminate.
      + eapply step_changes; [exact Hi|reflexivity|discriminate].
      + eapply step_changes; [exact Hi|reflexivity|].
        intro E. inversion E as [[E1 E2]]. exact (list_neq_cons _ _ E1).
    - eapply step_changes; [exact Hi|reflexivity|discriminate]. }
  destruct (existsb waits_w (threads s)) eqn:Ewt.
  { right. destruct (existsb_true_nth _ _ Ewt) as [i [t [Hi Ht]]]. exists i.
    destruct t as [pc plan inner b seen|pc]; simpl in Ht; try discriminate.
    destruct pc; simpl in Ht; try discriminate.
    eapply step_changes; [exact Hi|simpl; unfold can_wlock; rewrite Ew, Er; reflexivity|discriminate]. }
  destruct (existsb r_idle (threads s)) eqn:Eri.
  { right. destruct (existsb_true_nth _ _ Eri) as [i [t [Hi Ht]]]. exists i.
    destruct t as [pc plan inner b seen|pc]; simpl in Ht; try discriminate.
    destruct pc; simpl in Ht; try discriminate.
    eapply step_changes; [exact Hi|reflexivity|discriminate]. }
  destruct (existsb tx_idle (threads s)) eqn:Eti.
  { right. destruct (existsb_true_nth _ _ Eti) as [i [t [Hi Ht]]]. exists i.
    destruct t as [pc plan inner b seen|pc]; simpl in Ht; try discriminate.
    destruct pc; simpl in Ht; try discriminate.
    eapply step_changes; [exact Hi|simpl; unfold can_rlock; rewrite Ew, Ewt, andb_false_r; reflexivity|discriminate]. }
  left. apply forallb_forall. intros t Hin.
  destruct (In_nth_error _ _ Hin) as [i Hi].
  pose proof (existsb_false_nth _ _ _ _ Ew Hi) as H1.
  pose proof (existsb_false_nth _ _ _ _ Er Hi) as H2.
  pose proof (existsb_false_nth _ _ _ _ Ewt Hi) as H3.
  pose proof (existsb_false_nth _ _ _ _ Eri Hi) as H4.
  pose proof (existsb_false_nth _ _ _ _ Eti Hi) as H5.
  destruct t as [pc plan inner b seen|pc]; destruct pc; simpl in *; try discriminate; reflexivity.
Qed.

Lemma no_deadlock_lemma : forall (p : bool) (ths : list thread) (sched : list nat),
  Forall initial_thread ths -> forallb no_recursion ths = true ->
  let s := run (init p ths) sched in
  forallb finished (threads s) = true \/ exists i, step s i <> s.
Proof.
  intros p ths sched _ Hnr s. apply progress. subst s. now apply run_no_recursion.
Qed.

(* recursive read-locking under a writer-preferring lock: the schedule
   "transaction takes R and begins; restorer calls Lock; transaction calls RLock again"
   leaves both blocked for ever *)
Definition legacy_threads : list thread := [Tx TxIdle [TInnerLock; TStep; TInnerUnlock] 0 None []; Restorer RIdle].
Definition legacy_sched : list nat := [0; 0; 1].

Lemma recursive_rlock_deadlocks_lemma :
  let s := run (init true legacy_threads) legacy_sched in
  forallb finished (threads s) = false /\ forall i, step s i = s.
Proof.
  simpl. split; [reflexivity|]. intros [|[|i]]; try reflexivity.
  unfold step. simpl. destruct i; reflexivity.
Qed.
