(* Restore listeners that use the database, on top of the lock protocol of Db/RwLock.v (unchanged).

   RestoreFromReader starts every listener in its own goroutine (go listener()) once the new file
   is open, then returns, which releases reloadLock.  A listener that uses the database is a
   transaction thread; it cannot take its first step before some restorer has reopened the
   database.  [ls] are the indexes of the listener threads.

   [join] = true describes the variant that must not exist: the restorer waits for the listeners
   (sync.WaitGroup.Wait) while it still holds the write lock.  It is here for the counter-example.

   Model only - proofs are in RestoreJoinProofs.v. *)
From Coq Require Import List Bool Arith.
From Storage Require Import Db.RwLock.
Import ListNotations.

Definition reopened (t : thread) : bool :=
  match t with Restorer ROpened | Restorer RDone => true | _ => false end.

Definition is_tx (t : thread) : bool := match t with Tx _ _ _ _ _ => true | Restorer _ => false end.

Definition is_listener (ls : list nat) (i : nat) : bool := existsb (Nat.eqb i) ls.

(* the listeners have not been started yet *)
Definition gate_closed (s : sys) : bool := negb (existsb reopened (threads s)).

Definition listeners_done (ls : list nat) (s : sys) : bool :=
  forallb (fun j => match nth_error (threads s) j with Some t => finished t | None => true end) ls.

Definition jstep (join : bool) (ls : list nat) (s : sys) (i : nat) : sys :=
  match nth_error (threads s) i with
  | None => s
  | Some t =>
      if is_listener ls i && is_tx t && gate_closed s then s
      else match t with
           | Restorer ROpened => if join && negb (listeners_done ls s) then s else step s i
           | _ => step s i
           end
  end.

Definition jrun (join : bool) (ls : list nat) (s : sys) (sched : list nat) : sys :=
  fold_left (jstep join ls) sched s.

Definition is_restorer (t : thread) : bool := negb (is_tx t).
