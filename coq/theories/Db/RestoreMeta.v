(* Readers of database-level metadata running WHILE a restore is under way, on top of Db/SnapPath.v
   (kept unchanged, like Db/RestoreX.v and Db/Snapshot.v below it; every theorem about [pstep] /
   [xstep] / [step] still applies):

   - the calls: GetSnapshotId, GetTimelineId(mode, idF) in its three modes (a WRITE transaction),
     a read transaction over the whole content (Db.View), Db.Stats, GetDefaultSnapshotPath;
   - RestoreFromReader(r) where r itself calls back into the database from inside Read - or,
     which is the same, somebody else does while the snapshot is still streaming to disk:
     persistSnapshot copies the reads into the temp file BEFORE the reload lock is taken and
     before anything of the database is touched, so every such call is a call on the database
     as it was before the restore, in the order of the positions at which the reader makes
     them; a call placed behind the position at which the reader fails is never made;
   - the same calls as operations of their own (after the restore);
   - calls of other goroutines racing the restore ([racing_restore]): each of them is one
     transaction under the read lock (Db/RwLock.v: restore_atomic_wrt_tx - it sees ONE handle),
     the swap of the handle happens under the write lock, so an execution is: some calls, the
     swap, the other calls.

   Model only - proofs are in RestoreMetaProofs.v. *)
From Coq Require Import List NArith Bool Arith.
From Storage Require Import Base.Bytes Db.Content Db.Timeline Db.Snapshot Db.Reader Db.RestoreX Db.SnapPath.
Import ListNotations.
Open Scope N_scope.

Inductive mcall :=
| MSnapId                                   (* Db.GetSnapshotId() *)
| MTimeline (m : tmode) (idf : option str)  (* Db.GetTimelineId(m, idF); idf = what idF returns when asked, None = an error *)
| MView                                     (* Db.View: walks the whole database *)
| MStats                                    (* Db.Stats() *)
| MDefaultPath.                             (* Db.GetDefaultSnapshotPath() *)

Inductive mobs :=
| MoSnapId (id : option str)
| MoTimeline (id : option str) (called : bool)
| MoView (seen : content)
| MoUnit.

Definition mcall_step (d : db) (c : mcall) : db * mobs :=
  match c with
  | MSnapId => (d, MoSnapId (get_snapshot_id (live d)))
  | MTimeline m idf =>
      let r := get_timeline_id m idf (live d) in
      (fst (step d (OTimeline m idf)), MoTimeline (tl_id r) (tl_called r))
  | MView => (d, MoView (live d))
  | MStats => (d, MoUnit)
  | MDefaultPath => (d, MoUnit)
  end.

Fixpoint mcalls (d : db) (cs : list mcall) : db * list mobs :=
  match cs with
  | [] => (d, [])
  | c :: r =>
      let '(d1, o) := mcall_step d c in
      let '(d2, os) := mcalls d1 r in
      (d2, o :: os)
  end.

(* the operations of Db/Snapshot.v a call amounts to *)
Definition mcall_ops (c : mcall) : list op :=
  match c with
  | MSnapId => [OGetSnapshotId]
  | MTimeline m idf => [OTimeline m idf]
  | _ => []
  end.

(* the calls a reader makes: (position, call) - made once the reader has handed out [position]
   bytes; those placed behind the end of what the reader hands out are never made *)
Definition due (sc : script) (len : nat) (cbs : list (nat * mcall)) : list mcall :=
  map snd (filter (fun ac => Nat.leb (fst ac) (limit sc len)) cbs).

Definition with_base (p : pdb) (d : db) : pdb :=
  {| px := {| base := d; bodies := bodies (px p) |}; named := named p |}.

Inductive mop :=
| MP (o : pop)
| MCall (c : mcall)
| MRestoreReader (k len : nat) (sc : script) (cbs : list (nat * mcall)).

Inductive mxobs :=
| MoP (b : pobs)
| MoCall (o : mobs)
| MoRestore (during : list mobs) (b : xobs).

Definition mstep (caps : nat -> nat) (p : pdb) (o : mop) : pdb * mxobs :=
  match o with
  | MP o' => let '(p', b) := pstep caps p o' in (p', MoP b)
  | MCall c => let '(d', b) := mcall_step (base (px p)) c in (with_base p d', MoCall b)
  | MRestoreReader k len sc cbs =>
      match nth_error (files (base (px p))) k with
      | None => (p, MoRestore [] XoNoFile)
      | Some _ =>
          (* persistSnapshot first: the reads, with the calls made from inside them ... *)
          let '(d1, os) := mcalls (base (px p)) (due sc len cbs) in
          (* ... then the restore proper, as in Db/RestoreX.v *)
          let '(x2, b) := xstep caps (px (with_base p d1)) (XRestoreReader k len sc) in
          ({| px := x2; named := named p |}, MoRestore os b)
      end
  end.

Definition mrun (caps : nat -> nat) (p : pdb) (ops : list mop) : pdb :=
  fold_left (fun p o => fst (mstep caps p o)) ops p.

Fixpoint mrun_obs (caps : nat -> nat) (p : pdb) (ops : list mop) : list (mxobs * pdb) :=
  match ops with
  | [] => []
  | o :: r => let '(p', b) := mstep caps p o in (b, p') :: mrun_obs caps p' r
  end.

(* the history without calls from inside the reader that a history amounts to: the calls that
   are made, as operations of their own, in front of the restore *)
Definition mflatten (o : mop) : list mop :=
  match o with
  | MRestoreReader k len sc cbs => map MCall (due sc len cbs) ++ [MRestoreReader k len sc []]
  | _ => [o]
  end.

(* ---- calls of other goroutines racing one restore of the file [c] ----
   [before]: the calls whose transaction got the read lock before the restore took the write
   lock (all calls made while the snapshot streams to disk are among them), [after]: the others
   (all calls that begin after RestoreFromReader returned are among them). *)
Definition racing_restore (x : xdb) (c : content) (before after : list mcall) : xdb * list mobs * list mobs :=
  let '(d1, o1) := mcalls (base x) before in
  let '(x2, _) := xrestore {| base := d1; bodies := bodies x |} c in
  let '(d3, o2) := mcalls (base x2) after in
  ({| base := d3; bodies := bodies x2 |}, o1, o2).

(* a bolt file has keys inside buckets only: no snapshot id without the meta bucket *)
Definition meta_wf (c : content) : Prop :=
  is_bucket (lookup p_meta c) = false -> lookup p_snapshotId c = None.

(* the database carries this snapshot id *)
Definition has_sid (id : str) (c : content) : Prop :=
  lookup p_meta c = Some EBucket /\ lookup p_snapshotId c = Some (EVal (enc_string id)).

(* all GetSnapshotId answers among the observations are [v] *)
Definition snapids_are (v : option str) (os : list mobs) : Prop :=
  Forall (fun o => forall i, o = MoSnapId i -> i = v) os.

(* ---- the variant with a cache (for the counter-example only): GetSnapshotId serves a cached id
   when there is one and fills the cache otherwise; RestoreFromReader clears the cache at its
   top, i.e. before the snapshot streams to disk. [poll]: somebody asks while it streams. *)
Definition cached_get (cache : option str) (c : content) : option str * option str :=
  match cache with
  | Some id => (Some id, cache)
  | None => let r := get_snapshot_id c in (r, r)
  end.

Definition cached_restore_then_ask (old new : content) (poll : bool) : option str :=
  let cache0 : option str := None in
  let cache1 := if poll then snd (cached_get cache0 old) else cache0 in
  fst (cached_get cache1 new).
