(* Facts about the abstract content: lookups after inserts, what the marker writes touch. *)
From Coq Require Import List NArith Bool Lia.
From Storage Require Import Base.Bytes Db.Content.
Import ListNotations.
Open Scope N_scope.

Lemma str_cmp_eq : forall a b : str, str_cmp a b = Eq <-> a = b.
Proof.
  induction a as [|x a IH]; destruct b as [|y b]; simpl; split; intro H; try reflexivity; try discriminate.
  - destruct (x ?= y) eqn:E; try discriminate.
    apply N.compare_eq_iff in E. subst y. apply IH in H. now subst.
  - inversion H; subst. rewrite N.compare_refl. now apply IH.
Qed.

Lemma path_cmp_eq : forall a b : path, path_cmp a b = Eq <-> a = b.
Proof.
  induction a as [|x a IH]; destruct b as [|y b]; simpl; split; intro H; try reflexivity; try discriminate.
  - destruct (str_cmp x y) eqn:E; try discriminate.
    apply str_cmp_eq in E. subst y. apply IH in H. now subst.
  - inversion H; subst. assert (E : str_cmp y y = Eq) by now apply str_cmp_eq.
    rewrite E. now apply IH.
Qed.

Lemma path_eqb_eq : forall a b, path_eqb a b = true <-> a = b.
Proof.
  intros a b. unfold path_eqb. split; intro H.
  - destruct (path_cmp a b) eqn:E; try discriminate. now apply path_cmp_eq.
  - apply path_cmp_eq in H. now rewrite H.
Qed.

Lemma path_eqb_refl : forall a, path_eqb a a = true.
Proof. intro a. now apply path_eqb_eq. Qed.

Lemma path_eqb_neq : forall a b, a <> b -> path_eqb a b = false.
Proof.
  intros a b H. destruct (path_eqb a b) eqn:E; [|reflexivity]. apply path_eqb_eq in E. contradiction.
Qed.

Lemma lookup_ins_same : forall p e c, lookup p (ins p e c) = Some e.
Proof.
  intros p e c. induction c as [|[q f] r IH]; simpl.
  - now rewrite path_eqb_refl.
  - destruct (path_cmp p q) eqn:E; simpl.
    + now rewrite path_eqb_refl.
    + now rewrite path_eqb_refl.
    + assert (Hn : path_eqb p q = false).
      { unfold path_eqb. now rewrite E. }
      now rewrite Hn.
Qed.

Lemma lookup_ins_other : forall p q e c, p <> q -> lookup p (ins q e c) = lookup p c.
Proof.
  intros p q e c Hne. induction c as [|[k f] r IH]; simpl.
  - now rewrite (path_eqb_neq _ _ Hne).
  - destruct (path_cmp q k) eqn:E; simpl.
    + apply path_cmp_eq in E. subst k. now rewrite (path_eqb_neq _ _ Hne).
    + now rewrite (path_eqb_neq _ _ Hne).
    + destruct (path_eqb p k); [reflexivity|exact IH].
Qed.

Lemma ensure_meta : forall c, ensure p_meta c = ins p_meta EBucket c.
Proof. reflexivity. Qed.

Lemma lookup_meta_set_same : forall k v c, lookup [s_meta; k] (meta_set k v c) = Some (EVal v).
Proof. intros. unfold meta_set. apply lookup_ins_same. Qed.

Lemma lookup_meta_set_meta : forall k v c, lookup p_meta (meta_set k v c) = Some EBucket.
Proof.
  intros. unfold meta_set. rewrite lookup_ins_other by (unfold p_meta; discriminate).
  rewrite ensure_meta. apply lookup_ins_same.
Qed.

Lemma lookup_meta_set_other : forall p k v c,
  p <> [s_meta; k] -> p <> p_meta -> lookup p (meta_set k v c) = lookup p c.
Proof.
  intros p k v c H1 H2. unfold meta_set. rewrite lookup_ins_other by exact H1.
  rewrite ensure_meta. now apply lookup_ins_other.
Qed.

Lemma lookup_meta_set_other_key : forall k k' v c,
  k' <> k -> lookup [s_meta; k'] (meta_set k v c) = lookup [s_meta; k'] c.
Proof.
  intros. apply lookup_meta_set_other.
  - intro E. inversion E. contradiction.
  - unfold p_meta. discriminate.
Qed.

Lemma get_string_enc : forall s, get_string (Some (EVal (enc_string s))) = Some s.
Proof. reflexivity. Qed.

Lemma get_bool_enc : forall b, get_bool (Some (EVal (enc_bool b))) = Some b.
Proof. destruct b; reflexivity. Qed.
