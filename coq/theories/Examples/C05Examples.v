(* C05 - non-vacuity examples for Properties/C05.v (vm_compute on concrete histories), and the
   witness that the int32 guard of rc_counts_agree_positive is necessary. *)
From Coq Require Import List NArith ZArith Bool Sorted Lia.
From Storage Require Import Base.Bytes Links.StrOrder Links.LinkModel Links.LinkModelProofs Links.SetLinksMerge
  Links.SetLinksMergeProofs Links.RefCount Links.RefCountProofs Links.LinkMachine Links.LinkMachineProofs
  Links.HierMachine Links.HierProofs Links.HierWhere Links.HierWhereProofs.
Import ListNotations.
Local Open Scope Z_scope.

Definition A : side := true.
Definition B : side := false.
Definition ida : id := [97%N].            (* "a"  *)
Definition idx : id := [120%N].           (* "x"  *)
Definition k1 : id := [97%N].             (* "a"  *)
Definition k2 : id := [97%N; 97%N].       (* "aa" *)
Definition k3 : id := [97%N; 98%N].       (* "ab" *)
Definition k4 : id := [98%N].             (* "b"  *)
Definition U0 : univ := ([ida; idx], [k1; k2; k3; k4]).

Lemma U0_ok : univ_ok U0.
Proof. split; repeat (constructor; [|repeat constructor; reflexivity]); constructor. Qed.

(* a history with duplicate links, SetLinks with a permuted list with repetitions, a failing
   transaction (link to the missing "ab"), counts, a delete and a re-create *)
Definition h0 : history :=
  [ [OCreate A ida; OCreate A idx; OCreate B k1; OCreate B k2; OCreate B k4];
    [OAddLinks A ida [k1; k1; k4]; OAddLinks B k2 [idx]; OIncr A ida k2; OIncr B k2 ida; OSetCount A idx k4 3];
    [OAddLinks A idx [k1; k3]];                       (* fails: "ab" does not exist; rolled back *)
    [OSetLinks A ida [k4; k2; k4; k2; k2]; ODecr B k4 idx];
    [ODelete B k4; OCreate B k4] ].

Lemma h0_in : hist_in U0 h0.
Proof. repeat constructor; simpl; tauto. Qed.
Lemma h0_counts : hist_counts_ok h0.
Proof. repeat constructor; simpl; lia. Qed.
Lemma h0_bound : hist_bound 0 h0 <= max_int32.
Proof. vm_compute. discriminate. Qed.

Definition s0 : lstate := run_hist U0 h0 init_state.

(* links_symmetric / links_between_present: the hypotheses hold for h0 and the state is not trivial *)
Example links_symmetric_example :
  hist_in U0 h0 /\
  get_links U0 s0 A ida = [k2] /\ get_links U0 s0 B k2 = [ida; idx] /\ get_links U0 s0 A idx = [k2] /\
  get_links U0 s0 B k4 = [] /\ is_linked s0 A ida k2 = true /\ is_linked s0 B k2 ida = true.
Proof. split; [exact h0_in|]. vm_compute. repeat split. Qed.

(* the third transaction failed at its first operation and changed nothing *)
Example failed_tx_example :
  let s2 := run_hist U0 (firstn 2 h0) init_state in
  first_failure U0 (nth 2 h0 []) s2 0%nat = Some 0%nat /\
  fst (run_tx U0 (nth 2 h0 []) s2) = false /\
  get_links U0 (snd (run_tx U0 (nth 2 h0 []) s2)) A idx = [k2].
Proof. vm_compute. repeat split. Qed.

(* set_links_exact: a reachable state, a present entity, a requested list in any order with
   duplicates over existing ids; the merge visits all three branches *)
Example set_links_exact_example :
  let s2 := run_hist U0 (firstn 2 h0) init_state in
  univ_ok U0 /\ linv U0 s2 /\ pres s2 A ida = true /\
  (forall k, In k [k4; k2; k4; k2; k2] -> pres s2 B k = true) /\
  get_links U0 s2 A ida = [k1; k4] /\
  set_links_diff (rows U0 s2 A ida) [k4; k2; k4; k2; k2] = Some ([k2; k4], [k1]) /\
  match set_links U0 A ida [k4; k2; k4; k2; k2] s2 with
  | Done s' => get_links U0 s' A ida = [k2; k4] /\ get_links U0 s' B k1 = [] /\
               get_links U0 s' B k2 = [ida; idx] /\ get_links U0 s' B k4 = [ida]
  | _ => False
  end.
Proof.
  split; [exact U0_ok|]. split.
  - apply run_hist_linv; [apply linv_init | repeat constructor; simpl; tauto].
  - split; [vm_compute; reflexivity|]. split.
    + intros k Hk. simpl in Hk. repeat (destruct Hk as [<-|Hk]; [vm_compute; reflexivity|]). destruct Hk.
    + vm_compute. repeat split.
Qed.

(* set_links_diff_exact: duplicates left over after an equal row are re-added (harmless) *)
Example set_links_diff_example :
  sorted_lt [k1; k3] /\ set_links_diff [k1; k3] [k3; k1; k1; k4; k4] = Some ([k1; k4; k4], []) /\
  set_links_diff [k1; k2; k4] [k3; k3] = Some ([k3], [k1; k2; k4]).
Proof. split; [repeat (constructor; [|repeat constructor; reflexivity]); constructor|]. vm_compute. split; reflexivity. Qed.

(* link_missing_fails *)
Example link_missing_fails_example :
  let s2 := run_hist U0 (firstn 2 h0) init_state in
  pres s2 B k3 = false /\ add_links A idx [k1; k3] s2 = Failed /\ set_links U0 A idx [k3] s2 = Failed /\
  add_link A idx k3 s2 = Failed /\ rc_incr A idx k3 s2 = Failed /\ rc_set A idx k3 0 s2 = Failed /\
  add_links B k3 [] s2 = Failed.
Proof. vm_compute. repeat split. Qed.

(* rc_counts_agree_positive: counts 2 on (a, aa) from both sides; (x, b) set to 3, decremented
   to 2, gone with the delete of b *)
Example rc_counts_example :
  hist_in U0 h0 /\ hist_counts_ok h0 /\ hist_bound 0 h0 <= max_int32 /\
  get_link_counts s0 A ida k2 = (Some 2, Some 2) /\ get_link_counts s0 B k2 ida = (Some 2, Some 2) /\
  get_link_counts s0 A idx k4 = (None, None) /\
  get_link_counts (run_hist U0 (firstn 4 h0) init_state) A idx k4 = (Some 2, Some 2).
Proof. split; [exact h0_in|]. split; [exact h0_counts|]. split; [exact h0_bound|]. vm_compute. repeat split. Qed.

(* rc_vanish_on_zero_or_delete *)
Example rc_vanish_example :
  let s4 := run_hist U0 (firstn 4 h0) init_state in
  rc s4 A idx k4 = Some 2 /\
  match rc_set A idx k4 0 s4 with Done s' => get_link_counts s' A idx k4 = (None, None) | _ => False end /\
  match run_ops U0 (repeat (ODecr B k4 idx) 2) s4 with Done s' => get_link_counts s' A idx k4 = (None, None) | _ => False end /\
  match delete_entity U0 A idx s4 with
  | Done s' => get_link_counts s' B k4 idx = (None, None) /\ get_links U0 s' B k2 = [ida] /\ pres s' A idx = false
  | _ => False end.
Proof. vm_compute. repeat split. Qed.

(* the int32 guard is necessary: SetLinkCount(MaxInt32) followed by one increment wraps to a
   negative count on both sides (the code does exactly this, see design/C05.md) *)
Definition h_overflow : history :=
  [ [OCreate A ida; OCreate B k1]; [OSetCount A ida k1 2147483647; OIncr A ida k1] ].
Example rc_positive_without_bound_refuted :
  hist_in U0 h_overflow /\ hist_counts_ok h_overflow /\ ~ (hist_bound 0 h_overflow <= max_int32) /\
  rc (run_hist U0 h_overflow init_state) A ida k1 = Some (-2147483648).
Proof.
  split; [repeat constructor; simpl; tauto|]. split; [repeat constructor; simpl; lia|].
  split; [vm_compute; intros H; apply H; reflexivity | vm_compute; reflexivity].
Qed.

(* ==== store hierarchies (Links/HierMachine.v) ============================================================ *)

(* family A: root store and a plain child (level 1); family B: root store and an Extended child (level 1).
   Pair 0: A's child store - B's root store; pair 1: A's root store - B's extended child store; pair 2:
   the two root stores. *)
Definition T1 : topo := mkTopo (fun sd => if sd then [false] else [true]) [(1, 0); (0, 1); (0, 0)]%nat [].

(* "a" of A is created through the plain child, "x" through the root store; "a" of B through the extended
   child, "b" through the root store; links and counts in all three pairs; then "a" of A is deleted
   through the ROOT store and "a" of B through the root store as well *)
Definition hh1 : hhistory :=
  [ [HCreate A 1 ida; HCreate A 0 idx; HCreate B 1 k1; HCreate B 0 k4];
    [HLink 0 (OAddLinks A ida [k1; k4]); HLink 0 (OIncr B k1 ida); HLink 2 (OSetLinks B k1 [idx; ida]);
     HLink 1 (OSetCount A idx k1 3); HLink 1 (OAddLink B k1 ida)];
    [HLink 1 (OAddLinks A ida [k4])];              (* fails: the extended child store has no data for "b" *)
    [HDelete A 0 ida];
    [HDelete B 0 k1] ]%nat.

Lemma hh1_in : hhist_in U0 hh1.
Proof. repeat constructor; simpl; tauto. Qed.
Lemma hh1_counts : hhist_counts_ok hh1.
Proof. repeat constructor; simpl; lia. Qed.
Lemma hh1_bound : hhist_bound 0 hh1 <= max_int32.
Proof. vm_compute. discriminate. Qed.

Definition hstate_after (n : nat) : hstate := run_hhist T1 U0 (firstn n hh1) hinit.

(* hier_links_symmetric_counts_agree / hier_absent_entity_has_no_links: the guards hold, the states are
   not trivial; the delete through the root store cleaned the pair registered on the CHILD store *)
Example hier_example :
  hhist_in U0 hh1 /\ hhist_counts_ok hh1 /\ hhist_bound 0 hh1 <= max_int32 /\
  (* after the links *)
  get_links U0 (view T1 0 (hstate_after 2)) A ida = [k1; k4] /\ get_links U0 (view T1 0 (hstate_after 2)) B k1 = [ida] /\
  get_links U0 (view T1 2 (hstate_after 2)) B k1 = [ida; idx] /\ get_links U0 (view T1 1 (hstate_after 2)) B k1 = [ida] /\
  get_link_counts (view T1 0 (hstate_after 2)) A ida k1 = (Some 1, Some 1) /\
  get_link_counts (view T1 1 (hstate_after 2)) B k1 idx = (Some 3, Some 3) /\
  (* the third transaction failed and changed nothing *)
  fst (run_htx T1 U0 (nth 2 hh1 []) (hstate_after 2)) = false /\
  (* "a" of A deleted through the root store: gone from every level and from every pair *)
  hp (hstate_after 4) A 0%nat ida = false /\ hp (hstate_after 4) A 1%nat ida = false /\
  get_links U0 (view T1 0 (hstate_after 4)) B k1 = [] /\ get_links U0 (view T1 0 (hstate_after 4)) B k4 = [] /\
  get_links U0 (view T1 1 (hstate_after 4)) B k1 = [] /\ get_links U0 (view T1 2 (hstate_after 4)) B k1 = [idx] /\
  get_link_counts (view T1 0 (hstate_after 4)) B k1 ida = (None, None) /\
  (* "a" of B (data in the extended child) deleted through the root store *)
  hp (hstate_after 5) B 0%nat k1 = false /\ hp (hstate_after 5) B 1%nat k1 = false /\
  get_links U0 (view T1 2 (hstate_after 5)) A idx = [] /\
  get_link_counts (view T1 1 (hstate_after 5)) A idx k1 = (None, None).
Proof. split; [exact hh1_in|]. split; [exact hh1_counts|]. split; [exact hh1_bound|]. vm_compute. repeat split. Qed.

(* hier_delete_succeeds / hier_delete_refused_when_ext_blocked: both cases occur.  "b" of B was created
   through the ROOT store and has no data in the extended child store, which owns pair 1: its delete is
   refused, through whichever store; without pair 1 (T1') it passes. *)
Definition T1' : topo := mkTopo (fun sd => if sd then [false] else [true]) [(1, 0); (0, 0)]%nat [].
Example hier_ext_blocked_example :
  let h := hstate_after 2 in
  ext_blocked T1 h B k4 = true /\ ext_blocked T1 h B k1 = false /\ ext_blocked T1' h B k4 = false /\
  hdelete T1 U0 B 0 k4 h = HFailed /\ hdelete T1 U0 B 1 k4 h = HFailed /\
  match hdelete T1 U0 B 1 k1 h with HDone h' => hp h' B 0%nat k1 = false | _ => False end /\
  match hdelete T1' U0 B 1 k4 h with HDone h' => hp h' B 0%nat k4 = false | _ => False end.
Proof. vm_compute. repeat split. Qed.

(* The clean-up of every store level is necessary: a delete that runs cleanupLinks for the root store
   only (and not for the child stores holding the entity) leaves the peer linked to, and counting, an
   entity that no longer exists, while the pair of the root stores is clean. *)
Definition hdelete_root_only (T : topo) (U : univ) (sd : side) (x : id) (h : hstate) : hres :=
  if negb (hp h sd 0%nat x) then HFailed
  else hbind (cleanup_links T U sd 0 x h) (fun h2 => HDone (hdrop sd x h2)).

Example root_only_cleanup_refuted :
  match hdelete_root_only T1 U0 A ida (hstate_after 2) with
  | HDone h' => hp h' A 0%nat ida = false /\ hl h' 0%nat B k1 ida = true /\ hr h' 0%nat B k1 ida = Some 1 /\
                get_links U0 (view T1 2 h') B k1 = [idx]
  | _ => False
  end.
Proof. vm_compute. repeat split. Qed.

(* ==== kinds of collection per store, DeleteWhere ================================================================== *)

(* family A: root store and a plain child; family B: a root store.  Pair 0 (A's child - B's root) and
   pair 1 (the root stores) are REF-COUNTED ONLY, pair 2 (the root stores) is PLAIN ONLY: A's child store
   registers only a ref-counted collection (store.links is empty), A's root store one of each kind, B's
   root store two ref-counted ones and a plain one. *)
Definition TK : topo := mkTopo (fun sd => if sd then [false] else []) [(1, 0); (0, 0); (0, 0)]%nat
                               [(false, true); (false, true); (true, false)].

Definition hk : xhistory :=
  [ [XOp (HCreate A 1 ida); XOp (HCreate A 0 idx); XOp (HCreate B 0 k1); XOp (HCreate B 0 k4)];
    [XOp (HLink 0 (OIncr A ida k1)); XOp (HLink 0 (OIncr B k1 ida)); XOp (HLink 1 (OSetCount A idx k4 3));
     XOp (HLink 1 (OIncr A ida k4)); XOp (HLink 2 (OAddLinks A idx [k1; k4])); XOp (HLink 2 (OAddLink B k1 ida))];
    [XOp (HLink 0 (OAddLinks A ida [k1]))];        (* refused: pair 0 has no plain link collection *)
    [XOp (HDelete A 1 ida)];                       (* through the child store, whose only collections are ref-counted *)
    [XDeleteWhere B 0 false [k4; k2]];             (* "aa" does not exist: DeleteById("b") only *)
    [XDeleteWhere A 1 true []] ]%nat.              (* the child store holds nothing any more: deletes nothing *)

Lemma hk_in : xhist_in U0 hk.
Proof. repeat constructor; simpl; tauto. Qed.
Lemma hk_counts : xhist_counts_ok hk.
Proof. repeat constructor; simpl; lia. Qed.
Lemma hk_bound : xhist_bound 0 hk <= max_int32.
Proof. vm_compute. discriminate. Qed.

Definition kstate_after (n : nat) : hstate := run_xhist TK U0 (firstn n hk) hinit.

Example kinds_example :
  xhist_in U0 hk /\ xhist_counts_ok hk /\ xhist_bound 0 hk <= max_int32 /\
  has_plain TK 0 = false /\ has_rc TK 0 = true /\ link_pairs TK A 1 = [] /\ rc_pairs TK A 1 = [0%nat] /\
  (* after the links *)
  get_link_counts (view TK 0 (kstate_after 2)) A ida k1 = (Some 2, Some 2) /\
  get_link_counts (view TK 1 (kstate_after 2)) B k4 idx = (Some 3, Some 3) /\
  get_link_counts (view TK 1 (kstate_after 2)) B k4 ida = (Some 1, Some 1) /\
  get_links U0 (view TK 2 (kstate_after 2)) B k1 = [ida; idx] /\
  (* the plain operation on the ref-counted-only pair is refused *)
  fst (run_xtx TK U0 (nth 2 hk []) (kstate_after 2)) = false /\
  (* "a" of A deleted through the child store: the counts B holds for it are gone in both ref-counted
     pairs, the plain link of the root pair as well *)
  hp (kstate_after 4) A 0%nat ida = false /\
  get_link_counts (view TK 0 (kstate_after 4)) B k1 ida = (None, None) /\
  hr (kstate_after 4) 0%nat B k1 ida = None /\ hr (kstate_after 4) 1%nat B k4 ida = None /\
  get_links U0 (view TK 2 (kstate_after 4)) B k1 = [idx] /\
  (* DeleteWhere(id in ["b", "aa"]) through B's root store *)
  where_ids TK U0 (kstate_after 4) B 0 false [k4; k2] = [k4] /\
  hp (kstate_after 5) B 0%nat k4 = false /\ hp (kstate_after 5) B 0%nat k1 = true /\
  get_link_counts (view TK 1 (kstate_after 5)) A idx k4 = (None, None) /\
  get_links U0 (view TK 2 (kstate_after 5)) A idx = [k1] /\
  (* DeleteWhere(true) through A's child store deletes only what that store holds *)
  where_ids TK U0 (kstate_after 5) A 1 true [] = [] /\ hp (kstate_after 6) A 0%nat idx = true /\
  where_ids TK U0 (kstate_after 5) A 0 true [] = [idx].
Proof. split; [exact hk_in|]. split; [exact hk_counts|]. split; [exact hk_bound|]. vm_compute. repeat split. Qed.

(* The second loop of cleanupLinks must not depend on the first: a clean-up that returns early for a
   store without plain link collections ("nothing to cascade") skips EntityDeleted of the store's
   ref-counted collections, and the peer keeps a positive count for an entity that no longer exists. *)
Definition cleanup_links_plain_guard (T : topo) (U : univ) (sd : side) (k : nat) (x : id) (h : hstate) : hres :=
  match link_pairs T sd k with [] => HDone h | _ => cleanup_links T U sd k x h end.
Definition hdelete_plain_guard (T : topo) (U : univ) (sd : side) (x : id) (h : hstate) : hres :=
  if negb (hp h sd 0%nat x) then HFailed
  else hbind (hfold (fun k h => if child_found T h sd k x then cleanup_links_plain_guard T U sd k x h else HDone h)
                    (seq 1 (nkids T sd)) h) (fun h1 =>
       hbind (cleanup_links_plain_guard T U sd 0 x h1) (fun h2 => HDone (hdrop sd x h2))).

Example rc_only_store_cleanup_refuted :
  match hdelete_plain_guard TK U0 A ida (kstate_after 2) with
  | HDone h' => hp h' A 0%nat ida = false /\ hr h' 0%nat B k1 ida = Some 2 /\
                (* the root store of A has a plain collection, so its own pairs are clean *)
                hr h' 1%nat B k4 ida = None /\ get_links U0 (view TK 2 h') B k1 = [idx]
  | _ => False
  end.
Proof. vm_compute. repeat split. Qed.
