(* Non-vacuity examples for C13: concrete values satisfying the hypotheses of the theorems. *)
From Coq Require Import List NArith ZArith Bool Sorted.
From Storage Require Import Base.Bytes Codec.CodecBase Codec.Varint Codec.CompoundKey Codec.CompoundKeyProofs
  Codec.FieldCodec Codec.FieldCodecProofs Codec.StrOrderProofs Codec.Containers Codec.ContainersProofs.
Import ListNotations.
Open Scope N_scope.

(* ["ab"; ""; "\x01a"] and the prefix-ambiguous ["ab"; "\x01a"] *)
Example key_sample : encode_string_slice [[97; 98]; []; [1; 97]] = Ok [2; 97; 98; 0; 2; 1; 97].
Proof. vm_compute. reflexivity. Qed.
Example key_sample_decode : decode_string_slice [2; 97; 98; 0; 2; 1; 97] = Ok [[97; 98]; []; [1; 97]].
Proof. vm_compute. reflexivity. Qed.
Example key_sample_within : Forall within_limit [[97; 98]; []; [1; 97]].
Proof. repeat constructor; unfold within_limit; vm_compute; discriminate. Qed.
(* a hostile length (2^64-1) and a 64-bit overflow are errors, not panics *)
Example key_hostile_length : decode_string_slice [255; 255; 255; 255; 255; 255; 255; 255; 255; 1; 97] = Err.
Proof. vm_compute. reflexivity. Qed.
Example key_overflow : decode_string_slice [255; 255; 255; 255; 255; 255; 255; 255; 255; 2] = Err.
Proof. vm_compute. reflexivity. Qed.
Example varint_max : put_uvarint (2 ^ 64 - 1) = [255; 255; 255; 255; 255; 255; 255; 255; 255; 1].
Proof. vm_compute. reflexivity. Qed.

(* scalars at their boundaries *)
Example int64_min_bytes : encode_scalar (SInt64 (- 2 ^ 63)) = [3; 0; 0; 0; 0; 0; 0; 0; 128].
Proof. vm_compute. reflexivity. Qed.
Example int64_min_read : read_int64 (encode_scalar (SInt64 (- 2 ^ 63))) = Some (- 2 ^ 63)%Z.
Proof. vm_compute. reflexivity. Qed.
Example int32_widens : read_int64 (encode_scalar (SInt32 (-5))) = Some (-5)%Z.
Proof. vm_compute. reflexivity. Qed.
Example nan_payload : read_float64 (encode_scalar (SFloat64 9218868437227405313)) = FVal (Some 9218868437227405313).
Proof. vm_compute. reflexivity. Qed.
(* 1970-01-01T00:00:00.000000001Z *)
Example time_bytes : encode_scalar (STime 62135596800 1) = [6; 1; 0; 0; 0; 14; 119; 145; 247; 0; 0; 0; 0; 1; 255; 255].
Proof. vm_compute. reflexivity. Qed.
Example time_read : read_time (encode_scalar (STime 62135596800 1)) = Some (62135596800%Z, 1).
Proof. vm_compute. reflexivity. Qed.
Example empty_string_bytes : encode_scalar (SString []) = [5] /\ encode_scalar SNil = [7].
Proof. split; reflexivity. Qed.

(* {"k": nil, "l": [ "x", true, {} ], "m": {}} *)
Definition sample_value : value :=
  VMap [([107], VS SNil);
        ([108], VList [VS (SString [120]); VS (SBool true); VMap []]);
        ([109], VMap [])].

Example sample_value_wf : WfValue sample_value.
Proof.
  assert (K : forall k, k = [107] \/ k = [108] \/ k = [109] -> key_ok k).
  { intros k [ -> | [ -> | -> ] ]; (split; [discriminate | split; [vm_compute; discriminate | discriminate]]). }
  assert (L : forall s, wf_scalar s = true -> (length (encode_scalar s) <= 10)%nat -> leaf_ok s).
  { intros s H1 H2. split; [exact H1|]. unfold len, MaxValueSize. apply N.leb_le.
    destruct (encode_scalar s) as [|? [|? [|? [|? [|? [|? [|? [|? [|? [|? [|? ?]]]]]]]]]]]; try reflexivity.
    cbn in H2. repeat apply le_S_n in H2. inversion H2. }
  assert (S0 : WfValue (VMap [])) by (constructor; constructor).
  unfold sample_value. constructor.
  - cbn [map fst]. repeat (constructor; try (unfold str_lt; vm_compute; reflexivity)).
  - constructor; [|constructor; [|constructor; [|constructor]]]; cbn [fst snd]; (split; [apply K; tauto|]).
    + constructor. apply L; [reflexivity | cbn; repeat constructor].
    + constructor; [vm_compute; reflexivity|].
      constructor; [|constructor; [|constructor; [exact S0 | constructor]]].
      * constructor. apply L; [reflexivity | cbn; repeat constructor].
      * constructor. apply L; [reflexivity | cbn; repeat constructor].
    + exact S0.
Qed.

Example sample_value_roundtrip :
  match entry_node true sample_value with Ok n => get_node n = sample_value | _ => False end.
Proof. vm_compute. reflexivity. Qed.

(* a restricted write: only "b" is selected; "a" keeps its bytes, "b" gets the new value *)
Definition only_b : checker := Some (map_field_checker [[98]]).
Definition before : bucket := [([97], Leaf [5; 49]); ([98], Leaf [5; 50])].
Example restricted_write :
  apply_ops only_b [OpScalar [97] (SString [120]); OpScalar [98] (SInt64 7)] before
  = Ok [([97], Leaf [5; 49]); ([98], Leaf [3; 7; 0; 0; 0; 0; 0; 0; 0])].
Proof. vm_compute. reflexivity. Qed.

Example strlist_sample : sort_dedup [[98]; [97]; [98]; []] = [[]; [97]; [98]].
Proof. vm_compute. reflexivity. Qed.
Example strlist_sample_written :
  match apply_op None (OpStringList [108] [[98]; [97]; [98]; []]) [] with
  | Ok b' => get_string_list [108] b' = [[]; [97]; [98]]
  | _ => False
  end.
Proof. vm_compute. reflexivity. Qed.

(* the reserved list-size marker key is refused as a map key ... *)
Example reserved_key_refused : entry_node true (VMap [(ListSizeKeyName, VS (SInt32 1))]) = Err.
Proof. vm_compute. reflexivity. Qed.

(* ... because the code of the pinned tree stored such a map and read it back as a list:
   container_read_back is false of the legacy model *)
Example container_read_back_legacy_refuted :
  exists v n, Representable v /\ entry_node_legacy true v = Ok n /\ get_node n <> v.
Proof.
  exists (VMap [(ListSizeKeyName, VS (SInt32 1))]). eexists. split; [|split].
  - constructor; [repeat constructor | repeat constructor].
  - vm_compute. reflexivity.
  - vm_compute. discriminate.
Qed.

(* the same map written in two iteration orders *)
Example map_order_sample :
  map_node true [([98], VS (SInt64 2)); ([97], VS (SString [120]))]
  = map_node true [([97], VS (SString [120])); ([98], VS (SInt64 2))].
Proof. vm_compute. reflexivity. Qed.
