(* Non-vacuity examples for Properties/C12.v and the refutation witnesses for the generated parser
   as shipped (right operands parsed at precedence 0). *)
From Coq Require Import List NArith Bool.
From Storage Require Import Base.Bytes Lang.Tokens Lang.Lexer Lang.BoolGrammar Lang.Listener Lang.BoolSurface
  Lang.BoolGrammarProofs Lang.LexerProofs Lang.C12Proofs Lang.Regex Lang.LexerFull Lang.WordOps Lang.WordOpsProofs Lang.WordOpsLexProofs
  Lang.BoolRows Lang.C12W3Proofs Lang.ChainGroupings Lang.C12W5Proofs Lang.C12W7Proofs.
Import ListNotations.
Open Scope N_scope.

Definition a : prim := XAtom [97].
Definition b : prim := XAtom [98].
Definition c : prim := XAtom [99].
Definition d : prim := XAtom [100].

(* a and b or c *)
Definition and_or : expr := EAnd a (EOr b (ELast c)).
(* a or b and c or not (d and a) *)
Definition big : expr := EOr a (EAnd b (EOr c (ENot (ELast (XParen (EAnd d (ELast a))))))).

(* the assignment  a = false, b = false, c = true, d = true *)
Definition rho_fft (n : str) : bool := match n with [x] => (x =? 99) || (x =? 100) | _ => false end.

(* "a AND\tb  oR c" : 97 32 65 78 68 9 98 32 32 111 82 32 99 *)
Definition text1 : str := [97; 32; 65; 78; 68; 9; 98; 32; 32; 111; 82; 32; 99].
Definition toks1 : list tok := [TId [97]; TWs; TAnd; TWs; TId [98]; TWs; TWs; TOr; TWs; TId [99]].

Example text1_lexes : toks_of (lex_skeleton text1) = toks1 /\ drops_of (lex_skeleton text1) = [].
Proof. vm_compute. split; reflexivity. Qed.

Example toks1_spell_and_or : spells_filter and_or toks1.
Proof.
  exists toks1, 0%nat, 0%nat. split; [|reflexivity].
  apply (SpAnd a (EOr b (ELast c)) [TId [97]] [TId [98]; TWs; TWs; TOr; TWs; TId [99]] 0 0).
  - constructor.
  - apply (SpOr b (ELast c) [TId [98]] [TId [99]] 1 0); repeat constructor.
Qed.

Example toks1_chars : spells_toks toks1 text1.
Proof.
  unfold toks1, text1.
  apply (StsCons (TId [97]) _ [97]); [constructor; reflexivity|].
  apply (StsCons TWs _ [32]); [constructor; reflexivity|].
  apply (StsCons TAnd _ [65; 78; 68]); [constructor; repeat constructor; right; reflexivity|].
  apply (StsCons TWs _ [9]); [constructor; reflexivity|].
  apply (StsCons (TId [98]) _ [98]); [constructor; reflexivity|].
  apply (StsCons TWs _ [32]); [constructor; reflexivity|].
  apply (StsCons TWs _ [32]); [constructor; reflexivity|].
  apply (StsCons TOr _ [111; 82]); [constructor|].
  { apply SwCons; [left; reflexivity|]. apply SwCons; [right; reflexivity|]. constructor. }
  apply (StsCons TWs _ [32]); [constructor; reflexivity|].
  apply (StsCons (TId [99]) _ [99]); [constructor; reflexivity|].
  constructor.
Qed.

(* the repaired parser: (a and b) or c is true under a=f b=f c=t *)
Example and_or_fixed : exists t, compile fixed_prec toks1 = Some t /\ eval t rho_fft = true /\ sem and_or rho_fft = true.
Proof. eexists. vm_compute. repeat split. Qed.

(* the generated parser as shipped builds  a and (b or c) : false *)
Example precedence_legacy_refuted :
  exists e rho t, compile legacy_prec (printE e) = Some t /\ eval t rho <> sem e rho.
Proof.
  exists and_or, rho_fft. eexists. split; [vm_compute; reflexivity|]. vm_compute. discriminate.
Qed.

Example legacy_tree : parse_start legacy_prec (printE and_or) = Some (PAnd (PSym [97]) [POr (PSym [98]) [PSym [99]]]).
Proof. vm_compute. reflexivity. Qed.

Example fixed_tree : parse_start fixed_prec (printE and_or) = Some (POr (PAnd (PSym [97]) [PSym [98]]) [PSym [99]]).
Proof. vm_compute. reflexivity. Qed.

(* why the repair passes precedences 6 / 5 and not 7 / 6: with left-associative operands the
   ( ... )+ loop collects three operands in one AndExpr context, ExitAndExpr pops two, and the
   first operand is silently lost:  a and b and c  would evaluate as  b and c *)
Example prec_7_6_loses_an_operand :
  compile (mkPrec 7 6) (printE (EAnd a (EAnd b (ELast c)))) = Some (BAnd (BSym [98]) (BSym [99])).
Proof. vm_compute. reflexivity. Qed.

Example big_value : exists t, compile fixed_prec (printE big) = Some t /\ eval t rho_fft = sem big rho_fft
                              /\ sem big rho_fft = true /\ sem_dnf big rho_fft = true.
Proof. eexists. vm_compute. repeat split. Qed.

(* not (a) and b  is  not ((a) and b) : `not` has the lowest precedence (documented behaviour of the
   grammar; the property only fixes  not (P)  as a complete operand) *)
Example not_scope_example :
  exists t, compile fixed_prec (printE (ENot (EAnd (XParen (ELast a)) (ELast b)))) = Some t /\
            t = BNot (BAnd (BSym [97]) (BSym [98])).
Proof. eexists. vm_compute. split; reflexivity. Qed.

(* redundant parentheses: a and b or c  ->  (a and b) or c *)
Example wrap_example : wrapE true and_or (EOr (XParen (EAnd a (ELast b))) (ELast c)).
Proof. apply (WeRun [a] b (ELast c)). Qed.

Example wrap_tail_example : wrapE true (EOr a (EAnd b (ELast c))) (EOr a (ELast (XParen (EAnd b (ELast c))))).
Proof. apply WeOrTail. apply WeWhole. Qed.

(* words must not touch: "aand b" is one identifier followed by ... *)
Example touching_words : toks_of (lex_skeleton [97; 97; 110; 100; 32; 98]) = [TId [97; 97; 110; 100]; TWs; TId [98]].
Proof. vm_compute. reflexivity. Qed.

(* longest match / first rule wins: "andy" is an identifier, "AnD" the connective; '#' is dropped *)
Example longest_match : lex_skeleton [97; 110; 100; 121; 32; 65; 110; 68; 35] =
  [Tok K_IDENTIFIER [97; 110; 100; 121]; Tok K_WS [32]; Tok K_AND [65; 110; 68]; Drop [35]].
Proof. vm_compute. reflexivity. Qed.

Example atom_ok_examples : atom_ok [97; 110; 100; 121] = true /\ atom_ok [97; 110; 100] = false /\ atom_ok [105; 110; 120] = false.
Proof. vm_compute. repeat split. Qed.

(* ---- word operators ---- *)
(* "NoT \t\nbeTWEEN" *)
Definition not_between_text : str := [78; 111; 84; 32; 9; 10; 98; 101; 84; 87; 69; 69; 78].

Example not_between_spelled : spells_wordop wo_between true not_between_text.
Proof.
  apply (SwoNeg wo_between [78; 111; 84] [32; 9; 10] [98; 101; 84; 87; 69; 69; 78]).
  - repeat constructor; (left; reflexivity) || (right; reflexivity).
  - apply WrMore; [reflexivity|]. apply WrMore; [reflexivity|]. apply WrOne. reflexivity.
  - repeat constructor; (left; reflexivity) || (right; reflexivity).
Qed.

Example not_between_instance :
  matches (wordop_re wo_between) not_between_text = true /\ op_negated not_between_text = true /\
  norm_full ([105; 32] ++ not_between_text ++ [32; 49; 32; 65; 78; 68; 32; 50]) =
  norm_full [105; 32; 110; 111; 116; 32; 98; 101; 116; 119; 101; 101; 110; 32; 49; 32; 97; 110; 100; 32; 50].
Proof. vm_compute. repeat split; reflexivity. Qed.

(* "iN" is the plain operator; "not\tin" the negated one; "not  in" (two blanks) is NOT a token of the rule IN *)
Example in_instances :
  spells_wordop wo_in false [105; 78] /\ op_negated [105; 78] = false /\
  spells_wordop wo_in true ([110; 111; 116] ++ [9] ++ [105; 110]) /\ op_negated [110; 111; 116; 9; 105; 110] = true /\
  matches (wordop_re wo_in) [110; 111; 116; 32; 32; 105; 110] = false.
Proof.
  repeat split; try reflexivity.
  - apply SwoPlain. repeat constructor; (left; reflexivity) || (right; reflexivity).
  - apply SwoNeg; [repeat constructor; left; reflexivity|apply WrOne; reflexivity|repeat constructor; left; reflexivity].
Qed.

(* reading the token as negated only when it is literally  not<one blank>operator  loses the negation
   of a correctly spelled operator *)
Example one_blank_reading_refuted :
  spells_wordop wo_between true not_between_text /\ op_negated_one_blank (wo_letters wo_between) not_between_text = false /\
  spells_wordop wo_in true [110; 111; 116; 9; 105; 110] /\ op_negated_one_blank (wo_letters wo_in) [110; 111; 116; 9; 105; 110] = false.
Proof.
  split; [exact not_between_spelled|]. split; [reflexivity|]. split; [|reflexivity].
  apply (SwoNeg wo_in [110; 111; 116] [9] [105; 110]); [repeat constructor; left; reflexivity|apply WrOne; reflexivity|repeat constructor; left; reflexivity].
Qed.

(* "SoRt" *)
Example keyword_instance : norm_tok K_SORT [83; 111; 82; 116] = Some (K_SORT, [115; 111; 114; 116], false).
Proof. reflexivity. Qed.

(* "NoT \t\nbeTWEEN" followed by " 1": one BETWEEN token with the whole spelling, then WS and NUMBER *)
Example not_between_token :
  ends_word [32; 49] /\
  lex_full (not_between_text ++ [32; 49]) = [Tok K_BETWEEN not_between_text; Tok K_WS [32]; Tok K_NUMBER [49]].
Proof. split; [reflexivity|]. vm_compute. reflexivity. Qed.

(* ---- third strengthening: repeated atoms, many redundant parentheses, rows with nil fields ---- *)
(* x1 = a or b and c ;  x2 = (a or b) and c : the same reading once parentheses are dropped, different meaning *)
Definition x1 : expr := EOr a (EAnd b (ELast c)).
Definition x2 : expr := EAnd (XParen (EOr a (ELast b))) (ELast c).
(* a = true, everything else false *)
Definition rho_a (n : str) : bool := match n with [x] => x =? 97 | _ => false end.

Example reading_without_parens_refuted :
  strip_parens (printE x1) = strip_parens (printE x2) /\ sem x1 rho_a = true /\ sem x2 rho_a = false.
Proof. vm_compute. repeat split. Qed.

(* (a or b and c) and ((a or b) and c): both operands count - the value is not that of the left operand alone *)
Definition both : expr := EAnd (XParen x1) (ELast (XParen x2)).

Example operands_that_read_alike :
  exists t, compile fixed_prec (printE both) = Some t /\ eval t rho_a = false /\ sem both rho_a = false /\ sem x1 rho_a = true.
Proof. eexists. vm_compute. repeat split. Qed.

(* [both] is the image of a skeleton over six distinct atoms qa .. qf under the renaming q<x> -> a, b, c, a, b, c *)
Definition q (x : N) : prim := XAtom [113; x].
Definition dist6 : expr :=
  EAnd (XParen (EOr (q 97) (EAnd (q 98) (ELast (q 99)))))
       (ELast (XParen (EAnd (XParen (EOr (q 100) (ELast (q 101)))) (ELast (q 102))))).
Definition fold3 (n : str) : str := match n with [113; x] => [97 + (x - 97) mod 3] | _ => n end.

Example repeated_atoms_instance :
  renameE fold3 dist6 = both /\ spells_filter (renameE fold3 dist6) (printE both) /\
  sem dist6 (fun n => rho_a (fold3 n)) = false.
Proof. split; [reflexivity|]. split; [apply print_spells_filter|reflexivity]. Qed.

(* a and b or c  ->  ((a) and (b)) or (c) : four redundant pairs *)
Example wrap_many_instance :
  wrap_many and_or (EOr (XParen (EAnd (XParen (ELast a)) (ELast (XParen (ELast b))))) (ELast (XParen (ELast c)))).
Proof.
  eapply WmStep. { exact (WeRun [a] b (ELast c)). }
  eapply WmStep. { apply WeOrHead. apply WpIn. apply WeAndHead. apply WpHere. }
  eapply WmStep. { apply WeOrHead. apply WpIn. apply WeAndTail. apply WeLast. apply WpHere. }
  eapply WmStep. { apply WeOrTail. apply WeLast. apply WpHere. }
  apply WmNone.
Qed.

(* two rows: on row 0 the atom is false (say: an ordering comparison on a nil field), on row 1 it is true *)
Definition val01 (r : nat) (n : str) : bool := match r with O => false | _ => true end.

Example not_on_a_nil_row :
  exists t tn, compile fixed_prec (printE (ELast a)) = Some t /\
               compile fixed_prec (printE (ENot (ELast (XParen (ELast a))))) = Some tn /\
               select [0; 1]%nat (fun r => eval t (val01 r)) = [1]%nat /\
               select [0; 1]%nat (fun r => eval tn (val01 r)) = [0]%nat.
Proof. eexists. eexists. vm_compute. repeat split. Qed.

(* reading  not (x < k)  as  x >= k  is not the complement where both comparisons are false (x nil):
   atom a = "x < k", atom b = "x >= k", both false on the row *)
Example inverse_comparison_reading_refuted :
  exists tn (rho : str -> bool), compile fixed_prec (printE (ENot (ELast (XParen (ELast a))))) = Some tn /\
    semP a rho = false /\ semP b rho = false /\ eval tn rho = true /\ eval tn rho <> semP b rho.
Proof. eexists. exists (fun _ => false). vm_compute. repeat split. discriminate. Qed.

(* ---- chains in any grouping (Properties/C12.v chain_in_any_grouping, chain_regrouping_irrelevant, one_clause_decides) ----
   the three ways of writing  a or b or c ; think of a = `s = "hello"`, b = `sn = "x"`, c = `sn = "xy"` *)
Definition or3_plain : expr := EOr a (EOr b (ELast c)).
Definition or3_left : expr := EOr (XParen (EOr a (ELast b))) (ELast c).
Definition or3_right : expr := EOr a (ELast (XParen (EOr b (ELast c)))).

Example or3_groupings : or_grouping [a; b; c] or3_plain /\ or_grouping [a; b; c] or3_left /\ or_grouping [a; b; c] or3_right.
Proof.
  repeat split.
  - apply OgCons, OgCons, OgLast.
  - apply (OgGroup [a; b] _ [c]); [apply OgCons, OgLast | apply OgLast].
  - apply OgCons, OgLastGroup, OgCons, OgLast.
Qed.

Example and4_grouping : and_grouping [a; b; c; d] (EAnd (XParen (EAnd a (ELast (XParen (EAnd b (ELast c)))))) (ELast d)).
Proof. apply (AgGroup [a; b; c] _ [d]); [apply AgCons, AgLastGroup, AgCons, AgLast | apply AgLast]. Qed.

(* a row on which only the first clause holds is selected by all three spellings *)
Example one_clause_instance :
  exists t1 t2 t3, compile fixed_prec (printE or3_plain) = Some t1 /\ compile fixed_prec (printE or3_left) = Some t2 /\
                   compile fixed_prec (printE or3_right) = Some t3 /\
                   semP a rho_a = true /\ semP b rho_a = false /\ semP c rho_a = false /\
                   eval t1 rho_a = true /\ eval t2 rho_a = true /\ eval t3 rho_a = true.
Proof. do 3 eexists. vm_compute. repeat split. Qed.

(* reading the chain with its first clause answered by the symbol of its neighbours (what merging  a or (b or c)  into one
   membership test on the neighbours' symbol does: the clause on a is re-targeted, renaming a to b) is not the chain *)
Definition retarget (n : str) : str := if str_eqb n [97] then [98] else n.
Example clause_retargeting_refuted :
  sem or3_plain rho_a = true /\ sem (renameE retarget or3_plain) rho_a = false /\
  sem or3_left rho_a = sem or3_plain rho_a /\ sem or3_right rho_a = sem or3_plain rho_a.
Proof. vm_compute. repeat split. Qed.

(* ---- after seeded changes C12-w7-2 / C12-w7-3: the operands of a chain in another order ---- *)
From Coq Require Import Permutation.

(* c or (a or b)  is a grouping of the clauses [c; a; b], a permutation of [a; b; c] *)
Definition or3_rotated : expr := EOr c (ELast (XParen (EOr a (ELast b)))).
Example or3_rotated_grouping : or_grouping [c; a; b] or3_rotated /\ Permutation [a; b; c] [c; a; b].
Proof.
  split.
  - apply OgCons, OgLastGroup, OgCons, OgLast.
  - apply Permutation_sym. change [c; a; b] with ([c] ++ [a; b]). change [a; b; c] with ([a; b] ++ [c]). apply Permutation_app_comm.
Qed.

(* both orders are accepted and agree on the row where only a holds *)
Example any_order_instance :
  exists t1 t2, compile fixed_prec (printE or3_plain) = Some t1 /\ compile fixed_prec (printE or3_rotated) = Some t2 /\
                eval t1 rho_a = true /\ eval t2 rho_a = true.
Proof. do 2 eexists. vm_compute. repeat split. Qed.

(* an acceptance rule that depends on WHERE an operand stands - "a filter is valid when its marked operand (here: c) is
   the last one of its chain" - is not invariant under commuting operands: it accepts  a or b or c  and refuses
   c or (a or b), which the property (chain_in_any_order) makes the same filter *)
Fixpoint last_prim (e : expr) : option prim :=
  match e with
  | ELast p => Some p
  | ENot _ => None
  | EAnd _ e' => last_prim e'
  | EOr _ e' => last_prim e'
  end.
Definition marked_last (e : expr) : bool :=
  match last_prim e with Some (XAtom n) => str_eqb n [99] | _ => false end.
Example position_dependent_acceptance_refuted :
  marked_last or3_plain = true /\ marked_last or3_rotated = false /\ sem or3_plain rho_a = sem or3_rotated rho_a.
Proof. vm_compute. repeat split. Qed.
