(* Non-vacuity for Properties/C09Extra.v: a database whose ids and values form PREFIX CHAINS (employees e1 / e10,
   departments d / d1, names x / xy, roles admin / administrator), reached through the API, and six corruptions whose
   key or id is a proper prefix or an extension of a legitimate neighbour.  Every one is reported by check-only, all
   are repaired by one fix run, the re-check is clean and the unique / set indexes and back-reference sets are those of the
   uncorrupted state (the repair of a one-sided link is the reverse entry).
   (harness: store_c09_w5.go - universes c09ChainIds / c09ChainVals, candidate classes *-near-key / *-near-id.) *)
From Coq Require Import List NArith Bool.
From Storage Require Import Base.Bytes Store.Model Store.WfSchema Store.Integrity Store.IntegrityProofs
  Examples.C03Examples Examples.C09Examples Properties.C09 Properties.C09Extra.
Import ListNotations.
Open Scope N_scope.

Definition p_e1 : id := [101;49].
Definition p_e10 : id := [101;49;48].
Definition p_e100 : id := [101;49;48;48].          (* nobody *)
Definition p_e : id := [101].                      (* nobody *)
Definition p_d : id := [100].
Definition p_d1 : id := [100;49].
Definition p_x : str := [120].
Definition p_xy : str := [120;121].
Definition p_xyz : str := [120;121;122].
Definition p_admin : str := [97;100;109;105;110].
Definition p_administrator : str := [97;100;109;105;110;105;115;116;114;97;116;111;114].

(* e10 (name x, department d1, role administrator, site d1); e1 (name xy, boss e10, department d, role admin) *)
Definition hist_prefix : list tx :=
  [ mkTx false [] [OCreate n_dept p_d false [(n_title, Some v_t)] [(n_tagsx, [])]] false;
    mkTx false [] [OCreate n_dept p_d1 false [(n_title, Some v_u)] [(n_tagsx, [])]] false;
    mkTx false [] [OCreate n_emp p_e10 false [(n_name, Some p_x); (n_nick, None); (n_boss, None); (n_deptf, Some p_d1)]
                     [(n_roles, [p_administrator])]] false;
    mkTx false [] [OCreate n_emp p_e1 false [(n_name, Some p_xy); (n_nick, None); (n_boss, Some p_e10); (n_deptf, Some p_d)]
                     [(n_roles, [p_admin])]] false;
    mkTx false [] [OAddLinks n_emp p_e10 n_sites [p_d1]] false ].
Definition st_pre : state := run_txs idx_schema 8 st_empty hist_prefix.

Example st_pre_populated :
  uidx st_pre n_emp n_name = [(p_x, p_e10); (p_xy, p_e1)] /\
  sidx st_pre n_emp n_roles = [(p_admin, [p_e1]); (p_administrator, [p_e10])] /\
  get_set idx_schema st_pre n_dept p_d1 n_members = [p_e10] /\ get_set idx_schema st_pre n_dept p_d n_members = [p_e1] /\
  get_set idx_schema st_pre n_emp p_e10 n_reports = [p_e1] /\ get_set idx_schema st_pre n_dept p_d1 n_staff = [p_e10].
Proof. vm_compute. repeat split; reflexivity. Qed.

Example st_pre_clean : fst (check_all idx_schema false st_pre) = [].
Proof. vm_compute. reflexivity. Qed.

(* 1. set index: admin -> e10; e10 holds administrator, of which admin is a proper prefix (the entry sits next to the
      legitimate admin -> e1)
   2. set index: administrator -> e100; nobody, an extension of the legitimate holder e10
   3. unique index: xyz -> e1; e1 holds xy
   4. back-reference: e1 in the members of d1; e1's department is d, a proper prefix of d1
   5. link: e10 -> d, next to its legitimate link to d1; d has no reverse entry
   6. fk field: e1's boss becomes e (nobody; a proper prefix of e1 and of e10): dangling, and e10 keeps a
      back-reference with a non-matching key *)
Definition near : list corruption :=
  [ XSAddId n_emp n_roles p_admin p_e10; XSAddId n_emp n_roles p_administrator p_e100; XUPut n_emp n_name p_xyz p_e1;
    XSetAdd n_dept p_d1 n_members p_e1; XSetAdd n_emp p_e10 n_sites p_d; XField n_emp p_e1 n_boss p_e ].
Definition st_near : state := corrupt_all st_pre near.

Example st_near_all_reported :
  map r_kind (fst (check_all idx_schema false st_near)) =
  [KLOneSided; KUWrong; KSStale; KSMissingEntity; KBWrong; KFkDangling; KBWrong] /\
  forallb (fun x => negb (r_fixed x)) (fst (check_all idx_schema false st_near)) = true.
Proof. vm_compute. split; reflexivity. Qed.

(* each single corruption alone is reported (nothing is masked by, or attributed to, a neighbour) *)
Example st_near_each_reported :
  map (fun c => map r_kind (fst (check_all idx_schema false (corrupt_all st_pre [c])))) near =
  [[KSStale]; [KSMissingEntity]; [KUWrong]; [KBWrong]; [KLOneSided]; [KBWrong; KFkDangling]].
Proof. vm_compute. reflexivity. Qed.

Example st_near_not_consistent : ~ Consistent idx_schema st_near.
Proof. intros H. apply check_sound in H. vm_compute in H. discriminate. Qed.

Example st_near_fixed_in_one_run :
  forallb r_fixed (fst (check_all idx_schema true st_near)) = true /\
  fst (check_all idx_schema false (snd (check_all idx_schema true st_near))) = [] /\
  uidx (snd (check_all idx_schema true st_near)) n_emp n_name = uidx st_pre n_emp n_name /\
  sidx (snd (check_all idx_schema true st_near)) n_emp n_roles = sidx st_pre n_emp n_roles /\
  get_set idx_schema (snd (check_all idx_schema true st_near)) n_dept p_d1 n_members = [p_e10] /\
  get_set idx_schema (snd (check_all idx_schema true st_near)) n_emp p_e10 n_sites = [p_d; p_d1] /\
  get_set idx_schema (snd (check_all idx_schema true st_near)) n_dept p_d n_staff = [p_e10] /\
  get_set idx_schema (snd (check_all idx_schema true st_near)) n_emp p_e10 n_reports = [].
Proof. vm_compute. repeat split; reflexivity. Qed.

Example st_near_fixed_consistent : Consistent idx_schema (snd (check_all idx_schema true st_near)).
Proof. apply fix_clean_consistent. vm_compute. reflexivity. Qed.

(* the entry-by-entry theorems on the seeded scenario alone: admin -> e10 while e10 holds administrator *)
Definition st_admin : state := corrupt_all st_pre [XSAddId n_emp n_roles p_admin p_e10].

Example stale_set_entry_reported_instance : fst (check_all idx_schema false st_admin) <> [].
Proof.
  assert (J : In (JCons n_emp (CSetIdx n_roles)) (jobs idx_schema)) by (vm_compute; tauto).
  apply (stale_set_entry_reported idx_schema st_admin n_emp n_roles p_admin p_e10 J).
  - vm_compute. tauto.
  - intros [_ H]. vm_compute in H. destruct H as [H|[]]. discriminate.
Qed.

Example fix_removes_stale_set_entries_instance :
  sidx_ids (snd (check_all idx_schema true st_admin)) n_emp n_roles p_admin = [p_e1] /\
  get_set idx_schema (snd (check_all idx_schema true st_admin)) n_emp p_e10 n_roles = [p_administrator].
Proof. vm_compute. split; reflexivity. Qed.

Example stale_unique_entry_reported_instance :
  fst (check_all idx_schema false (corrupt_all st_pre [XUPut n_emp n_name p_xyz p_e1])) <> [].
Proof.
  assert (J : In (JCons n_emp (CUnique n_name false)) (jobs idx_schema)) by (vm_compute; tauto).
  apply (stale_unique_entry_reported idx_schema _ n_emp n_name false p_xyz p_e1 J).
  - vm_compute. reflexivity.
  - intros [_ H]. vm_compute in H. discriminate.
Qed.

Example extra_backref_reported_instance :
  fst (check_all idx_schema false (corrupt_all st_pre [XSetAdd n_dept p_d1 n_members p_e1])) <> [].
Proof.
  assert (J : In (JCons n_emp (CFkIndex n_deptf n_dept n_members false)) (jobs idx_schema)) by (vm_compute; tauto).
  apply (extra_backref_reported idx_schema _ n_emp n_deptf n_dept n_members false p_d1 p_e1 J).
  - vm_compute. reflexivity.
  - vm_compute. tauto.
  - intros [_ H]. vm_compute in H. discriminate.
Qed.
