(* Non-vacuity for C09: the three wirings of the harness pass [wf_c09]; a concrete populated database
   reached through the API is Consistent; nine simultaneous corruptions are all reported, repaired by one
   fix run and the re-check is clean; genuine conflicts stay reported as unfixable; and the refutation
   witnesses for the pinned (unrepaired) checker [check_all_legacy]. *)
From Coq Require Import List NArith Bool.
From Storage Require Import Base.Bytes Store.Model Store.WfSchema Store.Integrity Store.IntegrityProofs
  Examples.C03Examples Properties.C09.
Import ListNotations.
Open Scope N_scope.

Definition n_room : name := [114;111;111;109].
Definition n_label : name := [108;97;98;101;108].
Definition n_a : name := [97].
Definition n_b : name := [98].
Definition n_c : name := [99].
Definition n_bx : name := [98;120].
Definition n_bs : name := [98;115].
Definition n_cs : name := [99;115].
Definition n_cas : name := [99;97;115].
Definition n_code : name := [99;111;100;101].

(* the "fkc" and "casc" wirings of harness/cmd/storageharness/store_gen.go (idx_schema: C03Examples.v) *)
Definition fkc_schema : schema :=
  [ mkSdef n_emp None false [(n_name, false); (n_boss, true); (n_deptf, false); (n_room, true)] []
      [CUnique n_name false; CFkCons n_boss n_emp true; CFkCascade n_emp n_boss CascNone; CFkCons n_deptf n_dept false;
       CFkCons n_room n_room true] [];
    mkSdef n_dept None false [(n_title, false)] [] [CFkCascade n_emp n_deptf CascDelete] [];
    mkSdef n_room None false [(n_label, true)] [] [CFkCascade n_emp n_room CascNone; CUnique n_label true] [] ].

Definition casc_schema : schema :=
  [ mkSdef n_a None false [(n_name, false)] [n_roles]
      [CUnique n_name false; CSetIdx n_roles; CFkCascade n_b n_a CascDelete; CFkRestrict n_cas] [];
    mkSdef n_b None false [(n_name, false); (n_a, false)] [] [CFkIndex n_a n_a n_bs false; CFkCascade n_c n_b CascDelete; CSystem] [];
    mkSdef n_c None false [(n_name, true); (n_b, false); (n_a, true)] []
      [CFkIndex n_b n_b n_cs false; CFkIndex n_a n_a n_cas true; CUnique n_name true] [];
    mkSdef n_bx (Some n_b) true [(n_code, true)] [] [CUnique n_code true] [] ].

Example idx_schema_wf_c09 : wf_c09 idx_schema = true.
Proof. vm_compute. reflexivity. Qed.
Example fkc_schema_wf_c09 : wf_c09 fkc_schema = true.
Proof. vm_compute. reflexivity. Qed.
Example casc_schema_wf_c09 : wf_c09 casc_schema = true.
Proof. vm_compute. reflexivity. Qed.

(* a schema the check refuses: a unique index on a field that also carries a nullable fk constraint
   (the fk repair clears the field AFTER the unique index was repaired: one run would not converge) *)
Example wf_c09_refuses_unique_on_nullable_fk :
  wf_c09 [ mkSdef n_emp None false [(n_boss, true)] [] [CUnique n_boss true; CFkCons n_boss n_emp true] [] ] = false.
Proof. vm_compute. reflexivity. Qed.

Definition i_d : id := [100].
Definition i_e : id := [101].
Definition i_a : id := [97].
Definition i_b : id := [98].
Definition ghost : id := [103].
Definition v_x : str := [120].
Definition v_y : str := [121].
Definition v_t : str := [116].
Definition v_u : str := [117].
Definition r1 : str := [114;49].
Definition r2 : str := [114;50].
Definition zz : str := [122;122].

(* two departments, two employees (a holds the EMPTY nick, b reports to a), a linked to both departments *)
Definition hist9 : list tx :=
  [ mkTx false [] [OCreate n_dept i_d false [(n_title, Some v_t)] [(n_tagsx, [v_x])]] false;
    mkTx false [] [OCreate n_dept i_e false [(n_title, Some v_u)] [(n_tagsx, [])]] false;
    mkTx false [] [OCreate n_emp i_a false [(n_name, Some v_x); (n_nick, Some []); (n_boss, None); (n_deptf, Some i_d)] [(n_roles, [r1; r2])]] false;
    mkTx false [] [OCreate n_emp i_b false [(n_name, Some v_y); (n_nick, None); (n_boss, Some i_a); (n_deptf, Some i_d)] [(n_roles, [r1])]] false;
    mkTx false [] [OAddLinks n_emp i_a n_sites [i_d; i_e]] false ].
Definition st_ok : state := run_txs idx_schema 8 st_empty hist9.

Example st_ok_populated :
  uidx st_ok n_emp n_name = [(v_x, i_a); (v_y, i_b)] /\ sidx st_ok n_emp n_roles = [(r1, [i_a; i_b]); (r2, [i_a])] /\
  get_set idx_schema st_ok n_emp i_a n_reports = [i_b] /\ get_set idx_schema st_ok n_dept i_e n_staff = [i_a].
Proof. vm_compute. repeat split; reflexivity. Qed.

(* check_sound / check_complete: the hypothesis is satisfiable and the check is clean *)
Example st_ok_clean : fst (check_all idx_schema false st_ok) = [].
Proof. vm_compute. reflexivity. Qed.
Example st_ok_consistent : Consistent idx_schema st_ok.
Proof. apply check_complete. exact st_ok_clean. Qed.

(* nine simultaneous corruptions: unique index missing + extra entry, set index missing key + empty key,
   missing + dangling back-reference, dangling reference in a nullable fk, one-sided + dangling link *)
Definition bad : list corruption :=
  [ XUDel n_emp n_name v_x; XUPut n_emp n_name zz ghost; XSDelKey n_emp n_roles r2; XSAddKey n_emp n_roles zz;
    XSetDel n_dept i_d n_members i_b; XSetAdd n_emp i_a n_reports ghost; XField n_emp i_b n_boss ghost;
    XSetDel n_dept i_e n_staff i_a; XSetAdd n_emp i_a n_sites ghost ].
Definition st_bad : state := corrupt_all st_ok bad.

Example st_bad_all_reported :
  map r_kind (fst (check_all idx_schema false st_bad)) =
  [KLOneSided; KLDangling; KUStale; KUMissing; KSEmptyKey; KSMissing; KBWrong; KBDangling; KFkDangling; KBMissing] /\
  forallb (fun x => negb (r_fixed x)) (fst (check_all idx_schema false st_bad)) = true.
Proof. vm_compute. split; reflexivity. Qed.

Example st_bad_not_consistent : ~ Consistent idx_schema st_bad.
Proof. intros H. apply check_sound in H. vm_compute in H. discriminate. Qed.

Example st_bad_fixed_in_one_run :
  forallb r_fixed (fst (check_all idx_schema true st_bad)) = true /\
  fst (check_all idx_schema false (snd (check_all idx_schema true st_bad))) = [] /\
  uidx (snd (check_all idx_schema true st_bad)) n_emp n_name = uidx st_ok n_emp n_name /\
  sidx (snd (check_all idx_schema true st_bad)) n_emp n_roles = sidx st_ok n_emp n_roles.
Proof. vm_compute. repeat split; reflexivity. Qed.

Example st_bad_fixed_consistent : Consistent idx_schema (snd (check_all idx_schema true st_bad)).
Proof. apply fix_clean_consistent. vm_compute. reflexivity. Qed.

(* genuine conflicts: a duplicate unique value, nil in a non-nullable fk, dangling reference in a non-nullable fk *)
Definition st_conf : state :=
  corrupt_all st_ok [XField n_emp i_b n_name v_x; XFieldNil n_emp i_a n_deptf; XField n_emp i_b n_deptf ghost].

Example st_conf_left_unfixable :
  fst (check_all idx_schema false (snd (check_all idx_schema true st_conf))) =
  [mkReport KUConflict false; mkReport KNil false; mkReport KFkDangling false].
Proof. vm_compute. reflexivity. Qed.

(* whole-bucket states.  The department e never had a member: its back-reference set does not even exist in the
   state the API leaves (bbolt: the bucket is created lazily by the first referrer).  b's dept is re-pointed to e
   below the API; the back-reference set "reports" and the link set "sites" of a, the whole set index emp.roles and
   the whole unique index emp.name are gone, the key bucket x of dept.tagsx is emptied.  [state] does not distinguish
   an absent from an empty bucket, so check_complete / fix_convergent speak about both; the harness reaches both
   (store_c09.go: FS to a target without referrers, EDB / EEB, SEK, XDB / XEB). *)
Definition whole : list corruption :=
  [ XField n_emp i_b n_deptf i_e; XSetClear n_emp i_a n_reports; XSetClear n_emp i_a n_sites;
    XSClearIdx n_emp n_roles; XUClearIdx n_emp n_name; XSClearKey n_dept n_tagsx v_x ].
Definition st_whole : state := corrupt_all st_ok whole.

Example st_ok_target_without_backref_set :
  match get_ent st_ok n_dept i_e with Some e => al_get n_members (e_s e) = None | None => False end.
Proof. vm_compute. reflexivity. Qed.

Example st_whole_all_reported :
  map r_kind (fst (check_all idx_schema false st_whole)) =
  [KUMissing; KUMissing; KSMissing; KSMissing; KSMissing; KBMissing; KBWrong; KBMissing; KLOneSided; KLOneSided;
   KSEmptyKey; KSMissing] /\
  forallb (fun x => negb (r_fixed x)) (fst (check_all idx_schema false st_whole)) = true.
Proof. vm_compute. split; reflexivity. Qed.

Example st_whole_not_consistent : ~ Consistent idx_schema st_whole.
Proof. intros H. apply check_sound in H. vm_compute in H. discriminate. Qed.

Example st_whole_fixed_in_one_run :
  forallb r_fixed (fst (check_all idx_schema true st_whole)) = true /\
  fst (check_all idx_schema false (snd (check_all idx_schema true st_whole))) = [] /\
  uidx (snd (check_all idx_schema true st_whole)) n_emp n_name = uidx st_ok n_emp n_name /\
  sidx (snd (check_all idx_schema true st_whole)) n_emp n_roles = sidx st_ok n_emp n_roles /\
  get_set idx_schema (snd (check_all idx_schema true st_whole)) n_dept i_e n_members = [i_b] /\
  get_set idx_schema (snd (check_all idx_schema true st_whole)) n_dept i_d n_members = [i_a] /\
  get_set idx_schema (snd (check_all idx_schema true st_whole)) n_emp i_a n_reports = [i_b].
Proof. vm_compute. repeat split; reflexivity. Qed.

Example st_whole_fixed_consistent : Consistent idx_schema (snd (check_all idx_schema true st_whole)).
Proof. apply fix_clean_consistent. vm_compute. reflexivity. Qed.

(* the entry-by-entry forms on st_whole: b references the department e, whose back-reference set does not exist;
   a links to d and e but its own link set is gone (seen from the departments: staff without reverse entry) *)
Example missing_backref_reported_instance :
  In (JCons n_emp (CFkIndex n_deptf n_dept n_members false)) (jobs idx_schema) /\
  present idx_schema st_whole n_emp i_b = true /\
  fv_bytes (get_field idx_schema st_whole n_emp i_b n_deptf) = i_e /\
  present idx_schema st_whole n_dept i_e = true /\
  get_set idx_schema st_whole n_dept i_e n_members = [] /\
  fst (check_all idx_schema false st_whole) <> [].
Proof.
  assert (J : In (JCons n_emp (CFkIndex n_deptf n_dept n_members false)) (jobs idx_schema)) by (vm_compute; tauto).
  split; [exact J|]. repeat (split; [vm_compute; reflexivity|]).
  apply (missing_backref_reported idx_schema st_whole n_emp n_deptf n_dept n_members false i_b J);
    [vm_compute; reflexivity | vm_compute; reflexivity | vm_compute; tauto].
Qed.

Example missing_reverse_link_reported_instance :
  In (JLink n_dept (n_staff, n_emp, n_sites)) (jobs idx_schema) /\
  In i_a (get_set idx_schema st_whole n_dept i_e n_staff) /\ get_set idx_schema st_whole n_emp i_a n_sites = [] /\
  fst (check_all idx_schema false st_whole) <> [].
Proof.
  assert (J : In (JLink n_dept (n_staff, n_emp, n_sites)) (jobs idx_schema)) by (vm_compute; tauto).
  split; [exact J|]. split; [vm_compute; tauto|]. split; [vm_compute; reflexivity|].
  apply (missing_reverse_link_reported idx_schema st_whole n_dept n_staff n_emp n_sites i_e i_a J);
    [vm_compute; reflexivity | vm_compute; tauto | vm_compute; tauto].
Qed.

Example missing_set_entry_reported_instance :
  In (JCons n_emp (CSetIdx n_roles)) (jobs idx_schema) /\
  In r2 (get_set idx_schema st_whole n_emp i_a n_roles) /\ sidx_ids st_whole n_emp n_roles r2 = [] /\
  fst (check_all idx_schema false st_whole) <> [].
Proof.
  assert (J : In (JCons n_emp (CSetIdx n_roles)) (jobs idx_schema)) by (vm_compute; tauto).
  split; [exact J|]. split; [vm_compute; tauto|]. split; [vm_compute; reflexivity|].
  apply (missing_set_entry_reported idx_schema st_whole n_emp n_roles i_a r2 J);
    [vm_compute; reflexivity | vm_compute; tauto | vm_compute; tauto].
Qed.

Example fix_restores_backrefs_instance :
  In i_b (get_set idx_schema (snd (check_all idx_schema true st_whole)) n_dept i_e n_members).
Proof.
  assert (J : In (JCons n_emp (CFkIndex n_deptf n_dept n_members false)) (jobs idx_schema)) by (vm_compute; tauto).
  pose proof (fix_restores_backrefs idx_schema st_whole n_emp n_deptf n_dept n_members false i_b idx_schema_wf_c09 J) as H.
  cbv zeta in H.
  assert (E : fv_bytes (get_field idx_schema (snd (check_all idx_schema true st_whole)) n_emp i_b n_deptf) = i_e) by (vm_compute; reflexivity).
  rewrite E in H. apply H; vm_compute; reflexivity.
Qed.

Example fix_restores_reverse_links_instance :
  In i_e (get_set idx_schema (snd (check_all idx_schema true st_whole)) n_emp i_a n_sites).
Proof.
  assert (J : In (JLink n_dept (n_staff, n_emp, n_sites)) (jobs idx_schema)) by (vm_compute; tauto).
  apply (fix_restores_reverse_links idx_schema st_whole n_dept n_staff n_emp n_sites i_e i_a idx_schema_wf_c09 J);
    [vm_compute; reflexivity | vm_compute; tauto].
Qed.

(* ---- the pinned tree (before fixes/C09-*.patch) ---- *)
(* (c) a consistent database reached through the API is reported: the empty nick of a "is missing" *)
Example check_sound_legacy_refuted :
  exists sch st, Consistent sch st /\ fst (check_all_legacy sch false st) = [mkReport KUMissing false].
Proof. exists idx_schema, st_ok. split; [exact st_ok_consistent | vm_compute; reflexivity]. Qed.

(* (c) ... and a fix run never makes it go away *)
Example fix_convergent_legacy_refuted :
  exists sch st, wf_c09 sch = true /\
    fst (check_all_legacy sch false (snd (check_all_legacy sch true st))) = [mkReport KUMissing false] /\
    unfixable KUMissing = false.
Proof. exists idx_schema, st_ok. split; [exact idx_schema_wf_c09|]. vm_compute. split; reflexivity. Qed.

(* (a) check-only mode creates the missing set-index key bucket *)
Definition st_miss : state := corrupt_all st_ok [XSDelKey n_emp n_roles r2].
Example check_readonly_legacy_refuted :
  exists sch st, snd (check_all_legacy sch false st) <> st.
Proof.
  exists idx_schema, st_miss. intros H.
  assert (E : sidx (snd (check_all_legacy idx_schema false st_miss)) n_emp n_roles = sidx st_miss n_emp n_roles) by (rewrite H; reflexivity).
  vm_compute in E. discriminate.
Qed.
Example check_readonly_repaired_on_witness :
  sidx (snd (check_all idx_schema false st_miss)) n_emp n_roles = [(r1, [i_a; i_b])] /\
  fst (check_all idx_schema false st_miss) = [mkReport KSMissing false].
Proof. vm_compute. split; reflexivity. Qed.

(* ---- the hypothesis wf_c09 of fix_convergent is needed (and the real code behaves like the model here:
        corpus/store/c09_order.txt) ---- *)
Definition ufk_schema : schema :=
  [ mkSdef n_emp None false [(n_name, false); (n_boss, true)] []
      [CUnique n_name false; CUnique n_boss true; CFkCons n_boss n_emp true; CFkCascade n_emp n_boss CascNone] [] ].

Definition st_ufk : state :=
  corrupt_all (run_txs ufk_schema 8 st_empty
                 [ mkTx false [] [OCreate n_emp i_a false [(n_name, Some v_x); (n_boss, None)] []] false;
                   mkTx false [] [OCreate n_emp i_b false [(n_name, Some v_y); (n_boss, Some i_a)] []] false ])
              [XField n_emp i_b n_boss ghost; XUDel n_emp n_boss i_a; XUPut n_emp n_boss ghost i_b].

(* b references the missing entity "g" (unique index consistent with that): the fk repair clears the field
   after the unique index was checked, so the re-check finds a repairable stale index entry *)
Example fix_not_convergent_without_wf :
  wf_c09 ufk_schema = false /\
  fst (check_all ufk_schema false st_ufk) = [mkReport KFkDangling false] /\
  fst (check_all ufk_schema true st_ufk) = [mkReport KFkDangling true] /\
  fst (check_all ufk_schema false (snd (check_all ufk_schema true st_ufk))) = [mkReport KUWrong false] /\
  unfixable KUWrong = false.
Proof. vm_compute. repeat split; reflexivity. Qed.
