(* Non-vacuity examples for Properties/C14.v and refutation witnesses for the pinned (pre-repair)
   code: typed cursors built on GetTypeAndValue, TypedReverseBoltCursor.Seek keeping the tag on an
   exact hit, NewTreeCursor on an empty tree, treeCursor.Next on an exhausted cursor. *)
From Coq Require Import List NArith Bool Arith Sorting.Sorted.
From Storage Require Import Base.Bytes Cursor.StrOrder Cursor.Core Cursor.BoltCursor Cursor.Typed
  Cursor.Filtered Cursor.Union Cursor.Tree Cursor.SetSym Cursor.Cases Cursor.Reuse.
Import ListNotations.
Open Scope nat_scope.

Definition e_empty : str := [].
Definition e_a : str := [97%N].
Definition e_ab : str := [97%N; 98%N].
Definition e_b : str := [98%N].
Definition e_ff : str := [255%N].
Definition tstring : byte := 5%N.

(* the set { "", a, ab, b, 0xff } *)
Definition sample : list str := [e_empty; e_a; e_ab; e_b; e_ff].

Example sample_sorted : sorted_asc sample.
Proof. repeat constructor. Qed.

(* forward typed cursor: Next, Next, Seek "aa" (absent -> ab), Seek "" (present), Seek 0xff 0xff (after last) *)
Example typed_forward_sample :
  typed_run true tstring sample [CNext; CNext; CSeek [97%N; 97%N]; CSeek []; CSeek [255%N; 255%N]; CNext]
  = [OCur e_empty; OCur e_a; OCur e_ab; OCur e_ab; OCur e_empty; OInvalid; OInvalid].
Proof. vm_compute. reflexivity. Qed.

(* reverse typed cursor: exact hit comes back untagged; Seek "aa" lands on "a"; Seek "" on "" *)
Example typed_reverse_sample :
  typed_run false tstring sample [CSeek e_ab; CNext; CSeek [97%N; 97%N]; CSeek []; CNext; CNext]
  = [OCur e_ff; OCur e_ab; OCur e_a; OCur e_a; OCur e_empty; OInvalid; OInvalid].
Proof. vm_compute. reflexivity. Qed.

Example spec_agrees_on_sample :
  spec_ops false sample [CSeek e_ab; CNext; CSeek [97%N; 97%N]; CSeek []; CNext; CNext]
  = [OCur e_ff; OCur e_ab; OCur e_a; OCur e_a; OCur e_empty; OInvalid; OInvalid].
Proof. vm_compute. reflexivity. Qed.

(* filtered, union, tree set, empty tree *)
Example filtered_sample :
  filtered_typed_run true tstring 7 sample [e_empty; e_b] 3 = [OCur e_empty; OCur e_b; OInvalid; OInvalid].
Proof. vm_compute. reflexivity. Qed.

Example union_sample :
  union_typed_run false tstring [e_empty; e_ab] [e_ab; e_ff] 4
  = [OCur e_ff; OCur e_ab; OCur e_empty; OInvalid; OInvalid].
Proof. vm_compute. reflexivity. Qed.

Example treeset_sample :
  treeset_run true [e_b; e_empty; e_ff; e_a; e_b] 5
  = [OCur e_empty; OCur e_a; OCur e_b; OCur e_ff; OInvalid; OInvalid].
Proof. vm_compute. reflexivity. Qed.

Example empty_tree_sample : tree_run Leaf 2 = [OInvalid; OInvalid; OInvalid].
Proof. vm_compute. reflexivity. Qed.

(* a tree that is not balanced at all (a right spine with a left child) is a search tree and is walked in order *)
Definition spine : tree :=
  Node Leaf (Some e_empty) (Node (Node Leaf (Some e_a) Leaf) (Some e_ab) (Node Leaf (Some e_b) Leaf)).
Example spine_is_bst : is_bst true spine.
Proof. simpl. repeat split; intros y H; simpl in H; intuition; subst; reflexivity. Qed.
Example spine_walk : tree_run spine 4 = [OCur e_empty; OCur e_a; OCur e_ab; OCur e_b; OInvalid].
Proof. vm_compute. reflexivity. Qed.

(* AnyOf with several values and no match: an empty tree set, not a panic *)
Example anyof_no_match :
  anyof_run tstring [(e_a, [e_b])] [e_ab; e_ff] true 1 = [OInvalid; OInvalid].
Proof. vm_compute. reflexivity. Qed.

Example allof_sample :
  allof_run tstring 5 [(e_a, [e_a; e_b; e_ff]); (e_b, [e_b; e_ff])] [(e_a, [e_a]); (e_b, [e_a; e_b]); (e_ff, [e_b; e_a])]
            [e_a; e_b] false 3
  = [OCur e_ff; OCur e_b; OInvalid; OInvalid].
Proof. vm_compute. reflexivity. Qed.

(* ---- the pinned code does not satisfy the theorems ------------------------------------------------------- *)

(* (1) a set containing "" enumerates as EMPTY through the pinned typed forward cursor ... *)
Example typed_forward_legacy_refuted :
  exists l, sorted_asc l /\ typed_run_legacy true tstring l [CNext] <> spec_ops true l [CNext].
Proof. exists [e_empty; e_a]. split; [repeat constructor | vm_compute; discriminate]. Qed.

Example typed_forward_legacy_loses_everything :
  typed_run_legacy true tstring [e_empty; e_a] [CNext; CNext] = [OInvalid; OCur e_a; OInvalid].
Proof. vm_compute. reflexivity. Qed.

(* ... and the reverse one loses "" *)
Example typed_reverse_legacy_refuted :
  exists l, sorted_asc l /\ typed_run_legacy false tstring l [CNext] <> spec_ops false l [CNext].
Proof. exists [e_empty; e_a]. split; [repeat constructor | vm_compute; discriminate]. Qed.

(* (2) the pinned reverse Seek returns the stored key, tag included, on an exact hit *)
Example typed_reverse_seek_legacy_refuted :
  typed_run_legacy false tstring [e_a] [CSeek e_a] = [OCur e_a; OCur (tstring :: e_a)].
Proof. vm_compute. reflexivity. Qed.

(* (3) the pinned NewTreeCursor panics on an empty tree (IteratorMatchingAnyOf without a match) *)
Example tree_cursor_legacy_refuted : tree_run_legacy Leaf 1 = [OPanic; OPanic].
Proof. vm_compute. reflexivity. Qed.

Example anyof_legacy_refuted :
  anyof_run_legacy tstring [(e_a, [e_b])] [e_ab; e_ff] true 1 = [OPanic; OPanic].
Proof. vm_compute. reflexivity. Qed.

(* (4) the pinned treeCursor.Next panics on an exhausted cursor *)
Example tree_next_legacy_refuted :
  treeset_run_legacy true [e_a] 2 = [OCur e_a; OInvalid; OPanic].
Proof. vm_compute. reflexivity. Qed.

(* ---- re-opened runtime set symbol (Cursor/Reuse.v) ---------------------------------------------------- *)

(* one symbol: row {a, b} left after one Next, then a row without bucket, then row {ab} sought past the end,
   then a row with an empty bucket, then {a} again *)
Example reuse_sample :
  setsym_reuse_run tstring [(Some [e_a; e_b], [CNext]); (None, [CNext; CSeek e_a]);
                            (Some [e_ab], [CSeek e_b]); (Some [], [CNext]); (Some [e_a], [])]
  = [[OCur e_a; OCur e_b]; [OInvalid; OInvalid; OInvalid]; [OCur e_ab; OInvalid]; [OInvalid; OInvalid]; [OCur e_a]].
Proof. vm_compute. reflexivity. Qed.

(* OpenCursor without its else branch (value not reset when the row has no bucket): the cursor of the
   second row shows the first row's element and never exhausts *)
Example reopen_noreset_refuted :
  setsym_reuse_run_noreset tstring [(Some [e_a; e_b], []); (None, [CNext; CNext])]
  = [[OCur e_a]; [OCur e_a; OCur e_a; OCur e_a]]
  /\ exists keys prev, ss_reopen_noreset keys false prev <> ss_open keys false.
Proof.
  split; [vm_compute; reflexivity|].
  exists [], (mkSs true 0 (Some e_a)). vm_compute. discriminate.
Qed.

(* scans: ids x1 < x2 < x3, x1 has {a, b}, x2 has no bucket, x3 has {b} *)
Definition scan_rows : list srow := [([120%N; 49%N], Some [e_a; e_b]); ([120%N; 50%N], None); ([120%N; 51%N], Some [e_b])].

Example scan_rows_ok : rows_ok 4 scan_rows.
Proof.
  intros id b H. simpl in H. repeat (destruct H as [H|H]; [inversion H; subst; split; [repeat constructor | simpl; auto with arith]|]).
  contradiction.
Qed.

Example scan_sample :
  scan_run tstring 4 (FNot (FP PIsEmpty)) scan_rows = Ok [[120%N; 49%N]; [120%N; 51%N]] /\
  scan_run tstring 4 (FP PIsEmpty) scan_rows = Ok [[120%N; 50%N]] /\
  scan_run tstring 4 (FP (PAnyEq e_a)) scan_rows = Ok [[120%N; 49%N]] /\
  scan_run tstring 4 (FP (PAnyNeq e_b)) scan_rows = Ok [[120%N; 49%N]] /\
  scan_run tstring 4 (FP (PAllEq e_b)) scan_rows = Ok [[120%N; 50%N]; [120%N; 51%N]] /\
  scan_run tstring 4 (FOr (FP (PCountEq 9)) (FNot (FP PIsEmpty))) scan_rows = Ok [[120%N; 49%N]; [120%N; 51%N]] /\
  scan_run tstring 4 (FP (PCountEq 0)) scan_rows = Ok [[120%N; 50%N]].
Proof. vm_compute. repeat split; reflexivity. Qed.

(* without the reset: "not isEmpty" and "anyOf = a" return the row without a bucket, and
   "count(f) = 9 or not isEmpty(f)" never ends (the count loop of row x2 starts on x1's element, Next is a no-op) *)
Example scan_noreset_refuted :
  scan_run_noreset tstring 4 (FNot (FP PIsEmpty)) scan_rows = Ok [[120%N; 49%N]; [120%N; 50%N]; [120%N; 51%N]] /\
  scan_run_noreset tstring 4 (FP (PAnyEq e_a)) scan_rows = Ok [[120%N; 49%N]; [120%N; 50%N]] /\
  scan_run_noreset tstring 50 (FOr (FP (PCountEq 9)) (FNot (FP PIsEmpty))) scan_rows = OutOfFuel.
Proof. vm_compute. repeat split; reflexivity. Qed.
