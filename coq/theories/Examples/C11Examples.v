(* Non-vacuity examples and the refutation witness for the pinned (pre-fix) code of C11. *)
From Coq Require Import List NArith Bool.
From Storage Require Import Base.Bytes Lang.Unescape.
Import ListNotations.
Open Scope N_scope.

(*  a backslash n b dquote TAB e-acute(0xc3 0xa9)  *)
Definition sample : str := [97; 92; 110; 98; 34; 9; 195; 169].

Example sample_expressible : expressible_full sample = true.
Proof. vm_compute. reflexivity. Qed.

Example sample_roundtrip : parse_zql_string (literal_full sample) = sample.
Proof. vm_compute. reflexivity. Qed.

Example sample_min_expressible : expressible_min [97; 92; 110; 34] = true.
Proof. vm_compute. reflexivity. Qed.

(* The seven-pass code of the pinned commit does not satisfy the round trip:
   the value  a \ n b  (backslash, letter n) is read back as  a LF b . *)
Example literal_roundtrip_legacy_refuted :
  exists s, expressible_min s = true /\ parse_zql_string_legacy (literal_min s) <> s.
Proof. exists [97; 92; 110; 98]. split; [reflexivity | vm_compute; discriminate]. Qed.

(* ---- comparisons against stored values (Lang/StrCompare.v) ---- *)
From Storage Require Import Lang.Tokens Lang.BoolSurface Lang.WordOps Lang.StrCompare.

Definition tok_in : str := [105; 110].                       (* in *)
Definition tok_not_in : str := [78; 111; 84; 9; 73; 110].    (* NoT<TAB>In *)
Definition notebook : str := [78; 111; 116; 101; 98; 111; 111; 107].   (* Notebook *)
Definition not_in_x : str := [110; 111; 116; 32; 105; 110; 32; 91; 34; 120; 34; 93].   (* not in ["x"] *)

Example tok_in_spelled : spells_wordop wo_in false tok_in.
Proof. apply SwoPlain. repeat constructor. Qed.

Example tok_not_in_spelled : spells_wordop wo_in true tok_not_in.
Proof.
  apply (SwoNeg wo_in [78; 111; 84] [9] [73; 110]).
  - repeat (constructor; [(left; reflexivity) || (right; reflexivity)|]). constructor.
  - constructor. reflexivity.
  - repeat (constructor; [(left; reflexivity) || (right; reflexivity)|]). constructor.
Qed.

(* a list literal that spells `not` selects exactly the row holding it; a literal that spells a whole
   `not in [..]` clause does too *)
Example in_list_keyword_literals :
  in_query tok_in (map literal_full [sample; notebook; not_in_x]) (Some notebook) = true /\
  in_query tok_in (map literal_full [sample; notebook; not_in_x]) (Some [110; 111; 116]) = false /\
  in_query tok_not_in (map literal_full [notebook]) (Some notebook) = false /\
  in_query tok_not_in (map literal_full [notebook]) (Some not_in_x) = true.
Proof. vm_compute. repeat split. Qed.

(* the stored empty string is matched by the empty literal, a row without value is not *)
Example empty_string_is_a_value :
  cmp_query SEq (literal_full []) (Some []) = true /\ cmp_query SEq (literal_full []) None = false /\
  cmp_query SNeq (literal_full []) (Some []) = false /\ cmp_query SContains (literal_full []) (Some []) = true /\
  in_query tok_in [literal_full []] (Some []) = true /\ any_of_eq_seek (literal_full []) [[]; [97]] = true.
Proof. vm_compute. repeat split. Qed.

Example seek_hits_and_misses :
  ascending [[]; [97]; [97; 98]; [110; 111; 116]] = true /\
  any_of_eq_seek (literal_full [97; 98]) [[]; [97]; [97; 98]; [110; 111; 116]] = true /\
  any_of_eq_seek (literal_full [97; 97]) [[]; [97]; [97; 98]; [110; 111; 116]] = false.
Proof. vm_compute. repeat split. Qed.

(* Two readings that are NOT the code's and do not satisfy the property.
   (1) deciding the negation of `in` from the text of the whole in-expression instead of the operator token:
       a list literal that contains the letters n-o-t flips the operator *)
Definition in_query_expr_text (lhs tok : str) (lits : list str) (c : stored) : bool :=
  let r := in_string_array_eval (row_eval_string c) (map parse_zql_string lits) in
  if op_negated (lhs ++ tok ++ [91] ++ concat lits ++ [93]) then negb r else r.

Example in_negation_from_expression_text_refuted :
  exists s x, in_query_expr_text [110; 97; 109; 101] tok_in [literal_full s] (Some x) <> str_eqb x s.
Proof. exists notebook, notebook. vm_compute. discriminate. Qed.

(* (2) treating a zero-length stored value as "no value": the empty literal then denotes nothing *)
Definition row_eval_string_empty_is_nil (c : stored) : option str :=
  match get_typed c with (_, []) => None | (t, v) => field_to_string t v end.

Example empty_value_as_nil_refuted :
  exists s x, binary_string_eval SEq (row_eval_string_empty_is_nil (Some x)) (Some (parse_zql_string (literal_full s)))
              <> str_eqb x s.
Proof. exists [], []. vm_compute. discriminate. Qed.

(* ---- filters with several comparisons (Lang/StrFilter.v) ---- *)
From Storage Require Import Lang.StrFilter.

Definition lit_a : str := literal_full [97].                                   (* "a" *)
Definition tok_icontains : str := [105; 99; 111; 110; 116; 97; 105; 110; 115]. (* icontains *)
Definition row_named (n : str) : row := mkRow (Some n) None [n] [n].

(*  name = "a" and name icontains "a"  selects the row named a and not the row named A;
    not isEmpty(from peers where name = "a") or anyOf(tags) icontains "a"  selects both *)
Definition f_eq_and_icontains : filter atom :=
  FAnd (FAtom (LField FName) (ACmp SEq lit_a)) (FAtom (LField FName) (AIContains tok_icontains lit_a)).
Definition f_sub_or_set : filter atom :=
  FOr (FSub SubNotEmpty (FAtom (LField FName) (ACmp SEq lit_a))) (FAtom LAnyTags (AIContains tok_icontains lit_a)).

Example repeated_literal_filters :
  filter_query f_eq_and_icontains (row_named [97]) = true /\
  filter_query f_eq_and_icontains (row_named [65]) = false /\
  filter_query f_sub_or_set (row_named [97]) = true /\
  filter_query f_sub_or_set (row_named [65]) = true /\
  filter_query f_sub_or_set (row_named [98]) = false /\
  f_eq_and_icontains = fmap (write_atom literal_full) (FAnd (FAtom (LField FName) (VCmp SEq [97]))
                                                            (FAtom (LField FName) (VIContains false [97]))).
Proof. vm_compute. repeat split. Qed.

(* A reading that is NOT the code's and does not satisfy the property: the listener keeps one constant node per
   literal token text and the typing of icontains upper-cases its operand node in place.  The literal of the
   equality then denotes A: the filter is no longer the conjunction of its comparisons *)
Example shared_constants_refuted :
  exists f r, filter_query_shared_consts f r <> eval_filter atom_pred atom_target f r.
Proof. exists f_eq_and_icontains, (row_named [97]). vm_compute. discriminate. Qed.

(* ... while with differently spelled literals that reading is indistinguishable from the code's *)
Example shared_constants_needs_a_repeated_literal :
  filter_query_shared_consts
    (FAnd (FAtom (LField FName) (ACmp SEq lit_a)) (FAtom (LField FName) (AIContains tok_icontains (literal_full [65]))))
    (row_named [97]) = true.
Proof. vm_compute. reflexivity. Qed.

(* the nodes of an in-list are shared in the same way under that reading *)
Example shared_constants_in_list_refuted :
  filter_query_shared_consts
    (FAnd (FAtom (LField FName) (AIn tok_in [literal_full [98]; lit_a])) (FAtom (LField FDescr) (AIContains tok_icontains lit_a)))
    (mkRow (Some [97]) (Some [97]) [] []) = false /\
  filter_query
    (FAnd (FAtom (LField FName) (AIn tok_in [literal_full [98]; lit_a])) (FAtom (LField FDescr) (AIContains tok_icontains lit_a)))
    (mkRow (Some [97]) (Some [97]) [] []) = true.
Proof. vm_compute. split; reflexivity. Qed.

(* ---- in-lists by length and order ---- *)
(* a reading that is NOT the code's: the constants of the list (in listener order = reverse of the source order) are
   extracted once, SORTED when there are more than [tsort] of them, and SEARCHED as an ascending sequence (the search gives
   up at the first constant above the value) when there are at least [tsearch] of them.  With tsort = tsearch it is the
   membership test; with tsort = tsearch = 8 as `>` and `>=` a list of exactly 8 literals is searched unsorted *)
Fixpoint c11_insert (x : str) (l : list str) : list str :=
  match l with
  | [] => [x]
  | y :: r => if str_leb x y then x :: l else y :: c11_insert x r
  end.
Definition c11_sort (l : list str) : list str := fold_right c11_insert [] l.
Fixpoint c11_search_ascending (x : str) (l : list str) : bool :=
  match l with
  | [] => false
  | y :: r => match str_cmp x y with Eq => true | Lt => false | Gt => c11_search_ascending x r end
  end.
Definition in_list_presorted (tsort tsearch : nat) (vals : list str) (x : str) : bool :=
  let consts := rev (map parse_zql_string (map literal_full vals)) in
  let consts := if Nat.ltb tsort (length consts) then c11_sort consts else consts in
  if Nat.leb tsearch (length consts) then c11_search_ascending x consts else existsb (str_eqb x) consts.

Definition c11_letters (n : nat) : list str := map (fun k => [97 + N.of_nat k]) (seq 0 n).   (* "a"; "b"; ... *)

(* non-vacuity: lists of 1..20 single letters written ascending, descending (rev) - every literal selects its value, a
   value that is not in the list is not selected *)
Example in_lists_of_all_lengths :
  forallb (fun n => forallb (fun l => forallb (fun x => in_query tok_in (map literal_full l) (Some x)) l
                                      && negb (in_query tok_in (map literal_full l) (Some [122])))
                            [c11_letters n; rev (c11_letters n)])
          (seq 1 20) = true.
Proof. vm_compute. reflexivity. Qed.

(* the disagreeing thresholds: refuted by the 8 letters a..h written in ascending order (none of them is found), while
   with 7 or 9 letters - and with every list of up to 4 literals, all that streams Q / M wrote before - the reading
   cannot be told from the code *)
Example in_list_presorted_refuted :
  exists vals x, in_list_presorted 8 8 vals x <> in_query tok_in (map literal_full vals) (Some x).
Proof. exists (c11_letters 8), [97]. vm_compute. discriminate. Qed.

Example in_list_presorted_needs_exactly_eight :
  forallb (fun n => forallb (fun l => forallb (fun x => Bool.eqb (in_list_presorted 8 8 l x) (in_query tok_in (map literal_full l) (Some x)))
                                               ([122] :: l))
                            [c11_letters n; rev (c11_letters n)])
          [1; 2; 3; 4; 5; 6; 7; 9; 10; 16; 17]%nat = true.
Proof. vm_compute. reflexivity. Qed.

(* ---- ninth wave: literals whose text has a reading in another notation ---- *)

(* non-vacuity: the literals of 007, +7, 7 and of %20, a blank denote exactly their own text, alone and in a list made of
   digit strings only *)
Definition c11_007 : str := [48; 48; 55].
Definition c11_plus7 : str := [43; 55].
Definition c11_7 : str := [55].
Definition c11_pct20 : str := [37; 50; 48].

Example other_notation_literals :
  in_query tok_in [literal_full c11_007] (Some c11_007) = true /\
  in_query tok_in [literal_full c11_007] (Some c11_7) = false /\
  in_query tok_in (map literal_full [c11_007; c11_plus7]) (Some c11_7) = false /\
  in_query tok_not_in (map literal_full [c11_007; c11_plus7]) (Some c11_7) = true /\
  cmp_query SEq (literal_full c11_pct20) (Some c11_pct20) = true /\
  cmp_query SEq (literal_full c11_pct20) (Some [32]) = false /\
  cmp_query SNeq (literal_full c11_pct20) (Some [32]) = true /\
  contains_query [99; 111; 110; 116; 97; 105; 110; 115] (literal_full c11_pct20) (Some [97; 32; 98]) = false.
Proof. vm_compute. repeat split. Qed.

(* a reading that is NOT the code's: a list whose literals all look like integers (optional sign, digits) is taken for a
   number list and its values are rendered back in canonical form (no plus sign, no leading zeros, -0 = 0) *)
Definition c11_digit (c : N) : bool := (48 <=? c) && (c <=? 57).
Fixpoint c11_strip_zeros (s : str) : str :=
  match s with
  | 48 :: (_ :: _) as r => c11_strip_zeros r
  | _ => s
  end.
Definition c11_intlike (s : str) : bool :=
  match s with
  | 43 :: (_ :: _) as r | 45 :: (_ :: _) as r => forallb c11_digit r
  | _ :: _ => forallb c11_digit s
  | [] => false
  end.
Definition c11_canonical_int (s : str) : str :=
  match s with
  | 43 :: r => c11_strip_zeros r
  | 45 :: r => match c11_strip_zeros r with [48] => [48] | r' => 45 :: r' end
  | _ => c11_strip_zeros s
  end.
Definition in_list_quoted_ints_folded (vals : list str) (x : str) : bool :=
  let consts := map parse_zql_string (map literal_full vals) in
  if forallb c11_intlike consts then existsb (str_eqb x) (map c11_canonical_int consts) else existsb (str_eqb x) consts.

Example quoted_ints_folded_refuted :
  exists vals x, in_list_quoted_ints_folded vals x <> in_query tok_in (map literal_full vals) (Some x).
Proof. exists [c11_007], c11_007. vm_compute. discriminate. Qed.

(* ... which lists of canonical integers, and lists with one literal that is no integer, cannot tell from the code: why the
   earlier streams (values 0, -1, letters, keywords) could not see it *)
Example quoted_ints_folded_needs_a_non_canonical_literal :
  forallb (fun l => forallb (fun x => Bool.eqb (in_list_quoted_ints_folded l x) (in_query tok_in (map literal_full l) (Some x)))
                            ([c11_7; c11_007; c11_plus7; [48]; [45; 49]; [97]] ++ l))
          [[c11_7]; [[48]]; [[45; 49]]; [c11_7; [56; 48]]; [c11_007; [97]]; [c11_plus7; c11_007; [55; 120]]; [[49; 46; 48]]] = true.
Proof. vm_compute. reflexivity. Qed.
