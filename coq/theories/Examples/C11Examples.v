(* Non-vacuity examples and the refutation witness for the pinned (pre-fix) code of C11. *)
From Coq Require Import List NArith Bool.
From Storage Require Import Base.Bytes Lang.Unescape.
Import ListNotations.
Open Scope N_scope.

(*  a backslash n b dquote TAB e-acute(0xc3 0xa9)  *)
Definition sample : str := [97; 92; 110; 98; 34; 9; 195; 169].

Example sample_expressible : expressible_full sample = true.
Proof. vm_compute. reflexivity. Qed.

Example sample_roundtrip : parse_zql_string (literal_full sample) = sample.
Proof. vm_compute. reflexivity. Qed.

Example sample_min_expressible : expressible_min [97; 92; 110; 34] = true.
Proof. vm_compute. reflexivity. Qed.

(* The seven-pass code of the pinned commit does not satisfy the round trip:
   the value  a \ n b  (backslash, letter n) is read back as  a LF b . *)
Example literal_roundtrip_legacy_refuted :
  exists s, expressible_min s = true /\ parse_zql_string_legacy (literal_min s) <> s.
Proof. exists [97; 92; 110; 98]. split; [reflexivity | vm_compute; discriminate]. Qed.

(* ---- comparisons against stored values (Lang/StrCompare.v) ---- *)
From Storage Require Import Lang.Tokens Lang.BoolSurface Lang.WordOps Lang.StrCompare.

Definition tok_in : str := [105; 110].                       (* in *)
Definition tok_not_in : str := [78; 111; 84; 9; 73; 110].    (* NoT<TAB>In *)
Definition notebook : str := [78; 111; 116; 101; 98; 111; 111; 107].   (* Notebook *)
Definition not_in_x : str := [110; 111; 116; 32; 105; 110; 32; 91; 34; 120; 34; 93].   (* not in ["x"] *)

Example tok_in_spelled : spells_wordop wo_in false tok_in.
Proof. apply SwoPlain. repeat constructor. Qed.

Example tok_not_in_spelled : spells_wordop wo_in true tok_not_in.
Proof.
  apply (SwoNeg wo_in [78; 111; 84] [9] [73; 110]).
  - repeat (constructor; [(left; reflexivity) || (right; reflexivity)|]). constructor.
  - constructor. reflexivity.
  - repeat (constructor; [(left; reflexivity) || (right; reflexivity)|]). constructor.
Qed.

(* a list literal that spells `not` selects exactly the row holding it; a literal that spells a whole
   `not in [..]` clause does too *)
Example in_list_keyword_literals :
  in_query tok_in (map literal_full [sample; notebook; not_in_x]) (Some notebook) = true /\
  in_query tok_in (map literal_full [sample; notebook; not_in_x]) (Some [110; 111; 116]) = false /\
  in_query tok_not_in (map literal_full [notebook]) (Some notebook) = false /\
  in_query tok_not_in (map literal_full [notebook]) (Some not_in_x) = true.
Proof. vm_compute. repeat split. Qed.

(* the stored empty string is matched by the empty literal, a row without value is not *)
Example empty_string_is_a_value :
  cmp_query SEq (literal_full []) (Some []) = true /\ cmp_query SEq (literal_full []) None = false /\
  cmp_query SNeq (literal_full []) (Some []) = false /\ cmp_query SContains (literal_full []) (Some []) = true /\
  in_query tok_in [literal_full []] (Some []) = true /\ any_of_eq_seek (literal_full []) [[]; [97]] = true.
Proof. vm_compute. repeat split. Qed.

Example seek_hits_and_misses :
  ascending [[]; [97]; [97; 98]; [110; 111; 116]] = true /\
  any_of_eq_seek (literal_full [97; 98]) [[]; [97]; [97; 98]; [110; 111; 116]] = true /\
  any_of_eq_seek (literal_full [97; 97]) [[]; [97]; [97; 98]; [110; 111; 116]] = false.
Proof. vm_compute. repeat split. Qed.

(* Two readings that are NOT the code's and do not satisfy the property.
   (1) deciding the negation of `in` from the text of the whole in-expression instead of the operator token:
       a list literal that contains the letters n-o-t flips the operator *)
Definition in_query_expr_text (lhs tok : str) (lits : list str) (c : stored) : bool :=
  let r := in_string_array_eval (row_eval_string c) (map parse_zql_string lits) in
  if op_negated (lhs ++ tok ++ [91] ++ concat lits ++ [93]) then negb r else r.

Example in_negation_from_expression_text_refuted :
  exists s x, in_query_expr_text [110; 97; 109; 101] tok_in [literal_full s] (Some x) <> str_eqb x s.
Proof. exists notebook, notebook. vm_compute. discriminate. Qed.

(* (2) treating a zero-length stored value as "no value": the empty literal then denotes nothing *)
Definition row_eval_string_empty_is_nil (c : stored) : option str :=
  match get_typed c with (_, []) => None | (t, v) => field_to_string t v end.

Example empty_value_as_nil_refuted :
  exists s x, binary_string_eval SEq (row_eval_string_empty_is_nil (Some x)) (Some (parse_zql_string (literal_full s)))
              <> str_eqb x s.
Proof. exists [], []. vm_compute. discriminate. Qed.
