(* Non-vacuity examples and the refutation witness for the pinned (pre-fix) code of C11. *)
From Coq Require Import List NArith Bool.
From Storage Require Import Base.Bytes Lang.Unescape.
Import ListNotations.
Open Scope N_scope.

(*  a backslash n b dquote TAB e-acute(0xc3 0xa9)  *)
Definition sample : str := [97; 92; 110; 98; 34; 9; 195; 169].

Example sample_expressible : expressible_full sample = true.
Proof. vm_compute. reflexivity. Qed.

Example sample_roundtrip : parse_zql_string (literal_full sample) = sample.
Proof. vm_compute. reflexivity. Qed.

Example sample_min_expressible : expressible_min [97; 92; 110; 34] = true.
Proof. vm_compute. reflexivity. Qed.

(* The seven-pass code of the pinned commit does not satisfy the round trip:
   the value  a \ n b  (backslash, letter n) is read back as  a LF b . *)
Example literal_roundtrip_legacy_refuted :
  exists s, expressible_min s = true /\ parse_zql_string_legacy (literal_min s) <> s.
Proof. exists [97; 92; 110; 98]. split; [reflexivity | vm_compute; discriminate]. Qed.
