(* C02 - non-vacuity examples for the theorems of Properties/C02.v and refutation witnesses for
   the scanners of the pinned tree (..._legacy).  Everything here is evaluated by vm_compute. *)
From Coq Require Import List ZArith NArith Bool Sorted Permutation.
From Storage Require Import Base.Bytes Query.Compare Query.CompareProofs Query.Paging Query.PagingProofs
  Query.ScanUnique Query.ScanUniqueProofs Query.ScanSort Query.ScanSortProofs.
Import ListNotations.
Open Scope Z_scope.

(* a small people table: cells = [name : string ; age : int64 ; score : float64 ; ok : bool ; at : datetime] *)
Definition s (l : list Z) : str := map Z.to_N l.
Definition mk (id : Z) (name : cell) (age : cell) (score : cell) (ok : cell) (at_ : cell) : row :=
  {| r_id := s [id]; r_cells := [name; age; score; ok; at_] |}.
Definition f_1_5 : N := 4609434218613702656.        (* 1.5 *)
Definition f_m2 : N := 13835058055282163712.        (* -2.0 *)
Definition f_m0 : N := 9223372036854775808.         (* -0.0 *)
Definition f_nan : N := 9221120237041090560.        (* NaN *)

Definition ex_rows : list row := [
  mk 97  (CStr (s [98; 111]))  (CInt 30)   (CFloat f_1_5) (CBool true)  (CTime 100 5);
  mk 98  CNull                 (CInt (-4)) (CFloat f_m2)  CNull         (CTime 100 4);
  mk 99  (CStr (s [97]))       CNull       CNull          (CBool false) CNull;
  mk 100 (CStr (s [98; 111]))  (CInt 30)   (CFloat 0)     (CBool true)  (CTime (-7) 0);
  mk 101 (CStr (s []))         (CInt 7)    (CFloat f_m0)  (CBool false) (CTime 100 5)
].

Definition by_name (asc : bool) : sort_field := {| sf_col := Col 0 TStr; sf_asc := asc |}.
Definition by_age (asc : bool) : sort_field := {| sf_col := Col 1 TInt; sf_asc := asc |}.
Definition by_score (asc : bool) : sort_field := {| sf_col := Col 2 TFloat; sf_asc := asc |}.
Definition by_ok (asc : bool) : sort_field := {| sf_col := Col 3 TBool; sf_asc := asc |}.
Definition by_at (asc : bool) : sort_field := {| sf_col := Col 4 TTime; sf_asc := asc |}.
Definition by_id (asc : bool) : sort_field := {| sf_col := ColId; sf_asc := asc |}.
Definition all_rows (_ : row) : bool := true.
Definition has_age (r : row) : bool := match nth 1 (r_cells r) CNull with CInt _ => true | _ => false end.
Definition pg (sk lim : option Z) : paging := {| pg_skip := sk; pg_limit := lim |}.

(* ---- the hypotheses of the theorems are satisfiable ------------------------------------------ *)
Example ex_rows_id_sorted : id_sorted ex_rows.
Proof. unfold ex_rows, id_sorted. repeat (constructor; try (vm_compute; reflexivity)). Qed.

Example ex_rows_ok : rows_ok ex_rows.
Proof. unfold ex_rows, rows_ok. repeat (constructor; try (vm_compute; reflexivity)). Qed.

Example ex_rows_len : Z.of_nat (length ex_rows) <= max_int64.
Proof. vm_compute. discriminate. Qed.

Example ex_paging_wf : wf_paging (pg (Some (-5)) limit_none).
Proof. constructor; intros x E; inversion E; subst; vm_compute; split; discriminate. Qed.

(* ---- concrete answers (ids are single bytes: a=97 ... e=101) ------------------------------------ *)
(* name ascending: null first, then "", "a", "bo"(a), "bo"(d) - the tie is broken by id *)
Example ex_sort_name :
  query_ids all_rows [by_name true] (pg None None) ex_rows = (map s [[98]; [101]; [99]; [97]; [100]], 5).
Proof. vm_compute. reflexivity. Qed.

(* name descending: nulls last, ties still by id ascending *)
Example ex_sort_name_desc :
  query_ids all_rows [by_name false] (pg None None) ex_rows = (map s [[97]; [100]; [99]; [101]; [98]], 5).
Proof. vm_compute. reflexivity. Qed.

(* skip without limit on a sorted query: everything after the first row *)
Example ex_sort_skip_no_limit :
  query_ids all_rows [by_name true] (pg (Some 1) None) ex_rows = (map s [[101]; [99]; [97]; [100]], 5).
Proof. vm_compute. reflexivity. Qed.

(* negative skip = no skip *)
Example ex_negative_skip :
  query_ids all_rows [by_age true] (pg (Some (-2)) (Some 3)) ex_rows = (map s [[99]; [98]; [101]], 5).
Proof. vm_compute. reflexivity. Qed.

(* ok descending (true, false, null), then score ascending (null first); five keys, mixed directions *)
Example ex_sort_five_keys :
  query_ids all_rows [by_ok false; by_score true; by_at false; by_age true; by_name true] (pg None limit_none) ex_rows
  = (map s [[100]; [97]; [99]; [101]; [98]], 5).
Proof. vm_compute. reflexivity. Qed.

(* -0.0 and 0.0 tie and fall through to the id; -2 < 0 < 1.5; null first *)
Example ex_sort_score :
  query_ids all_rows [by_score true] (pg None None) ex_rows = (map s [[99]; [98]; [100]; [101]; [97]], 5).
Proof. vm_compute. reflexivity. Qed.

(* count does not depend on the page; limit 0 returns nothing *)
Example ex_limit_zero :
  query_ids has_age [by_at true] (pg (Some 2) (Some 0)) ex_rows = ([], 4).
Proof. vm_compute. reflexivity. Qed.

(* id descending uses the reverse cursor; overflowing skip + limit *)
Example ex_id_desc_huge :
  query_ids all_rows [by_id false] (pg (Some 1) (Some max_int64)) ex_rows = (map s [[100]; [99]; [98]; [97]], 5)
  /\ scan_sorting all_rows [by_id false] (pg (Some 1) (Some max_int64)) ex_rows = (map s [[100]; [99]; [98]; [97]], 5)
  /\ query_ids all_rows [by_name true] (pg (Some (2^62)) (Some (2^62))) ex_rows = ([], 5).
Proof. vm_compute. repeat split; reflexivity. Qed.

Example ex_iterate :
  iterate_ids has_age (pg (Some 1) (Some 2)) ex_rows = map s [[98]; [100]].
Proof. vm_compute. reflexivity. Qed.

Example ex_spec_agrees :
  query_spec [by_name true] (pg (Some 1) None) all_rows ex_rows = (map s [[101]; [99]; [97]; [100]], 5).
Proof. vm_compute. reflexivity. Qed.

(* ---- the pinned tree violates the property: witnesses ------------------------------------------ *)
(* `true sort by name skip 1` (no limit): maxResults = 1 + MaxInt64 wraps negative, every
   insertion is followed by DeleteMax, nothing is returned *)
Example sorting_skip_overflow_refuted :
  query_ids_legacy all_rows [by_name true] (pg (Some 1) None) ex_rows = ([], 5) /\
  query_ids_legacy all_rows [by_name true] (pg (Some 1) None) ex_rows
    <> query_spec [by_name true] (pg (Some 1) None) all_rows ex_rows.
Proof. vm_compute. split; [reflexivity | discriminate]. Qed.

(* `sort by age skip -2 limit 3`: the tree is pruned to -2 + 3 = 1 row *)
Example negative_skip_refuted :
  query_ids_legacy all_rows [by_age true] (pg (Some (-2)) (Some 3)) ex_rows = (map s [[99]], 5) /\
  query_ids_legacy all_rows [by_age true] (pg (Some (-2)) (Some 3)) ex_rows
    <> query_spec [by_age true] (pg (Some (-2)) (Some 3)) all_rows ex_rows.
Proof. vm_compute. split; [reflexivity | discriminate]. Qed.

(* the id-ordered scanner of the pinned tree was already exact on these inputs *)
Example legacy_unique_scanner_fine :
  query_ids_legacy all_rows [] (pg (Some (-2)) (Some 3)) ex_rows = query_spec [] (pg (Some (-2)) (Some 3)) all_rows ex_rows
  /\ query_ids_legacy all_rows [] (pg (Some 1) None) ex_rows = query_spec [] (pg (Some 1) None) all_rows ex_rows.
Proof. vm_compute. split; reflexivity. Qed.

(* ---- paging parameters at the numeric extremes -------------------------------------------------- *)
(* skip 3 with an explicit finite limit of MaxInt64 - 1: skip + limit exceeds MaxInt64, the bound of
   the result tree must not wrap; the answer is that of `skip 3 limit none`, for the sorting scanner,
   both id cursors and the paged iteration *)
Example ex_skip_near_max_limit :
  query_ids all_rows [by_name true] (pg (Some 3) (Some (max_int64 - 1))) ex_rows = (map s [[97]; [100]], 5)
  /\ query_ids all_rows [by_name true] (pg (Some 3) limit_none) ex_rows = (map s [[97]; [100]], 5)
  /\ query_ids all_rows [by_id false] (pg (Some 3) (Some (max_int64 - 1))) ex_rows = (map s [[98]; [97]], 5)
  /\ query_ids all_rows [] (pg (Some 3) (Some (max_int64 - 3))) ex_rows = (map s [[100]; [101]], 5)
  /\ iterate_ids all_rows (pg (Some 3) (Some (max_int64 - 1))) ex_rows = map s [[100]; [101]].
Proof. vm_compute. repeat split; reflexivity. Qed.

(* skip + limit = MaxInt64 exactly (no overflow) and = 2^63 (the first overflowing sum) *)
Example ex_sum_at_the_overflow_boundary :
  query_ids has_age [by_age false] (pg (Some 2) (Some (max_int64 - 2))) ex_rows = (map s [[101]; [98]], 4)
  /\ query_ids has_age [by_age false] (pg (Some 2) (Some (max_int64 - 1))) ex_rows = (map s [[101]; [98]], 4).
Proof. vm_compute. repeat split; reflexivity. Qed.

(* skip near MaxInt64 / beyond the count: no ids, the count is unaffected; minimal values *)
Example ex_skip_extremes :
  query_ids all_rows [by_score true] (pg (Some (max_int64 - 1)) (Some (max_int64 - 1))) ex_rows = ([], 5)
  /\ query_ids all_rows [by_score true] (pg (Some max_int64) (Some 1)) ex_rows = ([], 5)
  /\ query_ids all_rows [by_score true] (pg (Some 5) limit_none) ex_rows = ([], 5)
  /\ query_ids all_rows [by_score true] (pg (Some min_int64) (Some min_int64)) ex_rows
       = (map s [[99]; [98]; [100]; [101]; [97]], 5)
  /\ iterate_ids all_rows (pg (Some (max_int64 - 1)) (Some 2)) ex_rows = [].
Proof. vm_compute. repeat split; reflexivity. Qed.

(* the hypotheses of huge_limit_is_unbounded are satisfiable with skip + limit > MaxInt64 *)
Example ex_huge_limit_hyps :
  wf_paging (pg (Some 3) (Some (max_int64 - 1))) /\
  Z.of_nat (length (filter all_rows ex_rows)) <= max_int64 - 1 /\ 3 + (max_int64 - 1) > max_int64.
Proof.
  split; [constructor; intros x E; inversion E; subst; vm_compute; split; discriminate|].
  vm_compute. split; [discriminate | reflexivity].
Qed.

(* the unguarded bound of the pinned tree also fails for a FINITE limit once skip + limit wraps:
   `sort by name skip 3 limit 9223372036854775806` keeps nothing *)
Example sorting_skip_finite_limit_overflow_refuted :
  query_ids_legacy all_rows [by_name true] (pg (Some 3) (Some (max_int64 - 1))) ex_rows = ([], 5) /\
  query_ids_legacy all_rows [by_name true] (pg (Some 3) (Some (max_int64 - 1))) ex_rows
    <> query_spec [by_name true] (pg (Some 3) (Some (max_int64 - 1))) all_rows ex_rows.
Proof. vm_compute. split; [reflexivity | discriminate]. Qed.

(* ---- why NaN keys are excluded ----------------------------------------------------------------- *)
(* a NaN compares "equal" to every float, so the comparison is no preorder:
   -2.0 = NaN, NaN = 1.5 but -2.0 < 1.5 *)
Example nan_breaks_the_order :
  let r x := {| r_id := s [x]; r_cells := [CFloat (match x with 1 => f_m2 | 2 => f_nan | _ => f_1_5 end)] |} in
  let f := {| sf_col := Col 0 TFloat; sf_asc := true |} in
  field_cmp f (r 1) (r 2) = Eq /\ field_cmp f (r 2) (r 3) = Eq /\ field_cmp f (r 1) (r 3) = Lt
  /\ row_no_nan (r 2) = false.
Proof. vm_compute. repeat split; reflexivity. Qed.
