(* C18 - non-vacuity examples and the counter-example for the code before the fix. *)
From Coq Require Import List String Bool Arith NArith ZArith.
From Storage Require Import Base.Bytes Db.Mvcc Db.MvccProofs Db.MvccFailProofs Db.Workload Db.Access Db.AccessProofs.
Import ListNotations.

Arguments EBegin {query wtx}.
Arguments ERead {query wtx}.
Arguments EEnd {query wtx}.
Arguments ECommit {query wtx}.

Definition it (id name : N) (g : option N) (v : Z) (tags : list N) : item :=
  {| i_id := [id]; i_name := [name]; i_group := option_map (fun x => [x]) g; i_val := v; i_tags := map (fun x => [x]) tags |}.

(* two readers and a writer: reader 0 begins before the first commit and keeps seeing version 0
   while reader 1, begun after it, sees version 1; a rolled back transaction adds no version *)
Definition ex_events : list (event query wtx) :=
  [ EBegin 0%nat;
    ECommit (true, [WPut (it 1 10 (Some 7%N) 5 [3%N]); WPut (it 2 11 None 2 []); WLink [1%N] [7%N]]);
    EBegin 1%nat; ERead 0%nat QCount; ERead 1%nat QCount;
    ECommit (false, [WDelete [1%N]]);
    ECommit (true, [WPatch [2%N] 9 [[3%N]]; WDelete [1%N]]);
    ERead 0%nat (QTag [3%N]); ERead 1%nat (QTag [3%N]); ERead 1%nat (QLinks [1%N]);
    EEnd 0%nat; EBegin 0%nat; ERead 0%nat (QTag [3%N]); ERead 0%nat (QF3 100) ].

Definition ex_sys := run wstate query answer eval_query wtx apply_wtx (init wstate query answer empty_state 2) ex_events.

Example ex_isolation :
  List.length (versions _ _ _ ex_sys) = 3%nat
  /\ map (fun o => (o_tx _ _ o, o_ver _ _ o, o_a _ _ o)) (r_obs _ _ (nth 0 (readers _ _ _ ex_sys) (fresh_reader _ _)))
     = [ (2, 2, AIds [[2%N]]); (2, 2, AIds [[2%N]]); (1, 0, AIds []); (1, 0, ACount 0) ]%nat
  /\ map (fun o => (o_tx _ _ o, o_ver _ _ o, o_a _ _ o)) (r_obs _ _ (nth 1 (readers _ _ _ ex_sys) (fresh_reader _ _)))
     = [ (1, 1, AIds [[7%N]]); (1, 1, AIds [[1%N]]); (1, 1, ACount 2) ]%nat.
Proof. vm_compute. repeat split; reflexivity. Qed.

Example ex_serial_answer :
  serial_answer (commits query wtx ex_events) 2 (QF3 100) = Some (AIds [[2%N]])
  /\ serial_answer (commits query wtx ex_events) 1 (QF1 [7%N] 5) = Some (AIds [[1%N]])
  /\ serial_answer (commits query wtx ex_events) 3 QCount = None.
Proof. vm_compute. repeat split; reflexivity. Qed.

Open Scope string_scope.

(* the access table of the code before the fix: both classifiers write a package-level variable *)
Definition legacy_table : list helper :=
  [ {| h_name := "boltz.IsReferenceExistsError";
       h_acc := [ {| a_loc := "boltz.testErrorReferenceExists"; a_kind := AWrite; a_sync := false; a_via := "boltz.IsReferenceExistsError" |} ] |};
    {| h_name := "zitiql.Parse";
       h_acc := [ {| a_loc := "zitiql.parserPool"; a_kind := ARead; a_sync := true; a_via := "zitiql.parse" |} ] |} ].

Example helpers_no_conflicting_access_refuted :
  no_conflict legacy_table = false
  /\ conflicts legacy_table = [("boltz.IsReferenceExistsError", "boltz.IsReferenceExistsError", "boltz.testErrorReferenceExists")].
Proof. vm_compute. split; reflexivity. Qed.

(* the two shapes of a shared mutable object behind a variable (seeded/C18-1, C18-2), as the
   translator reports them: ast.Parse handing out one package-level query object whose paging the
   callers set; GetSymbol storing cursor-carrying symbols in a store-wide synchronised cache *)
Definition handed_out_table : list helper :=
  [ {| h_name := "ast.Parse";
       h_acc := [ {| a_loc := "*ast.matchAllQuery"; a_kind := AWrite; a_sync := false;
                     a_via := "ast.Parse hands out the object; mutable through ast.queryNode.SetLimit" |};
                  {| a_loc := "ast.matchAllQuery"; a_kind := ARead; a_sync := false; a_via := "ast.Parse" |} ] |} ].

Definition published_value_table : list helper :=
  [ {| h_name := "boltz.BaseStore.GetSymbol";
       h_acc := [ {| a_loc := "boltz.BaseStore.compositeSymbols"; a_kind := AWrite; a_sync := true; a_via := "boltz.BaseStore.GetSymbol" |};
                  {| a_loc := "boltz.BaseStore.compositeSymbols"; a_kind := ARead; a_sync := true; a_via := "boltz.BaseStore.GetSymbol" |};
                  {| a_loc := "boltz.BaseStore.compositeSymbols[*]"; a_kind := AWrite; a_sync := false;
                     a_via := "boltz.BaseStore.GetSymbol publishes a value mutable through boltz.compositeEntitySetSymbol.OpenCursor" |} ] |};
    {| h_name := "boltz.BaseStore.IsPublicSymbol";
       h_acc := [ {| a_loc := "boltz.BaseStore.publicSymbols"; a_kind := ARead; a_sync := false; a_via := "boltz.BaseStore.IsPublicSymbol" |} ] |} ].

Example shared_object_tables_refuted :
  conflicts handed_out_table = [("ast.Parse", "ast.Parse", "*ast.matchAllQuery")]
  /\ conflicts published_value_table
     = [("boltz.BaseStore.GetSymbol", "boltz.BaseStore.GetSymbol", "boltz.BaseStore.compositeSymbols[*]")]
  /\ no_conflict handed_out_table = false /\ no_conflict published_value_table = false.
Proof. vm_compute. repeat split; reflexivity. Qed.

(* a synchronised cache of values without mutating methods is accepted: only the container is written *)
Example ex_immutable_cache_ok :
  no_conflict
    [ {| h_name := "boltz.BaseStore.GetSymbol";
         h_acc := [ {| a_loc := "boltz.BaseStore.cache"; a_kind := AWrite; a_sync := true; a_via := "boltz.BaseStore.GetSymbol" |};
                    {| a_loc := "boltz.BaseStore.cache"; a_kind := ARead; a_sync := true; a_via := "boltz.BaseStore.GetSymbol" |} ] |} ] = true.
Proof. vm_compute. reflexivity. Qed.

(* the serial answers of the listing / dotted-symbol queries of the harness on a small state *)
Example ex_new_queries :
  let st := {| w_items := [it 1 10 (Some 103%N) 5 [3%N]; it 2 11 (Some 103%N) 2 []; it 3 12 None 7 [4%N]];
               w_links := [([1%N], [103%N]); ([3%N], [103%N]); ([3%N], [104%N])] |} in
  eval_query (QList 1 1) st = AIds [[2%N]]
  /\ eval_query (QList (-1) 2) st = AIds [[1%N]; [2%N]]
  /\ eval_query QAll st = AIds [[1%N]; [2%N]; [3%N]]
  /\ eval_query (QF5 [103%N]) st = AIds [[1%N]; [3%N]]
  /\ eval_query (QF6 [3%N]) st = AIds [[1%N]; [2%N]]
  /\ eval_query (QF7 [11%N]) st = AIds [[1%N]; [3%N]]
  /\ eval_query (QF8 [1%N]) st = AIds [[1%N]; [3%N]]
  /\ eval_query (QSubCount [103%N] 1) st = AIds [[3%N]]
  /\ eval_query (QPage 3 1 (-1)) st = AIds [[1%N]].
Proof. vm_compute. repeat split; reflexivity. Qed.

(* reads only, synchronised writes: no conflict *)
Example ex_reads_only_ok :
  no_conflict
    [ {| h_name := "a"; h_acc := [ {| a_loc := "v"; a_kind := ARead; a_sync := false; a_via := "a" |};
                                   {| a_loc := "once"; a_kind := AWrite; a_sync := true; a_via := "init" |} ] |};
      {| h_name := "b"; h_acc := [ {| a_loc := "v"; a_kind := ARead; a_sync := false; a_via := "b" |};
                                   {| a_loc := "once"; a_kind := ARead; a_sync := false; a_via := "b" |} ] |} ] = true.
Proof. vm_compute. reflexivity. Qed.

(* the external-symbol and index-read queries (second strengthening) on a small state: ids ending in an
   odd byte are "odd"; label = null | c0 | c1 | c2 from the last byte mod 5; group 103 ("g") is odd *)
Example ex_external_symbol_queries :
  let st := {| w_items := [it 48 10 (Some 103%N) 5 [3%N]; it 49 11 (Some 104%N) 2 []; it 51 12 None 7 [4%N; 3%N]];
               w_links := [([48%N], [103%N]); ([51%N], [104%N])] |} in
  eval_query (QExtBool true) st = AIds [[49%N]; [51%N]]
  /\ eval_query (QExtBool false) st = AIds [[48%N]]
  /\ eval_query (QExtStr [99%N; 50%N]) st = AIds []
  /\ eval_query (QExtStr [99%N; 48%N]) st = AIds [[48%N]]
  /\ eval_query (QExtStr [99%N; 49%N]) st = AIds [[51%N]]
  /\ eval_query (QExtBoolSort 0) st = AIds [[49%N]; [51%N]; [48%N]]
  /\ eval_query (QExtStrSort 100) st = AIds [[49%N]; [48%N]; [51%N]]
  /\ eval_query QExtGroup st = AIds [[48%N]]
  /\ eval_query QExtWatch st = AIds [[48%N]]
  /\ eval_query (QTagCursor [3%N] false) st = AIds [[51%N]; [48%N]]
  /\ eval_query (QTagKeys true) st = AIds [[3%N]; [4%N]]
  /\ eval_query (QLinked [51%N] [104%N]) st = AIds [[104%N]]
  /\ eval_query (QLinked [51%N] [103%N]) st = AIds []
  /\ eval_placed (3%nat, QExtBool false) st = eval_query (QExtBool false) st.
Proof. vm_compute. repeat split; reflexivity. Qed.

(* the two shapes of a write on a read path into an object registered once on a store (seeded/C18-w2-2,
   C18-w2-3), as the translator reports them: the literal stored in ExternalSymbol.impl writing a buffer
   of the constructor that created it; an index lookup appending the key to the index's own path slice *)
Definition captured_buffer_table : list helper :=
  [ {| h_name := "boltz.BaseStore.QueryIds";
       h_acc := [ {| a_loc := "boltz.NewBoolFuncSymbol$buf"; a_kind := AWrite; a_sync := false;
                     a_via := "boltz.NewBoolFuncSymbol$lit1 assigns to buf, a variable of the function that created the literal" |};
                  {| a_loc := "boltz.NewBoolFuncSymbol$f"; a_kind := ARead; a_sync := false; a_via := "boltz.NewBoolFuncSymbol$lit1" |} ] |} ].

Definition spare_capacity_table : list helper :=
  [ {| h_name := "boltz.setIndex.Read";
       h_acc := [ {| a_loc := "boltz.setIndex.indexPath[spare capacity]"; a_kind := AWrite; a_sync := false;
                     a_via := "boltz.setIndex.getValuesBucket appends to the shared slice index.indexPath without copying it" |} ] |};
    {| h_name := "boltz.setIndex.ReadKeys";
       h_acc := [] |} ].

Example registered_object_tables_refuted :
  conflicts captured_buffer_table = [("boltz.BaseStore.QueryIds", "boltz.BaseStore.QueryIds", "boltz.NewBoolFuncSymbol$buf")]
  /\ conflicts spare_capacity_table = [("boltz.setIndex.Read", "boltz.setIndex.Read", "boltz.setIndex.indexPath[spare capacity]")]
  /\ no_conflict captured_buffer_table = false /\ no_conflict spare_capacity_table = false.
Proof. vm_compute. repeat split; reflexivity. Qed.

(* a stored literal that only reads what it captured (the external function it wraps) is accepted *)
Example ex_captured_read_only_ok :
  no_conflict
    [ {| h_name := "boltz.BaseStore.QueryIds";
         h_acc := [ {| a_loc := "boltz.NewBoolFuncSymbol$f"; a_kind := ARead; a_sync := false; a_via := "boltz.NewBoolFuncSymbol$lit1" |} ] |} ] = true.
Proof. vm_compute. reflexivity. Qed.

(* failed_transaction_leaves_no_trace on the workload: the transaction in the middle of ex_events that does
   not commit (flag false - in the harness: a transaction that fails after its writes) satisfies the
   hypothesis where it stands, and the system reached with it is the system reached without it; the
   committed history has the same three versions *)
Definition ex_failed : wtx := (false, [WPut (it 9 10 None 1 []); WDelete [1%N]]).
Definition ex_before : list (event query wtx) :=
  [ EBegin 0%nat; ECommit (true, [WPut (it 1 10 (Some 7%N) 5 [3%N]); WPut (it 2 11 None 2 [])]); EBegin 1%nat; ERead 1%nat QCount ].
Definition ex_after : list (event query wtx) :=
  [ ERead 0%nat QCount; ERead 1%nat (QName [10%N]); ECommit (true, [WDelete [2%N]]); EEnd 1%nat; EBegin 1%nat; ERead 1%nat QAll ].

Example ex_failed_transaction_leaves_no_trace :
  fails_at wstate query answer wtx apply_wtx
    (run wstate query answer eval_query wtx apply_wtx (init wstate query answer empty_state 2) ex_before) ex_failed
  /\ run wstate query answer eval_query wtx apply_wtx (init wstate query answer empty_state 2) (ex_before ++ ECommit ex_failed :: ex_after)
     = run wstate query answer eval_query wtx apply_wtx (init wstate query answer empty_state 2) (ex_before ++ ex_after)
  /\ List.length (versions _ _ _ (run wstate query answer eval_query wtx apply_wtx (init wstate query answer empty_state 2)
                                   (ex_before ++ ECommit ex_failed :: ex_after))) = 3%nat
  /\ serial_versions wstate wtx apply_wtx empty_state (commits query wtx (ex_before ++ ECommit ex_failed :: ex_after))
     = serial_versions wstate wtx apply_wtx empty_state (commits query wtx (ex_before ++ ex_after)).
Proof.
  split; [intros st _; reflexivity|]. split; [|split].
  - apply failed_transaction_leaves_no_trace_lemma. intros st _. reflexivity.
  - vm_compute. reflexivity.
  - vm_compute. reflexivity.
Qed.
