(* C18, third strengthening: non-vacuity examples and refuted witnesses for Properties/C18Locks.v,
   C18Views.v and kept_observations_persist (vm_compute over concrete instances only). *)
From Coq Require Import List String Bool Arith.
From Storage Require Import Db.RwLock Db.LockTable Db.LockTableProofs Db.MemView Db.Mvcc Db.MvccKeepProofs.
Import ListNotations.
Open Scope string_scope.

(* the lock table of the pinned source and the one of seeded/C18-w3-1 (RLock hoisted out of the
   `if ctx.Tx() == nil` branch of Update and Batch), as the translator reports them *)
Definition pinned_lock_table : list lockfn :=
  [ {| lf_name := "boltz.DbImpl.Batch"; lf_in_tx := [] |};
    {| lf_name := "boltz.DbImpl.RootBucket"; lf_in_tx := [] |};
    {| lf_name := "boltz.DbImpl.SnapshotInTx"; lf_in_tx := [] |};
    {| lf_name := "boltz.DbImpl.Update"; lf_in_tx := [] |} ].

Definition hoisted_rlock_table : list lockfn :=
  [ {| lf_name := "boltz.DbImpl.Batch"; lf_in_tx := ["boltz.DbImpl.Batch: self.reloadLock.RLock()"] |};
    {| lf_name := "boltz.DbImpl.RootBucket"; lf_in_tx := [] |};
    {| lf_name := "boltz.DbImpl.Update"; lf_in_tx := ["boltz.DbImpl.Update: self.reloadLock.RLock()"] |} ].

Example ex_pinned_lock_table_ok : reentrant_free pinned_lock_table = true /\ offenders pinned_lock_table = [].
Proof. vm_compute. split; reflexivity. Qed.

(* a writer of three joined calls, a second writer, two restores: an instance of the hypothesis of
   reentrant_free_no_deadlock, with a schedule that runs everything to the end *)
Example ex_joined_writers_finish :
  let upd := {| lf_name := "boltz.DbImpl.Update"; lf_in_tx := [] |} in
  let bat := {| lf_name := "boltz.DbImpl.Batch"; lf_in_tx := [] |} in
  let ths := (map tx_thread [[upd; bat; upd]; [bat]] ++ repeat (Restorer RIdle) 2)%list in
  (forall b f, In b [[upd; bat; upd]; [bat]] -> In f b -> In f pinned_lock_table)
  /\ forallb finished (RwLock.threads (RwLock.run (RwLock.init true ths)
       [0;0;0; 2; 0;0; 1; 0;0; 2;2;2;2;2; 1;1;1;1;1; 3;3;3;3;3;3])) = true.
Proof.
  split; [|vm_compute; reflexivity].
  intros b f Hb Hf. simpl in Hb. destruct Hb as [<-|[<-|[]]]; simpl in Hf;
    repeat (destruct Hf as [<-|Hf]; [simpl; tauto|]); destruct Hf.
Qed.

(* seeded/C18-w3-1: the table fails the check, and the transaction "one joined Update" against one
   restore reaches, under the writer-preferring lock, a state in which nobody can move *)
Example hoisted_rlock_table_refuted :
  reentrant_free hoisted_rlock_table = false
  /\ map fst (offenders hoisted_rlock_table) = ["boltz.DbImpl.Batch"; "boltz.DbImpl.Update"]
  /\ (let upd := {| lf_name := "boltz.DbImpl.Update"; lf_in_tx := ["boltz.DbImpl.Update: self.reloadLock.RLock()"] |} in
      let s := RwLock.run (RwLock.init true [tx_thread [upd]; Restorer RIdle]) [0; 0; 1] in
      forallb finished (RwLock.threads s) = false /\ forallb (fun i => Nat.eqb (List.length (RwLock.threads (RwLock.step s i))) 2) [0; 1] = true
      /\ RwLock.threads (RwLock.step s 0) = RwLock.threads s /\ RwLock.threads (RwLock.step s 1) = RwLock.threads s)
  /\ lock_scenario {| lf_name := "boltz.DbImpl.Update"; lf_in_tx := ["RLock"] |} 3 1 true = None
  /\ lock_scenario {| lf_name := "boltz.DbImpl.Update"; lf_in_tx := [] |} 3 1 true = Some (1, 3).
Proof. vm_compute. repeat split; reflexivity. Qed.

(* without writer preference the same program finishes (why the defect needs a pending restore) *)
Example hoisted_rlock_ok_without_preference :
  let upd := {| lf_name := "boltz.DbImpl.Update"; lf_in_tx := ["RLock"] |} in
  forallb finished (RwLock.threads (RwLock.run (RwLock.init false [tx_thread [upd]; Restorer RIdle]) [0;0;1;0;0;0;0;0;1;1;1;1])) = true.
Proof. vm_compute. reflexivity. Qed.

(* seeded/C18-w3-2: BytesToString builds the string over the slice bbolt handed out; a copy first is accepted *)
Example view_tables :
  views_owned [ {| mv_fn := "boltz.BytesToString"; mv_what := "unsafe.String"; mv_operand := "unsafe.SliceData(buf)"; mv_owned := false |} ] = false
  /\ foreign_views [ {| mv_fn := "boltz.BytesToString"; mv_what := "unsafe.String"; mv_operand := "unsafe.SliceData(buf)"; mv_owned := false |} ]
     = [("boltz.BytesToString", "unsafe.String", "unsafe.SliceData(buf)")]
  /\ views_owned [ {| mv_fn := "boltz.BytesToString"; mv_what := "unsafe.String"; mv_operand := "unsafe.SliceData(b)"; mv_owned := true |} ] = true
  /\ views_owned [] = true.
Proof. vm_compute. repeat split; reflexivity. Qed.

(* kept_observations_persist on a concrete run: states are numbers, a query adds its argument; reader 0
   reads in version 0, ends its transaction, two commits follow, it reads again: the first observation
   is still there, below the new one, with the answer it had *)
Example ex_kept_observation :
  let ev := fun (q s : nat) => q + s in
  let ap := fun (w s : nat) => Some (w + s) in
  let s1 := Mvcc.run nat nat nat ev nat ap (Mvcc.init nat nat nat 10 1) [EBegin nat nat 0; ERead nat nat 0 5; EEnd nat nat 0] in
  let s2 := Mvcc.run nat nat nat ev nat ap s1 [ECommit nat nat 1; ECommit nat nat 2; EBegin nat nat 0; ERead nat nat 0 5] in
  map (fun o => (o_ver nat nat o, o_a nat nat o)) (flat_map (r_obs nat nat) (readers nat nat nat s1)) = [(0, 15)]
  /\ map (fun o => (o_ver nat nat o, o_a nat nat o)) (flat_map (r_obs nat nat) (readers nat nat nat s2)) = [(2, 18); (0, 15)].
Proof. vm_compute. split; reflexivity. Qed.
