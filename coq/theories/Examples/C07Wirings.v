(* The C07 wirings of the store harness (harness/cmd/storageharness/store_c07.go: C07cr, C07tree) as derived by the
   wiring script, and examples by computation on them: the theorems of Properties/C07.v and C07Derived.v hold for EVERY
   schema (they carry no well-formedness hypothesis), so what is shown here is non-vacuity - the store machine really
   refuses at the level of a child store, DeleteWhere really stops at the first refused delete, a rejection raised
   while the parent-level fields of a child-store entity are persisted really fails the operation. *)
From Coq Require Import List NArith Bool.
From Storage Require Import Base.Bytes Store.Model Store.WfSchema Store.XOps.
Import ListNotations.
Open Scope N_scope.

Definition c_emp : name := [101;109;112].
Definition c_mgr : name := [109;103;114].
Definition c_aud : name := [97;117;100].
Definition c_proj : name := [112;114;111;106].
Definition c_name : name := [110;97;109;101].
Definition c_nick : name := [110;105;99;107].
Definition c_badge : name := [98;97;100;103;101].
Definition c_roles : name := [114;111;108;101;115].
Definition c_tagsx : name := [116;97;103;115;120].
Definition c_level : name := [108;101;118;101;108].
Definition c_office : name := [111;102;102;105;99;101].
Definition c_code : name := [99;111;100;101].
Definition c_title : name := [116;105;116;108;101].
Definition c_owner : name := [111;119;110;101;114].
Definition c_backup : name := [98;97;99;107;117;112].
Definition c_watcher : name := [119;97;116;99;104;101;114].
Definition c_pcode : name := [112;99;111;100;101].
Definition c_labels : name := [108;97;98;101;108;115].
Definition c_node : name := [110;111;100;101].
Definition c_leaf : name := [108;101;97;102].
Definition c_parent : name := [112;97;114;101;110;116].
Definition c_kinds : name := [107;105;110;100;115].
Definition c_mark : name := [109;97;114;107].

(* WIRING C07cr *)
Definition c07cr_schema : schema :=
  [ mkSdef c_emp None false [(c_name, false); (c_nick, true); (c_badge, false)] [c_roles; c_tagsx]
      [CUnique c_name false; CSetIdx c_tagsx] [];
    mkSdef c_mgr (Some c_emp) false [(c_level, true); (c_office, false)] []
      [CUnique c_level true; CSystem; CFkCascade c_proj c_owner CascNone; CFkCascade c_proj c_backup CascDelete] [];
    mkSdef c_aud (Some c_emp) true [(c_code, true)] []
      [CUnique c_code true; CFkCascade c_proj c_watcher CascNone] [];
    mkSdef c_proj None false [(c_title, false); (c_owner, true); (c_backup, true); (c_watcher, true); (c_pcode, false)] [c_labels]
      [CFkCons c_owner c_mgr true; CFkCons c_backup c_mgr true; CFkCons c_watcher c_aud true; CUnique c_title false] [] ].

Definition c07cr_req : list (name * name) := [(c_emp, c_badge); (c_mgr, c_office); (c_proj, c_pcode)].

(* WIRING C07tree *)
Definition c07tree_schema : schema :=
  [ mkSdef c_node None false [(c_name, false); (c_parent, true)] [c_kinds]
      [CUnique c_name false; CFkCons c_parent c_node true; CFkCascade c_node c_parent CascDelete] [];
    mkSdef c_leaf (Some c_node) false [(c_mark, true)] [] [CUnique c_mark true] [] ].

Example c07cr_parents_wf : wf_parents c07cr_schema = true.
Proof. vm_compute. reflexivity. Qed.
Example c07tree_parents_wf : wf_parents c07tree_schema = true.
Proof. vm_compute. reflexivity. Qed.

Definition ia : id := [97].
Definition ib : id := [98].
Definition ic : id := [99].
Definition v (n : N) : str := [118; n].

Definition mk_mgr (i : id) (nm : str) : op :=
  OCreate c_mgr i false [(c_name, Some nm); (c_nick, None); (c_badge, Some (v 1)); (c_level, None); (c_office, Some (v 2))] [(c_roles, []); (c_tagsx, [])].
Definition mk_proj (i : id) (t : str) (owner : option str) : op :=
  OCreate c_proj i false [(c_title, Some t); (c_owner, owner); (c_backup, None); (c_watcher, None); (c_pcode, Some (v 3))] [(c_labels, [])].

Definition oc0 : octx := mkOctx false [].

(* a manager that a project references through proj.owner (CascadeNone, registered on the CHILD store mgr): the
   delete - entered through the child store or through the parent store - is refused, the transaction rolls back *)
Definition cr_base : list op := [mk_mgr ia (v 1); mk_proj ib (v 1) (Some ia)].

Example child_level_restrict_refuses :
  match run_tx c07cr_schema 8 st_empty (mkTx false [] (cr_base ++ [ODelete c_emp ia]) false) with
  | (rs, committed, st', evs) => rs = [None; None; Some ERefExists] /\ committed = false /\ ents st' c_emp = [] /\ evs = []
  end.
Proof. vm_compute. repeat split. Qed.

Example child_level_restrict_refuses_via_child :
  fst (run_ops c07cr_schema 8 oc0 (st_empty, []) (cr_base ++ [ODelete c_mgr ia])) = [None; None; Some ERefExists].
Proof. vm_compute. reflexivity. Qed.

(* without the referrer the same delete goes through *)
Example unreferenced_manager_deleted :
  fst (run_ops c07cr_schema 8 oc0 (st_empty, []) [mk_mgr ia (v 1); ODelete c_emp ia]) = [None; None].
Proof. vm_compute. reflexivity. Qed.

(* the system constraint lives on the child store only: a system manager is not deleted from an ordinary context *)
Example child_level_system_refuses :
  fst (run_ops c07cr_schema 8 (mkOctx true []) (st_empty, [])
         [OCreate c_mgr ia true [(c_name, Some (v 1)); (c_badge, Some (v 1)); (c_office, Some (v 2))] []]) = [None] /\
  match snd (run_ops c07cr_schema 8 (mkOctx true []) (st_empty, [])
         [OCreate c_mgr ia true [(c_name, Some (v 1)); (c_badge, Some (v 1)); (c_office, Some (v 2))] []]) with
  | Ok stev => delete_by_id c07cr_schema oc0 8 (fst stev, []) c_emp ia = Err EOther
  | Err _ => False
  end.
Proof. vm_compute. split; reflexivity. Qed.

(* DeleteWhere(true) on emp: ids a, c are deleted in id order; a is referenced, so DeleteWhere fails at the FIRST id and
   the transaction - including the creates before it - is undone *)
Example delete_where_stops_at_refusal :
  let body := [XBase (mk_mgr ia (v 1)); XBase (mk_mgr ic (v 2)); XBase (mk_proj ib (v 1) (Some ia));
               XDeleteWhere c_emp DwTrue] in
  match run_xtx c07cr_schema 8 st_empty (mkXtx false [] body false) with
  | (rs, committed, st', evs) => rs = [None; None; None; Some ERefExists] /\ committed = false /\ ents st' c_emp = [] /\ evs = []
  end.
Proof. vm_compute. repeat split. Qed.

(* DeleteWhere with a field filter deletes exactly the matching ids; the other entity stays (events: 2 per create,
   3 for the delete - parent event, mgr, and the extended child store aud) *)
Example delete_where_field_filter :
  let body := [XBase (mk_mgr ia (v 1)); XBase (mk_mgr ic (v 2)); XDeleteWhere c_mgr (DwFieldEq c_name (v 2))] in
  match run_xtx c07cr_schema 8 st_empty (mkXtx false [] body false) with
  | (rs, committed, st', evs) => rs = [None; None; None] /\ committed = true /\ map fst (ents st' c_emp) = [ia] /\ length evs = 7%nat
  end.
Proof. vm_compute. repeat split. Qed.

(* a veto of ONE of the deletes DeleteWhere performs fails DeleteWhere and the transaction *)
Example delete_where_vetoed_delete :
  let body := [XBase (mk_mgr ia (v 1)); XBase (mk_mgr ic (v 2)); XDeleteWhere c_emp DwTrue] in
  match run_xtx c07cr_schema 8 st_empty (mkXtx false [(c_mgr, Deleted, ic)] body false) with
  | (rs, committed, st', evs) => rs = [None; None; Some EOther] /\ committed = false /\ ents st' c_emp = []
  end.
Proof. vm_compute. repeat split. Qed.

(* C07tree: deleting a cascades to its child b, which DeleteWhere had collected: its DeleteById fails with
   RecordNotFoundError and DeleteWhere returns it *)
Definition mk_node (i : id) (nm : str) (p : option str) : op :=
  OCreate c_node i false [(c_name, Some nm); (c_parent, p)] [(c_kinds, [])].

Example delete_where_cascade_removes_collected_id :
  let body := [XBase (mk_node ia (v 1) None); XBase (mk_node ib (v 2) (Some ia)); XDeleteWhere c_node DwTrue] in
  match run_xtx c07tree_schema 8 st_empty (mkXtx false [] body false) with
  | (rs, committed, st', evs) => rs = [None; None; Some ENotFound] /\ committed = false /\ ents st' c_node = []
  end.
Proof. vm_compute. repeat split. Qed.

(* rejections raised while the PARENT-level fields of a child-store entity are persisted *)
Definition long_elem : str := repeat 101 (N.to_nat 32768).

Example parent_level_required_string_fails_create :
  persist_rejected false c07cr_req c07cr_schema c_mgr
    [(c_name, Some (v 1)); (c_badge, Some []); (c_office, Some (v 2))] [] None = true.
Proof. vm_compute. reflexivity. Qed.

Example child_level_required_string_fails_create :
  persist_rejected false c07cr_req c07cr_schema c_mgr
    [(c_name, Some (v 1)); (c_badge, Some (v 1)); (c_office, None)] [] None = true.
Proof. vm_compute. reflexivity. Qed.

Example satisfied_required_strings_pass :
  persist_rejected false c07cr_req c07cr_schema c_mgr
    [(c_name, Some (v 1)); (c_badge, Some (v 1)); (c_office, Some (v 2))] [(c_roles, [v 1])] None = false.
Proof. vm_compute. reflexivity. Qed.

Example list_element_limit :
  elem_ok (repeat 101 (N.to_nat 32767)) = true /\ elem_ok long_elem = false.
Proof. vm_compute. split; reflexivity. Qed.

(* an unchecked field is not written: the rejection is not reached *)
Example unchecked_list_not_written :
  persist_rejected false c07cr_req c07cr_schema c_mgr
    [(c_name, Some (v 1)); (c_badge, Some (v 1)); (c_office, Some (v 2))] [(c_roles, [[]; long_elem])] (Some [c_name]) = false /\
  persist_rejected false c07cr_req c07cr_schema c_mgr
    [(c_name, Some (v 1)); (c_badge, Some (v 1)); (c_office, Some (v 2))] [(c_roles, [[]; long_elem])] (Some [c_roles]) = true.
Proof. vm_compute. split; reflexivity. Qed.

(* an update of a manager entered through the PARENT store is routed to the child store: the parent-level rejection
   fails it; the same update of an entity that does not exist fails with not-found first *)
Example routed_update_rejected :
  let bad := OUpdate c_emp ia [(c_name, Some (v 1)); (c_badge, Some []); (c_office, Some (v 2))] [] None in
  fst (run_xops c07cr_schema 8 oc0 (st_empty, []) [XBase (mk_mgr ia (v 1)); XPersist false c07cr_req bad]) = [None; Some EOther] /\
  fst (run_xops c07cr_schema 8 oc0 (st_empty, []) [XPersist false c07cr_req bad]) = [Some ENotFound].
Proof. vm_compute. split; reflexivity. Qed.
