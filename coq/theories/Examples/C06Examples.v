(* Non-vacuity for C06: on the "idx" wiring a concrete history builds an employee that is mentioned in every
   kind of place (unique indexes of the parent and of its child store, set index, back-reference sets, link set,
   foreign-key field of a referrer), re-parents the referrer, deletes the employee and re-creates it.
   The hypotheses of the theorems are satisfied by this history, and the states are computed. *)
From Coq Require Import List NArith Bool.
From Storage Require Import Base.Bytes Store.Model Store.NoTrace Store.NoTraceInv Store.NoTraceWrite Store.NoTraceProofs.
From Storage Require Import Examples.C06Wirings Properties.C06.
Import ListNotations.
Open Scope N_scope.

Definition ida : id := [97].
Definition idb : id := [98].
Definition idd : id := [100].
Definition v (n : N) : str := [118; n].

Definition mk_dept (i : id) (title : str) : op :=
  OCreate w_dept i false [(w_title, Some title)] [(w_tagsx, [v 1])].
(* a manager (child store mgr of emp) *)
Definition mk_mgr (i nm : str) (boss : option str) : op :=
  OCreate w_mgr i false [(w_name, Some nm); (w_nick, Some (nm ++ [110])); (w_boss, boss); (w_dept, Some idd); (w_level, Some (nm ++ [108]))]
          [(w_roles, [v 7; v 8])].
Definition mk_emp (i nm : str) (boss : option str) : op :=
  OCreate w_emp i false [(w_name, Some nm); (w_nick, None); (w_boss, boss); (w_dept, Some idd)] [(w_roles, [v 7])].

Definition hist1 : list tx :=
  [ mkTx false [] [mk_dept idd (v 1)] false;
    mkTx false [] [mk_mgr ida (v 2) None; mk_emp idb (v 3) (Some ida)] false;      (* b reports to a *)
    mkTx false [] [OAddLinks w_emp ida w_sites [idd]] false ].

Definition st1 : state := run_txs idx_schema 8 st_empty hist1.

(* before the delete the employee a is mentioned in every kind of place *)
Example a_entity : get_ent st1 w_emp ida <> None.
Proof. vm_compute. discriminate. Qed.
Example a_unique_parent : al_get (v 2) (uidx st1 w_emp w_name) = Some ida.
Proof. vm_compute. reflexivity. Qed.
Example a_unique_child : al_get (v 2 ++ [108]) (uidx st1 w_emp w_level) = Some ida.
Proof. vm_compute. reflexivity. Qed.
Example a_set_index : sbucket st1 w_emp w_roles (v 8) = [ida].
Proof. vm_compute. reflexivity. Qed.
Example a_backref : eset st1 w_dept idd w_members = [ida; idb].
Proof. vm_compute. reflexivity. Qed.
Example a_link : eset st1 w_dept idd w_staff = [ida].
Proof. vm_compute. reflexivity. Qed.
Example a_fk_value : get_field idx_schema st1 w_emp idb w_boss = FStr ida.
Proof. vm_compute. reflexivity. Qed.
Example a_mentioned : mentions idx_schema st1 w_emp ida.
Proof. left. exact a_entity. Qed.

(* while b references a the delete is refused (restrict) ... *)
Example delete_refused : delete_by_id idx_schema (mkOctx true []) 8 (st1, []) w_emp ida = Err ERefExists.
Proof. vm_compute. reflexivity. Qed.

(* ... after re-parenting b the delete through the CHILD store succeeds *)
Definition hist2 : list tx := hist1 ++ [ mkTx false [] [OUpdate w_emp idb [(w_boss, None)] [] (Some [w_boss])] false ].
Definition st2 : state := run_txs idx_schema 8 st_empty hist2.
Definition st3 : state := match delete_by_id idx_schema (mkOctx true []) 8 (st2, []) w_mgr ida with Ok (s, _) => s | Err _ => st2 end.

Example delete_ok : exists evs, delete_by_id idx_schema (mkOctx true []) 8 (st2, []) w_mgr ida = Ok (st3, evs).
Proof. eexists. vm_compute. reflexivity. Qed.

(* the theorem applies to this delete (delete_ok shows that its hypothesis is satisfiable) *)
Example a_not_mentioned : forall st' evs,
  delete_by_id idx_schema (mkOctx true []) 8 (run_txs idx_schema 8 st_empty hist2, []) w_mgr ida = Ok (st', evs) ->
  ~ mentions idx_schema st' (root_of idx_schema w_mgr) ida.
Proof.
  intros st' evs H.
  exact (delete_leaves_no_trace idx_schema 8 hist2 (mkOctx true []) 8 [] w_mgr ida st' evs idx_schema_wf H).
Qed.
Example root_of_mgr : root_of idx_schema w_mgr = w_emp.
Proof. vm_compute. reflexivity. Qed.

(* and the computed state agrees: every place that held a is clean, b and d are untouched *)
Example st3_places :
  get_ent st3 w_emp ida = None /\ uidx st3 w_emp w_name = [(v 3, idb)] /\ uidx st3 w_emp w_level = [] /\
  sidx st3 w_emp w_roles = [(v 7, [idb])] /\ eset st3 w_dept idd w_members = [idb] /\ eset st3 w_dept idd w_staff = [].
Proof. vm_compute. repeat split; reflexivity. Qed.

(* re-creation: the existence checks pass and the create succeeds (as a plain employee this time) *)
Example recreate_ok : exists st4 evs, op_create idx_schema (mkOctx false []) (st3, []) w_emp ida false
     [(w_name, Some (v 2)); (w_nick, None); (w_boss, Some idb); (w_dept, Some idd)] [(w_roles, [])] = Ok (st4, evs) /\
     eset st4 w_emp idb w_reports = [ida] /\ al_get (v 2) (uidx st4 w_emp w_name) = Some ida.
Proof. eexists. eexists. vm_compute. repeat split; reflexivity. Qed.

(* the three harness wirings satisfy the hypothesis of every theorem of Properties/C06.v *)
Example wirings_wf : wf_notrace_b idx_schema = true /\ wf_notrace_b fkc_schema = true /\ wf_notrace_b casc_schema = true.
Proof. repeat split; vm_compute; reflexivity. Qed.

(* the check is not vacuous: a schema whose fk index has no delete guard on the target is rejected *)
Definition bad_schema : schema :=
  [ mkSdef w_emp None false [(w_name, false); (w_boss, true)] [] [CFkIndex w_boss w_emp w_reports true] [] ].
Example bad_schema_rejected : wf_notrace_b bad_schema = false.
Proof. vm_compute. reflexivity. Qed.
(* ... and for it the statement is indeed false: deleting the boss leaves the referrer pointing at it *)
Example bad_schema_refuted :
  let h := [ mkTx false [] [OCreate w_emp ida false [(w_name, Some (v 1)); (w_boss, None)] [];
                             OCreate w_emp idb false [(w_name, Some (v 2)); (w_boss, Some ida)] []] false ] in
  match delete_by_id bad_schema (mkOctx true []) 8 (run_txs bad_schema 8 st_empty h, []) w_emp ida with
  | Ok (st', _) => get_field bad_schema st' w_emp idb w_boss = FStr ida /\ get_ent st' w_emp ida = None
  | Err _ => False
  end.
Proof. vm_compute. split; reflexivity. Qed.

(* ---- child level (wiring C06cp): the delete work is declared on the CHILD store mgr of emp ---- *)
Definition c_l1 : id := [108; 49].
Definition c_l2 : id := [108; 50].
Definition c_m1 : id := [109; 49].
Definition c_e2 : id := [101; 50].

(* a manager m1: link collection of the child store (mgr.offices <-> loc.managers) from both sides, link collection of the
   parent (emp.sites <-> loc.staff), fk index of the child store (mgr.site -> loc), set index of the child store (skills),
   unique indexes of both levels; it is the head of l2 (fk index whose TARGET is the child store: the back-reference set
   "heads" is kept for the child store) and the boss of e2 *)
Definition chist1 : list tx :=
  [ mkTx true [] [OCreate n_loc c_l1 false [(n_title, Some (v 1)); (n_head, None)] [(n_tagsx, [])];
                  OCreate n_loc c_l2 false [(n_title, Some (v 2)); (n_head, None)] [(n_tagsx, [])]] false;
    mkTx true [] [OCreate n_mgr c_m1 false [(n_name, Some (v 3)); (n_boss, None); (n_level, Some (v 4)); (n_site, Some c_l1)]
                          [(n_roles, [v 5]); (n_skills, [v 6; v 7])]] false;
    mkTx true [] [OCreate n_emp c_e2 false [(n_name, Some (v 8)); (n_boss, Some c_m1)] [(n_roles, []); (n_skills, [])]] false;
    mkTx true [] [OAddLinks n_emp c_m1 n_sites [c_l1]; OAddLinks n_mgr c_m1 n_offices [c_l1];
                  OAddLinks n_loc c_l2 n_managers [c_m1]] false;
    mkTx true [] [OUpdate n_loc c_l2 [(n_title, Some (v 2)); (n_head, Some c_m1)] [] (Some [n_head])] false ].
Definition cst1 : state := run_txs C06cp_schema 8 st_empty chist1.

Example child_places_before :
  eset cst1 n_loc c_l1 n_managers = [c_m1] /\ eset cst1 n_loc c_l2 n_managers = [c_m1] /\ eset cst1 n_loc c_l1 n_staff = [c_m1] /\
  eset cst1 n_loc c_l1 n_siteMgrs = [c_m1] /\ eset cst1 n_emp c_m1 n_heads = [c_l2] /\ eset cst1 n_emp c_m1 n_offices = [c_l1; c_l2] /\
  sbucket cst1 n_emp n_skills (v 6) = [c_m1] /\ al_get (v 4) (uidx cst1 n_emp n_level) = Some c_m1 /\
  get_field C06cp_schema cst1 n_loc c_l2 n_head = FStr c_m1 /\ get_field C06cp_schema cst1 n_emp c_e2 n_boss = FStr c_m1.
Proof. vm_compute. repeat split; reflexivity. Qed.

(* the delete through the child store is refused while l2.head (restrict constraint ON THE CHILD STORE) references it *)
Example child_delete_refused : delete_by_id C06cp_schema (mkOctx true []) 8 (cst1, []) n_mgr c_m1 = Err ERefExists.
Proof. vm_compute. reflexivity. Qed.

Definition chist2 : list tx := chist1 ++
  [ mkTx true [] [OUpdate n_loc c_l2 [(n_title, Some (v 2)); (n_head, None)] [] (Some [n_head]);
                  OUpdate n_emp c_e2 [(n_name, Some (v 8)); (n_boss, None)] [] (Some [n_boss])] false ].
Definition cst2 : state := run_txs C06cp_schema 8 st_empty chist2.
Definition cst3 : state := match delete_by_id C06cp_schema (mkOctx true []) 8 (cst2, []) n_emp c_m1 with Ok (s, _) => s | Err _ => cst2 end.

Example child_delete_ok : exists evs, delete_by_id C06cp_schema (mkOctx true []) 8 (cst2, []) n_emp c_m1 = Ok (cst3, evs).
Proof. eexists. vm_compute. reflexivity. Qed.

(* the theorem applies (C06cp_schema_wf) ... *)
Example child_not_mentioned : forall st' evs,
  delete_by_id C06cp_schema (mkOctx true []) 8 (run_txs C06cp_schema 8 st_empty chist2, []) n_emp c_m1 = Ok (st', evs) ->
  ~ mentions C06cp_schema st' (root_of C06cp_schema n_emp) c_m1.
Proof.
  intros st' evs H.
  exact (delete_leaves_no_trace C06cp_schema 8 chist2 (mkOctx true []) 8 [] n_emp c_m1 st' evs C06cp_schema_wf H).
Qed.

(* ... and the computed state agrees: the places of BOTH levels are clean *)
Example child_places_after :
  get_ent cst3 n_emp c_m1 = None /\ eset cst3 n_loc c_l1 n_managers = [] /\ eset cst3 n_loc c_l2 n_managers = [] /\
  eset cst3 n_loc c_l1 n_staff = [] /\ eset cst3 n_loc c_l1 n_siteMgrs = [] /\ sidx cst3 n_emp n_skills = [] /\
  uidx cst3 n_emp n_level = [] /\ uidx cst3 n_emp n_name = [(v 8, c_e2)].
Proof. vm_compute. repeat split; reflexivity. Qed.

(* links of a child-level collection are symmetric and both ends live in the declaring stores (links_symmetric) *)
Example child_links_symmetric :
  (In c_l2 (eset cst1 (root_of C06cp_schema n_mgr) c_m1 n_offices) <-> In c_m1 (eset cst1 (root_of C06cp_schema n_loc) c_l2 n_managers)) /\
  (In c_l2 (eset cst1 (root_of C06cp_schema n_mgr) c_m1 n_offices) ->
     present C06cp_schema cst1 n_mgr c_m1 = true /\ present C06cp_schema cst1 n_loc c_l2 = true).
Proof. apply (links_symmetric C06cp_schema 8 chist1 n_mgr n_offices n_loc n_managers c_m1 c_l2 C06cp_schema_wf). vm_compute. left. reflexivity. Qed.

(* not vacuous at the child level: when the collection mgr.offices <-> loc.managers is declared on the child store only
   (refused: child_link_one_sided_refused), deleting a location leaves its id in the link set of the manager *)
Example child_bad_schema_refuted :
  let sch := drop_links_of n_loc C06cp_schema in
  let h := [ mkTx true [] [OCreate n_loc c_l1 false [(n_title, Some (v 1)); (n_head, None)] [(n_tagsx, [])]] false;
             mkTx true [] [OCreate n_mgr c_m1 false [(n_name, Some (v 3)); (n_boss, None); (n_level, None); (n_site, None)] [(n_roles, []); (n_skills, [])]] false;
             mkTx true [] [OAddLinks n_mgr c_m1 n_offices [c_l1]] false ] in
  wf_notrace_b sch = false /\
  match delete_by_id sch (mkOctx true []) 8 (run_txs sch 8 st_empty h, []) n_loc c_l1 with
  | Ok (st', _) => get_ent st' n_loc c_l1 = None /\ eset st' (root_of sch n_mgr) c_m1 n_offices = [c_l1]
  | Err _ => False
  end.
Proof. vm_compute. repeat split; reflexivity. Qed.
