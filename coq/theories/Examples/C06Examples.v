(* Non-vacuity for C06: on the "idx" wiring a concrete history builds an employee that is mentioned in every
   kind of place (unique indexes of the parent and of its child store, set index, back-reference sets, link set,
   foreign-key field of a referrer), re-parents the referrer, deletes the employee and re-creates it.
   The hypotheses of the theorems are satisfied by this history, and the states are computed. *)
From Coq Require Import List NArith Bool.
From Storage Require Import Base.Bytes Store.Model Store.NoTrace Store.NoTraceInv Store.NoTraceWrite Store.NoTraceProofs.
From Storage Require Import Examples.C06Wirings Properties.C06.
Import ListNotations.
Open Scope N_scope.

Definition ida : id := [97].
Definition idb : id := [98].
Definition idd : id := [100].
Definition v (n : N) : str := [118; n].

Definition mk_dept (i : id) (title : str) : op :=
  OCreate w_dept i false [(w_title, Some title)] [(w_tagsx, [v 1])].
(* a manager (child store mgr of emp) *)
Definition mk_mgr (i nm : str) (boss : option str) : op :=
  OCreate w_mgr i false [(w_name, Some nm); (w_nick, Some (nm ++ [110])); (w_boss, boss); (w_dept, Some idd); (w_level, Some (nm ++ [108]))]
          [(w_roles, [v 7; v 8])].
Definition mk_emp (i nm : str) (boss : option str) : op :=
  OCreate w_emp i false [(w_name, Some nm); (w_nick, None); (w_boss, boss); (w_dept, Some idd)] [(w_roles, [v 7])].

Definition hist1 : list tx :=
  [ mkTx false [] [mk_dept idd (v 1)] false;
    mkTx false [] [mk_mgr ida (v 2) None; mk_emp idb (v 3) (Some ida)] false;      (* b reports to a *)
    mkTx false [] [OAddLinks w_emp ida w_sites [idd]] false ].

Definition st1 : state := run_txs idx_schema 8 st_empty hist1.

(* before the delete the employee a is mentioned in every kind of place *)
Example a_entity : get_ent st1 w_emp ida <> None.
Proof. vm_compute. discriminate. Qed.
Example a_unique_parent : al_get (v 2) (uidx st1 w_emp w_name) = Some ida.
Proof. vm_compute. reflexivity. Qed.
Example a_unique_child : al_get (v 2 ++ [108]) (uidx st1 w_emp w_level) = Some ida.
Proof. vm_compute. reflexivity. Qed.
Example a_set_index : sbucket st1 w_emp w_roles (v 8) = [ida].
Proof. vm_compute. reflexivity. Qed.
Example a_backref : eset st1 w_dept idd w_members = [ida; idb].
Proof. vm_compute. reflexivity. Qed.
Example a_link : eset st1 w_dept idd w_staff = [ida].
Proof. vm_compute. reflexivity. Qed.
Example a_fk_value : get_field idx_schema st1 w_emp idb w_boss = FStr ida.
Proof. vm_compute. reflexivity. Qed.
Example a_mentioned : mentions idx_schema st1 w_emp ida.
Proof. left. exact a_entity. Qed.

(* while b references a the delete is refused (restrict) ... *)
Example delete_refused : delete_by_id idx_schema (mkOctx true []) 8 (st1, []) w_emp ida = Err ERefExists.
Proof. vm_compute. reflexivity. Qed.

(* ... after re-parenting b the delete through the CHILD store succeeds *)
Definition hist2 : list tx := hist1 ++ [ mkTx false [] [OUpdate w_emp idb [(w_boss, None)] [] (Some [w_boss])] false ].
Definition st2 : state := run_txs idx_schema 8 st_empty hist2.
Definition st3 : state := match delete_by_id idx_schema (mkOctx true []) 8 (st2, []) w_mgr ida with Ok (s, _) => s | Err _ => st2 end.

Example delete_ok : exists evs, delete_by_id idx_schema (mkOctx true []) 8 (st2, []) w_mgr ida = Ok (st3, evs).
Proof. eexists. vm_compute. reflexivity. Qed.

(* the theorem applies to this delete (delete_ok shows that its hypothesis is satisfiable) *)
Example a_not_mentioned : forall st' evs,
  delete_by_id idx_schema (mkOctx true []) 8 (run_txs idx_schema 8 st_empty hist2, []) w_mgr ida = Ok (st', evs) ->
  ~ mentions idx_schema st' (root_of idx_schema w_mgr) ida.
Proof.
  intros st' evs H.
  exact (delete_leaves_no_trace idx_schema 8 hist2 (mkOctx true []) 8 [] w_mgr ida st' evs idx_schema_wf H).
Qed.
Example root_of_mgr : root_of idx_schema w_mgr = w_emp.
Proof. vm_compute. reflexivity. Qed.

(* and the computed state agrees: every place that held a is clean, b and d are untouched *)
Example st3_places :
  get_ent st3 w_emp ida = None /\ uidx st3 w_emp w_name = [(v 3, idb)] /\ uidx st3 w_emp w_level = [] /\
  sidx st3 w_emp w_roles = [(v 7, [idb])] /\ eset st3 w_dept idd w_members = [idb] /\ eset st3 w_dept idd w_staff = [].
Proof. vm_compute. repeat split; reflexivity. Qed.

(* re-creation: the existence checks pass and the create succeeds (as a plain employee this time) *)
Example recreate_ok : exists st4 evs, op_create idx_schema (mkOctx false []) (st3, []) w_emp ida false
     [(w_name, Some (v 2)); (w_nick, None); (w_boss, Some idb); (w_dept, Some idd)] [(w_roles, [])] = Ok (st4, evs) /\
     eset st4 w_emp idb w_reports = [ida] /\ al_get (v 2) (uidx st4 w_emp w_name) = Some ida.
Proof. eexists. eexists. vm_compute. repeat split; reflexivity. Qed.

(* the three harness wirings satisfy the hypothesis of every theorem of Properties/C06.v *)
Example wirings_wf : wf_notrace_b idx_schema = true /\ wf_notrace_b fkc_schema = true /\ wf_notrace_b casc_schema = true.
Proof. repeat split; vm_compute; reflexivity. Qed.

(* the check is not vacuous: a schema whose fk index has no delete guard on the target is rejected *)
Definition bad_schema : schema :=
  [ mkSdef w_emp None false [(w_name, false); (w_boss, true)] [] [CFkIndex w_boss w_emp w_reports true] [] ].
Example bad_schema_rejected : wf_notrace_b bad_schema = false.
Proof. vm_compute. reflexivity. Qed.
(* ... and for it the statement is indeed false: deleting the boss leaves the referrer pointing at it *)
Example bad_schema_refuted :
  let h := [ mkTx false [] [OCreate w_emp ida false [(w_name, Some (v 1)); (w_boss, None)] [];
                             OCreate w_emp idb false [(w_name, Some (v 2)); (w_boss, Some ida)] []] false ] in
  match delete_by_id bad_schema (mkOctx true []) 8 (run_txs bad_schema 8 st_empty h, []) w_emp ida with
  | Ok (st', _) => get_field bad_schema st' w_emp idb w_boss = FStr ida /\ get_ent st' w_emp ida = None
  | Err _ => False
  end.
Proof. vm_compute. split; reflexivity. Qed.
