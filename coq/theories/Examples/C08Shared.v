(* Non-vacuity for the contexts built around an existing bbolt transaction (Store/TxShared.v; third strengthening of
   C08): a caller-managed transaction on the "casc" wiring with registrations on the context the caller built, through a
   joined Db.Update and on a second context; its rollback; a second context inside a transaction Db.Update opened; and
   the constructor that stores the transaction without hooking handleCommit to it (seeded change C08-w3-3) refuted. *)
From Coq Require Import List NArith Bool.
From Storage Require Import Base.Bytes Store.Model Store.Events Store.TxHooks Store.TxShared Examples.C08Examples.
Import ListNotations.
Open Scope nat_scope.

(* tx := bolt.Begin(true); ctx := NewTxMutateContext(.., tx); ctx.AddCommitAction(0); ctx.AddPreCommitAction(0: fails if run);
   ctx.AddCommitAction(1); update C1; db.Update(ctx, {delete A1 (cascade); ctx.AddCommitAction(2); AddPreCommitAction(1)});
   ctx2 := NewTxMutateContext(ctx.Context(), ctx.Tx()); ctx2.AddCommitAction(3); ctx2.AddPreCommitAction(2: would add 100);
   tx.Commit() *)
Definition caller_ctx0 : mctx := mkMctx [(0, PkFail)] [0].
Definition caller_prog (last : op) : list titem :=
  [ TOwn (HAddCommit 1); TOwn (HOp (up_c C1 [9%N] B1));
    TOwn (HNest false [ HOp last; HAddCommit 2; HAddPre 1 PkOk ]);
    TCtx [ HAddCommit 3; HAddPre 2 (PkAddsCommit 100) ] ].

Example caller_tx_commit_actions_once :
  let o := shared_update casc_schema 16 st3 false [] ByCaller caller_ctx0 (caller_prog (ODelete n_a A1)) in
  ho_committed o = true /\ ho_results o = [None; None] /\
  ho_commit_runs o = [0; 1; 2; 3] /\ ho_pre_runs o = [] /\ ho_tc o = 0 /\
  ho_events o = to_events (run_tx_v casc_schema 16 st3 tx4) /\ length (ho_events o) = 8 /\
  map fst (dead_pres ByCaller caller_ctx0 (caller_prog (ODelete n_a A1))) = [0; 1; 2] /\
  live_pres ByCaller caller_ctx0 (caller_prog (ODelete n_a A1)) = [].
Proof. vm_compute. repeat split; reflexivity. Qed.

(* the caller rolls back (an operation failed): nothing runs, nothing is delivered *)
Example caller_tx_rollback_nothing :
  let o := shared_update casc_schema 16 st3 false [] ByCaller caller_ctx0 (caller_prog (ODelete n_a [90%N])) in
  ho_committed o = false /\ ho_results o = [None; Some ENotFound] /\ ho_commit_runs o = [] /\ ho_pre_runs o = [] /\
  ho_tc o = 0 /\ ho_events o = [] /\ ho_state o = st3.
Proof. vm_compute. repeat split; reflexivity. Qed.

(* the same program in a transaction Db.Update opened: the primary context's pre-commit actions run (the failing one
   rolls the transaction back); with a succeeding one: commit actions of both contexts once, the second context's
   pre-commit action (and the commit action it would add) never, tx-complete listener once *)
Example second_ctx_in_db_update :
  let o := shared_update casc_schema 16 st3 false [] ByDb (mkMctx [(0, PkOk)] [0]) (caller_prog (ODelete n_a A1)) in
  ho_committed o = true /\ ho_commit_runs o = [0; 1; 2; 3] /\ ho_pre_runs o = [0; 1] /\ ho_tc o = 1 /\
  length (ho_events o) = 8 /\
  let f := shared_update casc_schema 16 st3 false [] ByDb caller_ctx0 (caller_prog (ODelete n_a A1)) in
  ho_committed f = false /\ ho_commit_runs f = [] /\ ho_pre_runs f = [0] /\ ho_events f = [].
Proof. vm_compute. repeat split; reflexivity. Qed.

(* seeded change C08-w3-3 as a model: the constructor stores the transaction in the struct (&mutateContext{ctx, tx})
   instead of calling setTx, so no handleCommit is registered with the transaction for a context built around it.
   Store operations still commit and deliver their events; the commit actions of such contexts run zero times. *)
Definition shared_update_unhooked (sch : schema) (fuel : nat) (st : state) (sys : bool) (vetoes : list veto)
    (ctx0 : mctx) (prog : list titem) : hook_obs :=
  let (t1, ok) := run_titems sch fuel (mkOctx sys vetoes) prog (mkT (mkB ctx0 (st, []) [] [] []) []) in
  let b1 := t_b t1 in
  if ok then mkHookObs (b_rs b1) true (fst (b_stev b1)) (b_sevs b1)
                       (fire_commit_actions (mc_commit (b_ctx b1)) (b_on_commit b1)) [] (fire_tx_complete (b_on_commit b1))
  else mkHookObs (b_rs b1) false st [] [] [] 0.

Example constructor_without_setTx_refuted :
  let o := shared_update_unhooked casc_schema 16 st3 false [] caller_ctx0 (caller_prog (ODelete n_a A1)) in
  ho_committed o = true /\ length (ho_events o) = 8 /\ ho_commit_runs o = [] /\
  ho_commit_runs o <> shared_registered_commits ByCaller caller_ctx0 (caller_prog (ODelete n_a A1)).
Proof. vm_compute. repeat split; try reflexivity. discriminate. Qed.
