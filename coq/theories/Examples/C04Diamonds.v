(* C04, sixth wave: the harness wirings C04da / C04db / C04dc / C04dd (harness/cmd/storageharness/store_c04_diamond.go):
   cascade graphs in which a referrer is reachable over MORE THAN ONE cascade path (diamonds, DAGs with shared descendants).

   A store with two cascading fk fields whose targets are connected by a cascade themselves
       item.owner -> own (cascade)   item.parent -> item (cascade)      own o <- item p <- item s ,  own o <- item s
   makes the set of transitive referrers of o a DAG, not a tree: s is a referrer of o through item.owner AND is removed by
   the nested cascade of p.  The machine's cascade_loop re-evaluates the match of every candidate against the CURRENT state,
   so a candidate that a nested cascade removed is skipped: the delete succeeds and removes exactly the transitive referrers.
   A loop that fixes the list of referrers before it starts deleting answers NotFound instead ([c04d_snapshot_loop_refuted]).

   What is PROVED for these schemas (all states, every fuel): delete_cascade_exact (C04da, C04db, C04dc: wf_casc_b = true
   although item.parent / grp.up / mem.via / doc.prev make the SCHEMA cyclic - wf_casc_b asks for unique store names, root
   parents and cascading guards on root stores, not for acyclicity), delete_cascade_exact_any (C04dd: the guard of
   task.owner -> mgr is in the list of the child store mgr; wf_stores_b only): a delete that SUCCEEDS removed exactly the
   nodes reachable through cascade constraints, shared descendants included ([c04da_cascade_exact_all_states], ...).
   fk_target_exists / backrefs_exact / delete_restrict for the 17 edges between root stores ([c04d_root_edges_wf]).
   What is TESTED, not proved: that the delete of the apex of a DAG succeeds at all (no theorem says that acyclic data
   avoids Err; design/C04.md "Termination / progress") - the machine's answer Ok on the diamonds below is computed here
   and compared with the real code by the correspondence run on every generated diamond. *)
From Coq Require Import List NArith Bool.
From Storage Require Import Base.Bytes Store.Model Store.FrameProofs Store.FkProofs Store.FkDelete Store.FkWf Store.FkChildGuard Store.FkChildCascade Store.FkCascadeLoop.
Import ListNotations.
Open Scope N_scope.

(* the derived schemas of the wirings: text produced by `storageharness c04-coqschema --wirings C04da,C04db,C04dc,C04dd`;
   checks/c04.py compares this block with a fresh generation on every run (C04:wiring-schema-drift) *)
(* generated: begin *)
Definition k_name : name := [110;97;109;101].
Definition k_item : name := [105;116;101;109].
Definition k_owner : name := [111;119;110;101;114].
Definition k_own : name := [111;119;110].
Definition k_parent : name := [112;97;114;101;110;116].
Definition k_marks : name := [109;97;114;107;115].
Definition k_label : name := [108;97;98;101;108].
Definition k_tag : name := [116;97;103].
Definition k_part : name := [112;97;114;116].
Definition k_items : name := [105;116;101;109;115].
Definition k_parts : name := [112;97;114;116;115].
Definition k_up : name := [117;112].
Definition k_grp : name := [103;114;112].
Definition k_mem : name := [109;101;109].
Definition k_doc : name := [100;111;99].
Definition k_via : name := [118;105;97].
Definition k_mems : name := [109;101;109;115].
Definition k_rev : name := [114;101;118].
Definition k_title : name := [116;105;116;108;101].
Definition k_prev : name := [112;114;101;118].
Definition k_locks : name := [108;111;99;107;115].
Definition k_note : name := [110;111;116;101].
Definition k_lock : name := [108;111;99;107].
Definition k_emp : name := [101;109;112].
Definition k_mgr : name := [109;103;114].
Definition k_task : name := [116;97;115;107].
Definition k_step : name := [115;116;101;112].
Definition k_after : name := [97;102;116;101;114].
Definition k_logs : name := [108;111;103;115].
Definition k_text : name := [116;101;120;116].
Definition k_log : name := [108;111;103].
Definition k_level : name := [108;101;118;101;108].
Definition c04da_schema : schema :=
  [ mkSdef k_own None false [(k_name, false)] []
      [CFkCascade k_item k_owner CascDelete] [];
    mkSdef k_item None false [(k_name, false); (k_owner, false); (k_parent, true)] []
      [CFkCons k_owner k_own false; CFkCons k_parent k_item true; CFkCascade k_item k_parent CascDelete; CFkRestrict k_marks] [];
    mkSdef k_tag None false [(k_label, true); (k_item, true)] []
      [CFkIndex k_item k_item k_marks true] [] ].
Definition c04db_schema : schema :=
  [ mkSdef k_own None false [(k_name, false)] []
      [CFkCascade k_item k_owner CascDelete; CFkCascade k_part k_owner CascDelete] [];
    mkSdef k_item None false [(k_name, false); (k_owner, false); (k_parent, true)] []
      [CFkIndex k_owner k_own k_items false; CFkCons k_parent k_item true; CFkCascade k_item k_parent CascDelete; CFkCascade k_part k_item CascDelete] [];
    mkSdef k_part None false [(k_name, true); (k_item, false); (k_owner, true)] []
      [CFkCons k_owner k_own true; CFkIndex k_item k_item k_parts false; CUnique k_name true] [] ].
Definition c04dc_schema : schema :=
  [ mkSdef k_grp None false [(k_name, false); (k_up, true)] []
      [CFkCons k_up k_grp true; CFkCascade k_grp k_up CascDelete; CFkCascade k_mem k_grp CascDelete; CFkCascade k_doc k_grp CascDelete] [];
    mkSdef k_mem None false [(k_name, false); (k_grp, false); (k_via, true)] []
      [CFkIndex k_grp k_grp k_mems false; CFkCons k_via k_mem true; CFkCascade k_mem k_via CascDelete; CFkCascade k_doc k_mem CascDelete; CFkCascade k_doc k_rev CascNone] [];
    mkSdef k_doc None false [(k_title, false); (k_grp, true); (k_mem, true); (k_prev, true); (k_rev, true)] []
      [CFkCons k_grp k_grp true; CFkCons k_mem k_mem true; CFkCons k_prev k_doc true; CFkCascade k_doc k_prev CascDelete; CFkCons k_rev k_mem true; CFkRestrict k_locks] [];
    mkSdef k_lock None false [(k_doc, false); (k_note, true)] []
      [CFkIndex k_doc k_doc k_locks false] [] ].
Definition c04dd_schema : schema :=
  [ mkSdef k_emp None false [(k_name, false)] []
      [] [];
    mkSdef k_task None false [(k_name, false); (k_owner, false); (k_parent, true)] []
      [CFkCons k_owner k_mgr false; CFkCons k_parent k_task true; CFkCascade k_task k_parent CascDelete; CFkCascade k_step k_after CascDelete; CFkRestrict k_logs] [];
    mkSdef k_log None false [(k_text, true); (k_task, true)] []
      [CFkIndex k_task k_task k_logs true] [];
    mkSdef k_mgr (Some k_emp) false [(k_level, true)] []
      [CFkCascade k_task k_owner CascDelete] [];
    mkSdef k_step (Some k_task) false [(k_after, true); (k_note, true)] []
      [CFkCons k_after k_task true] [] ].
(* generated: end *)

(* ---- which theorems of Properties/C04.v cover these wirings ---- *)
Example c04d_wirings_stores_wf :
  wf_stores_b c04da_schema && wf_stores_b c04db_schema && wf_stores_b c04dc_schema && wf_stores_b c04dd_schema = true.
Proof. vm_compute. reflexivity. Qed.

(* cascading guards on root stores: C04da, C04db, C04dc; C04dd wires the guard of task.owner -> mgr on the child store mgr *)
Example c04d_wirings_wf_casc :
  wf_casc_b c04da_schema = true /\ wf_casc_b c04db_schema = true /\ wf_casc_b c04dc_schema = true /\ wf_casc_b c04dd_schema = false.
Proof. vm_compute. repeat split; reflexivity. Qed.

(* every edge between root stores satisfies the hypothesis of the invariant theorems *)
Example c04d_root_edges_wf :
  wf_fk_b c04da_schema k_item k_owner k_own None && wf_fk_b c04da_schema k_item k_parent k_item None &&
  wf_fk_b c04da_schema k_tag k_item k_item (Some k_marks) &&
  wf_fk_b c04db_schema k_item k_owner k_own (Some k_items) && wf_fk_b c04db_schema k_item k_parent k_item None &&
  wf_fk_b c04db_schema k_part k_owner k_own None && wf_fk_b c04db_schema k_part k_item k_item (Some k_parts) &&
  wf_fk_b c04dc_schema k_grp k_up k_grp None && wf_fk_b c04dc_schema k_mem k_grp k_grp (Some k_mems) &&
  wf_fk_b c04dc_schema k_mem k_via k_mem None && wf_fk_b c04dc_schema k_doc k_grp k_grp None &&
  wf_fk_b c04dc_schema k_doc k_mem k_mem None && wf_fk_b c04dc_schema k_doc k_prev k_doc None &&
  wf_fk_b c04dc_schema k_doc k_rev k_mem None && wf_fk_b c04dc_schema k_lock k_doc k_doc (Some k_locks) &&
  wf_fk_b c04dd_schema k_task k_parent k_task None && wf_fk_b c04dd_schema k_log k_task k_task (Some k_logs) = true.
Proof. vm_compute. reflexivity. Qed.

(* the two child-ended edges of C04dd are outside wf_fk_b (root stores at both ends); see design/C04.md section 10 *)
Example c04dd_child_edges_outside_wf_fk :
  wf_fk_b c04dd_schema k_task k_owner k_mgr None || wf_fk_b c04dd_schema k_step k_after k_task None = false.
Proof. vm_compute. reflexivity. Qed.

(* cascade exactness, instantiated: in ANY state of these schemas, for EVERY fuel, a delete that succeeds removed exactly the
   transitive cascade referrers - a node reachable over two paths is one node of [reach] *)
Example c04da_cascade_exact_all_states : forall oc fuel st evs s0 x st' evs',
  delete_by_id c04da_schema oc fuel (st, evs) s0 x = Ok (st', evs') ->
  ents_shrink st st' /\
  forall r y, (get_ent st r y <> None /\ get_ent st' r y = None) <-> reach c04da_schema st (root_of c04da_schema s0, x) (r, y).
Proof. intros oc fuel st evs s0 x st' evs'. apply delete_cascade_exact_wf. vm_compute. reflexivity. Qed.
Example c04db_cascade_exact_all_states : forall oc fuel st evs s0 x st' evs',
  delete_by_id c04db_schema oc fuel (st, evs) s0 x = Ok (st', evs') ->
  ents_shrink st st' /\
  forall r y, (get_ent st r y <> None /\ get_ent st' r y = None) <-> reach c04db_schema st (root_of c04db_schema s0, x) (r, y).
Proof. intros oc fuel st evs s0 x st' evs'. apply delete_cascade_exact_wf. vm_compute. reflexivity. Qed.
Example c04dc_cascade_exact_all_states : forall oc fuel st evs s0 x st' evs',
  delete_by_id c04dc_schema oc fuel (st, evs) s0 x = Ok (st', evs') ->
  ents_shrink st st' /\
  forall r y, (get_ent st r y <> None /\ get_ent st' r y = None) <-> reach c04dc_schema st (root_of c04dc_schema s0, x) (r, y).
Proof. intros oc fuel st evs s0 x st' evs'. apply delete_cascade_exact_wf. vm_compute. reflexivity. Qed.
Example c04dd_cascade_exact_all_states : forall oc fuel st evs s0 x st' evs',
  delete_by_id c04dd_schema oc fuel (st, evs) s0 x = Ok (st', evs') ->
  ents_shrink st st' /\
  forall r y, (get_ent st r y <> None /\ get_ent st' r y = None) <-> reachc c04dd_schema st (root_of c04dd_schema s0, x) (r, y).
Proof. intros oc fuel st evs s0 x st' evs'. apply delete_cascade_exact_any_wf. vm_compute. reflexivity. Qed.

(* ---- the machine on a diamond (what the correspondence run demands of the real code) ---- *)
Definition c04d_o1 : id := [111;49].
Definition c04d_o2 : id := [111;50].
Definition c04d_m : id := [109].     (* the inner node *)
Definition c04d_b : id := [98].      (* shared descendant that sorts BEFORE the inner node *)
Definition c04d_z : id := [122].     (* shared descendant that sorts AFTER the inner node *)
Definition c04d_w : id := [119].     (* item of the other owner below b: reached through item.parent only *)
Definition c04d_y : id := [121].     (* item of the other owner, no parent: survives *)
Definition c04d_t : id := [116].
Definition c04d_x : str := [120].

Definition c04da_item (i : id) (owner : id) (parent : option id) : op :=
  OCreate k_item i false [(k_name, Some c04d_x); (k_owner, Some owner); (k_parent, parent)] [].
Definition c04da_st (with_tag : bool) : state :=
  run_txs c04da_schema 8 st_empty
    [ mkTx false [] ([OCreate k_own c04d_o1 false [(k_name, Some c04d_x)] []; OCreate k_own c04d_o2 false [(k_name, Some c04d_x)] [];
                      c04da_item c04d_m c04d_o1 None; c04da_item c04d_b c04d_o1 (Some c04d_m); c04da_item c04d_z c04d_o1 (Some c04d_m);
                      c04da_item c04d_w c04d_o2 (Some c04d_b); c04da_item c04d_y c04d_o2 None] ++
                     (if with_tag then [OCreate k_tag c04d_t false [(k_label, None); (k_item, Some c04d_w)] []] else [])) false ].

Example c04da_start : ids_of (c04da_st false) k_own = [c04d_o1; c04d_o2] /\
                      ids_of (c04da_st false) k_item = [c04d_b; c04d_m; c04d_w; c04d_y; c04d_z].
Proof. vm_compute. split; reflexivity. Qed.

(* b and z are referrers of o1 through item.owner AND referrers of m - itself a referrer of o1 - through item.parent *)
Example c04da_shared_descendants :
  let st := c04da_st false in
  casc_matches c04da_schema k_item k_owner c04d_o1 st c04d_m = true /\
  casc_matches c04da_schema k_item k_owner c04d_o1 st c04d_b = true /\ casc_matches c04da_schema k_item k_parent c04d_m st c04d_b = true /\
  casc_matches c04da_schema k_item k_owner c04d_o1 st c04d_z = true /\ casc_matches c04da_schema k_item k_parent c04d_m st c04d_z = true.
Proof. vm_compute. repeat split; reflexivity. Qed.

(* deleting the owner succeeds and removes exactly its transitive referrers: m, b, z and - through b - the other owner's w *)
Example c04da_delete_apex_of_diamond :
  match run_tx c04da_schema 8 (c04da_st false) (mkTx false [] [ODelete k_own c04d_o1] false) with
  | (rs, committed, st', _) => rs = [None] /\ committed = true /\
      ids_of st' k_own = [c04d_o2] /\ ids_of st' k_item = [c04d_y]
  end.
Proof. vm_compute. repeat split; reflexivity. Qed.

(* deleting the inner node: its descendants over both owners, nothing else *)
Example c04da_delete_inner_node :
  match run_tx c04da_schema 8 (c04da_st false) (mkTx false [] [ODelete k_item c04d_m] false) with
  | (rs, committed, st', _) => rs = [None] /\ committed = true /\
      ids_of st' k_own = [c04d_o1; c04d_o2] /\ ids_of st' k_item = [c04d_y]
  end.
Proof. vm_compute. repeat split; reflexivity. Qed.

(* a restricting edge (fk index tag.item) at the far end of the second path: the whole delete is refused, nothing changes *)
Example c04da_cascade_refused_half_way :
  run_tx c04da_schema 8 (c04da_st true) (mkTx false [] [ODelete k_own c04d_o1] false) = ([Some ERefExists], false, c04da_st true, []).
Proof. vm_compute. reflexivity. Qed.

(* the loop over the referrers must look at the CURRENT state.  [cascade_snapshot]: the referrers are fixed before the
   first delete (collect the ids, then delete each).  The referrers of o1 through item.owner are b, m, z in key order: the
   delete of b is fine (it takes w along), the delete of m removes z through item.parent, and the delete of z then answers
   NotFound - the delete of o1 fails although nothing restricts it.  [cascade_loop] skips z: it does not match any more. *)
Definition cascade_snapshot (sch : schema) (del : st_ev -> name -> id -> res st_ev) (rs f : name) (i : id) (cands : list id) (cur : st_ev) : res st_ev :=
  fold_left (fun acc x => match acc with Ok c => del c rs x | Err e => Err e end)
            (filter (casc_matches sch rs f i (fst cur)) cands) (Ok cur).

Example c04d_snapshot_loop_refuted :
  let st := c04da_st false in
  let del := delete_by_id c04da_schema (mkOctx false []) 8 in
  cascade_snapshot c04da_schema del k_item k_owner c04d_o1 (ids_of st k_item) (st, []) = Err ENotFound /\
  match cascade_loop c04da_schema del k_item k_owner c04d_o1 (ids_of st k_item) (st, []) with
  | Ok (st', _) => ids_of st' k_item = [c04d_y]
  | Err _ => False
  end.
Proof. vm_compute. split; reflexivity. Qed.

(* instance of Properties.C04.cascade_never_deletes_absent on the diamond: a delete that answers NotFound for absent
   entities is never asked for one (the hypothesis of cascade_loop_current_referrers_only is met by construction) *)
Example c04d_loop_never_asks_for_vanished_candidates :
  let st := c04da_st false in
  let del := delete_by_id c04da_schema (mkOctx false []) 8 in
  cascade_loop c04da_schema del k_item k_owner c04d_o1 (ids_of st k_item) (st, []) =
  cascade_loop c04da_schema (fun c s x => if present c04da_schema (fst c) s x then del c s x else Err ENotFound)
               k_item k_owner c04d_o1 (ids_of st k_item) (st, []).
Proof. intros st del. apply cascade_loop_present_only_lemma. Qed.

(* C04db: own <-cascade fk index- item, item <-cons- item, own <-cons- part, item <-cascade fk index- part *)
Definition c04d_p1 : id := [112;49].
Definition c04d_p2 : id := [112;50].
Definition c04db_st : state :=
  run_txs c04db_schema 8 st_empty
    [ mkTx false [] [OCreate k_own c04d_o1 false [(k_name, Some c04d_x)] []; OCreate k_own c04d_o2 false [(k_name, Some c04d_x)] [];
                     c04da_item c04d_m c04d_o1 None; c04da_item c04d_b c04d_o1 (Some c04d_m); c04da_item c04d_z c04d_o1 (Some c04d_m);
                     c04da_item c04d_y c04d_o2 None;
                     OCreate k_part c04d_p1 false [(k_name, None); (k_item, Some c04d_z); (k_owner, Some c04d_o1)] [];
                     OCreate k_part c04d_p2 false [(k_name, None); (k_item, Some c04d_y); (k_owner, Some c04d_o1)] []] false ].

(* p1 is reached over three paths (o1, o1-z, o1-m-z); p2 hangs below the surviving item y but belongs to o1: it goes, y stays
   and its back-reference set is empty again *)
Example c04db_delete_apex :
  match run_tx c04db_schema 8 c04db_st (mkTx false [] [ODelete k_own c04d_o1] false) with
  | (rs, committed, st', _) => rs = [None] /\ committed = true /\
      ids_of st' k_own = [c04d_o2] /\ ids_of st' k_item = [c04d_y] /\ ids_of st' k_part = [] /\
      get_set c04db_schema st' k_item c04d_y k_parts = [] /\ get_set c04db_schema st' k_own c04d_o2 k_items = [c04d_y]
  end.
Proof. vm_compute. repeat split; reflexivity. Qed.

(* C04dd: the guard of the outer edge lives on the child store mgr, the inner edges are task.parent and step.after (child store) *)
Definition c04d_e1 : id := [101;49].
Definition c04d_t1 : id := [116;49].
Definition c04d_t2 : id := [116;50].
Definition c04d_t3 : id := [116;51].
Definition c04dd_st : state :=
  run_txs c04dd_schema 8 st_empty
    [ mkTx false [] [OCreate k_mgr c04d_e1 false [(k_name, Some c04d_x); (k_level, None)] [];
                     OCreate k_task c04d_t2 false [(k_name, Some c04d_x); (k_owner, Some c04d_e1); (k_parent, None)] [];
                     OCreate k_task c04d_t1 false [(k_name, Some c04d_x); (k_owner, Some c04d_e1); (k_parent, Some c04d_t2)] [];
                     OCreate k_step c04d_t3 false [(k_name, Some c04d_x); (k_owner, Some c04d_e1); (k_parent, None); (k_after, Some c04d_t2); (k_note, None)] []] false ].

Example c04dd_delete_apex_through_parent_and_child_store :
  ids_of c04dd_st k_task = [c04d_t1; c04d_t2; c04d_t3] /\
  (forall s, In s [k_emp; k_mgr] ->
     match run_tx c04dd_schema 8 c04dd_st (mkTx false [] [ODelete s c04d_e1] false) with
     | (rs, committed, st', _) => rs = [None] /\ committed = true /\ ids_of st' k_emp = [] /\ ids_of st' k_task = []
     end).
Proof. split; [vm_compute; reflexivity|]. intros s [<-|[<-|[]]]; vm_compute; repeat split; reflexivity. Qed.
