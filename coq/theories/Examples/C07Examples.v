(* Non-vacuity for C07: a concrete schema and transactions that commit / roll back. *)
From Coq Require Import List NArith Bool.
From Storage Require Import Base.Bytes Store.Model.
Import ListNotations.
Open Scope N_scope.

Definition s_emp : name := [101;109;112].
Definition f_name : name := [110;97;109;101].
Definition sch1 : schema :=
  [mkSdef s_emp None false [(f_name, false)] [] [CUnique f_name false] []].

Definition mk_create (i v : str) : op := OCreate s_emp i false [(f_name, Some v)] [].

(* second create duplicates the unique value: the transaction fails and nothing changes *)
Example dup_rolls_back :
  let t := mkTx false [] [mk_create [97] [120]; mk_create [98] [120]] false in
  match run_tx sch1 8 st_empty t with
  | (rs, committed, st', evs) =>
      rs = [None; Some EDuplicate] /\ committed = false /\ ents st' s_emp = [] /\ evs = []
  end.
Proof. vm_compute. repeat split. Qed.

Example two_creates_commit :
  let t := mkTx false [] [mk_create [97] [120]; mk_create [98] [121]] false in
  match run_tx sch1 8 st_empty t with
  | (rs, committed, st', evs) =>
      rs = [None; None] /\ committed = true /\ length (ents st' s_emp) = 2%nat /\ length evs = 2%nat
  end.
Proof. vm_compute. repeat split. Qed.

Example veto_rolls_back :
  let t := mkTx false [(s_emp, Created, [98])] [mk_create [97] [120]; mk_create [98] [121]] false in
  match run_tx sch1 8 st_empty t with
  | (rs, committed, st', evs) => rs = [None; Some EOther] /\ committed = false /\ ents st' s_emp = []
  end.
Proof. vm_compute. repeat split. Qed.
