(* Non-vacuity for C16: the two harness wirings with a system-entity constraint pass the check, and a
   concrete history shows a system entity refused in an ordinary context (create / update / delete, also
   through the child store and through a cascade), changed in a system context with its flag intact,
   and an ordinary entity behaving exactly as without the constraint. *)
From Coq Require Import List NArith Bool.
From Storage Require Import Base.Bytes Store.Model Store.SystemProofs Store.SystemStrip Store.SystemMixed.
Import ListNotations.
Open Scope N_scope.

Definition n_emp : name := [101;109;112].
Definition n_dept : name := [100;101;112;116].
Definition n_mgr : name := [109;103;114].
Definition n_name : name := [110;97;109;101].
Definition n_nick : name := [110;105;99;107].
Definition n_boss : name := [98;111;115;115].
Definition n_roles : name := [114;111;108;101;115].
Definition n_reports : name := [114;101;112;111;114;116;115].
Definition n_members : name := [109;101;109;98;101;114;115].
Definition n_title : name := [116;105;116;108;101].
Definition n_tagsx : name := [116;97;103;115;120].
Definition n_level : name := [108;101;118;101;108].
Definition n_sites : name := [115;105;116;101;115].
Definition n_staff : name := [115;116;97;102;102].

(* the "idx" wiring of harness/cmd/storageharness/store_gen.go: emp carries the constraint, mgr is its plain child *)
Definition idx_schema : schema :=
  [ mkSdef n_emp None false [(n_name, false); (n_nick, true); (n_boss, true); (n_dept, false)] [n_roles]
      [CUnique n_name false; CUnique n_nick true; CSetIdx n_roles; CFkIndex n_boss n_emp n_reports true;
       CFkRestrict n_reports; CFkIndex n_dept n_dept n_members false; CSystem]
      [(n_sites, n_dept, n_staff)];
    mkSdef n_dept None false [(n_title, false)] [n_tagsx]
      [CFkRestrict n_members; CUnique n_title false; CSetIdx n_tagsx] [(n_staff, n_emp, n_sites)];
    mkSdef n_mgr (Some n_emp) false [(n_level, true)] [] [CUnique n_level true] [] ].

Definition n_a : name := [97].
Definition n_b : name := [98].
Definition n_c : name := [99].
Definition n_bx : name := [98;120].
Definition n_bs : name := [98;115].
Definition n_cs : name := [99;115].
Definition n_cas : name := [99;97;115].
Definition n_code : name := [99;111;100;101].

(* the "casc" wiring: a <- b <- c by cascade-delete fk indexes; b carries the constraint, bx is its extended child *)
Definition casc_schema : schema :=
  [ mkSdef n_a None false [(n_name, false)] [n_roles]
      [CUnique n_name false; CSetIdx n_roles; CFkCascade n_b n_a CascDelete; CFkRestrict n_cas] [];
    mkSdef n_b None false [(n_name, false); (n_a, false)] []
      [CFkIndex n_a n_a n_bs false; CFkCascade n_c n_b CascDelete; CSystem] [];
    mkSdef n_c None false [(n_name, true); (n_b, false); (n_a, true)] []
      [CFkIndex n_b n_b n_cs false; CFkIndex n_a n_a n_cas true; CUnique n_name true] [];
    mkSdef n_bx (Some n_b) true [(n_code, true)] [] [CUnique n_code true] [] ].

Example idx_schema_wf : wf_system_b idx_schema n_emp = true.
Proof. vm_compute. reflexivity. Qed.
Example casc_schema_wf : wf_system_b casc_schema n_b = true.
Proof. vm_compute. reflexivity. Qed.
Example idx_schema_nofield : wf_nofield_b idx_schema = true.
Proof. vm_compute. reflexivity. Qed.
Example casc_schema_nofield : wf_nofield_b casc_schema = true.
Proof. vm_compute. reflexivity. Qed.

(* ---- casc: a1 ; system b1 -> a1 with extension data (created through bx) ; ordinary b2 -> a1 *)
Definition mk_a (i nm : str) : op := OCreate n_a i false [(n_name, Some nm)] [(n_roles, [])].
Definition mk_b (through : name) (i nm : str) (sys : bool) : op :=
  OCreate through i sys [(n_name, Some nm); (n_a, Some [49]); (n_code, Some nm)] [].
Definition up_b (through : name) (i nm : str) : op :=
  OUpdate through i [(n_name, Some nm); (n_a, Some [49]); (n_code, Some nm)] [] None.

Definition setup : list tx :=
  [ mkTx true [] [mk_a [49] [120]; mk_b n_bx [50] [121] true; mk_b n_b [51] [122] false] false ].
Definition st1 : state := run_txs casc_schema 8 st_empty setup.

Example st1_flags :
  get_field casc_schema st1 n_b [50] isSystemF = FBool true /\ get_field casc_schema st1 n_b [51] isSystemF = FAbsent.
Proof. vm_compute. split; reflexivity. Qed.

(* ordinary context: create-with-flag, update (through b and through bx), delete (through b, through bx, and
   by cascade from a) are all refused and the state is unchanged *)
Definition refused (t : tx) : Prop :=
  match run_tx casc_schema 8 st1 t with (rs, committed, st', evs) => committed = false /\ evs = [] /\ last rs None <> None end.

Example ordinary_create_refused : refused (mkTx false [] [mk_b n_b [52] [123] true] false).
Proof. vm_compute. repeat split; discriminate. Qed.
Example ordinary_create_through_child_refused : refused (mkTx false [] [mk_b n_bx [52] [123] true] false).
Proof. vm_compute. repeat split; discriminate. Qed.
Example ordinary_update_refused : refused (mkTx false [] [up_b n_b [50] [124]] false).
Proof. vm_compute. repeat split; discriminate. Qed.
Example ordinary_update_through_child_refused : refused (mkTx false [] [up_b n_bx [50] [124]] false).
Proof. vm_compute. repeat split; discriminate. Qed.
Example ordinary_delete_refused : refused (mkTx false [] [ODelete n_b [50]] false).
Proof. vm_compute. repeat split; discriminate. Qed.
Example ordinary_delete_through_child_refused : refused (mkTx false [] [ODelete n_bx [50]] false).
Proof. vm_compute. repeat split; discriminate. Qed.
Example ordinary_cascade_refused : refused (mkTx false [] [ODelete n_a [49]] false).
Proof. vm_compute. repeat split; discriminate. Qed.
(* ... also after a successful prefix in the same transaction *)
Example ordinary_after_prefix_refused : refused (mkTx false [] [up_b n_b [51] [125]; ODelete n_b [50]] false).
Proof. vm_compute. repeat split; discriminate. Qed.

(* the hypotheses of system_requires_system_ctx are met by the last one *)
Example sys_target_instance :
  sys_target casc_schema n_b st1 (ODelete n_bx [50]) /\ sys_target casc_schema n_b st1 (up_b n_b [50] [124]).
Proof. vm_compute. repeat split; reflexivity. Qed.

(* the ordinary entity b2 is updated and deleted in an ordinary context *)
Example ordinary_entity_ok :
  match run_tx casc_schema 8 st1 (mkTx false [] [up_b n_b [51] [125]; ODelete n_b [51]] false) with
  | (rs, committed, st', _) => rs = [None; None] /\ committed = true /\ present casc_schema st' n_b [51] = false
  end.
Proof. vm_compute. repeat split; reflexivity. Qed.

(* system context: update keeps the flag, delete (also by cascade) succeeds *)
Example system_update_keeps_flag :
  match run_tx casc_schema 8 st1 (mkTx true [] [up_b n_bx [50] [124]] false) with
  | (rs, committed, st', _) => committed = true /\ get_field casc_schema st' n_b [50] isSystemF = FBool true /\
                               get_field casc_schema st' n_b [50] n_name = FStr [124]
  end.
Proof. vm_compute. repeat split; reflexivity. Qed.
Example system_cascade_ok :
  match run_tx casc_schema 8 st1 (mkTx true [] [ODelete n_a [49]] false) with
  | (rs, committed, st', _) => committed = true /\ ids_of st' n_b = []
  end.
Proof. vm_compute. repeat split; reflexivity. Qed.

(* alive_txs is satisfiable: b1 lives through a history of updates in both contexts *)
Example alive_instance :
  alive_txs casc_schema n_b 8 [50] st1
    [mkTx true [] [up_b n_b [50] [124]] false; mkTx false [] [up_b n_b [50] [126]] false; mkTx false [] [ODelete n_b [51]] false].
Proof. vm_compute. repeat split; exact I. Qed.

(* ordinary_unaffected: a history without system creates runs identically with and without the constraint *)
Definition ordinary_hist : list tx :=
  [ mkTx false [] [mk_a [49] [120]; mk_b n_bx [50] [121] false; mk_b n_b [51] [122] false] false;
    mkTx false [] [up_b n_b [50] [124]; ODelete n_bx [51]] false;
    mkTx true [] [ODelete n_a [49]] false ].
Example ordinary_hist_no_sys : Forall tx_no_sys ordinary_hist.
Proof. repeat constructor. Qed.
Example ordinary_hist_same :
  ids_of (run_txs (strip casc_schema) 8 st_empty ordinary_hist) n_a = [] /\
  ids_of (run_txs casc_schema 8 st_empty (firstn 2 ordinary_hist)) n_b = [[50]].
Proof. vm_compute. split; reflexivity. Qed.

(* idx: the same through the plain child store mgr of emp *)
Definition mk_dept : op := OCreate n_dept [100] false [(n_title, Some [116])] [(n_tagsx, [])].
Definition mk_mgr (i nm : str) (sys : bool) : op :=
  OCreate n_mgr i sys [(n_name, Some nm); (n_nick, None); (n_boss, None); (n_dept, Some [100]); (n_level, Some nm)] [(n_roles, [])].
Definition st2 : state := run_txs idx_schema 8 st_empty [mkTx true [] [mk_dept; mk_mgr [97] [120] true] false].
Example idx_refused :
  match run_tx idx_schema 8 st2 (mkTx false [] [ODelete n_mgr [97]] false) with
  | (rs, committed, st', _) => rs = [Some EOther] /\ committed = false
  end.
Proof. vm_compute. split; reflexivity. Qed.
Example idx_update_through_root_refused :
  match run_tx idx_schema 8 st2 (mkTx false [] [OUpdate n_emp [97] [(n_name, Some [121])] [] (Some [n_name])] false) with
  | (rs, committed, st', _) => rs = [Some EOther] /\ committed = false
  end.
Proof. vm_compute. split; reflexivity. Qed.

(* mixed state st1 (system b1, ordinary b2): the hypotheses of ordinary_update_unaffected_any hold for b2, not for b1 *)
Example casc_strip_wf : wf_strip_b casc_schema = true.
Proof. vm_compute. reflexivity. Qed.
Example idx_strip_wf : wf_strip_b idx_schema = true.
Proof. vm_compute. reflexivity. Qed.
Example noflag_instance : NoFlag st1 (root_of casc_schema n_bx) [51].
Proof. intros e0 H. vm_compute in H. inversion H; subst. vm_compute. discriminate. Qed.

(* ---- mixed transactions (Store/SystemMixed.v) on st1 (system b1 = [50], ordinary b2 = [51]) *)
(* an update through a DERIVED system context succeeds, the next update of the same system entity through the base
   (ordinary) context is refused and rolls the transaction back *)
Example mixed_reuse_refused :
  run_mtx casc_schema 8 st1 (mkMtx [] [mkMop true false (up_b n_b [50] [124]); mkMop false false (up_b n_b [50] [125])] false)
  = ([None; Some EOther], false, st1, []).
Proof. vm_compute. reflexivity. Qed.
(* the caller swallows the refusal, updates the ordinary entity and commits: the system entity is as before *)
Example mixed_swallow_commits :
  match run_mtx casc_schema 8 st1 (mkMtx [] [mkMop false true (up_b n_bx [50] [124]); mkMop false false (up_b n_b [51] [125])] false) with
  | (rs, committed, st', _) => rs = [Some EOther; None] /\ committed = true /\
    get_field casc_schema st' n_b [50] n_name = get_field casc_schema st1 n_b [50] n_name /\
    get_field casc_schema st' n_b [50] isSystemF = FBool true /\ get_field casc_schema st' n_b [51] n_name = FStr [125]
  end.
Proof. vm_compute. repeat split; reflexivity. Qed.
(* the hypotheses of refused_op_no_write / mixed_system_requires_system_ctx are met, with and without swallowing *)
Example mixed_hyps :
  sys_target casc_schema n_b st1 (up_b n_bx [50] [124]) /\
  swallows casc_schema st1 (mkMop false true (up_b n_bx [50] [124])) = true /\
  swallows casc_schema st1 (mkMop false false (up_b n_bx [50] [124])) = false /\
  swallows casc_schema st1 (mkMop false true (ODelete n_b [50])) = false /\
  swallows casc_schema st1 (mkMop false true (up_b n_b [51] [124])) = false.
Proof. vm_compute. repeat split; reflexivity. Qed.
(* the swallow flag does not hide other failures: a refused delete still aborts *)
Example mixed_swallow_only_updates :
  run_mtx casc_schema 8 st1 (mkMtx [] [mkMop false true (ODelete n_b [50]); mkMop false false (up_b n_b [51] [125])] false)
  = ([Some EOther], false, st1, []).
Proof. vm_compute. reflexivity. Qed.
Example alive_mops_instance :
  alive_mops casc_schema n_b 8 [] [50] (st1, [])
    [mkMop true false (up_b n_b [50] [124]); mkMop false true (up_b n_b [50] [125]); mkMop false false (ODelete n_b [51])].
Proof. vm_compute. repeat split; exact I. Qed.
