(* Non-vacuity for C03: the "idx" wiring of the harness passes the well-formedness check for its
   unique indexes, and a concrete history exercises hand-over and swap of unique values. *)
From Coq Require Import List NArith Bool.
From Storage Require Import Base.Bytes Store.Model Store.WfSchema Store.WfSetIdx Store.UniqueProofs Store.UniqueRejectProofs Store.UniqueOnlyIfProofs.
Import ListNotations.
Open Scope N_scope.

Definition n_emp : name := [101;109;112].
Definition n_dept : name := [100;101;112;116].
Definition n_mgr : name := [109;103;114].
Definition n_name : name := [110;97;109;101].
Definition n_nick : name := [110;105;99;107].
Definition n_boss : name := [98;111;115;115].
Definition n_deptf : name := [100;101;112;116].
Definition n_roles : name := [114;111;108;101;115].
Definition n_reports : name := [114;101;112;111;114;116;115].
Definition n_members : name := [109;101;109;98;101;114;115].
Definition n_title : name := [116;105;116;108;101].
Definition n_tagsx : name := [116;97;103;115;120].
Definition n_level : name := [108;101;118;101;108].
Definition n_sites : name := [115;105;116;101;115].
Definition n_staff : name := [115;116;97;102;102].

(* the "idx" wiring of harness/cmd/storageharness/store_gen.go, as derived by the wiring script *)
Definition idx_schema : schema :=
  [ mkSdef n_emp None false [(n_name, false); (n_nick, true); (n_boss, true); (n_deptf, false)] [n_roles]
      [CUnique n_name false; CUnique n_nick true; CSetIdx n_roles; CFkIndex n_boss n_emp n_reports true;
       CFkRestrict n_reports; CFkIndex n_deptf n_dept n_members false; CSystem]
      [(n_sites, n_dept, n_staff)];
    mkSdef n_dept None false [(n_title, false)] [n_tagsx]
      [CFkRestrict n_members; CUnique n_title false; CSetIdx n_tagsx] [(n_staff, n_emp, n_sites)];
    mkSdef n_mgr (Some n_emp) false [(n_level, true)] [] [CUnique n_level true] [] ].

Example idx_schema_wf_name : wf_unique_b idx_schema n_emp n_name = true.
Proof. vm_compute. reflexivity. Qed.
Example idx_schema_wf_nick : wf_unique_b idx_schema n_emp n_nick = true.
Proof. vm_compute. reflexivity. Qed.
Example idx_schema_wf_title : wf_unique_b idx_schema n_dept n_title = true.
Proof. vm_compute. reflexivity. Qed.

(* a history: dept d; emp a(name x) ; emp b(name y) ; rename a -> z ; rename b -> x (hand-over) ; delete a *)
Definition mk_emp (i nm : str) : op :=
  OCreate n_emp i false [(n_name, Some nm); (n_nick, None); (n_boss, None); (n_deptf, Some [100])] [(n_roles, [])].
Definition up_name (i nm : str) : op :=
  OUpdate n_emp i [(n_name, Some nm)] [] (Some [n_name]).
Definition hist : list tx :=
  [ mkTx false [] [OCreate n_dept [100] false [(n_title, Some [116])] [(n_tagsx, [])]] false;
    mkTx false [] [mk_emp [97] [120]; mk_emp [98] [121]] false;
    mkTx false [] [up_name [97] [122]; up_name [98] [120]] false;
    mkTx false [] [mk_emp [99] [120]] false;                      (* duplicate: rolled back *)
    mkTx false [] [ODelete n_emp [97]] false ].

Example hist_index : uidx (run_txs idx_schema 8 st_empty hist) n_emp n_name = [([120], [98])].
Proof. vm_compute. reflexivity. Qed.

Example hist_dup_rejected :
  match run_tx idx_schema 8 (run_txs idx_schema 8 st_empty (firstn 3 hist)) (mkTx false [] [mk_emp [99] [120]] false) with
  | (rs, committed, _, _) => rs = [Some EDuplicate] /\ committed = false
  end.
Proof. vm_compute. split; reflexivity. Qed.

(* ---------------------------------------------------------------- set indexes *)
Example idx_schema_wf_roles : wf_setidx_b idx_schema n_emp n_roles = true.
Proof. vm_compute. reflexivity. Qed.
Example idx_schema_wf_tagsx : wf_setidx_b idx_schema n_dept n_tagsx = true.
Proof. vm_compute. reflexivity. Qed.
(* the check does reject a set field that is also a back-reference set or a link field *)
Example idx_schema_wf_reports_rejected : wf_setidx_b
  (map (fun d => if str_eqb (sd_name d) n_emp then mkSdef (sd_name d) (sd_parent d) (sd_ext d) (sd_fields d) (sd_sets d)
                   (CSetIdx n_reports :: sd_cons d) (sd_links d) else d) idx_schema) n_emp n_reports = false.
Proof. vm_compute. reflexivity. Qed.

(* a history on the roles index: a{r,q} b{r} ; a drops q (the bucket q becomes empty and disappears) and
   gains p ; a rejected create (empty role) ; delete b ; a field-restricted update that skips roles *)
Definition mk_emp_r (i nm : str) (roles : list str) : op :=
  OCreate n_emp i false [(n_name, Some nm); (n_nick, None); (n_boss, None); (n_deptf, Some [100])] [(n_roles, roles)].
Definition up_roles (i : str) (roles : list str) : op :=
  OUpdate n_emp i [] [(n_roles, roles)] (Some [n_roles]).
Definition shist : list tx :=
  [ mkTx false [] [OCreate n_dept [100] false [(n_title, Some [116])] [(n_tagsx, [])]] false;
    mkTx false [] [mk_emp_r [97] [120] [[114]; [113]]; mk_emp_r [98] [121] [[114]]] false;
    mkTx false [] [up_roles [97] [[114]; [112]]] false;
    mkTx false [] [mk_emp_r [99] [122] [[114]; []]] false;          (* empty role: rejected, rolled back *)
    mkTx false [] [ODelete n_emp [98]] false;
    mkTx false [] [up_name [97] [119]] false ].

Example shist_index_before : sidx (run_txs idx_schema 8 st_empty (firstn 2 shist)) n_emp n_roles
                             = [([113], [[97]]); ([114], [[97]; [98]])].
Proof. vm_compute. reflexivity. Qed.
(* the key q ([113]) is gone, not left with an empty list *)
Example shist_bucket_disappears : sidx (run_txs idx_schema 8 st_empty (firstn 3 shist)) n_emp n_roles
                             = [([112], [[97]]); ([114], [[97]; [98]])].
Proof. vm_compute. reflexivity. Qed.
Example shist_empty_role_rejected :
  match run_tx idx_schema 8 (run_txs idx_schema 8 st_empty (firstn 3 shist)) (mkTx false [] [mk_emp_r [99] [122] [[114]; []]] false) with
  | (rs, committed, _, _) => rs = [Some EOther] /\ committed = false
  end.
Proof. vm_compute. split; reflexivity. Qed.
Example shist_index_final : sidx (run_txs idx_schema 8 st_empty shist) n_emp n_roles
                             = [([112], [[97]]); ([114], [[97]])].
Proof. vm_compute. reflexivity. Qed.
Example shist_sets_final : get_set idx_schema (run_txs idx_schema 8 st_empty shist) n_emp [97] n_roles = [[112]; [114]].
Proof. vm_compute. reflexivity. Qed.

(* ---------------------------------------------------------------- uniqueness is enforced *)
(* after the first three transactions of [hist]: a holds name z, b holds name x *)
Definition st3 : state := run_txs idx_schema 8 st_empty (firstn 3 hist).

(* creating c with name x is a duplicating operation in the sense of the theorems ... *)
Example dup_create_is_dup_op : dup_op idx_schema n_emp n_name st3 (mk_emp [99] [120]).
Proof.
  split; [vm_compute; reflexivity|]. exists [120]. split; [|vm_compute; reflexivity].
  split; [reflexivity|]. exists [98]. split; [intros H; discriminate|]. split; vm_compute; reflexivity.
Qed.
(* ... all the "no earlier check fails" premises of unique_duplicate_rejected_create hold for it
   (name's unique index is registered first, so [before_unique] is empty) ... *)
Example dup_create_premises :
  nonempty [99] = true /\ present idx_schema st3 n_emp [99] = false /\ key_ok [99] = true /\
  fire_cu idx_schema (mkOctx false []) [] n_emp Created [99] = Ok [mkEvent n_emp Created [99] false] /\
  before_unique n_name (cons_of idx_schema n_emp) = [].
Proof. vm_compute. repeat split; reflexivity. Qed.
(* ... and the operation indeed answers EDuplicate *)
Example dup_create_result :
  run_op idx_schema 8 (mkOctx false []) (st3, []) (mk_emp [99] [120]) = Err EDuplicate.
Proof. vm_compute. reflexivity. Qed.

(* renaming b to z (held by a) through a field-restricted update is a duplicating operation, too *)
Example dup_update_is_dup_op : dup_op idx_schema n_emp n_name st3 (up_name [98] [122]).
Proof.
  split; [vm_compute; reflexivity|]. exists [122]. split; [|vm_compute; reflexivity].
  split; [reflexivity|]. exists [97]. split; [intros H; discriminate|]. split; vm_compute; reflexivity.
Qed.
Example dup_update_result :
  run_op idx_schema 8 (mkOctx false []) (st3, []) (up_name [98] [122]) = Err EDuplicate.
Proof. vm_compute. reflexivity. Qed.
(* a transaction that first does valid work and then hits the duplicate leaves the state untouched *)
Example dup_tx_changes_nothing :
  match run_tx idx_schema 8 st3 (mkTx false [] [mk_emp [100] [119]; up_name [98] [122]; mk_emp [101] [118]] false) with
  | (rs, committed, st', evs) => rs = [None; Some EDuplicate] /\ committed = false /\ evs = [] /\
        uidx st' n_emp n_name = uidx st3 n_emp n_name /\ ids_of st' n_emp = ids_of st3 n_emp
  end.
Proof. vm_compute. repeat split; reflexivity. Qed.
(* several constraints object (name x is held by b; the non-nullable fk index on dept gets an empty
   value): the one registered first - name's unique index - is the one that reports *)
Example dup_first_index_reports :
  run_op idx_schema 8 (mkOctx false []) (st3, [])
    (OCreate n_emp [99] false [(n_name, Some [120]); (n_nick, None); (n_boss, None); (n_deptf, Some [])] [(n_roles, [])])
  = Err EDuplicate /\
  run_op idx_schema 8 (mkOctx false []) (st3, [])
    (OCreate n_emp [99] false [(n_name, Some [119]); (n_nick, None); (n_boss, None); (n_deptf, Some [])] [(n_roles, [])])
  = Err EOther.
Proof. vm_compute. split; reflexivity. Qed.

(* name is a non-nullable unique index: hypotheses of nonnull_unique_never_empty *)
Example name_is_nonnull_unique : In (CUnique n_name false) (cons_of idx_schema n_emp).
Proof. vm_compute. left. reflexivity. Qed.
(* an empty name is refused (create and update) ... *)
Example empty_name_rejected :
  run_op idx_schema 8 (mkOctx false []) (st3, []) (mk_emp [99] []) = Err EOther /\
  run_op idx_schema 8 (mkOctx false []) (st3, []) (up_name [98] []) = Err EOther.
Proof. vm_compute. split; reflexivity. Qed.
(* ... while the nullable nick index accepts nil values of several entities (no false duplicate) *)
Example nil_nicks_coexist :
  uidx st3 n_emp n_nick = [] /\ ids_of st3 n_emp = [[97]; [98]].
Proof. vm_compute. split; reflexivity. Qed.

(* ---------------------------------------------------------------- the well-formedness hypothesis is needed *)
(* a set index declared on the back-reference set "reports" (maintained by the fk index on boss, not by
   PersistEntity) is NOT kept in step: [wf_setidx_b] rejects this schema (idx_schema_wf_reports_rejected)
   and indeed the mirror statement fails on it *)
Definition bad_schema : schema :=
  map (fun d => if str_eqb (sd_name d) n_emp then mkSdef (sd_name d) (sd_parent d) (sd_ext d) (sd_fields d) (sd_sets d)
                   (CSetIdx n_reports :: sd_cons d) (sd_links d) else d) idx_schema.
Definition bad_hist : list tx :=
  [ mkTx false [] [OCreate n_dept [100] false [(n_title, Some [116])] [(n_tagsx, [])]] false;
    mkTx false [] [mk_emp [97] [120]] false;
    mkTx false [] [OCreate n_emp [98] false [(n_name, Some [121]); (n_nick, None); (n_boss, Some [97]); (n_deptf, Some [100])] [(n_roles, [])]] false ].
Example set_index_on_backref_set_not_mirrored :
  let st := run_txs bad_schema 8 st_empty bad_hist in
  wf_setidx_b bad_schema n_emp n_reports = false /\
  get_set bad_schema st n_emp [97] n_reports = [[98]] /\ sidx st n_emp n_reports = [].
Proof. vm_compute. repeat split; reflexivity. Qed.

(* ---------------------------------------------------------------- ... and only then : unique_duplicate_only_when_held_update, _create *)
(* the hypotheses of the two theorems hold for emp in st3: emp is a root store and each of its unique indexes
   (name, nick) is well-formed and mirrors the entities *)
Example only_if_hyps : is_child idx_schema n_emp = false /\ all_unique_ok idx_schema n_emp st3.
Proof.
  split; [vm_compute; reflexivity|]. unfold st3. apply all_unique_ok_reachable. intros f nl Hin.
  vm_compute in Hin.
  repeat (destruct Hin as [Hin|Hin]; [try discriminate Hin; inversion Hin; subst; vm_compute; reflexivity|]).
  contradiction.
Qed.
(* the update of dup_update_result, as it runs in the root store, answers EDuplicate, and the witness the theorem
   promises is a: another present entity holding z in the unique field name *)
Example only_if_update_result :
  update_in idx_schema (mkOctx false []) (st3, []) n_emp [98] [(n_name, Some [122])] [] (Some [n_name]) = Err EDuplicate.
Proof. vm_compute. reflexivity. Qed.
Example only_if_update_witness :
  dup_at idx_schema n_emp n_name st3 [98]
    (new_f idx_schema n_emp n_name false false [(n_name, Some [122])] (Some [n_name]) (cur_ent n_emp st3 [98])).
Proof.
  split; [vm_compute; reflexivity|]. exists [97]. split; [intros H; discriminate|]. split; vm_compute; reflexivity.
Qed.
(* the second alternative of the theorems is not empty either: two managers, b takes the level a holds - every
   hook of the root store emp succeeds, the unique index of the CHILD store mgr reports the duplicate *)
Definition mk_mgr (i nm lv : str) : op :=
  OCreate n_mgr i false [(n_name, Some nm); (n_nick, None); (n_boss, None); (n_deptf, Some [100]); (n_level, Some lv)] [(n_roles, [])].
Definition stm2 : state := run_txs idx_schema 8 st_empty
  [ mkTx false [] [OCreate n_dept [100] false [(n_title, Some [116])] [(n_tagsx, [])]] false;
    mkTx false [] [mk_mgr [97] [120] [49]; mk_mgr [98] [121] [50]] false ].
Example only_if_child_index_reports :
  uidx stm2 n_emp n_level = [([49], [97]); ([50], [98])] /\
  update_in idx_schema (mkOctx false []) (stm2, []) n_mgr [98] [(n_level, Some [49])] [] (Some [n_level]) = Err EDuplicate.
Proof. vm_compute. split; reflexivity. Qed.
