(* Non-vacuity for C03: the "idx" wiring of the harness passes the well-formedness check for its
   unique indexes, and a concrete history exercises hand-over and swap of unique values. *)
From Coq Require Import List NArith Bool.
From Storage Require Import Base.Bytes Store.Model Store.WfSchema.
Import ListNotations.
Open Scope N_scope.

Definition n_emp : name := [101;109;112].
Definition n_dept : name := [100;101;112;116].
Definition n_mgr : name := [109;103;114].
Definition n_name : name := [110;97;109;101].
Definition n_nick : name := [110;105;99;107].
Definition n_boss : name := [98;111;115;115].
Definition n_deptf : name := [100;101;112;116].
Definition n_roles : name := [114;111;108;101;115].
Definition n_reports : name := [114;101;112;111;114;116;115].
Definition n_members : name := [109;101;109;98;101;114;115].
Definition n_title : name := [116;105;116;108;101].
Definition n_tagsx : name := [116;97;103;115;120].
Definition n_level : name := [108;101;118;101;108].
Definition n_sites : name := [115;105;116;101;115].
Definition n_staff : name := [115;116;97;102;102].

(* the "idx" wiring of harness/cmd/storageharness/store_gen.go, as derived by the wiring script *)
Definition idx_schema : schema :=
  [ mkSdef n_emp None false [(n_name, false); (n_nick, true); (n_boss, true); (n_deptf, false)] [n_roles]
      [CUnique n_name false; CUnique n_nick true; CSetIdx n_roles; CFkIndex n_boss n_emp n_reports true;
       CFkRestrict n_reports; CFkIndex n_deptf n_dept n_members false; CSystem]
      [(n_sites, n_dept, n_staff)];
    mkSdef n_dept None false [(n_title, false)] [n_tagsx]
      [CFkRestrict n_members; CUnique n_title false; CSetIdx n_tagsx] [(n_staff, n_emp, n_sites)];
    mkSdef n_mgr (Some n_emp) false [(n_level, true)] [] [CUnique n_level true] [] ].

Example idx_schema_wf_name : wf_unique_b idx_schema n_emp n_name = true.
Proof. vm_compute. reflexivity. Qed.
Example idx_schema_wf_nick : wf_unique_b idx_schema n_emp n_nick = true.
Proof. vm_compute. reflexivity. Qed.
Example idx_schema_wf_title : wf_unique_b idx_schema n_dept n_title = true.
Proof. vm_compute. reflexivity. Qed.

(* a history: dept d; emp a(name x) ; emp b(name y) ; rename a -> z ; rename b -> x (hand-over) ; delete a *)
Definition mk_emp (i nm : str) : op :=
  OCreate n_emp i false [(n_name, Some nm); (n_nick, None); (n_boss, None); (n_deptf, Some [100])] [(n_roles, [])].
Definition up_name (i nm : str) : op :=
  OUpdate n_emp i [(n_name, Some nm)] [] (Some [n_name]).
Definition hist : list tx :=
  [ mkTx false [] [OCreate n_dept [100] false [(n_title, Some [116])] [(n_tagsx, [])]] false;
    mkTx false [] [mk_emp [97] [120]; mk_emp [98] [121]] false;
    mkTx false [] [up_name [97] [122]; up_name [98] [120]] false;
    mkTx false [] [mk_emp [99] [120]] false;                      (* duplicate: rolled back *)
    mkTx false [] [ODelete n_emp [97]] false ].

Example hist_index : uidx (run_txs idx_schema 8 st_empty hist) n_emp n_name = [([120], [98])].
Proof. vm_compute. reflexivity. Qed.

Example hist_dup_rejected :
  match run_tx idx_schema 8 (run_txs idx_schema 8 st_empty (firstn 3 hist)) (mkTx false [] [mk_emp [99] [120]] false) with
  | (rs, committed, _, _) => rs = [Some EDuplicate] /\ committed = false
  end.
Proof. vm_compute. split; reflexivity. Qed.
