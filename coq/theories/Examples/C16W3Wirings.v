(* C16, third strengthening (seeded C16-w3-1, C16-w3-3): the wirings of harness/cmd/storageharness/store_c16w3.go - a
   parent store that carries the system-entity constraint and unique / set / fk indexes, and a child store (plain: c16np,
   extended: c16nx) that declares NOTHING but fields - as derived by the wiring script; the side conditions of the C16
   theorems by computation; the chain of a child store without constraints of its own still runs the parent's: a system
   entity is refused (create / update / delete through the bare child store, update routed from the parent, cascade) and
   the parent's unique index is maintained for writes through the bare child store. *)
From Coq Require Import List NArith Bool.
From Storage Require Import Base.Bytes Store.Model Store.SystemProofs Store.SystemStrip Store.SystemMixed.
Import ListNotations.
Open Scope N_scope.

Definition w3_own : name := [111;119;110].
Definition w3_dev : name := [100;101;118].
Definition w3_gw : name := [103;119].
Definition w3_title : name := [116;105;116;108;101].
Definition w3_name : name := [110;97;109;101].
Definition w3_nick : name := [110;105;99;107].
Definition w3_owner : name := [111;119;110;101;114].
Definition w3_roles : name := [114;111;108;101;115].
Definition w3_devs : name := [100;101;118;115].
Definition w3_sites : name := [115;105;116;101;115].
Definition w3_staff : name := [115;116;97;102;102].
Definition w3_port : name := [112;111;114;116].
Definition w3_zone : name := [122;111;110;101].
Definition w3_a : name := [97].
Definition w3_b : name := [98].
Definition w3_c : name := [99].
Definition w3_bx : name := [98;120].
Definition w3_bs : name := [98;115].
Definition w3_cs : name := [99;115].
Definition w3_cas : name := [99;97;115].
Definition w3_code : name := [99;111;100;101].
Definition w3_tag : name := [116;97;103].

(* c16np: own <- dev (fk index, cascade delete), link dev.sites <-> own.staff ; gw is the plain child store of dev *)
Definition c16np_schema : schema :=
  [ mkSdef w3_own None false [(w3_title, false)] []
      [CUnique w3_title false; CFkCascade w3_dev w3_owner CascDelete] [(w3_staff, w3_dev, w3_sites)];
    mkSdef w3_dev None false [(w3_name, false); (w3_nick, true); (w3_owner, false)] [w3_roles]
      [CUnique w3_name false; CSystem; CUnique w3_nick true; CSetIdx w3_roles; CFkIndex w3_owner w3_own w3_devs false]
      [(w3_sites, w3_own, w3_staff)];
    mkSdef w3_gw (Some w3_dev) false [(w3_port, true); (w3_zone, false)] [] [] [] ].

(* c16nx: a <- b <- c by cascade-delete fk indexes ; b carries the constraint (registered first) and a unique index ;
   bx is the extended child store of b *)
Definition c16nx_schema : schema :=
  [ mkSdef w3_a None false [(w3_name, false)] [w3_roles]
      [CUnique w3_name false; CSetIdx w3_roles; CFkCascade w3_b w3_a CascDelete; CFkRestrict w3_cas] [];
    mkSdef w3_b None false [(w3_name, false); (w3_a, false)] []
      [CSystem; CFkIndex w3_a w3_a w3_bs false; CFkCascade w3_c w3_b CascDelete; CUnique w3_name false] [];
    mkSdef w3_c None false [(w3_name, true); (w3_b, false); (w3_a, true)] []
      [CFkIndex w3_b w3_b w3_cs false; CFkIndex w3_a w3_a w3_cas true; CUnique w3_name true] [];
    mkSdef w3_bx (Some w3_b) true [(w3_code, true); (w3_tag, false)] [] [] [] ].

(* ---- side conditions of the theorems, by computation *)
Example c16np_wf : wf_system_b c16np_schema w3_dev = true.
Proof. vm_compute. reflexivity. Qed.
Example c16nx_wf : wf_system_b c16nx_schema w3_b = true.
Proof. vm_compute. reflexivity. Qed.
Example c16w3_nofield : wf_nofield_b c16np_schema = true /\ wf_nofield_b c16nx_schema = true.
Proof. vm_compute. split; reflexivity. Qed.
Example c16w3_strip_wf : wf_strip_b c16np_schema = true /\ wf_strip_b c16nx_schema = true.
Proof. vm_compute. split; reflexivity. Qed.
Example c16w3_flag_wf : wf_flag_b c16np_schema w3_dev = true /\ wf_flag_b c16nx_schema w3_b = true.
Proof. vm_compute. split; reflexivity. Qed.

(* the child stores declare no constraint; their chain is the parent's constraints followed by an empty list *)
Example c16w3_bare_children :
  cons_of c16np_schema w3_gw = [] /\ cons_of c16nx_schema w3_bx = [] /\
  chain c16np_schema w3_gw = [(w3_dev, cons_of c16np_schema w3_dev); (w3_gw, [])] /\
  chain c16nx_schema w3_bx = [(w3_b, cons_of c16nx_schema w3_b); (w3_bx, [])].
Proof. vm_compute. repeat split; reflexivity. Qed.

(* ---- c16np: owner o ; system gateway g (created through gw) ; system device d (root only) ; ordinary gateway p *)
Definition w3_o : id := [111]. Definition w3_g : id := [103]. Definition w3_d : id := [100]. Definition w3_p : id := [112].
Definition np_own : op := OCreate w3_own w3_o false [(w3_title, Some [116])] [].
Definition np_mk (through : name) (i nm : str) (sys : bool) : op :=
  OCreate through i sys [(w3_name, Some nm); (w3_nick, None); (w3_owner, Some w3_o); (w3_port, Some nm); (w3_zone, Some [122])]
          [(w3_roles, [])].
Definition np_up (through : name) (i nm : str) : op :=
  OUpdate through i [(w3_name, Some nm); (w3_nick, None); (w3_owner, Some w3_o); (w3_port, Some nm); (w3_zone, Some [122])]
          [(w3_roles, [])] None.
Definition np_st : state :=
  run_txs c16np_schema 8 st_empty
    [ mkTx true [] [np_own; np_mk w3_gw w3_g [49] true; np_mk w3_dev w3_d [50] true; np_mk w3_gw w3_p [51] false] false ].

Example np_flags :
  get_field c16np_schema np_st w3_dev w3_g isSystemF = FBool true /\ present c16np_schema np_st w3_gw w3_g = true /\
  get_field c16np_schema np_st w3_dev w3_d isSystemF = FBool true /\ present c16np_schema np_st w3_gw w3_d = false /\
  get_field c16np_schema np_st w3_dev w3_p isSystemF = FAbsent /\ present c16np_schema np_st w3_gw w3_p = true.
Proof. vm_compute. repeat split; reflexivity. Qed.

Definition np_refused (t : tx) : Prop :=
  match run_tx c16np_schema 8 np_st t with (rs, committed, st', evs) =>
    committed = false /\ st' = np_st /\ evs = [] /\ last rs None = Some EOther end.

(* ordinary context, THROUGH THE BARE CHILD STORE: create with the flag, update, patch, delete ; update through the parent
   store (routed to gw) ; cascade from own *)
Example np_create_through_child_refused : np_refused (mkTx false [] [np_mk w3_gw [120] [53] true] false).
Proof. vm_compute. repeat split; reflexivity. Qed.
Example np_update_through_child_refused : np_refused (mkTx false [] [np_up w3_gw w3_g [53]] false).
Proof. vm_compute. repeat split; reflexivity. Qed.
Example np_patch_through_child_refused :
  np_refused (mkTx false [] [OUpdate w3_gw w3_g [(w3_port, Some [57])] [] (Some [w3_port])] false).
Proof. vm_compute. repeat split; reflexivity. Qed.
Example np_update_routed_refused : np_refused (mkTx false [] [np_up w3_dev w3_g [53]] false).
Proof. vm_compute. repeat split; reflexivity. Qed.
Example np_delete_through_child_refused : np_refused (mkTx false [] [ODelete w3_gw w3_g] false).
Proof. vm_compute. repeat split; reflexivity. Qed.
Example np_cascade_refused : np_refused (mkTx false [] [ODelete w3_own w3_o] false).
Proof. vm_compute. repeat split; reflexivity. Qed.
Example np_after_prefix_refused : np_refused (mkTx false [] [np_up w3_gw w3_p [54]; np_up w3_gw w3_g [53]] false).
Proof. vm_compute. repeat split; reflexivity. Qed.

(* the hypotheses of system_requires_system_ctx / system_op_refused are met by these operations *)
Example np_targets :
  sys_target c16np_schema w3_dev np_st (np_mk w3_gw [120] [53] true) /\
  sys_target c16np_schema w3_dev np_st (np_up w3_gw w3_g [53]) /\
  sys_target c16np_schema w3_dev np_st (np_up w3_dev w3_g [53]) /\
  sys_target c16np_schema w3_dev np_st (ODelete w3_gw w3_g).
Proof. vm_compute. repeat split; reflexivity. Qed.

(* the parent's unique index is maintained for writes through the bare child store: a duplicate name is refused, the old
   name is released by a rename *)
Example np_parent_index_through_child :
  match run_tx c16np_schema 8 np_st (mkTx false [] [np_up w3_gw w3_p [49]] false) with
  | (rs, committed, _, _) => rs = [Some EDuplicate] /\ committed = false end /\
  match run_tx c16np_schema 8 np_st (mkTx false [] [np_up w3_gw w3_p [54]; np_mk w3_gw [120] [51] false] false) with
  | (rs, committed, _, _) => rs = [None; None] /\ committed = true end.
Proof. vm_compute. repeat split; reflexivity. Qed.

(* the system context still can: update keeps the flag, delete through the bare child store succeeds *)
Example np_system_ctx_ok :
  match run_tx c16np_schema 8 np_st (mkTx true [] [np_up w3_gw w3_g [53]] false) with
  | (rs, committed, st', _) => rs = [None] /\ committed = true /\ get_field c16np_schema st' w3_dev w3_g isSystemF = FBool true /\
                               get_field c16np_schema st' w3_dev w3_g w3_name = FStr [53] end /\
  match run_tx c16np_schema 8 np_st (mkTx true [] [ODelete w3_gw w3_g] false) with
  | (rs, committed, st', _) => rs = [None] /\ committed = true /\ present c16np_schema st' w3_dev w3_g = false end.
Proof. vm_compute. repeat split; reflexivity. Qed.

(* mixed transactions: the caller swallows the refusal of the update through the bare child store and commits - the system
   entity is as before *)
Example np_swallow_commits :
  match run_mtx c16np_schema 8 np_st (mkMtx [] [mkMop false true (np_up w3_gw w3_g [53]); mkMop false false (np_up w3_gw w3_p [54])] false) with
  | (rs, committed, st', _) => rs = [Some EOther; None] /\ committed = true /\
    get_ent st' w3_dev w3_g = get_ent np_st w3_dev w3_g /\ get_field c16np_schema st' w3_dev w3_p w3_name = FStr [54]
  end.
Proof. vm_compute. repeat split; reflexivity. Qed.

(* ---- c16nx: a1 ; system b entities s (with extension data, created through bx) and r (without) ; ordinary q *)
Definition w3_s : id := [115]. Definition w3_r : id := [114]. Definition w3_q : id := [113].
Definition nx_a : op := OCreate w3_a [49] false [(w3_name, Some [120])] [(w3_roles, [])].
Definition nx_mk (through : name) (i nm : str) (sys : bool) : op :=
  OCreate through i sys [(w3_name, Some nm); (w3_a, Some [49]); (w3_code, Some nm); (w3_tag, Some [116])] [].
Definition nx_up (through : name) (i nm : str) : op :=
  OUpdate through i [(w3_name, Some nm); (w3_a, Some [49]); (w3_code, Some nm); (w3_tag, Some [116])] [] None.
Definition nx_st : state :=
  run_txs c16nx_schema 8 st_empty
    [ mkTx true [] [nx_a; nx_mk w3_bx w3_s [49] true; nx_mk w3_b w3_r [50] true; nx_mk w3_bx w3_q [51] false] false ].

Example nx_flags :
  get_field c16nx_schema nx_st w3_b w3_s isSystemF = FBool true /\ get_field c16nx_schema nx_st w3_b w3_r isSystemF = FBool true /\
  get_field c16nx_schema nx_st w3_b w3_q isSystemF = FAbsent.
Proof. vm_compute. repeat split; reflexivity. Qed.

Definition nx_refused (t : tx) : Prop :=
  match run_tx c16nx_schema 8 nx_st t with (rs, committed, st', evs) =>
    committed = false /\ st' = nx_st /\ evs = [] /\ last rs None = Some EOther end.

Example nx_create_through_child_refused : nx_refused (mkTx false [] [nx_mk w3_bx [120] [53] true] false).
Proof. vm_compute. repeat split; reflexivity. Qed.
Example nx_update_through_child_refused : nx_refused (mkTx false [] [nx_up w3_bx w3_s [53]] false).
Proof. vm_compute. repeat split; reflexivity. Qed.
(* the flagged entity WITHOUT extension data: not updatable through bx at all (not found), refused through b *)
Example nx_update_without_ext_data :
  match run_tx c16nx_schema 8 nx_st (mkTx false [] [nx_up w3_bx w3_r [53]] false) with
  | (rs, committed, _, _) => rs = [Some ENotFound] /\ committed = false end /\
  nx_refused (mkTx false [] [nx_up w3_b w3_r [53]] false).
Proof. vm_compute. repeat split; reflexivity. Qed.
Example nx_update_routed_refused : nx_refused (mkTx false [] [nx_up w3_b w3_s [53]] false).
Proof. vm_compute. repeat split; reflexivity. Qed.
Example nx_delete_through_child_refused : nx_refused (mkTx false [] [ODelete w3_bx w3_s] false).
Proof. vm_compute. repeat split; reflexivity. Qed.
Example nx_cascade_refused : nx_refused (mkTx false [] [ODelete w3_a [49]] false).
Proof. vm_compute. repeat split; reflexivity. Qed.
Example nx_targets :
  sys_target c16nx_schema w3_b nx_st (nx_mk w3_bx [120] [53] true) /\
  sys_target c16nx_schema w3_b nx_st (nx_up w3_bx w3_r [53]) /\
  sys_target c16nx_schema w3_b nx_st (ODelete w3_bx w3_s).
Proof. vm_compute. repeat split; reflexivity. Qed.
Example nx_parent_index_through_child :
  match run_tx c16nx_schema 8 nx_st (mkTx false [] [nx_up w3_bx w3_q [49]] false) with
  | (rs, committed, _, _) => rs = [Some EDuplicate] /\ committed = false end.
Proof. vm_compute. repeat split; reflexivity. Qed.
Example nx_ordinary_entity_ok :
  match run_tx c16nx_schema 8 nx_st (mkTx false [] [nx_up w3_bx w3_q [54]; ODelete w3_bx w3_q] false) with
  | (rs, committed, st', _) => rs = [None; None] /\ committed = true /\ present c16nx_schema st' w3_b w3_q = false end.
Proof. vm_compute. repeat split; reflexivity. Qed.
