(* C15, third strengthening (seeded C15-w2-1, C16-w3-3).

   (1) The wirings C15np / C15nx of harness/cmd/storageharness/store_c15w3.go - a parent store carrying unique / nullable
       unique / set / fk indexes (C15nx: inside a cascade-delete chain) whose child store (plain: edge, extended: acx)
       declares NOTHING but fields - as derived by the wiring script; the side conditions of the C15 theorems
       (wf_child_b, wf_unique_b, dw_zone_b) by computation, for them and for idx / casc; the chain of a bare child store
       still runs the parent's constraints: an entity written through it is in the parent's unique and set indexes and
       in the fk back-reference set, a duplicate of a parent value is refused through it.
   (2) DeleteWhere through the stores of a family on concrete mixed populations: through the plain child store only the
       child entity goes although the plain parent satisfies the filter too; the id list of the SAME filter through the
       parent store is a different one (what "hand DeleteWhere over to the parent store" would delete). *)
From Coq Require Import List NArith Bool.
From Storage Require Import Base.Bytes Store.Model Store.UniqueProofs Store.WfSchema Store.ChildProofs Store.XOps
     Store.ChildDeleteWhere Examples.C16Examples Examples.C15Examples.
Import ListNotations.
Open Scope N_scope.

Definition k_site : name := [115;105;116;101].
Definition k_label : name := [108;97;98;101;108].
Definition k_node : name := [110;111;100;101].
Definition k_name : name := [110;97;109;101].
Definition k_alias : name := [97;108;105;97;115].
Definition k_roles : name := [114;111;108;101;115].
Definition k_nodes : name := [110;111;100;101;115].
Definition k_zones : name := [122;111;110;101;115].
Definition k_crew : name := [99;114;101;119].
Definition k_edge : name := [101;100;103;101].
Definition k_port : name := [112;111;114;116].
Definition k_mode : name := [109;111;100;101].
Definition k_grp : name := [103;114;112].
Definition k_acct : name := [97;99;99;116].
Definition k_sub : name := [115;117;98].
Definition k_acx : name := [97;99;120].
Definition k_caps : name := [99;97;112;115].
Definition k_accts : name := [97;99;99;116;115].
Definition k_subs : name := [115;117;98;115].
Definition k_note : name := [110;111;116;101].
Definition k_quota : name := [113;117;111;116;97].
Definition k_plan : name := [112;108;97;110].

(* C15np: site <- node (fk index), link node.zones <-> site.crew ; edge is the plain child store of node *)
Definition c15np_schema : schema :=
  [ mkSdef k_site None false [(k_label, false)] [] [CUnique k_label false; CFkRestrict k_nodes] [(k_crew, k_node, k_zones)];
    mkSdef k_node None false [(k_name, false); (k_alias, true); (k_site, false)] [k_roles]
      [CUnique k_name false; CUnique k_alias true; CSetIdx k_roles; CFkIndex k_site k_site k_nodes false]
      [(k_zones, k_site, k_crew)];
    mkSdef k_edge (Some k_node) false [(k_port, true); (k_mode, false)] [] [] [] ].

(* C15nx: grp <- acct <- sub by cascade-delete fk indexes ; acx is the extended child store of acct *)
Definition c15nx_schema : schema :=
  [ mkSdef k_grp None false [(k_name, false)] [] [CUnique k_name false; CFkCascade k_acct k_grp CascDelete] [];
    mkSdef k_acct None false [(k_name, false); (k_grp, false)] [k_caps]
      [CUnique k_name false; CSetIdx k_caps; CFkIndex k_grp k_grp k_accts false; CFkCascade k_sub k_acct CascDelete] [];
    mkSdef k_sub None false [(k_note, true); (k_acct, false)] [] [CFkIndex k_acct k_acct k_subs false] [];
    mkSdef k_acx (Some k_acct) true [(k_quota, true); (k_plan, false)] [] [] [] ].

(* ---- side conditions of the C15 theorems, by computation *)
Example c15np_child_wf : wf_child_b c15np_schema k_node k_edge = true.
Proof. vm_compute. reflexivity. Qed.
Example c15nx_child_wf : wf_child_b c15nx_schema k_acct k_acx = true.
Proof. vm_compute. reflexivity. Qed.
Example c15np_unique_wf :
  wf_unique_b c15np_schema k_node k_name = true /\ wf_unique_b c15np_schema k_node k_alias = true.
Proof. vm_compute. split; reflexivity. Qed.
Example c15nx_unique_wf : wf_unique_b c15nx_schema k_acct k_name = true.
Proof. vm_compute. reflexivity. Qed.
Example c15_bare_kinds : is_ext c15np_schema k_edge = false /\ is_ext c15nx_schema k_acx = true.
Proof. vm_compute. split; reflexivity. Qed.
Example c15_only_children :
  map sd_name (children_of c15np_schema k_node) = [k_edge] /\ map sd_name (children_of c15nx_schema k_acct) = [k_acx].
Proof. vm_compute. split; reflexivity. Qed.

(* the child stores declare no constraint; their chain is the parent's constraints followed by an empty list *)
Example c15_bare_children :
  cons_of c15np_schema k_edge = [] /\ cons_of c15nx_schema k_acx = [] /\
  chain c15np_schema k_edge = [(k_node, cons_of c15np_schema k_node); (k_edge, [])] /\
  chain c15nx_schema k_acx = [(k_acct, cons_of c15nx_schema k_acct); (k_acx, [])].
Proof. vm_compute. repeat split; reflexivity. Qed.

(* no cascade leads back into the family: the zones of delete_where_spares_the_rest, for all four wirings of the stream *)
Example c15_zones :
  dw_zone_b idx_schema n_emp [n_emp; n_mgr] = true /\
  dw_zone_b casc_schema n_b [n_b; n_bx; n_c] = true /\
  dw_zone_b c15np_schema k_node [k_node; k_edge] = true /\
  dw_zone_b c15nx_schema k_acct [k_acct; k_acx; k_sub] = true.
Proof. vm_compute. repeat split; reflexivity. Qed.
(* ... while from grp the cascade does reach the family of acct: the check refuses that zone *)
Example c15_zone_refused : dw_zone_b c15nx_schema k_acct [k_grp; k_acct; k_acx; k_sub] = false.
Proof. vm_compute. reflexivity. Qed.

(* ---- C15np: site s ; node a (plain parent) ; edge b (created through the bare child store) *)
Definition np_site : op := OCreate k_site [115] false [(k_label, Some [116])] [].
Definition np_mk (through : name) (i nm : str) : op :=
  OCreate through i false [(k_name, Some nm); (k_alias, Some (nm ++ [49])); (k_site, Some [115]); (k_port, Some nm); (k_mode, Some [109])]
          [(k_roles, [[114]])].
Definition np_up (through : name) (i nm : str) : op :=
  OUpdate through i [(k_name, Some nm); (k_alias, None); (k_site, Some [115]); (k_port, Some nm); (k_mode, Some [109])]
          [(k_roles, [])] None.
Definition stn : state :=
  run_txs c15np_schema 8 st_empty [mkTx false [] [np_site; np_mk k_node [97] [120]; np_mk k_edge [98] [121]] false].

(* the entity created through the bare child store is in both stores and in every index of the parent *)
Example bare_child_create_indexed :
  present c15np_schema stn k_node [98] = true /\ present c15np_schema stn k_edge [98] = true /\
  uidx stn k_node k_name = [([120], [97]); ([121], [98])] /\
  uidx stn k_node k_alias = [([120; 49], [97]); ([121; 49], [98])] /\
  sidx stn k_node k_roles = [([114], [[97]; [98]])] /\
  get_set c15np_schema stn k_site [115] k_nodes = [[97]; [98]].
Proof. vm_compute. repeat split; reflexivity. Qed.

(* a duplicate of the plain parent's unique value is refused through the bare child store (create and update) *)
Example bare_child_duplicate_refused :
  match run_tx c15np_schema 8 stn (mkTx false [] [np_mk k_edge [99] [120]] false),
        run_tx c15np_schema 8 stn (mkTx false [] [np_up k_edge [98] [120]] false) with
  | (rs1, c1, _, _), (rs2, c2, _, _) => rs1 = [Some EDuplicate] /\ c1 = false /\ rs2 = [Some EDuplicate] /\ c2 = false
  end.
Proof. vm_compute. repeat split; reflexivity. Qed.

(* an update through the bare child store moves the parent's index entries; a delete through it removes them *)
Example bare_child_update_delete_indexed :
  match run_tx c15np_schema 8 stn (mkTx false [] [np_up k_edge [98] [122]] false),
        run_tx c15np_schema 8 stn (mkTx false [] [ODelete k_edge [98]] false) with
  | (_, c1, st1, _), (_, c2, st2, _) =>
      c1 = true /\ uidx st1 k_node k_name = [([120], [97]); ([122], [98])] /\ uidx st1 k_node k_alias = [([120; 49], [97])] /\
      sidx st1 k_node k_roles = [([114], [[97]])] /\
      c2 = true /\ uidx st2 k_node k_name = [([120], [97])] /\ get_set c15np_schema st2 k_site [115] k_nodes = [[97]] /\
      ids_of st2 k_node = [[97]]
  end.
Proof. vm_compute. repeat split; reflexivity. Qed.

(* ---- C15nx: grp g ; acct a created through the bare extended child store ; acct b plain ; sub s of a *)
Definition nx_mk (through : name) (i nm : str) : op :=
  OCreate through i false [(k_name, Some nm); (k_grp, Some [103]); (k_quota, Some nm); (k_plan, Some [112])] [(k_caps, [[99]])].
Definition stxn : state :=
  run_txs c15nx_schema 8 st_empty
    [mkTx false [] [OCreate k_grp [103] false [(k_name, Some [110])] []; nx_mk k_acx [97] [120]; nx_mk k_acct [98] [121];
                    OCreate k_sub [115] false [(k_note, None); (k_acct, Some [97])] []] false].
Example bare_extended_child_create_indexed :
  present c15nx_schema stxn k_acx [97] = true /\ present c15nx_schema stxn k_acx [98] = false /\
  uidx stxn k_acct k_name = [([120], [97]); ([121], [98])] /\
  sidx stxn k_acct k_caps = [([99], [[97]; [98]])] /\
  get_set c15nx_schema stxn k_grp [103] k_accts = [[97]; [98]].
Proof. vm_compute. repeat split; reflexivity. Qed.

(* ---- DeleteWhere on the mixed population stp of Examples/C15Examples.v: dept d ; emp a (plain parent) ; mgr b - both in dept d *)
Definition by_dept : dwfilter := DwFieldEq n_dept [100].

(* the plain parent a satisfies the filter too - only the store's own query tells it from the child entity *)
Example dw_filter_matches_both :
  dw_matches idx_schema stp n_mgr by_dept [97] = true /\ dw_matches idx_schema stp n_mgr by_dept [98] = true /\
  dw_ids idx_schema stp n_mgr by_dept = [[98]] /\ dw_ids idx_schema stp n_emp by_dept = [[97]; [98]].
Proof. vm_compute. repeat split; reflexivity. Qed.

(* DeleteWhere through the plain child store: the manager goes (both parts, all index entries), the plain employee stays *)
Example dw_through_plain_child :
  match run_xtx idx_schema 8 stp (mkXtx false [] [XDeleteWhere n_mgr by_dept] false) with
  | (rs, committed, st', _) =>
      rs = [None] /\ committed = true /\ ids_of st' n_emp = [[97]] /\ query_ids idx_schema st' n_mgr = [] /\
      uidx st' n_emp n_name = [([120], [97])] /\ uidx st' n_emp n_level = [] /\
      get_field idx_schema st' n_emp [97] n_name = FStr [120]
  end.
Proof. vm_compute. repeat split; reflexivity. Qed.

(* the same filter through the parent store deletes both *)
Example dw_through_parent :
  match run_xtx idx_schema 8 stp (mkXtx false [] [XDeleteWhere n_emp by_dept] false) with
  | (rs, committed, st', _) => rs = [None] /\ committed = true /\ ids_of st' n_emp = []
  end.
Proof. vm_compute. repeat split; reflexivity. Qed.

(* a DeleteWhere that hands the filter over to the PARENT store (the seeded change) is a different operation: on this
   population it deletes the plain employee as well, which delete_where_plain_child_spares_plain_parents excludes *)
Example dw_delegated_to_parent_refuted :
  match run_xtx idx_schema 8 stp (mkXtx false [] [XDeleteWhere n_mgr by_dept] false),
        run_xtx idx_schema 8 stp (mkXtx false [] [XDeleteWhere n_emp by_dept] false) with
  | (_, _, st1, _), (_, _, st2, _) =>
      present idx_schema st1 n_emp [97] = true /\ present idx_schema st2 n_emp [97] = false
  end.
Proof. vm_compute. split; reflexivity. Qed.

(* instance of delete_where_plain_child_spares_plain_parents with every hypothesis discharged *)
Example dw_spares_instance :
  forall st' evs', run_xop idx_schema 8 (mkOctx false []) (stp, []) (XDeleteWhere n_mgr by_dept) = Ok (st', evs') ->
  present idx_schema st' n_emp [97] = true /\ (forall f, get_field idx_schema st' n_emp [97] f = get_field idx_schema stp n_emp [97] f).
Proof.
  intros st' evs' H.
  apply (delete_where_plain_child_spares_plain_parents_closed idx_schema n_emp n_mgr [n_emp; n_mgr] 8 (mkOctx false []) stp [] by_dept st' evs');
    try (vm_compute; reflexivity). exact H.
Qed.

(* through the extended child store (population stx of Examples/C15Examples.v: b-entities 2 with extension data, 3 without;
   both reference a 1): every parent entity that satisfies the filter goes - and a filter on the child's own field sees
   only the entity that has the field *)
Example dw_through_extended_child :
  dw_ids casc_schema stx n_bx (DwFieldEq n_a [49]) = [[50]; [51]] /\
  dw_ids casc_schema stx n_bx (DwFieldEq n_code [121]) = [[50]] /\
  match run_xtx casc_schema 8 stx (mkXtx false [] [XDeleteWhere n_bx (DwFieldEq n_a [49])] false) with
  | (rs, committed, st', _) => rs = [None] /\ committed = true /\ ids_of st' n_b = []
  end.
Proof. vm_compute. repeat split; reflexivity. Qed.
