(* C04, third wave: the harness wirings c04ia / c04ib / c04fa / c04ca / c04ya (harness/cmd/storageharness/store_c04_api.go).

   They are the idx / fkc / casc / cyc wirings - same stores, same wiring script, hence the same derived schema - whose
   fk fields carry attributes of the harness ENTITY STRATEGY only: the FieldChecker of an update knows the field under an
   api name that PersistContext.WithFieldOverrides (or the strategy itself) maps to the storage key, or the strategy
   writes the field whatever the checker says.  The store machine works on storage keys: the harness prints the checker of
   an update as the list of storage keys the strategy writes (always-written fields included), so for the machine these
   are ordinary field-restricted updates and every theorem of Properties/C04.v (all histories, every checker) covers them.
   Checked here by computation: the wf_fk_b / wf_casc_b side conditions of those theorems for every fk edge of the five
   wirings, and the behaviour of the machine the correspondence run compares the real code with on such patches. *)
From Coq Require Import List NArith Bool.
From Storage Require Import Base.Bytes Store.Model Store.FkProofs Store.FkDelete Store.FkWf Examples.C03Examples Examples.C04Examples.
Import ListNotations.
Open Scope N_scope.

Definition c04ia_schema : schema := idx_schema.   (* emp.boss mapped (bossId), emp.dept always written *)
Definition c04ib_schema : schema := idx_schema.   (* emp.boss always written, emp.dept mapped (deptId) *)
Definition c04fa_schema : schema := fkc_schema.   (* emp.boss asked (bossId), emp.dept mapped (deptId), emp.room always written *)
Definition c04ca_schema : schema := casc_schema.  (* b.a mapped (aId), c.b always written, c.a asked (aRef) *)
Definition c04ya_schema : schema := cyc_schema.   (* n.next mapped, p.q always written, q.p asked, leaf.n mapped *)

Example c04ia_edges_wf :
  wf_fk_b c04ia_schema n_emp n_boss n_emp (Some n_reports) && wf_fk_b c04ia_schema n_emp n_deptf n_dept (Some n_members) = true.
Proof. vm_compute. reflexivity. Qed.
Example c04ib_edges_wf :
  wf_fk_b c04ib_schema n_emp n_boss n_emp (Some n_reports) && wf_fk_b c04ib_schema n_emp n_deptf n_dept (Some n_members) = true.
Proof. vm_compute. reflexivity. Qed.
Example c04fa_edges_wf :
  wf_fk_b c04fa_schema n_emp n_boss n_emp None && wf_fk_b c04fa_schema n_emp n_dept n_dept None &&
  wf_fk_b c04fa_schema n_emp n_room n_room None = true.
Proof. vm_compute. reflexivity. Qed.
Example c04ca_edges_wf :
  wf_fk_b c04ca_schema n_b n_a n_a (Some n_bs) && wf_fk_b c04ca_schema n_c n_b n_b (Some n_cs) &&
  wf_fk_b c04ca_schema n_c n_a n_a (Some n_cas) = true.
Proof. vm_compute. reflexivity. Qed.
Example c04ya_edges_wf :
  wf_fk_b c04ya_schema n_n n_next n_n None && wf_fk_b c04ya_schema n_p n_q n_q None && wf_fk_b c04ya_schema n_q n_p n_p None &&
  wf_fk_b c04ya_schema n_leaf n_n n_n (Some n_leaves) = true.
Proof. vm_compute. reflexivity. Qed.
Example c04_api_wirings_wf_casc :
  wf_casc_b c04ia_schema && wf_casc_b c04ib_schema && wf_casc_b c04fa_schema && wf_casc_b c04ca_schema && wf_casc_b c04ya_schema = true.
Proof. vm_compute. reflexivity. Qed.

(* ---- patches of an fk-index field (what the correspondence run demands of the real code) ---- *)
Definition c04w_d1 : id := [100;49].
Definition c04w_d2 : id := [100;50].
Definition c04w_e : id := [101].
Definition c04w_emp (dept : id) (boss : option id) : fieldvals :=
  [(n_name, Some [110;101]); (n_nick, None); (n_boss, boss); (n_deptf, Some dept)].
Definition c04w_st : state :=
  run_txs c04ib_schema 8 st_empty
    [ mkTx false [] [OCreate n_dept c04w_d1 false [(n_title, Some [116;49])] []; OCreate n_dept c04w_d2 false [(n_title, Some [116;50])] [];
                     OCreate n_emp c04w_e false (c04w_emp c04w_d1 None) []] false ].

Example c04w_start : get_set c04ib_schema c04w_st n_dept c04w_d1 n_members = [c04w_e] /\
                     get_set c04ib_schema c04w_st n_dept c04w_d2 n_members = [].
Proof. vm_compute. split; reflexivity. Qed.

(* a patch that selects the fk field re-parents: the back-reference moves with the stored value *)
Example c04w_patch_moves_backref :
  match run_tx c04ib_schema 8 c04w_st (mkTx false [] [OUpdate n_emp c04w_e (c04w_emp c04w_d2 None) [] (Some [n_deptf])] false) with
  | (rs, committed, st', _) =>
      rs = [None] /\ committed = true /\ fv_bytes (get_field c04ib_schema st' n_emp c04w_e n_deptf) = c04w_d2 /\
      get_set c04ib_schema st' n_dept c04w_d1 n_members = [] /\ get_set c04ib_schema st' n_dept c04w_d2 n_members = [c04w_e]
  end.
Proof. vm_compute. repeat split; reflexivity. Qed.

(* ... and afterwards the new target is guarded, the old one is free *)
Example c04w_patch_then_delete :
  match run_tx c04ib_schema 8 c04w_st (mkTx false [] [OUpdate n_emp c04w_e (c04w_emp c04w_d2 None) [] (Some [n_deptf]);
                                                       ODelete n_dept c04w_d1; ODelete n_dept c04w_d2] false) with
  | (rs, committed, _, _) => rs = [None; None; Some ERefExists] /\ committed = false
  end.
Proof. vm_compute. repeat split; reflexivity. Qed.

(* a patch to a missing target is refused *)
Example c04w_patch_missing_target_refused :
  match run_tx c04ib_schema 8 c04w_st (mkTx false [] [OUpdate n_emp c04w_e (c04w_emp [100;120] None) [] (Some [n_deptf])] false) with
  | (rs, committed, st', _) => rs = [Some ENotFound] /\ committed = false /\ st' = c04w_st
  end.
Proof. vm_compute. repeat split; reflexivity. Qed.

(* a patch that does not select the field leaves value and back-references alone, whatever value the entity carries *)
Example c04w_patch_not_selected :
  match run_tx c04ib_schema 8 c04w_st (mkTx false [] [OUpdate n_emp c04w_e (c04w_emp [100;120] None) [] (Some [n_name])] false) with
  | (rs, committed, st', _) =>
      rs = [None] /\ committed = true /\ fv_bytes (get_field c04ib_schema st' n_emp c04w_e n_deptf) = c04w_d1 /\
      get_set c04ib_schema st' n_dept c04w_d1 n_members = [c04w_e]
  end.
Proof. vm_compute. repeat split; reflexivity. Qed.
