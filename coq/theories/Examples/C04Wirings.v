(* C04, third wave: the harness wirings c04ia / c04ib / c04fa / c04ca / c04ya (harness/cmd/storageharness/store_c04_api.go).

   They are the idx / fkc / casc / cyc wirings - same stores, same wiring script, hence the same derived schema - whose
   fk fields carry attributes of the harness ENTITY STRATEGY only: the FieldChecker of an update knows the field under an
   api name that PersistContext.WithFieldOverrides (or the strategy itself) maps to the storage key, or the strategy
   writes the field whatever the checker says.  The store machine works on storage keys: the harness prints the checker of
   an update as the list of storage keys the strategy writes (always-written fields included), so for the machine these
   are ordinary field-restricted updates and every theorem of Properties/C04.v (all histories, every checker) covers them.
   Checked here by computation: the wf_fk_b / wf_casc_b side conditions of those theorems for every fk edge of the five
   wirings, and the behaviour of the machine the correspondence run compares the real code with on such patches. *)
From Coq Require Import List NArith Bool.
From Storage Require Import Base.Bytes Store.Model Store.FrameProofs Store.FkProofs Store.FkDelete Store.FkWf Store.FkChildGuard Store.FkChildCascade Examples.C03Examples Examples.C04Examples.
Import ListNotations.
Open Scope N_scope.

Definition c04ia_schema : schema := idx_schema.   (* emp.boss mapped (bossId), emp.dept always written *)
Definition c04ib_schema : schema := idx_schema.   (* emp.boss always written, emp.dept mapped (deptId) *)
Definition c04fa_schema : schema := fkc_schema.   (* emp.boss asked (bossId), emp.dept mapped (deptId), emp.room always written *)
Definition c04ca_schema : schema := casc_schema.  (* b.a mapped (aId), c.b always written, c.a asked (aRef) *)
Definition c04ya_schema : schema := cyc_schema.   (* n.next mapped, p.q always written, q.p asked, leaf.n mapped *)

Example c04ia_edges_wf :
  wf_fk_b c04ia_schema n_emp n_boss n_emp (Some n_reports) && wf_fk_b c04ia_schema n_emp n_deptf n_dept (Some n_members) = true.
Proof. vm_compute. reflexivity. Qed.
Example c04ib_edges_wf :
  wf_fk_b c04ib_schema n_emp n_boss n_emp (Some n_reports) && wf_fk_b c04ib_schema n_emp n_deptf n_dept (Some n_members) = true.
Proof. vm_compute. reflexivity. Qed.
Example c04fa_edges_wf :
  wf_fk_b c04fa_schema n_emp n_boss n_emp None && wf_fk_b c04fa_schema n_emp n_dept n_dept None &&
  wf_fk_b c04fa_schema n_emp n_room n_room None = true.
Proof. vm_compute. reflexivity. Qed.
Example c04ca_edges_wf :
  wf_fk_b c04ca_schema n_b n_a n_a (Some n_bs) && wf_fk_b c04ca_schema n_c n_b n_b (Some n_cs) &&
  wf_fk_b c04ca_schema n_c n_a n_a (Some n_cas) = true.
Proof. vm_compute. reflexivity. Qed.
Example c04ya_edges_wf :
  wf_fk_b c04ya_schema n_n n_next n_n None && wf_fk_b c04ya_schema n_p n_q n_q None && wf_fk_b c04ya_schema n_q n_p n_p None &&
  wf_fk_b c04ya_schema n_leaf n_n n_n (Some n_leaves) = true.
Proof. vm_compute. reflexivity. Qed.
Example c04_api_wirings_wf_casc :
  wf_casc_b c04ia_schema && wf_casc_b c04ib_schema && wf_casc_b c04fa_schema && wf_casc_b c04ca_schema && wf_casc_b c04ya_schema = true.
Proof. vm_compute. reflexivity. Qed.

(* ---- patches of an fk-index field (what the correspondence run demands of the real code) ---- *)
Definition c04w_d1 : id := [100;49].
Definition c04w_d2 : id := [100;50].
Definition c04w_e : id := [101].
Definition c04w_emp (dept : id) (boss : option id) : fieldvals :=
  [(n_name, Some [110;101]); (n_nick, None); (n_boss, boss); (n_deptf, Some dept)].
Definition c04w_st : state :=
  run_txs c04ib_schema 8 st_empty
    [ mkTx false [] [OCreate n_dept c04w_d1 false [(n_title, Some [116;49])] []; OCreate n_dept c04w_d2 false [(n_title, Some [116;50])] [];
                     OCreate n_emp c04w_e false (c04w_emp c04w_d1 None) []] false ].

Example c04w_start : get_set c04ib_schema c04w_st n_dept c04w_d1 n_members = [c04w_e] /\
                     get_set c04ib_schema c04w_st n_dept c04w_d2 n_members = [].
Proof. vm_compute. split; reflexivity. Qed.

(* a patch that selects the fk field re-parents: the back-reference moves with the stored value *)
Example c04w_patch_moves_backref :
  match run_tx c04ib_schema 8 c04w_st (mkTx false [] [OUpdate n_emp c04w_e (c04w_emp c04w_d2 None) [] (Some [n_deptf])] false) with
  | (rs, committed, st', _) =>
      rs = [None] /\ committed = true /\ fv_bytes (get_field c04ib_schema st' n_emp c04w_e n_deptf) = c04w_d2 /\
      get_set c04ib_schema st' n_dept c04w_d1 n_members = [] /\ get_set c04ib_schema st' n_dept c04w_d2 n_members = [c04w_e]
  end.
Proof. vm_compute. repeat split; reflexivity. Qed.

(* ... and afterwards the new target is guarded, the old one is free *)
Example c04w_patch_then_delete :
  match run_tx c04ib_schema 8 c04w_st (mkTx false [] [OUpdate n_emp c04w_e (c04w_emp c04w_d2 None) [] (Some [n_deptf]);
                                                       ODelete n_dept c04w_d1; ODelete n_dept c04w_d2] false) with
  | (rs, committed, _, _) => rs = [None; None; Some ERefExists] /\ committed = false
  end.
Proof. vm_compute. repeat split; reflexivity. Qed.

(* a patch to a missing target is refused *)
Example c04w_patch_missing_target_refused :
  match run_tx c04ib_schema 8 c04w_st (mkTx false [] [OUpdate n_emp c04w_e (c04w_emp [100;120] None) [] (Some [n_deptf])] false) with
  | (rs, committed, st', _) => rs = [Some ENotFound] /\ committed = false /\ st' = c04w_st
  end.
Proof. vm_compute. repeat split; reflexivity. Qed.

(* a patch that does not select the field leaves value and back-references alone, whatever value the entity carries *)
Example c04w_patch_not_selected :
  match run_tx c04ib_schema 8 c04w_st (mkTx false [] [OUpdate n_emp c04w_e (c04w_emp [100;120] None) [] (Some [n_name])] false) with
  | (rs, committed, st', _) =>
      rs = [None] /\ committed = true /\ fv_bytes (get_field c04ib_schema st' n_emp c04w_e n_deptf) = c04w_d1 /\
      get_set c04ib_schema st' n_dept c04w_d1 n_members = [c04w_e]
  end.
Proof. vm_compute. repeat split; reflexivity. Qed.

(* ================================================================================================================
   C04, fifth wave: fk edges that start or end at a CHILD store (harness/cmd/storageharness/store_c04_child.go).

   The schemas between the two markers are GENERATED from the harness wirings (sub-command c04-coqschema: the derived
   constraint lists exactly as the case texts hand them to the store machine); checks/c04.py regenerates the text on
   every run and compares it with this block, so the computations below are about the wirings the histories run on. *)
(* generated: begin *)
Definition k_name : name := [110;97;109;101].
Definition k_manager : name := [109;97;110;97;103;101;114].
Definition k_mgr : name := [109;103;114].
Definition k_deputy : name := [100;101;112;117;116;121].
Definition k_emp : name := [101;109;112].
Definition k_label : name := [108;97;98;101;108].
Definition k_head : name := [104;101;97;100].
Definition k_heads : name := [104;101;97;100;115].
Definition k_loc : name := [108;111;99].
Definition k_title : name := [116;105;116;108;101].
Definition k_owner : name := [111;119;110;101;114].
Definition k_eng : name := [101;110;103].
Definition k_proj : name := [112;114;111;106].
Definition k_level : name := [108;101;118;101;108].
Definition k_team : name := [116;101;97;109].
Definition k_grade : name := [103;114;97;100;101].
Definition k_lead : name := [108;101;97;100].
Definition k_engs : name := [101;110;103;115].
Definition k_b : name := [98].
Definition k_a : name := [97].
Definition k_bs : name := [98;115].
Definition k_peers : name := [112;101;101;114;115].
Definition k_bx : name := [98;120].
Definition k_bx2 : name := [98;120;50].
Definition k_cs : name := [99;115].
Definition k_c : name := [99].
Definition k_code : name := [99;111;100;101].
Definition k_peer : name := [112;101;101;114].
Definition k_up : name := [117;112].
Definition k_backup : name := [98;97;99;107;117;112].
Definition k_watcher : name := [119;97;116;99;104;101;114].
Definition k_aud : name := [97;117;100].
Definition k_tasks : name := [116;97;115;107;115].
Definition k_task : name := [116;97;115;107].
Definition k_text : name := [116;101;120;116].
Definition k_notes : name := [110;111;116;101;115].
Definition k_note : name := [110;111;116;101].
Definition c04cp_schema : schema :=
  [ mkSdef k_emp None false [(k_name, false); (k_manager, true)] []
      [CFkCons k_manager k_mgr true; CFkCascade k_mgr k_deputy CascNone] [];
    mkSdef k_loc None false [(k_label, false); (k_head, true)] []
      [CFkIndex k_head k_mgr k_heads true] [];
    mkSdef k_proj None false [(k_title, false); (k_owner, true)] []
      [CFkCascade k_eng k_proj CascDelete; CFkCons k_owner k_eng true] [];
    mkSdef k_mgr (Some k_emp) false [(k_level, true); (k_deputy, true)] []
      [CFkCascade k_emp k_manager CascNone; CFkRestrict k_heads; CFkCons k_deputy k_emp true; CFkRestrict k_team; CUnique k_level true] [];
    mkSdef k_eng (Some k_emp) false [(k_grade, true); (k_lead, true); (k_proj, false)] []
      [CFkIndex k_lead k_mgr k_team true; CFkIndex k_proj k_proj k_engs false; CFkCascade k_proj k_owner CascNone] [] ].
Definition c04cx_schema : schema :=
  [ mkSdef k_a None false [(k_name, false)] []
      [CFkCascade k_b k_a CascDelete] [];
    mkSdef k_b None false [(k_name, false); (k_a, false)] []
      [CFkIndex k_a k_a k_bs false; CFkRestrict k_peers] [];
    mkSdef k_c None false [(k_name, true); (k_bx, true); (k_bx2, true)] []
      [CFkCons k_bx k_bx true; CFkIndex k_bx2 k_bx k_cs true] [];
    mkSdef k_bx (Some k_b) true [(k_code, true); (k_peer, true); (k_up, true)] []
      [CFkCascade k_c k_bx CascNone; CFkRestrict k_cs; CFkIndex k_peer k_b k_peers true; CFkCons k_up k_bx true; CFkCascade k_bx k_up CascNone; CUnique k_code true] [] ].
Definition c04cd_schema : schema :=
  [ mkSdef k_emp None false [(k_name, false)] []
      [] [];
    mkSdef k_proj None false [(k_title, false); (k_backup, true); (k_watcher, true)] []
      [CFkCons k_backup k_mgr true; CFkCons k_watcher k_aud true; CFkRestrict k_tasks] [];
    mkSdef k_task None false [(k_name, false); (k_proj, false)] []
      [CFkIndex k_proj k_proj k_tasks false] [];
    mkSdef k_note None false [(k_text, true); (k_mgr, false)] []
      [CFkIndex k_mgr k_mgr k_notes false] [];
    mkSdef k_mgr (Some k_emp) false [(k_level, true)] []
      [CFkCascade k_proj k_backup CascDelete; CFkCascade k_note k_mgr CascDelete] [];
    mkSdef k_aud (Some k_emp) true [(k_code, true)] []
      [CFkCascade k_proj k_watcher CascDelete] [] ].
(* generated: end *)

(* ---- which theorems of Properties/C04.v cover which edge ---- *)
Example c04_child_wirings_stores_wf :
  wf_stores_b c04cp_schema && wf_stores_b c04cx_schema && wf_stores_b c04cd_schema = true.
Proof. vm_compute. reflexivity. Qed.

(* edges between root stores: the invariant theorems (fk_target_exists, backrefs_exact, ...) apply as they stand *)
Example c04_child_wirings_root_edges_wf :
  wf_fk_b c04cx_schema k_b k_a k_a (Some k_bs) && wf_fk_b c04cd_schema k_task k_proj k_proj (Some k_tasks) = true.
Proof. vm_compute. reflexivity. Qed.

(* cascading deletes on root stores only: C04cp (eng.proj -> proj cascades from the root store proj) and C04cx;
   C04cd wires cascading guards on the child stores mgr / aud: delete_cascade_exact does not apply there,
   delete_cascade_exact_any does (it needs wf_stores_b only) *)
Example c04_child_wirings_wf_casc :
  wf_casc_b c04cp_schema = true /\ wf_casc_b c04cx_schema = true /\ wf_casc_b c04cd_schema = false.
Proof. vm_compute. repeat split; reflexivity. Qed.

(* NOT covered by the invariant theorems: wf_fk_b demands root stores at both ends of an edge.  For the twelve edges
   below "targets exist / back-references exact" is checked by the correspondence run and by the oracle on the
   implementation's facts only; what IS proved about them for every state is the delete side: delete_child_guard_refused
   (instances below) and delete_cascade_exact_any. *)
Example c04_child_edges_outside_wf_fk :
  wf_fk_b c04cp_schema k_emp k_manager k_mgr None || wf_fk_b c04cp_schema k_loc k_head k_mgr (Some k_heads) ||
  wf_fk_b c04cp_schema k_mgr k_deputy k_emp None || wf_fk_b c04cp_schema k_eng k_lead k_mgr (Some k_team) ||
  wf_fk_b c04cp_schema k_eng k_proj k_proj (Some k_engs) || wf_fk_b c04cp_schema k_proj k_owner k_eng None ||
  wf_fk_b c04cx_schema k_c k_bx k_bx None || wf_fk_b c04cx_schema k_c k_bx2 k_bx (Some k_cs) ||
  wf_fk_b c04cx_schema k_bx k_peer k_b (Some k_peers) || wf_fk_b c04cx_schema k_bx k_up k_bx None ||
  wf_fk_b c04cd_schema k_proj k_backup k_mgr None || wf_fk_b c04cd_schema k_proj k_watcher k_aud None ||
  wf_fk_b c04cd_schema k_note k_mgr k_mgr (Some k_notes) = false.
Proof. vm_compute. reflexivity. Qed.

(* ---- delete_child_guard_refused applies to every restricting guard that sits on a child store ---- *)
Lemma c04_child_guard_applies sch r0 cd before after pre post k :
  wf_stores_b sch = true -> children_of sch r0 = before ++ cd :: after -> cons_of sch (sd_name cd) = pre ++ k :: post ->
  quiet (cons_of sch r0) = true -> forallb (fun d => quiet (cons_of sch (sd_name d))) before = true -> quiet pre = true ->
  forall oc n st evs s0 x, root_of sch s0 = r0 -> loadable sch st (sd_name cd) x = true -> guard_fires sch st (sd_name cd) x k ->
    exists e, delete_by_id sch oc (S n) (st, evs) s0 x = Err e.
Proof.
  intros Hwf Hsplit Hcons Hqr Hqb Hqp oc n st evs s0 x Hr Hl Hg.
  apply (delete_child_guard_refused_lemma sch oc n st evs s0 x cd before after pre post k Hwf); rewrite ?Hr; try assumption.
  rewrite forallb_forall in Hqb. exact Hqb.
Qed.

Definition c04_nosd : sdef := mkSdef [] None false [] [] [] [].
Definition c04cp_mgr : sdef := nth 3 c04cp_schema c04_nosd.
Definition c04cp_eng : sdef := nth 4 c04cp_schema c04_nosd.
Definition c04cx_bx : sdef := nth 3 c04cx_schema c04_nosd.

(* emp.manager -> mgr (fk constraint, restrict): the guard is the first hook of the child store mgr *)
Example c04cp_guard_manager : forall oc n st evs s0 x,
  root_of c04cp_schema s0 = k_emp -> loadable c04cp_schema st k_mgr x = true ->
  (exists j, casc_matches c04cp_schema k_emp k_manager x st j = true) ->
  exists e, delete_by_id c04cp_schema oc (S n) (st, evs) s0 x = Err e.
Proof.
  exact (c04_child_guard_applies c04cp_schema k_emp c04cp_mgr [] [c04cp_eng] [] _ (CFkCascade k_emp k_manager CascNone)
           eq_refl eq_refl eq_refl eq_refl eq_refl eq_refl).
Qed.

(* loc.head -> mgr and eng.lead -> mgr (fk indexes): the back-reference sets heads / team are guarded on mgr *)
Example c04cp_guard_heads : forall oc n st evs s0 x,
  root_of c04cp_schema s0 = k_emp -> loadable c04cp_schema st k_mgr x = true ->
  (exists j, j <> x /\ In j (get_set c04cp_schema st k_mgr x k_heads)) ->
  exists e, delete_by_id c04cp_schema oc (S n) (st, evs) s0 x = Err e.
Proof.
  exact (c04_child_guard_applies c04cp_schema k_emp c04cp_mgr [] [c04cp_eng] [CFkCascade k_emp k_manager CascNone] _ (CFkRestrict k_heads)
           eq_refl eq_refl eq_refl eq_refl eq_refl eq_refl).
Qed.
Example c04cp_guard_team : forall oc n st evs s0 x,
  root_of c04cp_schema s0 = k_emp -> loadable c04cp_schema st k_mgr x = true ->
  (exists j, j <> x /\ In j (get_set c04cp_schema st k_mgr x k_team)) ->
  exists e, delete_by_id c04cp_schema oc (S n) (st, evs) s0 x = Err e.
Proof.
  exact (c04_child_guard_applies c04cp_schema k_emp c04cp_mgr [] [c04cp_eng]
           [CFkCascade k_emp k_manager CascNone; CFkRestrict k_heads; CFkCons k_deputy k_emp true] _ (CFkRestrict k_team)
           eq_refl eq_refl eq_refl eq_refl eq_refl eq_refl).
Qed.

(* proj.owner -> eng: the guard sits on the SECOND child store; the hooks of mgr run before it *)
Example c04cp_guard_owner : forall oc n st evs s0 x,
  root_of c04cp_schema s0 = k_emp -> loadable c04cp_schema st k_eng x = true ->
  (exists j, casc_matches c04cp_schema k_proj k_owner x st j = true) ->
  exists e, delete_by_id c04cp_schema oc (S n) (st, evs) s0 x = Err e.
Proof.
  exact (c04_child_guard_applies c04cp_schema k_emp c04cp_eng [c04cp_mgr] []
           [CFkIndex k_lead k_mgr k_team true; CFkIndex k_proj k_proj k_engs false] _ (CFkCascade k_proj k_owner CascNone)
           eq_refl eq_refl eq_refl eq_refl eq_refl eq_refl).
Qed.

(* the extended child store bx of b: c.bx -> bx (fk constraint), c.bx2 -> bx (fk index), bx.up -> bx (child -> itself) *)
Example c04cx_guard_bx : forall oc n st evs s0 x,
  root_of c04cx_schema s0 = k_b -> loadable c04cx_schema st k_bx x = true ->
  (exists j, casc_matches c04cx_schema k_c k_bx x st j = true) ->
  exists e, delete_by_id c04cx_schema oc (S n) (st, evs) s0 x = Err e.
Proof.
  exact (c04_child_guard_applies c04cx_schema k_b c04cx_bx [] [] [] _ (CFkCascade k_c k_bx CascNone)
           eq_refl eq_refl eq_refl eq_refl eq_refl eq_refl).
Qed.
Example c04cx_guard_cs : forall oc n st evs s0 x,
  root_of c04cx_schema s0 = k_b -> loadable c04cx_schema st k_bx x = true ->
  (exists j, j <> x /\ In j (get_set c04cx_schema st k_bx x k_cs)) ->
  exists e, delete_by_id c04cx_schema oc (S n) (st, evs) s0 x = Err e.
Proof.
  exact (c04_child_guard_applies c04cx_schema k_b c04cx_bx [] [] [CFkCascade k_c k_bx CascNone] _ (CFkRestrict k_cs)
           eq_refl eq_refl eq_refl eq_refl eq_refl eq_refl).
Qed.
Example c04cx_guard_up : forall oc n st evs s0 x,
  root_of c04cx_schema s0 = k_b -> loadable c04cx_schema st k_bx x = true ->
  (exists j, casc_matches c04cx_schema k_bx k_up x st j = true) ->
  exists e, delete_by_id c04cx_schema oc (S n) (st, evs) s0 x = Err e.
Proof.
  exact (c04_child_guard_applies c04cx_schema k_b c04cx_bx [] []
           [CFkCascade k_c k_bx CascNone; CFkRestrict k_cs; CFkIndex k_peer k_b k_peers true; CFkCons k_up k_bx true] _
           (CFkCascade k_bx k_up CascNone) eq_refl eq_refl eq_refl eq_refl eq_refl eq_refl).
Qed.

(* ---- the machine on these wirings (what the correspondence run demands of the real code) ---- *)
Definition c04k_m1 : id := [109;49].
Definition c04k_m2 : id := [109;50].
Definition c04k_e1 : id := [101;49].
Definition c04k_l1 : id := [108;49].
Definition c04k_p1 : id := [112;49].
Definition c04k_t1 : id := [116;49].
Definition c04k_o1 : id := [111;49].
Definition c04k_nm : str := [110].

Definition c04cp_mk_mgr (i : id) : op :=
  OCreate k_mgr i false [(k_name, Some c04k_nm); (k_manager, None); (k_level, None); (k_deputy, None)] [].
Definition c04cp_mk_emp (i : id) (manager : option id) : op :=
  OCreate k_emp i false [(k_name, Some c04k_nm); (k_manager, manager)] [].
Definition c04cp_st : state :=
  run_txs c04cp_schema 8 st_empty
    [ mkTx false [] [c04cp_mk_mgr c04k_m1; c04cp_mk_mgr c04k_m2; c04cp_mk_emp c04k_e1 (Some c04k_m1);
                     OCreate k_loc c04k_l1 false [(k_label, Some c04k_nm); (k_head, Some c04k_m1)] []] false ].

Example c04cp_start :
  present c04cp_schema c04cp_st k_mgr c04k_m1 = true /\ present c04cp_schema c04cp_st k_mgr c04k_e1 = false /\
  get_field c04cp_schema c04cp_st k_emp c04k_e1 k_manager = FStr c04k_m1 /\
  get_set c04cp_schema c04cp_st k_mgr c04k_m1 k_heads = [c04k_l1].
Proof. vm_compute. repeat split; reflexivity. Qed.

(* the hypotheses of c04cp_guard_manager / c04cp_guard_heads are met in this state (non-vacuity) *)
Example c04cp_guards_fire :
  loadable c04cp_schema c04cp_st k_mgr c04k_m1 = true /\
  casc_matches c04cp_schema k_emp k_manager c04k_m1 c04cp_st c04k_e1 = true /\
  (c04k_l1 <> c04k_m1 /\ In c04k_l1 (get_set c04cp_schema c04cp_st k_mgr c04k_m1 k_heads)).
Proof. vm_compute. repeat split; try reflexivity; [discriminate | left; reflexivity]. Qed.

(* deleting the referenced manager - through the parent store or through the child store - is refused with
   ReferenceExists and changes nothing (the case seeded/C04-w5-1 breaks) *)
Example c04cp_delete_referenced_manager_refused :
  run_tx c04cp_schema 8 c04cp_st (mkTx false [] [ODelete k_emp c04k_m1] false) = ([Some ERefExists], false, c04cp_st, []) /\
  run_tx c04cp_schema 8 c04cp_st (mkTx false [] [ODelete k_mgr c04k_m1] false) = ([Some ERefExists], false, c04cp_st, []).
Proof. vm_compute. split; reflexivity. Qed.

(* an unreferenced manager can be deleted; once the references are released the first one can, too *)
Example c04cp_delete_after_release :
  match run_tx c04cp_schema 8 c04cp_st (mkTx false [] [ODelete k_emp c04k_m2;
          OUpdate k_emp c04k_e1 [(k_name, Some c04k_nm); (k_manager, None)] [] (Some [k_manager]);
          OUpdate k_loc c04k_l1 [(k_label, Some c04k_nm); (k_head, Some c04k_m1)] [] (Some [k_label]);
          ODelete k_mgr c04k_m1] false) with
  | (rs, committed, _, _) => rs = [None; None; None; Some ERefExists] /\ committed = false
  end /\
  match run_tx c04cp_schema 8 c04cp_st (mkTx false [] [
          OUpdate k_emp c04k_e1 [(k_name, Some c04k_nm); (k_manager, None)] [] (Some [k_manager]);
          OUpdate k_loc c04k_l1 [(k_label, Some c04k_nm); (k_head, None)] [] (Some [k_head]);
          ODelete k_mgr c04k_m1] false) with
  | (rs, committed, st', _) => rs = [None; None; None] /\ committed = true /\ get_ent st' k_emp c04k_m1 = None /\
                               present c04cp_schema st' k_emp c04k_e1 = true
  end.
Proof. vm_compute. repeat split; reflexivity. Qed.

(* the target of emp.manager must be a MANAGER: an employee without data in the child store is not a target *)
Example c04cp_reference_to_non_manager_refused :
  run_tx c04cp_schema 8 c04cp_st (mkTx false [] [c04cp_mk_emp [101;50] (Some c04k_e1)] false) = ([Some ENotFound], false, c04cp_st, []) /\
  run_tx c04cp_schema 8 c04cp_st (mkTx false [] [OUpdate k_loc c04k_l1 [(k_label, Some c04k_nm); (k_head, Some c04k_e1)] [] None] false)
    = ([Some ENotFound], false, c04cp_st, []).
Proof. vm_compute. split; reflexivity. Qed.

(* C04cd: the cascading guards of the child store mgr *)
Definition c04cd_st (with_task : bool) : state :=
  run_txs c04cd_schema 8 st_empty
    [ mkTx false [] ([OCreate k_mgr c04k_m1 false [(k_name, Some c04k_nm); (k_level, None)] [];
                      OCreate k_emp c04k_e1 false [(k_name, Some c04k_nm)] [];
                      OCreate k_proj c04k_p1 false [(k_title, Some c04k_nm); (k_backup, Some c04k_m1); (k_watcher, None)] [];
                      OCreate k_note c04k_o1 false [(k_text, None); (k_mgr, Some c04k_m1)] []] ++
                     (if with_task then [OCreate k_task c04k_t1 false [(k_name, Some c04k_nm); (k_proj, Some c04k_p1)] []] else [])) false ].

(* the cascade from the manager removes exactly the project backed up by it and its note *)
Example c04cd_cascade_exact :
  match run_tx c04cd_schema 8 (c04cd_st false) (mkTx false [] [ODelete k_emp c04k_m1] false) with
  | (rs, committed, st', _) => rs = [None] /\ committed = true /\
      ids_of st' k_emp = [c04k_e1] /\ ids_of st' k_proj = [] /\ ids_of st' k_note = []
  end.
Proof. vm_compute. repeat split; reflexivity. Qed.

(* ... and is refused as a whole, leaving everything in place, when the project is still referenced by a task *)
Example c04cd_cascade_refused_half_way :
  run_tx c04cd_schema 8 (c04cd_st true) (mkTx false [] [ODelete k_mgr c04k_m1] false) = ([Some ERefExists], false, c04cd_st true, []).
Proof. vm_compute. reflexivity. Qed.

(* reachability of delete_cascade_exact_any in that state: the project is reached through the list of the child store *)
Example c04cd_reachc_project : reachc c04cd_schema (c04cd_st false) (k_emp, c04k_m1) (k_proj, c04k_p1).
Proof.
  apply (reachc_step c04cd_schema (c04cd_st false) (k_emp, c04k_m1) k_emp c04k_m1 k_mgr k_proj k_backup c04k_p1).
  - apply reachc_refl.
  - right. exists (nth 4 c04cd_schema c04_nosd). vm_compute. repeat split; try reflexivity. left. reflexivity.
  - vm_compute. left. reflexivity.
  - vm_compute. reflexivity.
Qed.
