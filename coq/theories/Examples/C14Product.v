(* C14 - several cursors alive at once (Cursor/Product.v): non-vacuity examples for the product theorems of
   Properties/C14.v and the refutation of the seeded shape "one runtime object behind every hand-out of a set symbol". *)
From Coq Require Import List NArith Bool Arith.
From Storage Require Import Base.Bytes Cursor.StrOrder Cursor.Core Cursor.SetSym Cursor.Cases Cursor.Product.
Import ListNotations.
Open Scope nat_scope.

Definition p_tag : byte := 5%N.
Definition p_a : str := [97%N].
Definition p_ab : str := [97%N; 98%N].
Definition p_b : str := [98%N].
Definition p_c : str := [99%N].

(* a merge join over the role sets of two entities: {a, b} and {ab, c}, strictly alternating turns *)
Example two_setsym_cursors_alternate :
  multi_run p_tag [(DSetsym (Some [p_a; p_b]), [CNext; CNext]); (DSetsym (Some [p_ab; p_c]), [CNext; CNext])] [0; 1; 0; 1; 0; 1]
  = [[Some (OCur p_a); None];
     [Some (OCur p_a); Some (OCur p_ab)];
     [Some (OCur p_b); Some (OCur p_ab)];
     [Some (OCur p_b); Some (OCur p_c)];
     [Some OInvalid; Some (OCur p_c)];
     [Some OInvalid; Some OInvalid]].
Proof. vm_compute. reflexivity. Qed.

Example two_setsym_cursors_alternate_is_the_spec :
  multi_spec [(DSetsym (Some [p_a; p_b]), [CNext; CNext]); (DSetsym (Some [p_ab; p_c]), [CNext; CNext])] [0; 1; 0; 1; 0; 1]
  = multi_run p_tag [(DSetsym (Some [p_a; p_b]), [CNext; CNext]); (DSetsym (Some [p_ab; p_c]), [CNext; CNext])] [0; 1; 0; 1; 0; 1].
Proof. vm_compute. reflexivity. Qed.

(* the same row twice, a reverse index value cursor and a tree cursor next to them, seeks in between *)
Example mixed_family :
  multi_run p_tag [(DSetsym (Some [p_a; p_b]), [CSeek p_ab; CNext]);
                   (DSetsym (Some [p_a; p_b]), [CNext]);
                   (DHandout false (Some [p_a; p_ab; p_b]), [CSeek p_ab; CNext]);
                   (DTree true [p_c; p_a], [CNext; CNext])] [0; 1; 2; 3; 2; 0; 3; 1; 0; 2; 3; 3]
  = multi_spec [(DSetsym (Some [p_a; p_b]), [CSeek p_ab; CNext]);
                (DSetsym (Some [p_a; p_b]), [CNext]);
                (DHandout false (Some [p_a; p_ab; p_b]), [CSeek p_ab; CNext]);
                (DTree true [p_c; p_a], [CNext; CNext])] [0; 1; 2; 3; 2; 0; 3; 1; 0; 2; 3; 3].
Proof. vm_compute. reflexivity. Qed.

Example mixed_family_is_ok :
  Forall (fun p => desc_ok (fst p) (snd p))
    [(DSetsym (Some [p_a; p_b]), [CSeek p_ab; CNext]); (DTree true [p_c; p_a], [CNext; CNext])].
Proof. repeat constructor. Qed.

(* the seeded shape: GetRuntimeSymbol memoised - every OpenCursor re-points the ONE runtime object.
   Cursor #0 on {a}, cursor #1 on {b}: after the second constructor cursor #0 shows b. *)
Example shared_runtime_refuted_minimal :
  multi_run_shared p_tag [(Some [p_a], []); (Some [p_b], [])] [0; 1]
  = [[Some (OCur p_a); None]; [Some (OCur p_b); Some (OCur p_b)]]
  /\ multi_run p_tag [(DSetsym (Some [p_a]), []); (DSetsym (Some [p_b]), [])] [0; 1]
  = [[Some (OCur p_a); None]; [Some (OCur p_a); Some (OCur p_b)]].
Proof. split; vm_compute; reflexivity. Qed.

(* the same row twice: the Next of one cursor is a Next of the other, the elements are split between them *)
Example shared_runtime_refuted_same_row :
  multi_run_shared p_tag [(Some [p_a; p_b], [CNext]); (Some [p_a; p_b], [CNext])] [0; 1; 0; 1]
  = [[Some (OCur p_a); None]; [Some (OCur p_a); Some (OCur p_a)]; [Some (OCur p_b); Some (OCur p_b)]; [Some OInvalid; Some OInvalid]]
  /\ multi_run p_tag [(DSetsym (Some [p_a; p_b]), [CNext]); (DSetsym (Some [p_a; p_b]), [CNext])] [0; 1; 0; 1]
  = [[Some (OCur p_a); None]; [Some (OCur p_a); Some (OCur p_a)]; [Some (OCur p_b); Some (OCur p_a)]; [Some (OCur p_b); Some (OCur p_b)]].
Proof. split; vm_compute; reflexivity. Qed.
