(* C15, seventh strengthening (seeded C15-w7-1, C15-w7-2).

   (1) The wirings C15lp / C15lx / C15lm of harness/cmd/storageharness/store_c15w7.go - a parent store p that declares a link
       collection to the peer store site AND a self link collection p.friends <-> p.fans, with a plain child store pc, an
       extended child store px, both - as derived by the wiring script; the side conditions of the C15 theorems
       (wf_child_b for every child store, wf_unique_b, wf_notrace_b of delete_removes_link_mentions) by computation.
   (2) A mixed population in C15lm, the pc-entity b linked to a site and to the plain parent a: a delete of b through the
       parent, through pc and through the OTHER child store px removes b from site.crew and from a.fans; keeping the link
       cleanup of the parent level out of the delete of an entity with child data leaves both mentions (refuted).
   (3) Queries over a supplied cursor: over the candidates [a; b; c] (set-index cursor of a role all three hold) the plain
       child store pc returns b alone and counts 1, the extended child store and the parent return all three; the loop
       without the child test in the row loop returns the plain parents too (refuted). *)
From Coq Require Import List NArith Bool.
From Storage Require Import Base.Bytes Store.Model Store.UniqueProofs Store.WfSchema Store.ChildProofs Store.NoTrace
     Store.Paging Store.PagingCursor Store.PagingCursorProofs Store.ChildLinks.
Import ListNotations.
Open Scope N_scope.

Definition l_site : name := [115;105;116;101].
Definition l_label : name := [108;97;98;101;108].
Definition l_p : name := [112].
Definition l_name : name := [110;97;109;101].
Definition l_grp : name := [103;114;112].
Definition l_roles : name := [114;111;108;101;115].
Definition l_sites : name := [115;105;116;101;115].
Definition l_crew : name := [99;114;101;119].
Definition l_friends : name := [102;114;105;101;110;100;115].
Definition l_fans : name := [102;97;110;115].
Definition l_px : name := [112;120].
Definition l_xcode : name := [120;99;111;100;101].
Definition l_pc : name := [112;99].
Definition l_ckey : name := [99;107;101;121].
Definition l_cnote : name := [99;110;111;116;101].

Definition dl_site : sdef := mkSdef l_site None false [(l_label, false)] [] [CUnique l_label false] [(l_crew, l_p, l_sites)].
Definition dl_p : sdef :=
  mkSdef l_p None false [(l_name, false); (l_grp, true)] [l_roles] [CUnique l_name false; CSetIdx l_roles]
    [(l_sites, l_site, l_crew); (l_friends, l_p, l_fans); (l_fans, l_p, l_friends)].
Definition dl_px : sdef := mkSdef l_px (Some l_p) true [(l_xcode, true)] [] [CUnique l_xcode true] [].
Definition dl_pc : sdef := mkSdef l_pc (Some l_p) false [(l_ckey, true); (l_cnote, false)] [] [CUnique l_ckey true] [].

Definition lp_schema : schema := [dl_site; dl_p; dl_pc].
Definition lx_schema : schema := [dl_site; dl_p; dl_px].
Definition lm_schema : schema := [dl_site; dl_p; dl_px; dl_pc].

Example linked_child_wf :
  wf_child_b lp_schema l_p l_pc = true /\ wf_child_b lx_schema l_p l_px = true /\
  wf_child_b lm_schema l_p l_px = true /\ wf_child_b lm_schema l_p l_pc = true.
Proof. vm_compute. repeat split; reflexivity. Qed.
Example linked_unique_wf :
  wf_unique_b lp_schema l_p l_name = true /\ wf_unique_b lx_schema l_p l_name = true /\ wf_unique_b lm_schema l_p l_name = true.
Proof. vm_compute. repeat split; reflexivity. Qed.
Example linked_notrace_wf :
  wf_notrace_b lp_schema = true /\ wf_notrace_b lx_schema = true /\ wf_notrace_b lm_schema = true.
Proof. vm_compute. repeat split; reflexivity. Qed.

(* ---- C15lm: site s ; p a = plain parent ; b created through the PLAIN child store pc ; c through the EXTENDED px ;
   b.sites = [s] (so s.crew = [b]) ; b.friends = [a] (so a.fans = [b]) *)
Definition lk_mk (through : name) (i nm : str) : op :=
  OCreate through i false
    [(l_name, Some nm); (l_grp, Some [103]); (l_xcode, Some (nm ++ [120])); (l_ckey, Some (nm ++ [107])); (l_cnote, Some [110])]
    [(l_roles, [[114]])].
Definition lk_pop : list tx :=
  [ mkTx false [] [OCreate l_site [115] false [(l_label, Some [108])] [];
                   lk_mk l_p [97] [49]; lk_mk l_pc [98] [50]; lk_mk l_px [99] [51];
                   OAddLinks l_p [98] l_sites [[115]]; OAddLinks l_p [98] l_friends [[97]]] false ].
Definition stl : state := run_txs lm_schema 8 st_empty lk_pop.

Example linked_population :
  ids_of stl l_p = [[97]; [98]; [99]] /\
  present lm_schema stl l_pc [98] = true /\ present lm_schema stl l_pc [97] = false /\ present lm_schema stl l_px [99] = true /\
  get_set lm_schema stl l_site [115] l_crew = [[98]] /\ get_set lm_schema stl l_p [97] l_fans = [[98]] /\
  get_set lm_schema stl l_p [98] l_sites = [[115]] /\ get_set lm_schema stl l_p [98] l_friends = [[97]].
Proof. vm_compute. repeat split; reflexivity. Qed.

Definition lk_oc : octx := mkOctx false [].
Definition after_delete (through : name) : option state :=
  match delete_by_id lm_schema lk_oc 8 (stl, []) through [98] with Ok (st', _) => Some st' | Err _ => None end.

(* deleting b through the parent, through its own child store and through the OTHER child store: one result, both parts and
   every mention on the peers gone *)
Example delete_linked_child_entity :
  forall through, In through [l_p; l_pc; l_px] ->
  match after_delete through with
  | Some st' => present lm_schema st' l_p [98] = false /\ present lm_schema st' l_pc [98] = false /\
                get_set lm_schema st' l_site [115] l_crew = [] /\ get_set lm_schema st' l_p [97] l_fans = [] /\
                ids_of st' l_p = [[97]; [99]]
  | None => False
  end.
Proof.
  intros through [H|[H|[H|[]]]]; subst through; vm_compute; repeat split; reflexivity.
Qed.

(* the hypotheses of delete_removes_link_mentions, discharged for this delete *)
Example delete_removes_link_mentions_instance :
  forall st' evs', delete_by_id lm_schema lk_oc 8 (run_txs lm_schema 8 st_empty lk_pop, []) l_pc [98] = Ok (st', evs') ->
  ~ In [98] (eset st' (root_of lm_schema l_site) [115] l_crew) /\ ~ In [98] (eset st' (root_of lm_schema l_p) [97] l_fans).
Proof.
  intros st' evs' H.
  destruct (delete_removes_link_mentions_closed lm_schema 8 lk_pop lk_oc 8 [] l_p l_pc l_pc [98] st' evs'
              (proj2 (proj2 linked_notrace_wf)) (proj2 (proj2 (proj2 linked_child_wf))) eq_refl H) as [_ Hm].
  split.
  - apply (Hm l_site l_crew l_p l_sites [115]); [vm_compute; left; reflexivity|reflexivity].
  - apply (Hm l_p l_fans l_p l_friends [97]); [vm_compute; right; right; left; reflexivity|reflexivity].
Qed.

(* the delete of an entity WITH child data that runs the child stores' delete work and the parent's index constraints but not
   the parent's link cleanup (what remains when the parent level only "builds its change flow"): both mentions stay *)
Definition delete_without_parent_link_cleanup (st : state) (x : id) : state := del_ent st l_p x.
Example parent_link_cleanup_skipped_refuted :
  let st' := delete_without_parent_link_cleanup stl [98] in
  present lm_schema st' l_p [98] = false /\
  get_set lm_schema st' l_site [115] l_crew = [[98]] /\ get_set lm_schema st' l_p [97] l_fans = [[98]].
Proof. vm_compute. repeat split; reflexivity. Qed.

(* ---- queries over a supplied cursor: candidates = the cursor of the parent's set index under the role r (all three) *)
Definition lk_cands : list id := cands_set_all lm_schema stl l_p l_roles [[114]].
Example cursor_candidates : lk_cands = [[97]; [98]; [99]] /\ cands_set_any lm_schema stl l_p l_roles [[114]; [120]] = [[97]; [98]; [99]].
Proof. vm_compute. split; reflexivity. Qed.

Example cursor_query_through_family :
  unsorted_scan_over lm_schema stl l_pc QTrue 0 None lk_cands = ([[98]], 1%nat) /\
  unsorted_scan_over lm_schema stl l_px QTrue 0 None lk_cands = ([[97]; [98]; [99]], 3%nat) /\
  unsorted_scan_over lm_schema stl l_p QTrue 0 None lk_cands = ([[97]; [98]; [99]], 3%nat) /\
  unsorted_scan_over lm_schema stl l_pc QTrue 0 (Some 1%nat) lk_cands = ([[98]], 1%nat) /\
  unsorted_scan_over lm_schema stl l_pc (QFieldEq l_grp [103]) 1 (Some 1%nat) lk_cands = ([], 1%nat) /\
  sorting_scan_over lm_schema stl l_pc QTrue l_name true 0 (Some 1%nat) lk_cands = ([[98]], 1%nat).
Proof. vm_compute. repeat split; reflexivity. Qed.

(* the child test moved out of the row loop: the plain child store returns and counts the plain parents *)
Example cursor_query_unfiltered_refuted :
  unsorted_scan_over_unfiltered lm_schema stl l_pc QTrue 0 None lk_cands = ([[97]; [98]; [99]], 3%nat) /\
  unsorted_scan_over_unfiltered lm_schema stl l_pc QTrue 0 None lk_cands <> unsorted_scan_over lm_schema stl l_pc QTrue 0 None lk_cands.
Proof. vm_compute. split; [reflexivity|discriminate]. Qed.

(* the hypotheses of child_cursor_query_only_children, discharged; its plain-child clause at this population *)
Example cursor_query_only_children_instance :
  forall i, In i (fst (cursor_query_page lm_schema stl l_pc QTrue None 0%nat None lk_cands)) ->
  In i lk_cands /\ present lm_schema stl l_pc i = true.
Proof.
  intros i Hi.
  destruct (child_cursor_query_only_children_closed lm_schema l_p l_pc stl QTrue None 0%nat None lk_cands
              (proj2 (proj2 (proj2 linked_child_wf)))) as [Hp _].
  destruct (Hp eq_refl) as [H _]. destruct (H i Hi) as [A [B _]]. split; assumption.
Qed.
