(* C08, fifth strengthening: how callers hand the additional change types to Add*Listener (Store/EventsReg.v).
   Non-vacuity of Properties/C08.v registration_types_fixed on the caller programs the harness runs (REGS tokens with
   a fourth field, harness/cmd/storageharness/store_c08_regpass.go), and the refuted variant: the registration expression
   append(changeTypes, changeType) keeps the caller's array. *)
From Coq Require Import List Bool Arith NArith.
From Storage Require Import Base.Bytes Store.Model Store.Events Store.EventsMulti Store.EventsReg Store.EventRegProofs.
Import ListNotations.

(* extra := make([]EntityEventType, 0, 4); extra = append(extra, EntityUpdated)
   store.AddListener(l0, EntityCreated, extra...); store.AddListener(l1, EntityDeleted, extra...)
   (the cells beyond the length hold the zero value, which is no change type: any content) *)
Definition shared_buf : gslice := mkSlice 0 0 1 4.
Definition shared_prog : list caction :=
  [CMake [EUpdated; EUpdated; EUpdated; EUpdated]; CRegister ECreated shared_buf; CRegister EDeleted shared_buf].

Example shared_slice_pinned :
  reg_types (run_caller (reg_pinned []) (heap_empty, []) shared_prog) = [[ECreated; EUpdated]; [EDeleted; EUpdated]].
Proof. vm_compute. reflexivity. Qed.

(* the aliasing expression: the second registration overwrites the first one's mandatory type - the create+update
   listener is no longer registered for creates and is registered for deletes *)
Example shared_slice_alias_refuted :
  let held := reg_types (run_caller (reg_alias []) (heap_empty, []) shared_prog) in
  held = [[EUpdated; EDeleted]; [EUpdated; EDeleted]] /\
  registers (mkListener LUntyped [97%N] (nth 0 held [])) Created = false /\
  registers (mkListener LUntyped [97%N] (nth 0 held [])) Deleted = true.
Proof. vm_compute. repeat split. Qed.

(* (array identities: 0 = the caller's buffer, 1..5 = what the first three registrations allocated, 6 = the caller's
   second slice) *)
(* one buffer re-filled between registrations, then overwritten by the caller; a slice with spare capacity that the
   caller scribbles over after registering; nil additional types *)
Definition busy_prog : list caction :=
  [CMake [ECreated; ECreated; ECreated; ECreated];
   CWrite 0 0 EUpdated; CWrite 0 1 EDeletedAsync; CRegister ECreated (mkSlice 0 0 2 4);
   CWrite 0 0 ECreatedAsync; CRegister EDeleted (mkSlice 0 0 1 4);
   CRegister EUpdated (mkSlice 0 0 0 4);
   CMake [EDeleted; ECreated; ECreated]; CRegister EUpdatedAsync (mkSlice 6 0 1 3);
   CWrite 6 0 ECreated; CWrite 6 1 ECreated; CWrite 6 2 ECreated;
   CWrite 0 0 EDeleted; CWrite 0 1 EDeleted; CWrite 0 2 EDeleted; CWrite 0 3 EDeleted;
   CRegister ECreated nil_slice].

Example busy_prog_pinned :
  reg_types (run_caller (reg_pinned []) (heap_empty, []) busy_prog)
  = [[ECreated; EUpdated; EDeletedAsync]; [EDeleted; ECreatedAsync]; [EUpdated]; [EUpdatedAsync; EDeleted]; [ECreated]].
Proof. vm_compute. reflexivity. Qed.

Example busy_prog_alias_refuted :
  reg_types (run_caller (reg_alias []) (heap_empty, []) busy_prog)
  <> [[ECreated; EUpdated; EDeletedAsync]; [EDeleted; ECreatedAsync]; [EUpdated]; [EUpdatedAsync; EDeleted]; [ECreated]].
Proof. vm_compute. discriminate. Qed.

(* the theorem instantiated: the second registration of busy_prog *)
Example busy_prog_second_registration :
  nth_error (reg_types (run_caller (reg_pinned []) (heap_empty, []) busy_prog)) 1 = Some [EDeleted; ECreatedAsync].
Proof. vm_compute. reflexivity. Qed.
