(* C16, seventh wave (seeded C16-w7-3): the wirings of harness/cmd/storageharness/store_c16w7.go - the store that carries the
   system-entity constraint (or the family around it) also owns LINK COLLECTIONS - as derived by the wiring script.
   The REF-COUNTED collections of those wirings (wiringDecl kind "rclink") are not part of the schema: Store/Model.v has
   no counted links; the plain collections are (links of mkSdef, cleanup_links of the delete path).
   Side conditions of the C16 theorems by computation; on concrete states - the system entity HOLDS plain links - an
   ordinary-context DeleteById (through the root, the child store, by cascade) is refused with the state, links included,
   unchanged; the system context deletes and the link clean-up removes the back references. *)
From Coq Require Import List NArith Bool.
From Storage Require Import Base.Bytes Store.Model Store.SystemProofs Store.SystemStrip Store.SystemMixed Store.SystemChild.
Import ListNotations.
Open Scope N_scope.

Definition w7_own : name := [111;119;110].
Definition w7_dev : name := [100;101;118].
Definition w7_gw : name := [103;119].
Definition w7_aux : name := [97;117;120].
Definition w7_gad : name := [103;97;100].
Definition w7_title : name := [116;105;116;108;101].
Definition w7_name : name := [110;97;109;101].
Definition w7_owner : name := [111;119;110;101;114].
Definition w7_roles : name := [114;111;108;101;115].
Definition w7_devs : name := [100;101;118;115].
Definition w7_sites : name := [115;105;116;101;115].
Definition w7_staff : name := [115;116;97;102;102].
Definition w7_port : name := [112;111;114;116].
Definition w7_note : name := [110;111;116;101].
Definition w7_serial : name := [115;101;114;105;97;108].
Definition w7_mates : name := [109;97;116;101;115].
Definition w7_gads : name := [103;97;100;115].
Definition w7_dept : name := [100;101;112;116].
Definition w7_emp : name := [101;109;112].
Definition w7_mgr : name := [109;103;114].
Definition w7_members : name := [109;101;109;98;101;114;115].
Definition w7_level : name := [108;101;118;101;108].
Definition w7_a : name := [97].
Definition w7_b : name := [98].
Definition w7_c : name := [99].
Definition w7_bx : name := [98;120].
Definition w7_bs : name := [98;115].
Definition w7_cs : name := [99;115].
Definition w7_code : name := [99;111;100;101].

(* c16rr: own <- dev (fk index, cascade delete) ; plain link dev.sites <-> own.staff (and the ref-counted dev.peers <->
   own.rcdevs, not modelled), both registered before the constraint ; gw is the plain child store of dev *)
Definition c16rr_schema : schema :=
  [ mkSdef w7_own None false [(w7_title, false)] []
      [CUnique w7_title false; CFkCascade w7_dev w7_owner CascDelete] [(w7_staff, w7_dev, w7_sites)];
    mkSdef w7_dev None false [(w7_name, false); (w7_owner, false)] [w7_roles]
      [CUnique w7_name false; CSystem; CSetIdx w7_roles; CFkIndex w7_owner w7_own w7_devs false]
      [(w7_sites, w7_own, w7_staff)];
    mkSdef w7_gw (Some w7_dev) false [(w7_port, true)] [] [CUnique w7_port true] [] ].

(* c16rc: dept <- emp (fk index, restrict) ; emp carries the constraint ; the plain child store mgr owns the ref-counted
   collection mgr.teams <-> dept.rcmgrs (not modelled) *)
Definition c16rc_schema : schema :=
  [ mkSdef w7_dept None false [(w7_title, false)] [] [CUnique w7_title false; CFkRestrict w7_members] [];
    mkSdef w7_emp None false [(w7_name, false); (w7_dept, false)] []
      [CUnique w7_name false; CFkIndex w7_dept w7_dept w7_members false; CSystem] [];
    mkSdef w7_mgr (Some w7_emp) false [(w7_level, true)] [] [CUnique w7_level true] [] ].

(* c16rk: the constraint on the plain child store gad only (sibling aux first) ; gad owns the plain collection gad.mates <->
   own.gads (and the ref-counted gad.zones <-> own.rcgads, not modelled) *)
Definition c16rk_schema : schema :=
  [ mkSdef w7_own None false [(w7_title, false)] []
      [CUnique w7_title false; CFkCascade w7_dev w7_owner CascDelete] [(w7_gads, w7_gad, w7_mates)];
    mkSdef w7_dev None false [(w7_name, false); (w7_owner, false)] []
      [CUnique w7_name false; CFkIndex w7_owner w7_own w7_devs false] [];
    mkSdef w7_aux (Some w7_dev) false [(w7_note, true)] [] [CUnique w7_note true] [];
    mkSdef w7_gad (Some w7_dev) false [(w7_serial, true)] [] [CSystem; CUnique w7_serial true]
      [(w7_mates, w7_own, w7_gads)] ].

(* c16rx: a <- b <- c by cascade-delete fk indexes ; b carries the constraint (and owns the ref-counted b.grps <-> a.rcbs,
   not modelled) ; bx is the extended child store of b *)
Definition c16rx_schema : schema :=
  [ mkSdef w7_a None false [(w7_name, false)] [] [CUnique w7_name false; CFkCascade w7_b w7_a CascDelete] [];
    mkSdef w7_b None false [(w7_name, false); (w7_a, false)] []
      [CFkIndex w7_a w7_a w7_bs false; CSystem; CFkCascade w7_c w7_b CascDelete] [];
    mkSdef w7_c None false [(w7_b, false)] [] [CFkIndex w7_b w7_b w7_cs false] [];
    mkSdef w7_bx (Some w7_b) true [(w7_code, true)] [] [CUnique w7_code true] [] ].

(* ---- side conditions of the theorems, by computation *)
Example c16rr_wf : wf_system_b c16rr_schema w7_dev = true.
Proof. vm_compute. reflexivity. Qed.
Example c16rc_wf : wf_system_b c16rc_schema w7_emp = true.
Proof. vm_compute. reflexivity. Qed.
Example c16rk_wf : wf_system_child_b c16rk_schema w7_gad = true /\ wf_system_b c16rk_schema w7_dev = false.
Proof. vm_compute. split; reflexivity. Qed.
Example c16rx_wf : wf_system_b c16rx_schema w7_b = true.
Proof. vm_compute. reflexivity. Qed.
Example c16w7_nofield :
  wf_nofield_b c16rr_schema = true /\ wf_nofield_b c16rc_schema = true /\ wf_nofield_b c16rk_schema = true /\
  wf_nofield_b c16rx_schema = true.
Proof. vm_compute. repeat split; reflexivity. Qed.
Example c16w7_strip_wf :
  wf_strip_b c16rr_schema = true /\ wf_strip_b c16rc_schema = true /\ wf_strip_b c16rk_schema = true /\
  wf_strip_b c16rx_schema = true.
Proof. vm_compute. repeat split; reflexivity. Qed.
Example c16w7_flag_wf :
  wf_flag_b c16rr_schema w7_dev = true /\ wf_flag_b c16rc_schema w7_emp = true /\ wf_flag_b c16rk_schema w7_dev = true /\
  wf_flag_b c16rx_schema w7_b = true.
Proof. vm_compute. repeat split; reflexivity. Qed.

(* ---- c16rr: owners o, q ; system device d linked to BOTH owners (plain links) ; system gateway g (through gw, no links) ;
   ordinary device p linked to o *)
Definition w7_o : id := [111]. Definition w7_q : id := [113]. Definition w7_d : id := [100]. Definition w7_g : id := [103].
Definition w7_p : id := [112].
Definition rr_own (i t : str) : op := OCreate w7_own i false [(w7_title, Some t)] [].
Definition rr_mk (through : name) (i nm : str) (sys : bool) : op :=
  OCreate through i sys [(w7_name, Some nm); (w7_owner, Some w7_o); (w7_port, Some nm)] [(w7_roles, [])].
Definition rr_st : state :=
  run_txs c16rr_schema 8 st_empty
    [ mkTx true [] [rr_own w7_o [116]; rr_own w7_q [117]; rr_mk w7_dev w7_d [49] true; rr_mk w7_gw w7_g [50] true;
                    rr_mk w7_dev w7_p [51] false;
                    OAddLinks w7_dev w7_d w7_sites [w7_o; w7_q]; OAddLinks w7_dev w7_p w7_sites [w7_o]] false ].

Example rr_flags_and_links :
  get_field c16rr_schema rr_st w7_dev w7_d isSystemF = FBool true /\
  get_field c16rr_schema rr_st w7_dev w7_g isSystemF = FBool true /\
  get_field c16rr_schema rr_st w7_dev w7_p isSystemF = FAbsent /\
  get_set c16rr_schema rr_st w7_dev w7_d w7_sites = [w7_o; w7_q] /\ get_set c16rr_schema rr_st w7_own w7_o w7_staff = [w7_d; w7_p].
Proof. vm_compute. repeat split; reflexivity. Qed.

Definition rr_refused (t : tx) : Prop :=
  match run_tx c16rr_schema 8 rr_st t with (rs, committed, st', evs) =>
    committed = false /\ st' = rr_st /\ evs = [] /\ last rs None = Some EOther end.

(* ordinary context: DeleteById of the system entity that HOLDS links, of the one without links through the child store,
   after a successful prefix, by cascade from the owner - refused, the state (entities, index entries, LINK SETS of both
   sides) is the one before *)
Example rr_delete_linked_refused : rr_refused (mkTx false [] [ODelete w7_dev w7_d] false).
Proof. vm_compute. repeat split; reflexivity. Qed.
Example rr_delete_through_child_refused : rr_refused (mkTx false [] [ODelete w7_gw w7_g] false).
Proof. vm_compute. repeat split; reflexivity. Qed.
Example rr_delete_after_prefix_refused : rr_refused (mkTx false [] [ODelete w7_dev w7_p; ODelete w7_dev w7_d] false).
Proof. vm_compute. repeat split; reflexivity. Qed.
Example rr_cascade_refused : rr_refused (mkTx false [] [ODelete w7_own w7_o] false).
Proof. vm_compute. repeat split; reflexivity. Qed.
Example rr_targets :
  sys_target c16rr_schema w7_dev rr_st (ODelete w7_dev w7_d) /\ sys_target c16rr_schema w7_dev rr_st (ODelete w7_gw w7_g).
Proof. vm_compute. repeat split; reflexivity. Qed.
(* the ordinary entity is deleted together with its links; the system context deletes the system entity and the link
   clean-up removes it from the owners' sets *)
Example rr_ordinary_and_system_ctx :
  match run_tx c16rr_schema 8 rr_st (mkTx false [] [ODelete w7_dev w7_p] false) with
  | (rs, committed, st', _) => rs = [None] /\ committed = true /\ get_set c16rr_schema st' w7_own w7_o w7_staff = [w7_d] end /\
  match run_tx c16rr_schema 8 rr_st (mkTx true [] [ODelete w7_dev w7_d] false) with
  | (rs, committed, st', _) => rs = [None] /\ committed = true /\ present c16rr_schema st' w7_dev w7_d = false /\
                               get_set c16rr_schema st' w7_own w7_o w7_staff = [w7_p] /\ get_set c16rr_schema st' w7_own w7_q w7_staff = [] end.
Proof. vm_compute. repeat split; reflexivity. Qed.

(* ---- c16rc: department t ; system manager m (through mgr) ; system employee e (root only) ; ordinary manager n *)
Definition w7_t : id := [116]. Definition w7_m : id := [109]. Definition w7_e : id := [101]. Definition w7_n : id := [110].
Definition rc_mk (through : name) (i nm : str) (sys : bool) : op :=
  OCreate through i sys [(w7_name, Some nm); (w7_dept, Some w7_t); (w7_level, Some nm)] [].
Definition rc_st : state :=
  run_txs c16rc_schema 8 st_empty
    [ mkTx true [] [OCreate w7_dept w7_t false [(w7_title, Some [116])] []; rc_mk w7_mgr w7_m [49] true;
                    rc_mk w7_emp w7_e [50] true; rc_mk w7_mgr w7_n [51] false] false ].
Definition rc_refused (t : tx) : Prop :=
  match run_tx c16rc_schema 8 rc_st t with (rs, committed, st', evs) =>
    committed = false /\ st' = rc_st /\ evs = [] /\ last rs None = Some EOther end.
Example rc_delete_through_child_refused : rc_refused (mkTx false [] [ODelete w7_mgr w7_m] false).
Proof. vm_compute. repeat split; reflexivity. Qed.
Example rc_delete_through_root_refused : rc_refused (mkTx false [] [ODelete w7_emp w7_m] false).
Proof. vm_compute. repeat split; reflexivity. Qed.
Example rc_delete_root_only_refused : rc_refused (mkTx false [] [ODelete w7_emp w7_e] false).
Proof. vm_compute. repeat split; reflexivity. Qed.
Example rc_targets :
  sys_target c16rc_schema w7_emp rc_st (ODelete w7_mgr w7_m) /\ sys_target c16rc_schema w7_emp rc_st (ODelete w7_emp w7_e).
Proof. vm_compute. repeat split; reflexivity. Qed.
Example rc_ordinary_ok :
  match run_tx c16rc_schema 8 rc_st (mkTx false [] [ODelete w7_mgr w7_n] false) with
  | (rs, committed, st', _) => rs = [None] /\ committed = true /\ present c16rc_schema st' w7_emp w7_n = false end.
Proof. vm_compute. repeat split; reflexivity. Qed.

(* ---- c16rk: owner o ; system gadget g (through gad) linked to o ; ordinary gadget p *)
Definition rk_mk (through : name) (i nm : str) (sys : bool) : op :=
  OCreate through i sys [(w7_name, Some nm); (w7_owner, Some w7_o); (w7_note, None); (w7_serial, Some nm)] [].
Definition rk_st : state :=
  run_txs c16rk_schema 8 st_empty
    [ mkTx true [] [rr_own w7_o [116]; rk_mk w7_gad w7_g [49] true; rk_mk w7_gad w7_p [50] false;
                    OAddLinks w7_gad w7_g w7_mates [w7_o]] false ].
Definition rk_refused (t : tx) : Prop :=
  match run_tx c16rk_schema 8 rk_st t with (rs, committed, st', evs) =>
    committed = false /\ st' = rk_st /\ evs = [] /\ last rs None <> None end.
Example rk_links : get_set c16rk_schema rk_st w7_own w7_o w7_gads = [w7_g].
Proof. vm_compute. reflexivity. Qed.
Example rk_delete_through_child_refused : rk_refused (mkTx false [] [ODelete w7_gad w7_g] false).
Proof. vm_compute. repeat split; try reflexivity; discriminate. Qed.
Example rk_delete_through_root_refused : rk_refused (mkTx false [] [ODelete w7_dev w7_g] false).
Proof. vm_compute. repeat split; try reflexivity; discriminate. Qed.
Example rk_delete_through_sibling_refused : rk_refused (mkTx false [] [ODelete w7_aux w7_g] false).
Proof. vm_compute. repeat split; try reflexivity; discriminate. Qed.
Example rk_cascade_refused : rk_refused (mkTx false [] [ODelete w7_own w7_o] false).
Proof. vm_compute. repeat split; try reflexivity; discriminate. Qed.
Example rk_target : child_sys_target c16rk_schema w7_gad rk_st (ODelete w7_dev w7_g).
Proof. vm_compute. repeat split; reflexivity. Qed.

(* ---- c16rx: a1 ; system b entities s (with extension data) and r (without) ; c entity k references s *)
Definition w7_s : id := [115]. Definition w7_r : id := [114]. Definition w7_k : id := [107].
Definition rx_mk (through : name) (i nm : str) (sys : bool) : op :=
  OCreate through i sys [(w7_name, Some nm); (w7_a, Some [49]); (w7_code, Some nm)] [].
Definition rx_st : state :=
  run_txs c16rx_schema 8 st_empty
    [ mkTx true [] [OCreate w7_a [49] false [(w7_name, Some [120])] []; rx_mk w7_bx w7_s [49] true; rx_mk w7_b w7_r [50] true;
                    OCreate w7_c w7_k false [(w7_b, Some w7_s)] []] false ].
Definition rx_refused (t : tx) : Prop :=
  match run_tx c16rx_schema 8 rx_st t with (rs, committed, st', evs) =>
    committed = false /\ st' = rx_st /\ evs = [] /\ last rs None = Some EOther end.
Example rx_delete_refused : rx_refused (mkTx false [] [ODelete w7_b w7_s] false).
Proof. vm_compute. repeat split; reflexivity. Qed.
Example rx_delete_through_ext_child_refused : rx_refused (mkTx false [] [ODelete w7_bx w7_r] false).
Proof. vm_compute. repeat split; reflexivity. Qed.
Example rx_cascade_refused : rx_refused (mkTx false [] [ODelete w7_a [49]] false).
Proof. vm_compute. repeat split; reflexivity. Qed.
Example rx_targets :
  sys_target c16rx_schema w7_b rx_st (ODelete w7_b w7_s) /\ sys_target c16rx_schema w7_b rx_st (ODelete w7_bx w7_r).
Proof. vm_compute. repeat split; reflexivity. Qed.
Example rx_system_ctx_deletes :
  match run_tx c16rx_schema 8 rx_st (mkTx true [] [ODelete w7_b w7_s] false) with
  | (rs, committed, st', _) => rs = [None] /\ committed = true /\ present c16rx_schema st' w7_b w7_s = false /\
                               present c16rx_schema st' w7_c w7_k = false end.
Proof. vm_compute. repeat split; reflexivity. Qed.
