(* Non-vacuity for Properties/C07Panic.v, and the seeded shape (the bolt closure of DbImpl.Update recovers a panic
   into a local error variable and returns nil) refuted by the statement. *)
From Coq Require Import List NArith Bool.
From Storage Require Import Base.Bytes Store.Model Store.XOps Store.Events Store.TxCtx Store.TxQuiet Store.TxPanic.
From Storage Require Import Examples.C07Examples.
Import ListNotations.
Open Scope N_scope.

Definition pcr (i v : str) : pitem := PI (IOp (XBase (mk_create i v))).
Definition hkp : hooks := std_hooks sch1.
Definition no_pre_panics : nat -> bool := fun _ => false.
Definition all_pre_panic : nat -> bool := fun _ => true.
(* the rejections of store operations surface as panics of the rejecting callback *)
Definition surf_panic : nat -> ekind -> surface := fun _ _ => SPanic.

(* caller's observation, results, entities afterwards, invocations of store-level registrations, commit-action labels,
   tx-complete executions *)
Definition psummary (o : pobs) :=
  (p_caller o, p_results o, length (ents (p_state o) s_emp),
   fold_right (fun l acc => (length (q_delivered l (p_qobs o)) + acc)%nat) 0%nat (hk_listeners hkp),
   q_commit_runs (p_qobs o), q_tx_complete hkp (p_qobs o)).
Definition prun vetoes surf pp := ptx_update sch1 8 st_empty false vetoes surf pp.

(* nothing panics: two creates commit, everybody is told *)
Example no_panic_commits :
  psummary (prun [] surf_return (mkPprog false [] [([], ACommit 7)] [pcr [97] [120]; pcr [98] [121]] no_pre_panics))
  = (CNil, [PROk; PROk], 2, 22, [7], 2)%nat.
Proof. vm_compute. reflexivity. Qed.

(* THE seeded history, Db.Update: a successful create, then the pre-commit action panics *)
Example panicking_precommit_after_create :
  psummary (prun [] surf_return (mkPprog false [] [([], APre 1 true); ([], ACommit 7)] [pcr [97] [120]; PI (IReg [] (ACommit 8))] all_pre_panic))
  = (CPanic, [PROk], 0, 0, [], 0)%nat.
Proof. vm_compute. reflexivity. Qed.
(* the same action returning an error: only the caller's observation differs *)
Example failing_precommit_after_create :
  psummary (prun [] surf_return (mkPprog false [] [([], APre 1 true); ([], ACommit 7)] [pcr [97] [120]; PI (IReg [] (ACommit 8))] no_pre_panics))
  = (CErr, [PROk], 0, 0, [], 0)%nat.
Proof. vm_compute. reflexivity. Qed.

(* the seeded history, Db.Batch: a constraint panics on the second create *)
Example constraint_panics_on_second_create :
  psummary (prun [(s_emp, Created, [98])] surf_panic (mkPprog true [] [] [PI (IReg [DWrap WGetSys] (ACommit 7)); pcr [97] [120]; pcr [98] [121]] no_pre_panics))
  = (CPanic, [PROk; PRPanic], 0, 0, [], 0)%nat.
Proof. vm_compute. reflexivity. Qed.

(* the caller's function panics inside two nested joined calls, after a create *)
Example caller_code_panics_after_create :
  psummary (prun [] surf_return (mkPprog false [] [] [pcr [97] [120]; PPanicHere [false; true]; pcr [98] [121]] no_pre_panics))
  = (CPanic, [PROk; PRPanic], 0, 0, [], 0)%nat.
Proof. vm_compute. reflexivity. Qed.

(* the entity strategy panics while the second create persists; a create that is refused before it gets there returns its error *)
Example entity_strategy_panics :
  psummary (prun [] surf_return (mkPprog false [] [] [pcr [97] [120]; PPanicIn (XBase (mk_create [98] [121]))] no_pre_panics))
  = (CPanic, [PROk; PRPanic], 0, 0, [], 0)%nat.
Proof. vm_compute. reflexivity. Qed.
Example entity_strategy_not_reached :
  psummary (prun [] surf_return (mkPprog false [] [] [pcr [97] [120]; PPanicIn (XBase (mk_create [97] [121]))] no_pre_panics))
  = (CErr, [PROk; PRErr EOther], 0, 0, [], 0)%nat.
Proof. vm_compute. reflexivity. Qed.

(* the seeded shape: the recovered panic is assigned to a local variable, the closure returns nil - the partial writes
   are committed, the caller gets nil, listeners and commit actions run: not what the statement allows *)
Example recover_into_local_err_refuted :
  let pp := mkPprog false [] [([], ACommit 7)] [pcr [97] [120]; PPanicHere []; pcr [98] [121]] no_pre_panics in
  psummary (ptx_update_recover_local sch1 8 st_empty false [] pp) = (CNil, [PROk; PRPanic], 1, 11, [7], 0)%nat /\
  psummary (prun [] surf_return pp) = (CPanic, [PROk; PRPanic], 0, 0, [], 0)%nat.
Proof. vm_compute. split; reflexivity. Qed.
Example recover_into_local_err_precommit_refuted :
  let pp := mkPprog false [] [([], APre 1 true)] [pcr [97] [120]] all_pre_panic in
  psummary (ptx_update_recover_local sch1 8 st_empty false [] pp) = (CNil, [PROk], 1, 11, [], 0)%nat /\
  psummary (prun [] surf_return pp) = (CPanic, [PROk], 0, 0, [], 0)%nat.
Proof. vm_compute. split; reflexivity. Qed.
(* ... while it is the code's behaviour on histories without panic (which is why only panicking inputs tell the trees apart) *)
Example recover_into_local_err_same_without_panic :
  let pp := mkPprog false [] [([], ACommit 7)] [pcr [97] [120]; pcr [98] [120]] no_pre_panics in
  psummary (ptx_update_recover_local sch1 8 st_empty false [] pp) = psummary (prun [] surf_return pp).
Proof. vm_compute. reflexivity. Qed.
