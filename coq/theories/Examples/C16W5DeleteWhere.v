(* Non-vacuity for the DeleteWhere statements of C16 (Properties/C16.v (7), Store/SystemDeleteWhere.v) on the "casc" wiring of
   the harness (b carries the constraint, bx is its extended child, a <- b by a cascade-delete fk index): a population that
   mixes ordinary and system entities with the system entity FIRST, IN THE MIDDLE and LAST in the id order of the query. *)
From Coq Require Import List NArith Bool.
From Storage Require Import Base.Bytes Store.Model Store.SystemProofs Store.XOps Store.SystemDeleteWhere Examples.C16Examples.
Import ListNotations.
Open Scope N_scope.

Definition pop (s50 s51 s52 : bool) : state :=
  run_txs casc_schema 8 st_empty
    [ mkTx true [] [mk_a [49] [120]; mk_b n_b [50] [121] s50; mk_b n_bx [51] [122] s51; mk_b n_b [52] [123] s52] false ].

Definition st_mid : state := pop false true false.
Definition st_first : state := pop true false false.
Definition st_last : state := pop false false true.

Example populations :
  dw_ids casc_schema st_mid n_b DwTrue = [[50]; [51]; [52]] /\
  dw_ids casc_schema st_mid n_bx DwTrue = [[50]; [51]; [52]] /\
  dw_ids casc_schema st_mid n_b (DwFieldEq n_a [49]) = [[50]; [51]; [52]] /\
  dw_ids casc_schema st_mid n_bx (DwFieldEq n_code [122]) = [[51]] /\
  get_field casc_schema st_mid n_b [51] isSystemF = FBool true /\
  get_field casc_schema st_mid n_b [50] isSystemF = FAbsent /\
  get_field casc_schema st_first n_b [50] isSystemF = FBool true /\
  get_field casc_schema st_last n_b [52] isSystemF = FBool true.
Proof. vm_compute. repeat split; reflexivity. Qed.

Definition xrefused (st : state) (t : xtx) : Prop :=
  match run_xtx casc_schema 8 st t with (rs, committed, _, evs) => committed = false /\ evs = [] /\ last rs None <> None end.

Definition dw_tx (sys : bool) (s : name) (flt : dwfilter) : xtx := mkXtx sys [] [XDeleteWhere s flt] false.

(* ordinary context: refused wherever the system entity sits in the id order, through the root and the child store, with the
   filter true and with a field filter that ordinary entities match as well *)
Example dw_middle_refused : xrefused st_mid (dw_tx false n_b DwTrue).
Proof. vm_compute. repeat split; discriminate. Qed.
Example dw_first_refused : xrefused st_first (dw_tx false n_b DwTrue).
Proof. vm_compute. repeat split; discriminate. Qed.
Example dw_last_refused : xrefused st_last (dw_tx false n_b DwTrue).
Proof. vm_compute. repeat split; discriminate. Qed.
Example dw_through_child_refused : xrefused st_mid (dw_tx false n_bx DwTrue).
Proof. vm_compute. repeat split; discriminate. Qed.
Example dw_field_filter_refused : xrefused st_mid (dw_tx false n_b (DwFieldEq n_a [49])).
Proof. vm_compute. repeat split; discriminate. Qed.
Example dw_child_field_filter_refused : xrefused st_mid (dw_tx false n_bx (DwFieldEq n_code [122])).
Proof. vm_compute. repeat split; discriminate. Qed.
(* ... also after a successful prefix of the same body *)
Example dw_after_prefix_refused :
  xrefused st_first (mkXtx false [] [XBase (mk_b n_b [53] [124] false); XDeleteWhere n_b (DwFieldEq n_a [49])] false).
Proof. vm_compute. repeat split; discriminate. Qed.

(* the hypotheses of delete_where_requires_system_ctx / delete_where_system_refused are met by these *)
Example dw_hypotheses :
  wf_system_b casc_schema n_b = true /\ root_of casc_schema n_bx = n_b /\
  In [51] (dw_ids casc_schema st_mid n_bx DwTrue) /\ In [50] (dw_ids casc_schema st_first n_b DwTrue) /\
  In [52] (dw_ids casc_schema st_last n_b DwTrue).
Proof. vm_compute. repeat split; try reflexivity; auto 6. Qed.

(* a filter that matches ordinary entities only is not affected *)
Example dw_ordinary_only_ok :
  match run_xtx casc_schema 8 st_mid (dw_tx false n_b (DwFieldEq n_name [123])) with
  | (rs, committed, st', _) => rs = [None] /\ committed = true /\ present casc_schema st' n_b [52] = false /\
                               present casc_schema st' n_b [51] = true /\ present casc_schema st' n_b [50] = true
  end.
Proof. vm_compute. repeat split; reflexivity. Qed.

(* a system context deletes the whole population *)
Example dw_system_ctx_ok :
  match run_xtx casc_schema 8 st_mid (dw_tx true n_b DwTrue) with
  | (rs, committed, st', _) => rs = [None] /\ committed = true /\ ids_of st' n_b = []
  end.
Proof. vm_compute. repeat split; reflexivity. Qed.
