(* C01 - non-vacuity examples for child stores, scan strategies and aliased storage (Ast/ChildStore.v), and
   [..._refuted] witnesses for the two kinds of seeded change that motivated them. *)
From Coq Require Import List ZArith NArith Bool Lia Permutation.
From Storage Require Import Base.Bytes Ast.F64 Ast.Values Ast.Schema Ast.Stacked Ast.Untyped Ast.Typed Ast.Typer
  Ast.Eval Ast.Spec Ast.StackedProofs Ast.ScanProofs Ast.TyperProofs Ast.ChildStore Ast.ChildStoreProofs
  Examples.C01Examples.
Import ListNotations.
Open Scope N_scope.

Definition n_kids : str := [107;105;100;115].
Definition n_level : str := [108;101;118;101;108].
Definition n_labels : str := [108;97;98;101;108;115].
Definition v_p3 : str := [112;51].

(* people (0) with a name, a map registered as "tags" but stored in the bucket "labels"; places (1);
   kids (2) = a plain child store of people with the own symbol level, stored below <entity>/kids *)
Definition h_people : storedecl :=
  {| st_syms := [ (n_id, DId); (n_name, DField TString [] n_name None) ];
     st_maps := [ (n_tags, {| m_ty := TAny; m_prefix := []; m_key := n_labels |}) ] |}.
Definition h_places : storedecl := {| st_syms := [ (n_id, DId) ]; st_maps := [] |}.
Definition h_kids_own : storedecl := {| st_syms := [ (n_level, DField TInt64 [] n_level None) ]; st_maps := [] |}.
Definition h_hier : list childdecl := [ {| ch_store := 2%nat; ch_parent := 0%nat; ch_path := [n_kids]; ch_ext := false |} ].
Definition h_sch : schema := [ h_people; h_places; child_decl [n_kids] h_people h_kids_own ].

(* p1: a member of kids (level 3); p2: a plain person; p3: a member whose level is null *)
Definition h_db : db := fun S =>
  match S with
  | O => [ (v_p1, {| e_fields := [ ([n_name], VStr v_ann); ([n_labels; v_a], VInt64 7); ([n_kids; n_level], VInt64 3) ]; e_sets := [] |});
           (v_p2, {| e_fields := [ ([n_name], VStr v_x); ([n_labels; v_a], VInt64 7) ]; e_sets := [] |});
           (v_p3, {| e_fields := [ ([n_name], VNil); ([n_kids; n_level], VNil) ]; e_sets := [] |}) ]
  | _ => []
  end.

(* the child store contains exactly the members; it exposes its own symbol below its entity path, the parent's
   symbols, and the parent's map under its bucket key (GrantSymbols) *)
Example sample_child_members : map fst (child_db h_hier h_db 2%nat) = [v_p1; v_p3] /\ map fst (child_db h_hier h_db 0%nat) = [v_p1; v_p2; v_p3].
Proof. vm_compute. split; reflexivity. Qed.

Example sample_child_symbols :
  resolve h_sch 2%nat n_level = Some (RSimple (LkField 2%nat TInt64 [n_kids; n_level] None)) /\
  resolve h_sch 2%nat n_name = Some (RSimple (LkField 2%nat TString [n_name] None)) /\
  resolve h_sch 2%nat (dot n_labels v_a) = Some (RSimple (LkField 2%nat TAny [n_labels; v_a] None)) /\
  resolve h_sch 2%nat (dot n_tags v_a) = None /\
  resolve h_sch 0%nat (dot n_tags v_a) = Some (RSimple (LkField 0%nat TAny [n_labels; v_a] None)).
Proof. vm_compute. repeat split. Qed.

Lemma h_sets_empty : forall d S id key, (forall S', Forall (fun x => e_sets (snd x) = []) (d S')) -> set_get d S id key = [].
Proof.
  intros d S id key H. unfold set_get, get_entity. specialize (H S). induction (d S) as [|[k e] l IH]; cbn; auto.
  inversion H as [|? ? He Hl]. subst. cbn in He. destruct (str_eqb id k).
  - rewrite He. reflexivity.
  - apply IH. exact Hl.
Qed.

Lemma h_view_sets : forall S', Forall (fun x => e_sets (snd x) = []) (child_db h_hier h_db S').
Proof. intros [|[|[|S']]]; vm_compute; repeat constructor. Qed.

Example sample_child_wf_db : wf_db h_sch (child_db h_hier h_db).
Proof.
  assert (Hs : forall S id key, set_get (child_db h_hier h_db) S id key = []).
  { intros. apply h_sets_empty. exact h_view_sets. }
  split; [|split].
  - intros S id key. rewrite Hs. exists []. split; [reflexivity | constructor].
  - intros S id n. assert (length (keys_of h_sch (child_db h_hier h_db) S id n) <= 1)%nat.
    { unfold keys_of. destruct (resolve h_sch S n) as [[l|ty c|ty c last]|]; cbn; auto.
      - destruct l; cbn; auto. rewrite Hs. cbn. lia.
      - destruct c as [|l0 up]; cbn; auto.
        assert (Hl : (length (link_step (child_db h_hier h_db) l0 id) <= 1)%nat).
        { destruct l0; cbn; auto. rewrite Hs. cbn. lia. }
        destruct (link_step (child_db h_hier h_db) l0 id) as [|x [|y r]]; cbn in *; auto.
        + rewrite app_nil_r. apply small_chain. intros. rewrite Hs. cbn. lia.
        + lia. }
    unfold max_int64. lia.
  - intros [|[|[|S]]]; vm_compute; intros; discriminate.
Qed.

(* the theorem applies: "true" through the child store selects the members only, through QueryIds and IterateIds;
   the own symbol is read below the child's entity path; the inherited symbol on the parent's bucket *)
Definition q_true : untyped := UQuery (UBoolConst true) None None.
Definition q_level : untyped := UQuery (UBin (LSym n_level) OpGTE (LInt 3)) None None.
Definition q_name_null : untyped := UQuery (UBin (LSym n_name) OpEQ LNull) None None.

Example sample_child_query :
  (t <- typer h_sch 2%nat q_true ;; query_ids fmt_float_int fmt_time_none h_sch (child_db h_hier h_db) 2%nat t) = Ok [v_p1; v_p3] /\
  (t <- typer h_sch 2%nat q_true ;; iterate_ids fmt_float_int fmt_time_none h_sch (child_db h_hier h_db) 2%nat t) = Ok [v_p1; v_p3] /\
  (t <- typer h_sch 0%nat q_true ;; query_ids fmt_float_int fmt_time_none h_sch (child_db h_hier h_db) 0%nat t) = Ok [v_p1; v_p2; v_p3] /\
  (t <- typer h_sch 2%nat q_level ;; query_ids fmt_float_int fmt_time_none h_sch (child_db h_hier h_db) 2%nat t) = Ok [v_p1] /\
  (t <- typer h_sch 2%nat q_name_null ;; query_ids fmt_float_int fmt_time_none h_sch (child_db h_hier h_db) 2%nat t) = Ok [v_p3].
Proof. vm_compute. repeat split. Qed.

(* the strategy oracle on the example: the matching set of "true" through kids is [p1; p3] *)
Example sample_matching :
  matching fmt_float_int fmt_time_none h_sch (child_db h_hier h_db) 2%nat None q_true = [v_p1; v_p3] /\
  matching fmt_float_int fmt_time_none h_sch (child_db h_hier h_db) 2%nat (Some [v_p2; v_p3]) q_true = [v_p3].
Proof. vm_compute. split; reflexivity. Qed.

(* a sorted answer in any order passes; so do the pages of the id order *)
Example sample_strategy_ok :
  strategy_check fmt_float_int fmt_time_none h_sch (child_db h_hier h_db) 2%nat OAny None q_true [v_p3; v_p1] (Some 2%Z) = true /\
  strategy_check fmt_float_int fmt_time_none h_sch (child_db h_hier h_db) 2%nat OAny None
    (UQuery (UBoolConst true) (Some 1%Z) (Some 5%Z)) [v_p1] (Some 2%Z) = true /\
  strategy_check fmt_float_int fmt_time_none h_sch (child_db h_hier h_db) 2%nat ORev None q_true [v_p3; v_p1] (Some 2%Z) = true /\
  strategy_check fmt_float_int fmt_time_none h_sch (child_db h_hier h_db) 2%nat OFwd None
    (UQuery (UBoolConst true) (Some 1%Z) None) [v_p3] (Some 2%Z) = true.
Proof. vm_compute. repeat split. Qed.

Example sample_strategy_hypotheses : NoDup [v_p1; v_p3] /\ Permutation [v_p3; v_p1] [v_p1; v_p3].
Proof.
  split.
  - constructor; [|constructor; [|constructor]]; cbn; intros H; repeat destruct H as [H|H]; try discriminate; auto.
  - apply perm_swap.
Qed.

(* ---- witnesses ---- *)
(* a sorting scanner that does not test whether the parent row is in the child store answers "true sort by name"
   through kids with every person: rejected (an id that is not a matching entity; the count is wrong too) *)
Example sorted_scan_without_presence_test_refuted :
  strategy_check fmt_float_int fmt_time_none h_sch (child_db h_hier h_db) 2%nat OAny None q_true [v_p3; v_p1; v_p2] (Some 3%Z) = false /\
  strategy_check fmt_float_int fmt_time_none h_sch (child_db h_hier h_db) 2%nat OAny None q_true [v_p3; v_p1; v_p2] None = false.
Proof. vm_compute. split; reflexivity. Qed.

(* a scanner that counts the rows before the presence test: right ids, wrong count *)
Example count_before_presence_test_refuted :
  strategy_check fmt_float_int fmt_time_none h_sch (child_db h_hier h_db) 2%nat OAny None q_true [v_p1; v_p3] (Some 3%Z) = false /\
  strategy_check fmt_float_int fmt_time_none h_sch (child_db h_hier h_db) 2%nat OAny None q_true [v_p1; v_p3] None = true.
Proof. vm_compute. split; reflexivity. Qed.

(* a map element symbol whose bucket path is built from the NAME the map is registered under instead of its
   bucket key reads nothing: tags.a = 7 selects every person, the by-name reading none *)
Definition q_tag : untyped := UQuery (UBin (LSym (dot n_tags v_a)) OpEQ (LInt 7)) None None.
Definition h_people_by_name : storedecl :=
  {| st_syms := st_syms h_people; st_maps := [ (n_tags, {| m_ty := TAny; m_prefix := []; m_key := n_tags |}) ] |}.
Example map_element_by_name_refuted :
  spec_ids fmt_float_int fmt_time_none h_sch h_db 0%nat q_tag = [v_p1; v_p2] /\
  spec_ids fmt_float_int fmt_time_none [h_people_by_name; h_places] h_db 0%nat q_tag = [].
Proof. vm_compute. split; reflexivity. Qed.
