(* C09, third strengthening: the two child-store wirings of harness/cmd/storageharness/store_c09_w3.go (C09xu, C09xf; generated
   from the harness' own schema text) and the computed side conditions of the C09 theorems for them.

   C09xu - an EXTENDED child store px and a plain child store pc of p, each with a NON-NULLABLE unique index on a field of
           its own: passes [wf_c09] (fix_convergent applies) and [wf_all_b] (reachable_check_clean applies: on every database
           reached through the API - whatever the mix of entities with and without child data - the check reports nothing).
   C09xf - non-nullable / nullable fk indexes and fk constraints on fields of the child stores: [wf_c09] and [wf_all_b] refuse
           it (fk jobs are proved for root stores only).  check_sound / check_complete / check_readonly hold for every
           schema; for this wiring convergence of fix is tested (correspondence of the harness, Examples below), not proved.

   The transaction grouping of the harness (modes J / CJ / LCJ) has no model counterpart on purpose: [check_all] is a
   function of the state, so the theorems say that the verdict is the same wherever the transaction boundaries are. *)
From Coq Require Import List NArith Bool.
From Storage Require Import Base.Bytes Store.Model Store.NoTrace Store.Integrity Store.IntegrityProofs
  Store.ReachableConsistent Properties.C09 Properties.C09Reachable.
Import ListNotations.
Open Scope N_scope.

Definition x_alias : name := [97;108;105;97;115].
Definition x_alt : name := [97;108;116].
Definition x_alts : name := [97;108;116;115].
Definition x_badge : name := [98;97;100;103;101].
Definition x_grp : name := [103;114;112].
Definition x_grpd : name := [103;114;112;100].
Definition x_home : name := [104;111;109;101].
Definition x_homes : name := [104;111;109;101;115].
Definition x_key : name := [107;101;121].
Definition x_label : name := [108;97;98;101;108].
Definition x_labels : name := [108;97;98;101;108;115].
Definition x_name : name := [110;97;109;101].
Definition x_owner : name := [111;119;110;101;114].
Definition x_p : name := [112].
Definition x_pc : name := [112;99].
Definition x_peer : name := [112;101;101;114].
Definition x_ps : name := [112;115].
Definition x_px : name := [112;120].
Definition x_site : name := [115;105;116;101].
Definition x_sites : name := [115;105;116;101;115].
Definition x_t : name := [116].
Definition x_title : name := [116;105;116;108;101].
Definition x_ts : name := [116;115].
Definition x_u : name := [117].

Definition C09xu_schema : schema :=
  [ mkSdef x_p None false [(x_name, false); (x_grp, true)] [x_labels]
      [CUnique x_name false; CSetIdx x_labels; CFkIndex x_grp x_t x_grpd true]
      [(x_ts, x_t, x_ps)];
    mkSdef x_t None false [(x_title, true)] []
      [CFkRestrict x_grpd; CUnique x_title true]
      [(x_ps, x_p, x_ts)];
    mkSdef x_px (Some x_p) true [(x_badge, false); (x_alias, true)] []
      [CUnique x_badge false; CUnique x_alias true]
      [];
    mkSdef x_pc (Some x_p) false [(x_key, false)] []
      [CUnique x_key false]
      [] ].

Definition C09xf_schema : schema :=
  [ mkSdef x_p None false [(x_name, false)] []
      [CUnique x_name false]
      [];
    mkSdef x_t None false [(x_title, true)] []
      [CUnique x_title true; CFkRestrict x_homes; CFkRestrict x_alts; CFkRestrict x_sites]
      [];
    mkSdef x_u None false [(x_label, true)] []
      [CFkCascade x_px x_owner CascNone; CFkCascade x_px x_peer CascNone]
      [];
    mkSdef x_px (Some x_p) true [(x_home, false); (x_alt, true); (x_owner, false); (x_peer, true)] []
      [CFkIndex x_home x_t x_homes false; CFkIndex x_alt x_t x_alts true; CFkCons x_owner x_u false; CFkCons x_peer x_u true]
      [];
    mkSdef x_pc (Some x_p) false [(x_site, false)] []
      [CFkIndex x_site x_t x_sites false]
      [] ].


(* ---------------------------------------------------------------- side conditions, by computation *)
Example C09xu_wf_c09 : wf_c09 C09xu_schema = true.
Proof. vm_compute. reflexivity. Qed.
Example C09xu_wf_all : wf_all_b C09xu_schema = true.
Proof. vm_compute. reflexivity. Qed.
Example C09xu_child_jobs :
  In (JCons x_px (CUnique x_badge false)) (jobs C09xu_schema) /\ In (JCons x_pc (CUnique x_key false)) (jobs C09xu_schema) /\
  wf_job_b C09xu_schema (JCons x_px (CUnique x_badge false)) = wf_cunique_b C09xu_schema x_px x_badge.
Proof. vm_compute. repeat split; auto 20. Qed.

Example C09xf_outside_wf_c09 : wf_c09 C09xf_schema = false /\ wf_all_b C09xf_schema = false.
Proof. vm_compute. split; reflexivity. Qed.

(* ---------------------------------------------------------------- C09xu: a mixed population *)
Definition i_a : id := [97].
Definition i_c : id := [99].
Definition i_e : id := [101].
Definition i_f : id := [102].
Definition i_g : id := [103].
Definition i_h : id := [104].
Definition i_t1 : id := [116;49].
Definition i_t2 : id := [116;50].
Definition i_u1 : id := [117;49].
Definition mk_p (i nm : str) := OCreate x_p i false [(x_name, Some nm); (x_grp, None)] [(x_labels, [])].
Definition mk_px (i nm badge : str) :=
  OCreate x_px i false [(x_name, Some nm); (x_grp, None); (x_badge, Some badge); (x_alias, None)] [(x_labels, [])].
Definition mk_pc (i nm key : str) := OCreate x_pc i false [(x_name, Some nm); (x_grp, None); (x_key, Some key)] [(x_labels, [])].

(* entities without child data (a, e, h) before, between and behind the entities of px (c, g) and pc (f);
   the whole population is written by ONE transaction *)
Definition hist_xu : list tx :=
  [ mkTx false [] [OCreate x_t i_t1 false [(x_title, Some [120])] []] false;
    mkTx false [] [mk_px i_c [110;49] [98;49]; mk_p i_e [110;50]; mk_pc i_f [110;51] [107;49]; mk_px i_g [110;52] [98;50];
                   mk_p i_a [110;53]; mk_p i_h [110;54]] false ].
Definition st_xu : state := run_txs C09xu_schema 8 st_empty hist_xu.

Example st_xu_population :
  ids_of st_xu x_p = [i_a; i_c; i_e; i_f; i_g; i_h] /\
  valid_ids C09xu_schema st_xu x_px = [i_c; i_g] /\ valid_ids C09xu_schema st_xu x_pc = [i_f] /\
  uidx st_xu x_p x_badge = [([98;49], i_c); ([98;50], i_g)].
Proof. vm_compute. repeat split; reflexivity. Qed.

(* the instance of the capstone theorem - and the same by computation *)
Example st_xu_clean_thm : fst (check_all C09xu_schema false st_xu) = [].
Proof. exact (reachable_check_clean C09xu_schema 8 hist_xu C09xu_wf_all). Qed.
Example st_xu_clean : check_all C09xu_schema false st_xu = ([], st_xu).
Proof. vm_compute. reflexivity. Qed.

(* a checker that hands the FIRST id of the parent bucket to the child store's jobs although it has no child data (the
   effect of an ids cursor that forgets its initial "skip entities without extension data" step) is unsound here *)
Example first_parent_only_id_would_be_reported :
  fst (uniq_scan2_step C09xu_schema false x_px x_badge false i_a st_xu) = [mkReport KNil false].
Proof. vm_compute. reflexivity. Qed.

(* the index entry of g dropped, an entry that points at the parent-only entity a added: reported, repaired by one fix run *)
Definition st_xu_bad : state := corrupt_all st_xu [XUDel x_p x_badge [98;50]; XUPut x_p x_badge [122] i_a].
Example st_xu_bad_reports :
  map r_kind (fst (check_all C09xu_schema false st_xu_bad)) = [KUStale; KUMissing] /\
  fst (check_all C09xu_schema false (snd (check_all C09xu_schema true st_xu_bad))) = [] /\
  uidx (snd (check_all C09xu_schema true st_xu_bad)) x_p x_badge = uidx st_xu x_p x_badge.
Proof. vm_compute. repeat split; reflexivity. Qed.
Example st_xu_bad_fix_thm :
  forall x, In x (fst (check_all C09xu_schema false (snd (check_all C09xu_schema true st_xu_bad)))) ->
            unfixable (r_kind x) = true /\ r_fixed x = false.
Proof. exact (proj1 (fix_convergent C09xu_schema st_xu_bad C09xu_wf_c09)). Qed.

(* ---------------------------------------------------------------- C09xf: fk jobs on the child stores (tested, not proved) *)
Definition mk_fp (i nm : str) := OCreate x_p i false [(x_name, Some nm)] [].
Definition mk_fpx (i nm home : str) (alt : option str) (owner : str) :=
  OCreate x_px i false [(x_name, Some nm); (x_home, Some home); (x_alt, alt); (x_owner, Some owner); (x_peer, None)] [].
Definition mk_fpc (i nm site : str) := OCreate x_pc i false [(x_name, Some nm); (x_site, Some site)] [].

Definition hist_xf : list tx :=
  [ mkTx false [] [OCreate x_t i_t1 false [(x_title, Some [120])] []; OCreate x_t i_t2 false [(x_title, None)] [];
                   OCreate x_u i_u1 false [(x_label, None)] []] false;
    mkTx false [] [mk_fp i_a [110;49]; mk_fpx i_c [110;50] i_t1 (Some i_t2) i_u1; mk_fp i_e [110;51];
                   mk_fpc i_f [110;52] i_t2; mk_fpx i_g [110;53] i_t1 None i_u1; mk_fp i_h [110;54]] false ].
Definition st_xf : state := run_txs C09xf_schema 8 st_empty hist_xf.

Example st_xf_population :
  valid_ids C09xf_schema st_xf x_px = [i_c; i_g] /\ valid_ids C09xf_schema st_xf x_pc = [i_f] /\
  get_set C09xf_schema st_xf x_t i_t1 x_homes = [i_c; i_g] /\ get_set C09xf_schema st_xf x_t i_t2 x_alts = [i_c] /\
  get_set C09xf_schema st_xf x_t i_t2 x_sites = [i_f].
Proof. vm_compute. repeat split; reflexivity. Qed.
Example st_xf_clean : check_all C09xf_schema false st_xf = ([], st_xf).
Proof. vm_compute. reflexivity. Qed.
Example st_xf_consistent : Consistent C09xf_schema st_xf.
Proof. apply check_complete. vm_compute. reflexivity. Qed.

(* g's fk field (kept in the child bucket) re-pointed below the API, c's nullable one made dangling *)
Definition st_xf_bad : state := corrupt_all st_xf [XCField x_p i_g x_px x_home i_t2; XCField x_p i_c x_px x_alt [122]].
Example st_xf_bad_reports :
  map r_kind (fst (check_all C09xf_schema false st_xf_bad)) = [KBWrong; KBMissing; KBWrong; KFkDangling] /\
  fst (check_all C09xf_schema false (snd (check_all C09xf_schema true st_xf_bad))) = [] /\
  get_field C09xf_schema (snd (check_all C09xf_schema true st_xf_bad)) x_px i_c x_alt = FAbsent.
Proof. vm_compute. repeat split; reflexivity. Qed.
