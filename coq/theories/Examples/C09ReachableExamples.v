(* Non-vacuity for the capstone (Properties/C09Reachable.v): the three wirings of the store harness pass
   [wf_all_b]; concrete histories (child stores, duplicate rejection, restrict, cascade, veto, failing
   pre-commit) reach non-trivial databases on which the theorem applies - and the check, run by computation,
   indeed reports nothing; schemas refused by [wf_all_b] whose reachable databases are NOT consistent. *)
From Coq Require Import List NArith Bool.
From Storage Require Import Base.Bytes Store.Model Store.NoTrace Store.Integrity Store.IntegrityProofs
  Store.ReachableConsistent Examples.C03Examples Examples.C09Examples Examples.C06Wirings Properties.C09Reachable.
Import ListNotations.
Open Scope N_scope.

(* the wirings (idx: C03Examples.v, fkc / casc: C09Examples.v) are the ones of C06Wirings.v *)
Example wirings_agree :
  C03Examples.idx_schema = C06Wirings.idx_schema /\ C09Examples.fkc_schema = C06Wirings.fkc_schema /\
  C09Examples.casc_schema = C06Wirings.casc_schema.
Proof. repeat split; reflexivity. Qed.

Example idx_schema_wf_all : wf_all_b C03Examples.idx_schema = true.
Proof. vm_compute. reflexivity. Qed.
Example fkc_schema_wf_all : wf_all_b C09Examples.fkc_schema = true.
Proof. vm_compute. reflexivity. Qed.
Example casc_schema_wf_all : wf_all_b C09Examples.casc_schema = true.
Proof. vm_compute. reflexivity. Qed.

(* the jobs the hypothesis quantifies over: e.g. idx has 13 (2 link collections, 11 constraints, among them the
   unique index of the child store mgr) *)
Example idx_jobs_count : length (jobs C03Examples.idx_schema) = 13%nat /\
  In (JCons n_mgr (CUnique n_level true)) (jobs C03Examples.idx_schema) /\
  wf_job_b C03Examples.idx_schema (JCons n_mgr (CUnique n_level true)) = wf_cunique_b C03Examples.idx_schema n_mgr n_level.
Proof. vm_compute. repeat split; auto 20. Qed.

(* ---------------------------------------------------------------- casc: child store, restrict, cascade *)
Definition i_a1 : id := [97;49].
Definition i_a2 : id := [97;50].
Definition i_b1 : id := [98;49].
Definition i_b2 : id := [98;50].
Definition i_c1 : id := [99;49].
Definition i_c2 : id := [99;50].
Definition mk_a (i nm : str) (roles : list str) := OCreate n_a i false [(n_name, Some nm)] [(n_roles, roles)].
Definition mk_bx (i nm a code : str) := OCreate n_bx i false [(n_name, Some nm); (n_a, Some a); (n_code, Some code)] [].
Definition mk_b (i nm a : str) := OCreate n_b i false [(n_name, Some nm); (n_a, Some a)] [].
Definition mk_c (i : str) (nm : option str) (b : str) (a : option str) := OCreate n_c i false [(n_name, nm); (n_b, Some b); (n_a, a)] [].

Definition hist_casc : list tx :=
  [ mkTx false [] [mk_a i_a1 [120] [[114]; [113]]; mk_a i_a2 [121] [[114]]] false;
    mkTx false [] [mk_bx i_b1 [110;49] i_a1 [107;49]; mk_b i_b2 [110;50] i_a2] false;     (* b1 through the extended child store bx *)
    mkTx false [] [mk_c i_c1 (Some [122]) i_b1 (Some i_a1); mk_c i_c2 None i_b2 (Some i_a1)] false;
    mkTx false [] [mk_bx [98;51] [110;51] i_a2 [107;49]] false;                            (* duplicate code through the child store *)
    mkTx false [] [OUpdate n_b i_b1 [(n_code, Some [107;50])] [] (Some [n_code])] false;  (* field-restricted, entered through the parent *)
    mkTx false [] [ODelete n_a i_a1] false;                                                (* restricted: c2 references a1 *)
    mkTx false [] [OUpdate n_c i_c2 [(n_a, None)] [] (Some [n_a])] false;
    mkTx false [] [ODelete n_a i_a1] false;                                                (* cascades a1 -> b1 (+ its bx data) -> c1 *)
    mkTx false [(n_b, Deleted, i_b2)] [ODelete n_b i_b2] false;                            (* vetoed *)
    mkTx false [] [mk_a [97;51] [119] []] true ].                                          (* pre-commit fails *)

Example hist_casc_outcomes :
  map (fun n => match run_tx casc_schema 8 (run_txs casc_schema 8 st_empty (firstn n hist_casc))
                             (nth n hist_casc (mkTx false [] [] false)) with (rs, ok, _, _) => (rs, ok) end) (seq 0 10)
  = [([None; None], true); ([None; None], true); ([None; None], true); ([Some EDuplicate], false); ([None], true);
     ([Some ERefExists], false); ([None], true); ([None], true); ([Some EOther], false); ([None], false)].
Proof. vm_compute. reflexivity. Qed.

(* before the cascade: the child store's index holds the re-indexed code k2 of b1 *)
Example hist_casc_mid :
  let st := run_txs casc_schema 8 st_empty (firstn 7 hist_casc) in
  uidx st n_b n_code = [([107;50], i_b1)] /\ ids_of st n_c = [i_c1; i_c2] /\
  get_set casc_schema st n_a i_a1 n_bs = [i_b1] /\ get_set casc_schema st n_a i_a1 n_cas = [i_c1].
Proof. vm_compute. repeat split; reflexivity. Qed.

(* after it *)
Example hist_casc_final :
  let st := run_txs casc_schema 8 st_empty hist_casc in
  ids_of st n_a = [i_a2] /\ ids_of st n_b = [i_b2] /\ ids_of st n_c = [i_c2] /\ uidx st n_b n_code = [] /\
  sidx st n_a n_roles = [([114], [i_a2])].
Proof. vm_compute. repeat split; reflexivity. Qed.

(* the theorem applies to every prefix of the history (no computation of the state or of the check) ... *)
Example hist_casc_clean_by_theorem : forall n,
  fst (check_all casc_schema false (run_txs casc_schema 8 st_empty (firstn n hist_casc))) = [].
Proof. intros n. apply reachable_check_clean. exact casc_schema_wf_all. Qed.

Example hist_casc_consistent : Consistent casc_schema (run_txs casc_schema 8 st_empty hist_casc).
Proof. apply reachable_consistent. exact casc_schema_wf_all. Qed.

(* ... and running the checker model agrees *)
Example hist_casc_clean_by_computation :
  map (fun n => fst (check_all casc_schema false (run_txs casc_schema 8 st_empty (firstn n hist_casc)))) (seq 0 11)
  = repeat [] 11.
Proof. vm_compute. reflexivity. Qed.

(* ---------------------------------------------------------------- idx / fkc *)
(* idx: the history of C09Examples.v (unique + set indexes, fk indexes, links between emp and dept) *)
Example hist9_clean : fst (check_all C03Examples.idx_schema false st_ok) = [].
Proof. apply reachable_check_clean. exact idx_schema_wf_all. Qed.

(* idx: a manager (child store mgr of emp) and link removal *)
Definition hist_idx : list tx :=
  hist9 ++
  [ mkTx false [] [OCreate n_mgr [109] false [(n_name, Some [119]); (n_nick, None); (n_boss, Some i_a); (n_deptf, Some i_e); (n_level, Some [49])] [(n_roles, [r2])]] false;
    mkTx false [] [ORemoveLinks n_emp i_a n_sites [i_d]] false;
    mkTx false [] [ODelete n_emp i_b] false;
    mkTx false [] [ODelete n_emp i_a] false ].         (* refused: the manager reports to a *)

Example hist_idx_final :
  let st := run_txs C03Examples.idx_schema 8 st_empty hist_idx in
  ids_of st n_emp = [i_a; [109]] /\ uidx st n_emp n_level = [([49], [109])] /\
  get_set C03Examples.idx_schema st n_emp i_a n_reports = [[109]] /\ get_set C03Examples.idx_schema st n_dept i_d n_staff = [] /\
  get_set C03Examples.idx_schema st n_dept i_e n_staff = [i_a].
Proof. vm_compute. repeat split; reflexivity. Qed.

Example hist_idx_clean : fst (check_all C03Examples.idx_schema false (run_txs C03Examples.idx_schema 8 st_empty hist_idx)) = [].
Proof. apply reachable_check_clean. exact idx_schema_wf_all. Qed.
Example hist_idx_clean_by_computation :
  fst (check_all C03Examples.idx_schema false (run_txs C03Examples.idx_schema 8 st_empty hist_idx)) = [].
Proof. vm_compute. reflexivity. Qed.

(* fkc: fk constraints with CascadeNone / CascadeDelete guards *)
Definition hist_fkc : list tx :=
  [ mkTx false [] [OCreate n_dept i_d false [(n_title, Some v_t)] []; OCreate n_room [114] false [(n_label, Some v_x)] []] false;
    mkTx false [] [OCreate n_emp i_a false [(n_name, Some v_x); (n_boss, None); (n_deptf, Some i_d); (n_room, Some [114])] []] false;
    mkTx false [] [OCreate n_emp i_b false [(n_name, Some v_y); (n_boss, Some i_a); (n_deptf, Some i_d); (n_room, None)] []] false;
    mkTx false [] [OCreate n_emp i_e false [(n_name, Some v_u); (n_boss, None); (n_deptf, None); (n_room, None)] []] false;  (* empty non-nullable fk *)
    mkTx false [] [ODelete n_room [114]] false;                                            (* CascadeNone: refused *)
    mkTx false [] [ODelete n_emp i_a] false;                                               (* b reports to a: refused *)
    mkTx false [] [OUpdate n_emp i_b [(n_boss, None)] [] (Some [n_boss])] false ].

Example hist_fkc_outcomes :
  map (fun n => match run_tx fkc_schema 8 (run_txs fkc_schema 8 st_empty (firstn n hist_fkc))
                             (nth n hist_fkc (mkTx false [] [] false)) with (rs, ok, _, _) => (rs, ok) end) (seq 0 7)
  = [([None; None], true); ([None], true); ([None], true); ([Some EOther], false); ([Some ERefExists], false);
     ([Some ERefExists], false); ([None], true)].
Proof. vm_compute. reflexivity. Qed.

Example hist_fkc_clean : fst (check_all fkc_schema false (run_txs fkc_schema 8 st_empty hist_fkc)) = [].
Proof. apply reachable_check_clean. exact fkc_schema_wf_all. Qed.
Example hist_fkc_clean_by_computation : fst (check_all fkc_schema false (run_txs fkc_schema 8 st_empty hist_fkc)) = [].
Proof. vm_compute. reflexivity. Qed.

(* ---------------------------------------------------------------- the hypothesis is needed *)
(* an fk constraint whose target store carries no guard (no CFkCascade): passes wf_c09 (the check of the FIX
   theorem) but not wf_all_b - and deleting the target leaves a dangling reference the check reports *)
Definition unguarded_schema : schema :=
  [ mkSdef n_a None false [] [] [] [];
    mkSdef n_b None false [(n_a, false)] [] [CFkCons n_a n_a false] [] ].
Definition unguarded_hist : list tx :=
  [ mkTx false [] [OCreate n_a [120] false [] []; OCreate n_b [121] false [(n_a, Some [120])] []] false;
    mkTx false [] [ODelete n_a [120]] false ].

Example unguarded_refused : wf_all_b unguarded_schema = false /\ wf_c09 unguarded_schema = true.
Proof. vm_compute. split; reflexivity. Qed.
Example unguarded_reachable_inconsistent_refuted :
  fst (check_all unguarded_schema false (run_txs unguarded_schema 4 st_empty unguarded_hist)) = [mkReport KFkDangling false].
Proof. vm_compute. reflexivity. Qed.

(* a set-indexed field that is also the local field of a link collection: AddLinks writes the set behind the
   index's back *)
Definition setlink_schema : schema :=
  [ mkSdef n_a None false [] [n_roles] [CSetIdx n_roles] [(n_roles, n_b, n_cs)];
    mkSdef n_b None false [] [] [] [(n_cs, n_a, n_roles)] ].
Definition setlink_hist : list tx :=
  [ mkTx false [] [OCreate n_a [120] false [] [(n_roles, [])]; OCreate n_b [121] false [] []] false;
    mkTx false [] [OAddLinks n_a [120] n_roles [[121]]] false ].

Example setlink_refused : wf_all_b setlink_schema = false.
Proof. vm_compute. reflexivity. Qed.
Example setlink_reachable_inconsistent_refuted :
  fst (check_all setlink_schema false (run_txs setlink_schema 4 st_empty setlink_hist)) = [mkReport KSMissing false].
Proof. vm_compute. reflexivity. Qed.
